/* probe: in-place realloc model, pointer pinned by loop_entry */
#include "verif_common.h"
#include <stdlib.h>
#include <string.h>
#define CAPMAX 4096
void *my_realloc(void *p, size_t n)
__CPROVER_requires(__CPROVER_r_ok(p, 1) && __CPROVER_POINTER_OFFSET(p) == 0 && n <= sizeof(int) * CAPMAX)
__CPROVER_assigns()
__CPROVER_ensures(__CPROVER_return_value == p);

void *my_alloc(size_t n)
__CPROVER_requires(1)
__CPROVER_assigns()
__CPROVER_ensures(__CPROVER_is_fresh(__CPROVER_return_value, sizeof(int) * CAPMAX));

int *f(const char *s, unsigned len, unsigned *out)
__CPROVER_requires(len <= 1000 && __CPROVER_is_fresh(s, len + 1) && s[len] == 0 && __CPROVER_is_fresh(out, sizeof(*out)))
__CPROVER_assigns(*out)
__CPROVER_ensures(__CPROVER_r_ok(__CPROVER_return_value, sizeof(int) * (*out)))
{
    unsigned i = 0; unsigned cap = 4, cnt = 0;
    int *arr = my_alloc(sizeof(int) * cap);
    while (s[i] != 0)
    __CPROVER_assigns(i, cap, cnt, arr, __CPROVER_object_whole(arr))
    __CPROVER_loop_invariant(i <= len && cnt <= i && cnt < cap && cap <= 2 * cnt + 4)
    __CPROVER_loop_invariant(arr == __CPROVER_loop_entry(arr))
    __CPROVER_decreases(len - i)
    {
        if (cnt >= cap - 1) { cap *= 2; arr = my_realloc(arr, sizeof(int) * cap); }
        arr[cnt++] = s[i];
        i++;
    }
    arr[cnt++] = 0;
    *out = cnt;
    return arr;
}

void h_p(void)
{
    const char *s; unsigned len; unsigned *out;
    int *r = f(s, len, out);
    VERIF_COVER(r != 0);
}
