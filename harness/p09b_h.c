/* probe: growing array realloc'd inside loop; is_fresh in loop invariant? */
#include "verif_common.h"
#include <stdlib.h>
#include <string.h>
#if P_INV == 1
#define INV_ARR __CPROVER_is_fresh(arr, sizeof(int) * cap)
#else
#define INV_ARR __CPROVER_w_ok(arr, sizeof(int) * cap)
#endif

void *my_realloc(void *p, size_t n)
__CPROVER_requires(1)
__CPROVER_assigns()
__CPROVER_ensures(__CPROVER_is_fresh(__CPROVER_return_value, n));

void *my_alloc(size_t n)
__CPROVER_requires(1)
__CPROVER_assigns()
__CPROVER_ensures(__CPROVER_is_fresh(__CPROVER_return_value, n));

int *f(const char *s, unsigned len, unsigned *out)
__CPROVER_requires(len <= 1000 && __CPROVER_is_fresh(s, len + 1) && s[len] == 0 && __CPROVER_is_fresh(out, sizeof(*out)))
__CPROVER_assigns(*out)
__CPROVER_ensures(__CPROVER_is_fresh(__CPROVER_return_value, sizeof(int) * (*out)))
{
    unsigned i = 0; unsigned cap = 4, cnt = 0;
    int *arr = my_alloc(sizeof(int) * cap);
    while (s[i] != 0)
    __CPROVER_assigns(i, cap, cnt, arr, __CPROVER_object_whole(arr))
    __CPROVER_loop_invariant(i <= len && cnt <= i && cnt < cap && cap <= 4096)
    __CPROVER_loop_invariant(INV_ARR)
    __CPROVER_decreases(len - i)
    {
        if (cnt >= cap - 1) { cap *= 2; arr = my_realloc(arr, sizeof(int) * cap); }
        arr[cnt++] = s[i];
        i++;
    }
    arr[cnt++] = 0;
    *out = cnt;
    return arr;
}

void h_p(void)
{
    const char *s; unsigned len; unsigned *out;
    int *r = f(s, len, out);
    VERIF_COVER(r != 0);
}
