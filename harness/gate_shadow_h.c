/* C06.loop : the real run_shadow_tests of src/eval.c (annotated scratch copy: loop-contract clauses + the ghost
 * statements around the ONE evaluation of a shadow body) under the contract below.  eval_statement (the
 * interpreter), contains_extern_calls (recursive classifier) and shadow_write_json_file (report writer) are
 * contract-replaced; realloc is the in-place pool model of gate_contracts.h. */
#define GATE_SHADOW 1
#include "gate_contracts.h"
struct verif_gate __verif_gate;
int __verif_vm_r; uint8_t __verif_top_tag; int64_t __verif_top_i64;
char __verif_pool[VERIF_POOL_BYTES];

#include "src/eval.c"     /* registry: include_repo [".", "src"] so that the annotated copy is found first */

/* the interpreter: may do anything to the per-test failure bookkeeping (the counter is bumped by AST_ASSERT) */
static Value eval_statement(ASTNode *stmt, Environment *env)
__CPROVER_requires(1)
__CPROVER_assigns(g_shadow_current_fail_count, g_shadow_current_first_line, g_shadow_current_first_column)
__CPROVER_ensures(1);
static bool contains_extern_calls(ASTNode *node, Environment *env)
__CPROVER_requires(1) __CPROVER_assigns() __CPROVER_ensures(1);
static void shadow_write_json_file(const char *path, const ShadowFailure *fails, int fail_len, bool success)
__CPROVER_requires(1) __CPROVER_assigns() __CPROVER_ensures(1);

bool run_shadow_tests(ASTNode *program, Environment *env, bool verbose)
__CPROVER_requires(program == NULL || __CPROVER_is_fresh(program, sizeof(ASTNode)))
__CPROVER_requires(SH_INIT)
__CPROVER_assigns(G, g_in_shadow_tests, g_shadow_current_test, g_shadow_current_fail_count, g_shadow_current_first_line,
                  g_shadow_current_first_column, __CPROVER_object_whole(__verif_pool))
/* the result is exactly "no evaluated shadow body left the failure counter > 0" */
__CPROVER_ensures(PROGRAM_OK(program) ==> (__CPROVER_return_value == !G.sh_any_failed))
__CPROVER_ensures(!PROGRAM_OK(program) ==> (__CPROVER_return_value == false && G.sh_bodies == 0))
/* the counter is zero when a body starts; a test classified as using extern functions is not evaluated */
__CPROVER_ensures(!G.sh_reset_violated && !G.sh_skipped_evaluated);

void h_run_shadow_tests(void)
{
    ASTNode *program; Environment *env; bool verbose;
    bool r = run_shadow_tests(program, env, verbose);
    VERIF_COVER(r && G.sh_bodies > 0);
    VERIF_COVER(!r && G.sh_any_failed);
    VERIF_COVER(!r && G.sh_bodies == 0);
}
