/* C12.crc.* : algebraic lemmas on the REAL crc table (built by the real
 * crc32_init) and the REAL loop-body statement (gen/crc_step.h, extracted
 * mechanically), plus the loop-coverage contract of the real nvm_crc32 loop. */
#include "verif_common.h"
#include "nanoisa/nvm_format.h"
struct verif_ghost __verif_g;
uint32_t __verif_gi;           /* ghost byte index for the coverage lemma */

static uint32_t crc32_table[256];
static bool crc32_initialized;

uint32_t nvm_crc32(const uint8_t *data, uint32_t size)
__CPROVER_requires(size == 0 || __CPROVER_is_fresh(data, size))
__CPROVER_requires(__verif_g.seen == 0 && __verif_g.last == 0)
__CPROVER_assigns(crc32_initialized, __CPROVER_object_whole(crc32_table), __verif_g)
/* every byte index below size is visited exactly once, in ascending order, none beyond */
__CPROVER_ensures(__verif_g.seen == (__verif_gi < size ? 1u : 0u))
__CPROVER_ensures(__verif_g.last == size)
__CPROVER_ensures(crc32_initialized);

#include "nanoisa/nvm_format.c"
#include "crc_step.h"

/* the table entry by definition: reflected bit-serial division, one byte */
static uint32_t spec_shift8(uint32_t c)
{
    for (int j = 0; j < 8; j++) c = (c & 1u) ? ((c >> 1) ^ crc32_table[128]) : (c >> 1);
    return c;
}

void h_cover(void)
{
    const uint8_t *data; uint32_t size;
    nvm_crc32(data, size);
    VERIF_COVER(size > 3 && __verif_gi == 2);
}

/* L0: T[0] == 0 (so the zero state is a fixed point on zero bytes); init idempotent */
void h_L0(void)
{
    crc32_init();
    __CPROVER_assert(crc32_table[0] == 0, "C12.crc.L0 T[0]==0");
    __CPROVER_assert(verif_crc_step(0, 0) == 0, "C12.crc.L0 step(0,0)==0");
    uint8_t k = nondet_u8(); uint32_t before = crc32_table[k];
    crc32_init();
    __CPROVER_assert(crc32_table[k] == before, "C12.crc.L0 second init leaves the table unchanged");
    /* table is the 8-fold shift register of its own generator row: T[k] = shift8(k) */
    __CPROVER_assert(crc32_table[k] == spec_shift8(k), "C12.crc.L0 T[k] == shift8(k) with generator T[128]");
    __CPROVER_assert((crc32_table[128] & 0x80000000u) != 0, "C12.crc.L0 generator has degree 32 (x^0 term present in reflected form)");
    VERIF_COVER(k == 255);
}

/* L1: step is GF(2)-linear in (state, byte) */
void h_L1(void)
{
    crc32_init();
    uint32_t c1 = nondet_u32(), c2 = nondet_u32(); uint8_t b1 = nondet_u8(), b2 = nondet_u8();
    __CPROVER_assert(verif_crc_step(c1 ^ c2, b1 ^ b2) == (verif_crc_step(c1, b1) ^ verif_crc_step(c2, b2)),
                     "C12.crc.L1 step(c1^c2,b1^b2) == step(c1,b1)^step(c2,b2)");
    VERIF_COVER(c1 != c2 && b1 != b2);
}

/* L2: a non-zero difference state stays non-zero over a zero byte */
void h_L2(void)
{
    crc32_init();
    uint32_t d = nondet_u32();
    __CPROVER_assume(d != 0);
    __CPROVER_assert(verif_crc_step(d, 0) != 0, "C12.crc.L2 d!=0 => step(d,0)!=0");
    VERIF_COVER(d == 1);
}

/* L3: any non-zero error pattern confined to 32 consecutive bits (transmission
 * order: bytes ascending, LSB first), starting at bit p<8 of a 5-byte window,
 * drives the zero difference state to a non-zero state */
void h_L3(void)
{
    crc32_init();
    uint32_t w = nondet_u32(); uint8_t p = nondet_u8();
    __CPROVER_assume(w != 0 && p < 8);
    uint64_t e = ((uint64_t)w) << p;
    uint32_t s = 0;
    s = verif_crc_step(s, (uint8_t)(e));
    s = verif_crc_step(s, (uint8_t)(e >> 8));
    s = verif_crc_step(s, (uint8_t)(e >> 16));
    s = verif_crc_step(s, (uint8_t)(e >> 24));
    s = verif_crc_step(s, (uint8_t)(e >> 32));
    __CPROVER_assert(s != 0, "C12.crc.L3 burst<=32 bits drives state 0 to non-zero");
    VERIF_COVER(p == 7 && (w >> 31));
}
