/* C10.rt / C10.idem / C19.ser : bounded round trip of the REAL nvm_serialize -> nvm_deserialize
 * (nvm_format.c included verbatim, nothing replaced) on a module of bounded shape:
 * <= 1 string of <= 2 bytes, <= 3 code bytes, <= 1 function, <= 1 debug entry, <= 1 import with <= 1 parameter.
 * Bounded stand-in (label B(shape)); the unbounded statement is not decided. */
#include "verif_common.h"
#include <stdlib.h>
#include <string.h>
#include "nanoisa/nvm_format.c"

struct verif_ghost __verif_g;

static NvmModule *mk_module(void)
{
    NvmModule *m = malloc(sizeof(NvmModule)); __CPROVER_assume(m != NULL);
    __CPROVER_assume(m->string_count <= 2 && m->code_size <= 3 && m->function_count <= 1 && m->debug_count <= 1 && m->import_count <= 1);
#ifdef VERIF_RT_ONLY      /* case split over the single section kind present (1 code, 2 strings, 3 functions, 9 debug, 8 imports) */
    if (VERIF_RT_ONLY != 2) m->string_count = 0;
    if (VERIF_RT_ONLY != 1) m->code_size = 0;
    if (VERIF_RT_ONLY != 3) m->function_count = 0;
    if (VERIF_RT_ONLY != 9) m->debug_count = 0;
    if (VERIF_RT_ONLY != 8) m->import_count = 0;
#else
    __CPROVER_assume(m->string_count <= 1);
#endif
    m->strings = malloc(2 * sizeof(char *)); m->string_lengths = malloc(2 * sizeof(uint32_t));
    __CPROVER_assume(m->strings && m->string_lengths);
    m->strings[0] = malloc(3); m->strings[1] = malloc(3); __CPROVER_assume(m->strings[0] && m->strings[1]);
    __CPROVER_assume(m->string_lengths[0] <= 2 && m->string_lengths[1] <= 2);
    m->strings[0][m->string_lengths[0]] = 0; m->strings[1][m->string_lengths[1]] = 0;
    /* the string pool never holds duplicates (every producer goes through the de-duplicating nvm_add_string) */
    __CPROVER_assume(m->string_count < 2 || m->string_lengths[0] != m->string_lengths[1] ||
                     (m->string_lengths[0] >= 1 && m->strings[0][0] != m->strings[1][0]) ||
                     (m->string_lengths[0] == 2 && m->strings[0][1] != m->strings[1][1]));
    m->code = malloc(3); __CPROVER_assume(m->code);
    m->functions = malloc(sizeof(NvmFunctionEntry)); __CPROVER_assume(m->functions);
    m->debug_entries = malloc(sizeof(NvmDebugEntry)); __CPROVER_assume(m->debug_entries);
    m->imports = malloc(sizeof(NvmImportEntry)); m->import_param_types = malloc(sizeof(uint8_t *));
    __CPROVER_assume(m->imports && m->import_param_types);
    __CPROVER_assume(m->imports[0].param_count <= 1);
    m->import_param_types[0] = malloc(1); __CPROVER_assume(m->import_param_types[0]);
    if (m->imports[0].param_count == 0) m->import_param_types[0] = NULL;
    return m;
}

void h_rt(void)
{
    NvmModule *m = mk_module();
    uint32_t size = 0;
    uint8_t *buf = nvm_serialize(m, &size);
    __CPROVER_assume(buf != NULL);
    NvmModule *r = nvm_deserialize(buf, size);
#ifdef VERIF_RT_ASSUME_ACCEPT
    /* C10.rt.fields: acceptance (the checksum recomputed by the loader equals the stored one: two CRC chains over
       ~110 symbolic bytes, > 15 min on SAT) is the separate obligation C10.rt; here it is assumed and only the
       field-by-field equality of an ACCEPTED reload is checked */
    __CPROVER_assume(r != NULL);
#else
    __CPROVER_assert(r != NULL, "C10.rt the loader accepts what the serializer produced");
#endif
    if (r != NULL) {
        __CPROVER_assert(r->header.flags == m->header.flags && r->header.entry_point == m->header.entry_point, "C10.rt flags and entry point");
        __CPROVER_assert(r->code_size == m->code_size, "C10.rt code size");
        for (uint32_t i = 0; i < 3; i++) if (i < m->code_size) __CPROVER_assert(r->code[i] == m->code[i], "C10.rt code bytes");
        __CPROVER_assert(r->string_count == m->string_count, "C10.rt string count");
        for (uint32_t k = 0; k < 2; k++) if (k < m->string_count && k < r->string_count) {
            __CPROVER_assert(r->string_lengths[k] == m->string_lengths[k], "C10.rt string length");
            for (uint32_t i = 0; i < 2; i++) if (i < m->string_lengths[k]) __CPROVER_assert(r->strings[k][i] == m->strings[k][i], "C10.rt string bytes");
        }
        __CPROVER_assert(r->function_count == m->function_count, "C10.rt function count");
        if (m->function_count == 1) {
            __CPROVER_assert(r->functions[0].name_idx == m->functions[0].name_idx && r->functions[0].arity == m->functions[0].arity &&
                             r->functions[0].code_offset == m->functions[0].code_offset && r->functions[0].code_length == m->functions[0].code_length &&
                             r->functions[0].local_count == m->functions[0].local_count && r->functions[0].upvalue_count == m->functions[0].upvalue_count,
                             "C10.rt function entry fields");
        }
        __CPROVER_assert(r->debug_count == m->debug_count, "C10.rt debug count");
        if (m->debug_count == 1)
            __CPROVER_assert(r->debug_entries[0].bytecode_offset == m->debug_entries[0].bytecode_offset &&
                             r->debug_entries[0].source_line == m->debug_entries[0].source_line, "C10.rt debug entry");
        __CPROVER_assert(r->import_count == m->import_count, "C10.rt import count");
        if (m->import_count == 1) {
            __CPROVER_assert(r->imports[0].module_name_idx == m->imports[0].module_name_idx && r->imports[0].function_name_idx == m->imports[0].function_name_idx &&
                             r->imports[0].param_count == m->imports[0].param_count && r->imports[0].return_type == m->imports[0].return_type, "C10.rt import entry");
            if (m->imports[0].param_count == 1) __CPROVER_assert(r->import_param_types[0][0] == m->import_param_types[0][0], "C10.rt import param type");
        }
    }
#ifdef VERIF_RT_ONLY
    VERIF_COVER(r != NULL && (m->string_count == 2 || m->function_count == 1 || m->import_count == 1 || m->code_size == 3 || m->debug_count == 1));
#else
    VERIF_COVER(r != NULL && m->string_count == 1 && m->function_count == 1 && m->import_count == 1 && m->code_size == 3);
#endif
}

/* C10.idem: serialising the reloaded module again gives identical bytes */
void h_idem(void)
{
    NvmModule *m = mk_module();
    uint32_t size = 0, size2 = 0;
    uint8_t *buf = nvm_serialize(m, &size);
    __CPROVER_assume(buf != NULL);
    NvmModule *r = nvm_deserialize(buf, size);
    __CPROVER_assume(r != NULL);
    uint8_t *buf2 = nvm_serialize(r, &size2);
    __CPROVER_assume(buf2 != NULL);
    __CPROVER_assert(size2 == size, "C10.idem same length");
    uint32_t k = nondet_u32();
    __CPROVER_assume(k < size && k < size2);
    __CPROVER_assert(buf2[k] == buf[k], "C10.idem same bytes (arbitrary index)");
    VERIF_COVER(size > 100);
}
