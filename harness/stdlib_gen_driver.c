/* NATIVE helper (cc, not goto-cc) of the extract rule `fmt_sb` (obligations/c20_fmt.py).  Includes the REAL src/stdlib_runtime.c
 * verbatim and calls its generate_string_operations() once with an sb_append that writes the text to argv[1]: that text IS the
 * runtime the transpiler puts into every generated program. */
#include <stdio.h>
static FILE *verif_out;
#include "stdlib_runtime.c"
void sb_append(StringBuilder *sb, const char *str) { (void)sb; fputs(str, verif_out); }
int main(int argc, char **argv)
{
    if (argc < 2) return 2;
    verif_out = fopen(argv[1], "w");
    if (!verif_out) return 2;
    StringBuilder dummy; memset(&dummy, 0, sizeof dummy);
    generate_string_operations(&dummy);
    fclose(verif_out);
    return 0;
}
