/* C14.destroy.<view>: vm_destroy releases every global and every stack slot exactly once.
 * The REAL src/nanovm/vm.c is included verbatim (scratch copy: two loop contracts + ghost statements from
 * contracts/loops/vm.c.destroy.<view>.loops); vm_destroy is enforced against the contract below; the vm_release calls in
 * its two loops are replaced by the CHILD VIEW of vm_release's contract (contracts/heap_contracts.h, proved for the
 * call under proof by C14.heap.release.*): the value at the ghost index __verif_hk of the array of interest
 * (-DDESTROY_VIEW=1: globals, 2: stack) is the materialised one (level flag 1), every other value is a level-0 call.
 * vm_heap_destroy is replaced by an assumed contract (it frees the interned strings whatever their count - intern policy,
 * not covered - and the table). */
#define HEAP_VIEW_CHILD 1
#include "heap_contracts.h"
#include "libc_stubs.h"
#include "nanovm/vm.h"
#include <stdlib.h>
#include <string.h>

#ifndef DESTROY_VIEW
#define DESTROY_VIEW 1
#endif
#if DESTROY_VIEW == 1
#define D_KID(vm) ((vm)->globals[__verif_hk])
#define D_HAS_KID(vm) (__verif_hk < (vm)->global_count)
#else
#define D_KID(vm) ((vm)->stack[__verif_hk])
#define D_HAS_KID(vm) (__verif_hk < (vm)->stack_size)
#endif
#define D_KID_RC(vm) (D_HAS_KID(vm) && IS_RC(D_KID(vm)))
#define D_STACK_MAX (1u << 20)
#define D_SHAPE(vm) ((vm)->global_count <= VM_MAX_GLOBALS && (vm)->stack_capacity >= 1 && (vm)->stack_capacity <= D_STACK_MAX && \
                     (vm)->stack_size <= (vm)->stack_capacity && (vm)->linked_modules == NULL && HEAP_OK(&(vm)->heap))

/* loop invariants: the count of releases delivered to the value of interest so far, and that value untouched before its turn */
#define D_KID_SAME(vm) (D_KID(vm).tag == __verif_dk_tag && D_KID(vm).as.obj == __verif_dk_obj)
#define D_WAIT(vm) (!__verif_hkidrc || (D_KID_SAME(vm) && HEAP_KID_UNTOUCHED(D_KID(vm))))
#if DESTROY_VIEW == 1
#define D_INV1(vm, i) (__verif_h.kid_calls == __CPROVER_loop_entry(__verif_h.kid_calls) + ((__verif_hk < (i) && __verif_hkidrc) ? 1u : 0u) && \
                       (__verif_hk < (i) || D_WAIT(vm)))
#define D_INV2(vm, i) (__verif_h.kid_calls == __CPROVER_loop_entry(__verif_h.kid_calls))
#else
#define D_INV1(vm, i) (__verif_h.kid_calls == __CPROVER_loop_entry(__verif_h.kid_calls) && D_WAIT(vm))
#define D_INV2(vm, i) (__verif_h.kid_calls == __CPROVER_loop_entry(__verif_h.kid_calls) + ((__verif_hk < (i) && __verif_hkidrc) ? 1u : 0u) && \
                       (__verif_hk < (i) || D_WAIT(vm)))
#endif
extern uint8_t __verif_dk_tag; extern void *__verif_dk_obj;    /* bound by a requires clause: the value of interest on entry */

void vm_heap_destroy(VmHeap *heap)
__CPROVER_requires(HEAP_OK(heap) && __CPROVER_rw_ok(heap->intern_table, (size_t)heap->intern_capacity * sizeof(VmString *)))
__CPROVER_assigns(heap->intern_table, heap->intern_count)
__CPROVER_frees(heap->intern_table)
__CPROVER_ensures(heap->intern_table == NULL && heap->intern_count == 0);

void vm_destroy(VmState *vm)
__CPROVER_requires(VERIF_FRESH(vm, sizeof(VmState)) && D_SHAPE(vm))
__CPROVER_requires(VERIF_FRESH(vm->stack, (size_t)vm->stack_capacity * sizeof(NanoValue)))
__CPROVER_requires(VERIF_FRESH(vm->heap.intern_table, (size_t)vm->heap.intern_capacity * sizeof(VmString *)))
__CPROVER_requires(D_HAS_KID(vm) ==> D_KID(vm).tag != TAG_HASHMAP)
__CPROVER_requires(!D_KID_RC(vm) || (VERIF_FRESH(D_KID(vm).as.obj, sizeof(VmHeapHeader)) && HDR(D_KID(vm))->obj_type == D_KID(vm).tag &&
                                     HDR(D_KID(vm))->ref_count == __verif_krc0))
__CPROVER_requires(__verif_hkidrc == (D_KID_RC(vm) ? 1 : 0))
__CPROVER_requires(D_HAS_KID(vm) ==> D_KID_SAME(vm))
__CPROVER_assigns(__verif_h, HEAP_DESC(&vm->heap), __CPROVER_object_whole(vm->heap.intern_table); D_KID_RC(vm): HDR(D_KID(vm))->ref_count)
__CPROVER_frees(vm->stack, vm->heap.intern_table)
/* the value at the (arbitrary) ghost index of the array of interest got exactly one release */
__CPROVER_ensures(__verif_h.kid_calls == __CPROVER_old(__verif_h.kid_calls) + (__verif_hkidrc ? 1u : 0u))
__CPROVER_ensures(__CPROVER_was_freed(__CPROVER_old(vm->stack)));

/* ===================== the real code, verbatim ===================== */
#include "nanovm/vm.c"
/* =================================================================== */

struct verif_heap_ghost __verif_h;

void h_destroy(void)
{
    VmState *vm;
    unsigned kc0 = __verif_h.kid_calls;
    vm_destroy(vm);
    VERIF_COVER(__verif_h.kid_calls == kc0 + 1 && __verif_hk > 2);
    VERIF_COVER(__verif_h.kid_calls == kc0 && __verif_hkidrc == 0);
}
