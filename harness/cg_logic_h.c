/* C02.cg.shortcircuit.<and|or> : the bytecode generator's compile_expr (src/nanovirt/codegen.c, included verbatim; plain CBMC)
 * on the node (and L R) / (or L R) with L a bool literal of arbitrary value and R an int literal with a marker value (so that
 * R's code is recognisable in the emitted bytes: PUSH_I64 marker).  Spec, from the language's and/or (the interpreter is
 * proved to short-circuit under C03.logic.*, the C `&&` / `||` emitted natively do): the code of R is conditionally SKIPPED:
 * between the end of L's code and the start of R's code there is a conditional jump (JMP_FALSE for `and`, JMP_TRUE for `or`)
 * whose target lies at or beyond the end of R's code.  An unconditional evaluation of both operands followed by OP_AND / OP_OR
 * runs R's side effects when the native program and the interpreter do not. */
#include "verif_common.h"
#include "libc_stubs.h"
#include <stdlib.h>
#include <string.h>
#include "nanoisa/isa.h"
static const InstructionInfo instruction_table[256];
#include "spec_isa.h"
#include "nanoisa/isa.c"
#include "nanovirt/codegen.c"

struct verif_ghost __verif_g;
#ifndef VERIF_LOGIC_OP
#define VERIF_LOGIC_OP TOKEN_AND
#endif
#define MARK ((int64_t)0x1122334455667788LL)

void h_shortcircuit(void)
{
    CG *cg = malloc(sizeof(CG)); __CPROVER_assume(cg != NULL);
    cg->had_error = false;
    cg->code_cap = 256; cg->code_size = 7;   /* concrete fill level: the emitted layout is then concrete for the decoder walk */
    cg->code = malloc(cg->code_cap); __CPROVER_assume(cg->code != NULL);
    /* built with initialisers (not member-wise assignments): symbolic execution then keeps node types and the args pointers
       constant and only walks the arms of compile_expr that these nodes reach */
    _Bool lval = nondet_bool();
    ASTNode L = { .type = AST_BOOL, .as.bool_val = lval }, R = { .type = AST_NUMBER, .as.number = MARK };
    ASTNode *args[2] = { &L, &R };
    ASTNode N = { .type = AST_PREFIX_OP, .as.prefix_op = { .op = VERIF_LOGIC_OP, .args = args, .arg_count = 2 } };
    uint32_t off0 = cg->code_size;
    compile_expr(cg, &N);
    __CPROVER_assert(!cg->had_error, "C02.cg no code generation error for (and/or L R)");
    uint32_t end = cg->code_size;
    __CPROVER_assert(end > off0 && end <= cg->code_cap, "C02.cg code was emitted");
    /* walk the emitted instructions with the real decoder */
    uint32_t pos = off0; _Bool seen_r = 0, guarded = 0; uint32_t r_start = 0, r_end = 0;
    uint32_t jmp_at[8]; int32_t jmp_rel[8]; uint8_t jmp_op[8]; int nj = 0;
    for (int k = 0; k < 12; k++) {
        if (pos >= end) break;
        DecodedInstruction di;
        uint32_t n = isa_decode(cg->code + pos, end - pos, &di);
        __CPROVER_assert(n > 0, "C02.cg emitted bytes decode");
        if (n == 0) break;
        if (!seen_r && di.opcode == OP_PUSH_I64 && di.operands[0].i64 == MARK) { seen_r = 1; r_start = pos; r_end = pos + n; }
        if (!seen_r && (di.opcode == OP_JMP_FALSE || di.opcode == OP_JMP_TRUE) && nj < 8) { jmp_at[nj] = pos; jmp_rel[nj] = di.operands[0].i32; jmp_op[nj] = di.opcode; nj++; }
        pos += n;
    }
    __CPROVER_assert(pos == end, "C02.cg the emitted region is a whole number of instructions (<= 12)");
    __CPROVER_assert(seen_r, "C02.cg the right operand's code is present");
    for (int j = 0; j < 8; j++)
        if (j < nj && jmp_at[j] >= off0 + 2 && jmp_op[j] == (VERIF_LOGIC_OP == TOKEN_AND ? OP_JMP_FALSE : OP_JMP_TRUE) &&
            (int64_t)jmp_at[j] + jmp_rel[j] >= (int64_t)r_end) guarded = 1;
    __CPROVER_assert(guarded, "C02.cg.shortcircuit the right operand is skipped by a conditional jump on the left operand's value");
    VERIF_COVER(L.as.bool_val);
}

/* C02.cg.order.<op> : for every strict binary operator the code of the LEFT operand comes first, then the RIGHT operand's, then
 * exactly the opcode of that operator (operands are marker literals, so their code is recognisable): evaluation order is left to
 * right on the VM as in the interpreter (C03.order.*) and in the emitted C, and `a > b` is not compiled as `b < a`. */
#ifdef VERIF_BIN_TOKEN
#define MARK_L ((int64_t)0x0102030405060708LL)
void h_order(void)
{
    CG *cg = malloc(sizeof(CG)); __CPROVER_assume(cg != NULL);
    cg->had_error = false;
    cg->code_cap = 256; cg->code_size = 7;
    cg->code = malloc(cg->code_cap); __CPROVER_assume(cg->code != NULL);
    ASTNode L = { .type = AST_NUMBER, .as.number = MARK_L }, R = { .type = AST_NUMBER, .as.number = MARK };
    ASTNode *args[2] = { &L, &R };
    ASTNode N = { .type = AST_PREFIX_OP, .as.prefix_op = { .op = VERIF_BIN_TOKEN, .args = args, .arg_count = 2 } };
    uint32_t off0 = cg->code_size;
    compile_expr(cg, &N);
    __CPROVER_assert(!cg->had_error, "C02.cg.order no code generation error");
    uint32_t end = cg->code_size;
    __CPROVER_assert(end == off0 + 9 + 9 + 1, "C02.cg.order exactly PUSH_I64 left, PUSH_I64 right, operator");
    DecodedInstruction a, b, c;
    uint32_t n1 = isa_decode(cg->code + off0, end - off0, &a);
    uint32_t n2 = isa_decode(cg->code + off0 + 9, end - off0 - 9, &b);
    uint32_t n3 = isa_decode(cg->code + off0 + 18, end - off0 - 18, &c);
    __CPROVER_assert(n1 == 9 && a.opcode == OP_PUSH_I64 && a.operands[0].i64 == MARK_L, "C02.cg.order the LEFT operand is evaluated first");
    __CPROVER_assert(n2 == 9 && b.opcode == OP_PUSH_I64 && b.operands[0].i64 == MARK, "C02.cg.order the RIGHT operand is evaluated second");
    __CPROVER_assert(n3 == 1 && c.opcode == VERIF_BIN_OPCODE, "C02.cg.order the operator's own opcode follows (no operand swap with a mirrored operator)");
    VERIF_COVER(end == 26);
}
#endif
