/* C20.dyn.* / C08.nat.dyn.* harness: the real src/runtime/dyn_array.c is linked as an unmodified
 * translation unit (registry key `sources`); contracts sit on the forward declarations of
 * contracts/dyn_contracts.h.  -DVERIF_KIND=<ElementType> selects the element kind.
 * Enforced entries only declare locals: the requires clauses build the inputs (is_fresh).
 * Witness mode (-DVERIF_WITNESS, after a refutation): inputs are built here from in_* globals.
 */
#include "dyn_contracts.h"
#include "libc_stubs.h"
#include <stdlib.h>
#include <string.h>

struct dyn_ghost __verif_dyn;
/* __verif_k / __verif_kb are deliberately NOT defined: an extern object without definition is nondet for CBMC */

/* ---- path ends: "the run ends here with an error" ---- */
#ifdef VERIF_EXPECT_ABORT
#define DYN_ABORT_COVER() VERIF_COVER(1 /* abort path reachable */)
#else
#define DYN_ABORT_COVER() ((void)0)
#endif
#ifdef VERIF_GHOST_OFF   /* pop_struct: frame of three targets without the ghost; the path end itself is unchanged */
#define DYN_GHOST(stmt) ((void)0)
#else
#define DYN_GHOST(stmt) do { stmt; } while (0)
#endif
void __assert_fail(const char *a, const char *f, unsigned int l, const char *fn)
{
    (void)a; (void)f; (void)l; (void)fn;
    DYN_GHOST(__verif_dyn.exited = 1; __verif_dyn.asserted = 1; __verif_dyn.exit_status = 134);
    DYN_ABORT_COVER();
    __CPROVER_assume(0);
}
void abort(void)
{
    DYN_GHOST(__verif_dyn.exited = 1; __verif_dyn.aborted = 1; __verif_dyn.exit_status = 134);
    DYN_ABORT_COVER();
    __CPROVER_assume(0);
}
void exit(int status)
{
    DYN_GHOST(__verif_dyn.exited = 1; __verif_dyn.exit_status = status);
    /* exit(1) is reached only by the out-of-range branches of get_struct/set_struct: cover it where the registry says so */
#ifdef VERIF_EXIT_COVER
    VERIF_COVER(1 /* exit(1) path reachable */);
#endif
    __CPROVER_assume(0);
}

/* ---- witness-mode inputs (named so that they show in the JSON trace) ---- */
int64_t in_len, in_cap, in_index, in_value, in_newcap;
uint8_t in_esz, in_success_null;
uint64_t in_ssz;

#ifdef VERIF_WITNESS
static DynArray *wit_array(void)
{
    in_len = nondet_i64(); in_cap = nondet_i64(); in_esz = nondet_u8();
    __CPROVER_assume(in_cap >= 0 && in_cap <= 64);
    DynArray *a = malloc(sizeof(*a)); __CPROVER_assume(a);
    a->length = in_len; a->capacity = in_cap; a->elem_type = DYN_KIND; a->elem_size = in_esz;
    a->data = malloc((size_t)in_cap * in_esz); __CPROVER_assume(a->data);
    return a;
}
#define WIT_ARRAY(a) a = wit_array()
#define WIT(stmt) stmt
#else
#define WIT_ARRAY(a) ((void)0)
#define WIT(stmt)
#endif

#if DYN_TYPED
#if VERIF_KIND == 2
#define WIT_VALUE(v) do { uint64_t b_ = (uint64_t)in_value; memcpy(&(v), &b_, 8); } while (0)
#elif VERIF_KIND == 3 || VERIF_KIND == 5
#define WIT_VALUE(v) (v) = (DYN_PUSH_T)(uintptr_t)in_value
#else
#define WIT_VALUE(v) (v) = (DYN_PUSH_T)in_value
#endif

/* a C bool object only ever holds 0 or 1; CBMC's nondet _Bool may carry another byte pattern */
#if VERIF_KIND == 4
#define DYN_CANON(v) (v) = ((v) ? true : false)
#else
#define DYN_CANON(v) ((void)0)
#endif

void h_get(void)
{
    DynArray *arr; int64_t index;
    WIT_ARRAY(arr); WIT(in_index = nondet_i64(); index = in_index;)
    DYN_GET_T r = DYN_F_GET(arr, index);
    (void)r;
    VERIF_COVER(1 /* get returned */);
    VERIF_COVER(index == 0);
    VERIF_COVER(index > 1000);
    VERIF_COVER(__verif_k > 0 /* ghost index is arbitrary */);
}

void h_set(void)
{
    DynArray *arr; int64_t index; DYN_PUSH_T value;
    WIT_ARRAY(arr); WIT(in_index = nondet_i64(); index = in_index; in_value = nondet_i64(); WIT_VALUE(value);)
    DYN_CANON(value);
    DYN_F_SET(arr, index, value);
    VERIF_COVER(1 /* set returned */);
    VERIF_COVER(index > 1000);
}

void h_push(void)
{
    DynArray *arr; DYN_PUSH_T value;
    WIT_ARRAY(arr); WIT(in_value = nondet_i64(); WIT_VALUE(value);)
    DYN_CANON(value);
    DynArray *r = DYN_F_PUSH(arr, value);
    VERIF_COVER(r != NULL /* push returned */);
    VERIF_COVER(r->capacity > 1000 && r->length == r->capacity / 2 + 1 /* grown */);
    VERIF_COVER(r->length < r->capacity / 2 /* not grown */);
}

void h_pop(void)
{
    DynArray *arr; bool *success;
    WIT_ARRAY(arr);
    WIT(in_success_null = nondet_u8(); success = in_success_null ? NULL : malloc(sizeof(bool)); __CPROVER_assume(in_success_null || success);)
    DYN_POP_T r = DYN_F_POP(arr, success);
    (void)r;
    VERIF_COVER(1 /* pop returned */);
#ifndef VERIF_C08
    VERIF_COVER(success == NULL);
#endif
    VERIF_COVER(success != NULL);
}
#endif /* DYN_TYPED */

/* ===================== kind-generic operations ===================== */
/* a struct array in the fresh shape (elem_size 0, no store) holds nothing: every indexed operation must end the run,
 * so the "returned" cover points do not apply to that case of the split */
#if VERIF_KIND == 6 && defined(VERIF_ESZ) && VERIF_ESZ == 0
#define COVER_NZ(c) ((void)0)
#else
#define COVER_NZ(c) VERIF_COVER(c)
#endif

void h_remove_at(void)
{
    DynArray *arr; int64_t index;
    WIT_ARRAY(arr); WIT(in_index = nondet_i64(); index = in_index;)
    DynArray *r = dyn_array_remove_at(arr, index);
    COVER_NZ(r != NULL /* remove_at returned */);
    COVER_NZ(r->length == 0 /* removed the only element */);
    COVER_NZ(index == 0 && r->length > 2 /* front removed, suffix moved */);
    COVER_NZ(index > 0 && index == r->length /* last removed, nothing moved */);
    COVER_NZ(index > 1 && index + 1 < r->length && __verif_kb > 16 /* middle */);
}

void h_clear(void)
{
    DynArray *arr;
    WIT_ARRAY(arr);
    dyn_array_clear(arr);
    VERIF_COVER(1 /* clear returned */);
}

void h_length(void) { DynArray *arr; WIT_ARRAY(arr); int64_t r = dyn_array_length(arr); COVER_NZ(r > 8); VERIF_COVER(r == 0); }
void h_capacity(void) { DynArray *arr; WIT_ARRAY(arr); int64_t r = dyn_array_capacity(arr); VERIF_COVER(r > 8); }
void h_elem_type(void) { DynArray *arr; WIT_ARRAY(arr); ElementType r = dyn_array_get_elem_type(arr); VERIF_COVER(r == DYN_KIND); }

void h_reserve(void)
{
    DynArray *arr; int64_t new_capacity;
    WIT_ARRAY(arr); WIT(in_newcap = nondet_i64(); new_capacity = in_newcap;)
    dyn_array_reserve(arr, new_capacity);
    VERIF_COVER(1 /* reserve returned */);
    VERIF_COVER(new_capacity > 1000);
    VERIF_COVER(new_capacity < 0);
}

void h_new(void)
{
    ElementType t = DYN_KIND;
    DynArray *r = dyn_array_new(t);
    VERIF_COVER(r != NULL);
    VERIF_COVER(r == NULL);
}

void h_new_cap(void)
{
    ElementType t = DYN_KIND; int64_t cap;
    WIT(in_newcap = nondet_i64(); cap = in_newcap;)
    DynArray *r = dyn_array_new_with_capacity(t, cap);
    VERIF_COVER(r != NULL && cap > 1000);
    VERIF_COVER(r != NULL && cap < 0);
    VERIF_COVER(r == NULL);
}

void h_clone(void)
{
    DynArray *arr;
    WIT_ARRAY(arr);
    DynArray *r = dyn_array_clone(arr);
    VERIF_COVER(r == NULL);
    VERIF_COVER(r != NULL && r->length == 0);
    COVER_NZ(r != NULL && r->length > 0 && r->length <= 8);
    COVER_NZ(r != NULL && r->length > 8);
}

void h_push_struct(void)
{
    DynArray *arr; const void *sp; size_t ssz;
    WIT_ARRAY(arr);
    WIT(in_ssz = nondet_u64(); ssz = in_ssz; __CPROVER_assume(ssz <= 4096); sp = malloc(ssz); __CPROVER_assume(sp);)
    DynArray *r = dyn_array_push_struct(arr, sp, ssz);
#ifndef VERIF_SSZ_BIG      /* struct_size > 255 cannot be stored (uint8_t elem_size): the only way out is the abort cover */
    VERIF_COVER(r != NULL /* push_struct returned */);
#if VERIF_KIND == 6 && defined(VERIF_ESZ) && VERIF_ESZ != 0
    VERIF_COVER(r->length > 1 && r->length <= r->capacity / 2 /* appended, no growth */);
    VERIF_COVER(r->length > 8 && r->length == r->capacity / 2 + 1 /* appended after growth */);
#else
    VERIF_COVER(r->length == 1 /* first struct: store allocated here */);
#endif
#endif
}

#if VERIF_KIND == 6
void h_get_struct(void)
{
    DynArray *arr; int64_t index;
    WIT_ARRAY(arr); WIT(in_index = nondet_i64(); index = in_index;)
    void *r = dyn_array_get_struct(arr, index);
    COVER_NZ(r != NULL);
#ifndef VERIF_C08
    /* (an out-of-range index no longer returns NULL: the call ends in exit(1), fix ca10dd0) */
#endif
}

void h_set_struct(void)
{
    DynArray *arr; int64_t index; const void *sp; size_t ssz;
    WIT_ARRAY(arr); WIT(in_index = nondet_i64(); index = in_index;)
    WIT(in_ssz = nondet_u64(); ssz = in_ssz; __CPROVER_assume(ssz <= 4096); sp = malloc(ssz); __CPROVER_assume(sp);)
    dyn_array_set_struct(arr, index, sp, ssz);
    COVER_NZ(1 /* set_struct returned */);
    COVER_NZ(index > 2);
}

void h_pop_struct(void)
{
    DynArray *arr; void *out; size_t ssz; bool *success;
    WIT_ARRAY(arr);
    WIT(in_ssz = nondet_u64(); ssz = in_ssz; __CPROVER_assume(ssz <= 4096); out = malloc(ssz); __CPROVER_assume(out);)
    WIT(in_success_null = nondet_u8(); success = in_success_null ? NULL : malloc(sizeof(bool)); __CPROVER_assume(in_success_null || success);)
    dyn_array_pop_struct(arr, out, ssz, success);
    COVER_NZ(1 /* pop_struct returned */);
#ifndef VERIF_C08
    COVER_NZ(success == NULL);
#endif
    COVER_NZ(success != NULL);
}
#endif

