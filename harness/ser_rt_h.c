/* C10.rt.shape / C19.ser.det.shape : the REAL serializer / loader pair (src/nanoisa/nvm_format.c included verbatim, real CRC,
 * plain CBMC) on a module of one FIXED SHAPE with ARBITRARY CONTENTS: 2 strings (lengths 3 and 0 - the empty LAST string is the
 * corner the loader once dropped), 5 code bytes, 1 function entry, 1 debug entry, 1 import with 2 parameter types; flags and
 * entry point arbitrary.  All sizes are concrete, so every memcpy has a constant length (with symbolic lengths this pair is out
 * of reach: DESIGN 10.10).
 *   C19.ser.det : serialising the module twice gives the same size and the same byte at every index - although malloc / calloc
 *                 hand out blocks with arbitrary contents in the second run (no byte of the file comes from uninitialised memory);
 *   C10.rt      : the loader accepts the serialised file and the loaded module equals the original field by field
 *                 (counts, string bytes and lengths, code bytes, function / debug / import entries, parameter types, header
 *                 flags and entry point).
 * Bounded stand-in: B(one module shape). */
#include "verif_common.h"
#include "libc_stubs.h"
#include <stdlib.h>
#include <string.h>
#include "nanoisa/nvm_format.h"
struct verif_ghost __verif_g;
#include "nanoisa/nvm_format.c"

#define NCODE 5
#ifndef SER_SHAPE
#define SER_SHAPE 31   /* bit mask: 1 strings, 2 code, 4 function entry, 8 debug entry, 16 import */
#endif
static char s0[3]; static uint8_t code[NCODE]; static NvmFunctionEntry fn; static uint32_t dbg_off, dbg_line, imn, ifn; static uint8_t pt[2], irt;
static NvmModule *build_module(void)
{
    NvmModule *m = nvm_module_new(); __CPROVER_assume(m != NULL);
#if SER_SHAPE & 1
    s0[0] = nondet_u8(); s0[1] = nondet_u8(); s0[2] = nondet_u8();
    __CPROVER_assume(s0[0] != 0 && s0[1] != 0 && s0[2] != 0);
    nvm_add_string(m, s0, 3);
    nvm_add_string(m, "", 0);
#endif
#if SER_SHAPE & 2
    for (int i = 0; i < NCODE; i++) code[i] = nondet_u8();
    nvm_append_code(m, code, NCODE);
#endif
#if SER_SHAPE & 4
    fn.name_idx = nondet_u32(); fn.arity = nondet_u16(); fn.code_offset = nondet_u32(); fn.code_length = nondet_u32();
    fn.local_count = nondet_u16(); fn.upvalue_count = nondet_u16();
    nvm_add_function(m, &fn);
#endif
#if SER_SHAPE & 8
    dbg_off = nondet_u32(); dbg_line = nondet_u32();
    nvm_add_debug_entry(m, dbg_off, dbg_line);
#endif
#if SER_SHAPE & 16
    pt[0] = nondet_u8(); pt[1] = nondet_u8();
    imn = nondet_u32(); ifn = nondet_u32(); irt = nondet_u8();
    nvm_add_import(m, imn, ifn, 2, irt, pt);
#endif
    m->header.flags = nondet_u32(); m->header.entry_point = nondet_u32();
    return m;
}
/* the four checksum bytes are nvm_crc32 of the bytes after the header - a FUNCTION of them (C12.crc.fold.bounded, C12.crc.L*):
   equal files outside [28,32) have equal checksums; comparing two CRC circuits directly does not finish (measured 1500 s) */
#define NOT_CRC(k) ((k) < 28 || (k) >= 32)

/* C19.ser.det.shape */
void h_ser_det(void)
{
    NvmModule *m = build_module();
    uint32_t n1 = 0, n2 = 0;
    uint8_t *f1 = nvm_serialize(m, &n1);
    uint8_t *f2 = nvm_serialize(m, &n2);
    __CPROVER_assume(f1 != NULL && f2 != NULL);
    uint32_t k = nondet_u32();
    __CPROVER_assert(n1 == n2, "C19.ser.det same size on both runs");
    __CPROVER_assume(k < n1 && NOT_CRC(k));
    __CPROVER_assert(f1[k] == f2[k], "C19.ser.det byte k is the same on both runs (nothing from uninitialised memory)");
    VERIF_COVER(k == n1 - 1);
    VERIF_COVER(k == 20);
}

/* C10.rt.shape */
void h_ser_rt(void)
{
    NvmModule *m = build_module();
    uint32_t n1 = 0;
    uint8_t *f1 = nvm_serialize(m, &n1);
    __CPROVER_assume(f1 != NULL);
    NvmModule *r = nvm_deserialize(f1, n1);
    __CPROVER_assert(r != NULL, "C10.rt the loader accepts what the serializer wrote");
    if (r == NULL) return;
#if SER_SHAPE & 1
    __CPROVER_assert(r->string_count == 2 && r->string_lengths[0] == 3 && r->string_lengths[1] == 0, "C10.rt string pool: count and lengths");
    __CPROVER_assert(r->strings[0][0] == s0[0] && r->strings[0][1] == s0[1] && r->strings[0][2] == s0[2], "C10.rt string bytes");
#else
    __CPROVER_assert(r->string_count == 0, "C10.rt no strings");
#endif
#if SER_SHAPE & 2
    __CPROVER_assert(r->code_size == NCODE, "C10.rt code size");
    uint32_t c = nondet_u32(); __CPROVER_assume(c < NCODE);
    __CPROVER_assert(r->code[c] == code[c], "C10.rt code byte c");
#else
    __CPROVER_assert(r->code_size == 0, "C10.rt no code");
#endif
#if SER_SHAPE & 4
    __CPROVER_assert(r->function_count == 1 && r->functions[0].name_idx == fn.name_idx && r->functions[0].arity == fn.arity &&
                     r->functions[0].code_offset == fn.code_offset && r->functions[0].code_length == fn.code_length &&
                     r->functions[0].local_count == fn.local_count && r->functions[0].upvalue_count == fn.upvalue_count, "C10.rt function entry");
#else
    __CPROVER_assert(r->function_count == 0, "C10.rt no functions");
#endif
#if SER_SHAPE & 8
    __CPROVER_assert(r->debug_count == 1 && r->debug_entries[0].bytecode_offset == dbg_off && r->debug_entries[0].source_line == dbg_line, "C10.rt debug entry");
#else
    __CPROVER_assert(r->debug_count == 0, "C10.rt no debug entries");
#endif
#if SER_SHAPE & 16
    __CPROVER_assert(r->import_count == 1 && r->imports[0].module_name_idx == imn && r->imports[0].function_name_idx == ifn &&
                     r->imports[0].param_count == 2 && r->imports[0].return_type == irt &&
                     r->import_param_types[0] != NULL && r->import_param_types[0][0] == pt[0] && r->import_param_types[0][1] == pt[1], "C10.rt import entry and parameter types");
#else
    __CPROVER_assert(r->import_count == 0, "C10.rt no imports");
#endif
    __CPROVER_assert(r->header.flags == m->header.flags && r->header.entry_point == m->header.entry_point, "C10.rt header flags and entry point");
    VERIF_COVER(r != NULL);
}

/* C12.tail.shape : a file written by the real serializer (fixed shape, arbitrary contents) with ONE arbitrary byte appended: the
 * real loader accepts it only if the checksum over EVERYTHING after the header - the tail included - equals the stored one
 * (the property's "extended tail" case; a loader that checksums only up to the end of the last section accepts every tail). */
void h_ser_tail(void)
{
    NvmModule *m = build_module();
    uint32_t n1 = 0;
    uint8_t *f1 = nvm_serialize(m, &n1);
    __CPROVER_assume(f1 != NULL);
    uint8_t *f2 = malloc((size_t)n1 + 1); __CPROVER_assume(f2 != NULL);
    memcpy(f2, f1, n1);
    f2[n1] = nondet_u8();
    NvmModule *r = nvm_deserialize(f2, n1 + 1);
    __CPROVER_assert(r == NULL || nvm_crc32(f2 + NVM_HEADER_SIZE, n1 + 1 - NVM_HEADER_SIZE) == le_read_u32(f2 + 28),
                     "C12.tail an extended file is accepted only if the checksum over the whole body, tail included, matches");
    VERIF_COVER(r == NULL);
}
