/* C12.crc.fold.bounded : the REAL nvm_crc32 as a whole (nvm_format.c included verbatim, no extraction, no loop contract:
 * independent of how its loop is written) equals the bit-serial reflected CRC-32 with the polynomial the property names
 * (0xEDB88320, initial value and final xor 0xFFFFFFFF) on every buffer of at most VERIF_CRC_N bytes.
 * Bounded stand-in (B(size <= VERIF_CRC_N)); the unbounded statements are C12.crc.L0-L3 + C12.crc.cover. */
#include "verif_common.h"
#include "nanoisa/nvm_format.h"
struct verif_ghost __verif_g;
#include "nanoisa/nvm_format.c"
#ifndef VERIF_CRC_N
#define VERIF_CRC_N 6
#endif

static uint32_t spec_crc32(const uint8_t *d, uint32_t n)
{
    uint32_t c = 0xFFFFFFFFu;
    for (uint32_t i = 0; i < VERIF_CRC_N; i++) {
        if (i >= n) break;
        c ^= d[i];
        for (int j = 0; j < 8; j++) c = (c & 1u) ? ((c >> 1) ^ 0xEDB88320u) : (c >> 1);
    }
    return c ^ 0xFFFFFFFFu;
}

void h_fold(void)
{
    uint8_t buf[VERIF_CRC_N];
    uint32_t n = nondet_u32();
    __CPROVER_assume(n <= VERIF_CRC_N);
    for (uint32_t i = 0; i < VERIF_CRC_N; i++) buf[i] = nondet_u8();
    uint32_t got = nvm_crc32(buf, n);
    __CPROVER_assert(got == spec_crc32(buf, n), "C12.crc.fold nvm_crc32 == bit-serial CRC-32 (poly 0xEDB88320) of exactly the n bytes");
    VERIF_COVER(n == VERIF_CRC_N);
    VERIF_COVER(n == 0);
}
