/* C20.fmt.* : the string builder of the EMITTED runtime (nl_fmt_sb_t, nl_fmt_sb_ensure / _append_char / _append_cstr - the code
 * every generated program uses to format arrays and interpolated text), cut mechanically out of what the REAL
 * generate_string_operations() prints at check time (extract rule fmt_sb: keeps the typedef and the four functions verbatim, drops
 * the rest of the emitted runtime).  Contract: a well-formed builder (buf of cap bytes, len < cap, terminated) stays well-formed,
 * grows by exactly the appended text, keeps the terminator INSIDE the buffer, for every fill level - including text that lands
 * exactly on the capacity. */
#include "verif_common.h"
#include <stdlib.h>
#include <string.h>
#include <stdint.h>
#include <stdbool.h>
struct verif_ghost __verif_g;
#define FMT_CAP_MAX (1u << 20)
typedef struct { char *buf; size_t len; size_t cap; } verif_sb_layout;      /* must match the emitted typedef (asserted below) */
#define SB_PRE(sb) (VERIF_FRESH(sb, sizeof(verif_sb_layout)) && ((verif_sb_layout *)(sb))->cap >= 1 && ((verif_sb_layout *)(sb))->cap <= FMT_CAP_MAX && \
                    ((verif_sb_layout *)(sb))->len < ((verif_sb_layout *)(sb))->cap && VERIF_FRESH(((verif_sb_layout *)(sb))->buf, ((verif_sb_layout *)(sb))->cap))

#ifdef FMT_TOSTRING
/* assumed contracts of the two dependencies of int_to_string / float_to_string (stub bodies; plain CBMC run) */
#include <stdarg.h>
static size_t verif_block;      /* bytes of the block handed out last */
static size_t verif_bound;      /* the bound passed to snprintf last */
char *gc_alloc_string(size_t length) { char *p = malloc(length + 1); __CPROVER_assume(p != NULL); p[length] = 0; verif_block = length + 1; return p; }
int snprintf(char *buf, size_t n, const char *fmt, ...)
{
    (void)fmt;
    __CPROVER_assert(n == 0 || __CPROVER_w_ok(buf, n), "C20.fmt snprintf bound lies within the destination block (C11 7.21.6.5: up to n bytes are written)");
    verif_bound = n;
    if (n > 0) buf[nondet_u32() % n] = 0;
    return nondet_int();
}
#else
char *gc_alloc_string(size_t length);
#endif
#include "fmt_sb.c"      /* gen/: the emitted text */

static void nl_fmt_sb_append_char(nl_fmt_sb_t *sb, char c)
__CPROVER_requires(SB_PRE(sb))
__CPROVER_assigns(__CPROVER_object_whole(sb), __CPROVER_object_whole(sb->buf))
__CPROVER_frees(sb->buf)
__CPROVER_ensures(sb->len == __CPROVER_old(sb->len) + 1 && sb->len < sb->cap && sb->cap <= 2 * FMT_CAP_MAX)
__CPROVER_ensures(__CPROVER_rw_ok(sb->buf, sb->cap))
__CPROVER_ensures(sb->buf[sb->len] == 0 && sb->buf[sb->len - 1] == c);

void h_append_char(void)
{
    __CPROVER_assert(sizeof(nl_fmt_sb_t) == sizeof(verif_sb_layout), "C20.fmt layout of the emitted builder is {buf, len, cap}");
    nl_fmt_sb_t *sb; char c;
    nl_fmt_sb_append_char(sb, c);
    VERIF_COVER(c == 0x41);    /* the call returns (harness locals are not bound by is_fresh: nothing of sb can be read here) */
}

#ifdef FMT_CSTR
static void nl_fmt_sb_append_cstr(nl_fmt_sb_t *sb, const char *s)
__CPROVER_requires(SB_PRE(sb))
__CPROVER_requires(VERIF_FRESH(s, FMT_STRMAX + 1) && s[FMT_STRMAX] == 0)
__CPROVER_assigns(__CPROVER_object_whole(sb), __CPROVER_object_whole(sb->buf))
__CPROVER_frees(sb->buf)
__CPROVER_ensures(sb->len >= __CPROVER_old(sb->len) && sb->len <= __CPROVER_old(sb->len) + FMT_STRMAX && sb->len < sb->cap)
__CPROVER_ensures(__CPROVER_rw_ok(sb->buf, sb->cap))
__CPROVER_ensures(sb->buf[sb->len] == 0);

void h_append_cstr(void)
{
    nl_fmt_sb_t *sb; const char *s;
    nl_fmt_sb_append_cstr(sb, s);
    VERIF_COVER(1);
}
#endif

#ifdef FMT_TOSTRING
void h_to_string(void)
{
    int64_t n = nondet_i64();
    char *a = int_to_string(n);
    /* "-9223372036854775808" is 20 characters: 21 bytes with the terminator; a smaller block truncates or overflows */
    __CPROVER_assert(verif_block >= 21 && verif_bound >= 21, "C20.fmt block holds the longest int64 text (20 characters + NUL)");
    double x = nondet_double();
    char *b = float_to_string(x);
    /* %g with the default precision 6: sign + d.ddddd + e+XXX = 13 characters at most */
    __CPROVER_assert(verif_block >= 14 && verif_bound >= 14, "C20.fmt block holds the longest %g text (13 characters + NUL)");
    VERIF_COVER(a != NULL && b != NULL);
}
#endif
