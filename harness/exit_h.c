/* C10.exit.{vm,wrapper} : exit status of `nano_vm file.nvm` (run_standalone of src/nanovm/main.c) and of the `main`
 * that wrapper_generate emits (src/nanovirt/wrapper_gen.c), against the ONE spec SPEC_EXIT(r, top) read off the
 * property's reference `nano_virt --run` (checked on the reference itself by C10.exit.virt = postcondition 3 of
 * virt_main, harness/gate_virt_h.c).  vm_execute / vm_get_result / vm_call_function are cut at their interface
 * (gate_contracts.h): vm_execute returns the ghost input __verif_vm_r, vm_get_result the ghost inputs
 * __verif_top_tag / __verif_top_i64 (arbitrary, never assigned).
 *
 * -DEXIT_UNIT_VM      : #include "nanovm/main.c" verbatim (annotated scratch copy: loop-contract clauses only)
 * -DEXIT_UNIT_WRAPPER : #include "wrapper_main.c" = the text the REAL write_wrapper_c() prints at check time
 *                       (extract rule wrapper_main of obligations/c10_exit.py: native build of the real
 *                       wrapper_gen.c, run once; loop-contract clauses inserted by annotate.py as for repo files)
 * What the extraction changes: the NAME main -> vm_main / wrapper_main. */
#define GATE_VM 1
#include "gate_contracts.h"
struct verif_gate __verif_gate;
int __verif_vm_r; uint8_t __verif_top_tag; int64_t __verif_top_i64;   /* ghost inputs, never assigned */
int __verif_sa_called, __verif_sa_ret;     /* ghost (C10.exit.vm_main): run_standalone was called / what it returned */
int __verif_sigpipe_ign;                   /* ghost (C16.sigpipe): SIGPIPE -> SIG_IGN was installed */

#define EXIT_SPEC_POST(ret) \
    __CPROVER_ensures(G.main_executed ==> (ret) == SPEC_EXIT(__verif_vm_r, __verif_top_tag, __verif_top_i64)) \
    __CPROVER_ensures(!G.main_executed ==> (ret) == 1)   /* not run at all: load / verification / __init__ error */ \
    __CPROVER_ensures(G.main_executed <= 1) \
    /* C10.init.once: the global initialisers (__init__) run once, as under the reference launcher: vm_execute runs them \
       itself (assumed from vm.c vm_execute; not under contract here), so a launcher must not call __init__ on its own */ \
    __CPROVER_ensures(G.init_runs <= 1)

#ifdef EXIT_UNIT_VM
#define main vm_main
#include "nanovm/main.c"
#undef main
static int run_standalone(const char *path)
__CPROVER_requires(GATE_INIT)
__CPROVER_assigns(G)
EXIT_SPEC_POST(__CPROVER_return_value);

#ifdef VERIF_WITNESS
int in_vm_r; uint8_t in_top_tag; int64_t in_top_i64;    /* named inputs for the native replay (replay/replay_exit_vm.c) */
#endif
void h_run_standalone(void)
{
    const char *path;
#ifdef VERIF_WITNESS
    in_vm_r = nondet_int(); in_top_tag = nondet_u8(); in_top_i64 = nondet_i64();
    __verif_vm_r = in_vm_r; __verif_top_tag = in_top_tag; __verif_top_i64 = in_top_i64;
#endif
    int r = run_standalone(path);
    VERIF_COVER(G.main_executed && __verif_vm_r == 0 && __verif_top_tag == 0x01 && __verif_top_i64 == 7);
    VERIF_COVER(G.main_executed && __verif_vm_r != 0);
    VERIF_COVER(!G.main_executed && G.verify_failed);
}
#endif

#ifdef EXIT_UNIT_VM_MAIN
/* C10.exit.vm_main: `main` of nano_vm hands run_standalone's status to the OS unchanged (any int, including negative
 * ones: nano_virt --run and the wrapper return (int)result as it is).  run_standalone / run_daemon are replaced by
 * contracts returning arbitrary ghost values. */
/* C16.sigpipe: writes to a dead co-process pipe (vm_ffi_call_cop, vm_ffi_cop_stop) must not kill the VM: SIGPIPE has to be
 * ignored before anything is run.  `signal` / `sigaction` are stubs recording SIGPIPE -> SIG_IGN in a ghost; the contract by
 * which run_standalone is replaced REQUIRES the ghost (checked at the call in main). */
#include <signal.h>
typedef void (*verif_sighandler_t)(int);
verif_sighandler_t signal(int sig, verif_sighandler_t h)
{ if (sig == SIGPIPE && h == SIG_IGN) __verif_sigpipe_ign = 1; return SIG_DFL; }
int sigaction(int sig, const struct sigaction *sa, struct sigaction *old)
{ (void)old; if (sig == SIGPIPE && sa != NULL && sa->sa_handler == SIG_IGN) __verif_sigpipe_ign = 1; return 0; }

#define main vm_main
#include "nanovm/main.c"
#undef main
static int run_standalone(const char *path)
#ifdef VERIF_SIGPIPE
__CPROVER_requires(__verif_sigpipe_ign == 1)
#else
__CPROVER_requires(1)
#endif
__CPROVER_assigns(__verif_sa_called)
__CPROVER_ensures(__verif_sa_called == 1 && __CPROVER_return_value == __verif_sa_ret);
static int run_daemon(const char *path)
__CPROVER_requires(1)
__CPROVER_assigns()
__CPROVER_ensures(1);
int vm_main(int argc, char *argv[])
__CPROVER_requires(argc >= 0 && argc <= 64 && __CPROVER_is_fresh(argv, ((size_t)argc + 1) * sizeof(char *)))
__CPROVER_requires(__verif_sa_called == 0 && __verif_sigpipe_ign == 0 && GATE_INIT)
__CPROVER_assigns(G, g_argc, g_argv, g_isolate_ffi, __verif_sa_called, __verif_sigpipe_ign)
__CPROVER_ensures(__verif_sa_called ==> __CPROVER_return_value == __verif_sa_ret);

void h_vm_main(void)
{
    int argc; char **argv;
    int r = vm_main(argc, argv);
    VERIF_COVER(__verif_sa_called && __verif_sa_ret < 0);
    VERIF_COVER(!__verif_sa_called);
    (void)r;
}
#endif

#ifdef EXIT_UNIT_WRAPPER
#define main wrapper_main
#include "wrapper_main.c"
#undef main
int wrapper_main(int argc, char **argv)
__CPROVER_requires(GATE_INIT)
__CPROVER_assigns(G, g_argc, g_argv)
EXIT_SPEC_POST(__CPROVER_return_value);

void h_wrapper_main(void)
{
    int argc; char **argv;
    int r = wrapper_main(argc, argv);
    VERIF_COVER(G.main_executed && __verif_vm_r == 0 && __verif_top_tag == 0x01 && __verif_top_i64 == 7 && r == 7);
    VERIF_COVER(G.main_executed && __verif_vm_r != 0 && r == 1);
    VERIF_COVER(!G.main_executed && G.load_failed);     /* embedded module does not deserialise */
}
#endif
