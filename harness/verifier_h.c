/* C13.verify.* : the real verifier.c (annotated scratch copy: loop-contract
 * clauses + two ghost assignments) under its contracts; isa_decode /
 * isa_get_info are replaced by their general contracts (enforced per opcode
 * byte under C11). */
#include "verifier_contracts.h"
#include "libc_stubs.h"
struct verif_ghost __verif_g;
uint32_t __verif_gf, __verif_gi, __verif_gpos;
const uint8_t *__verif_c; uint32_t __verif_end;

#include "nanoisa/isa.c"       /* real table + codec (codec calls are replaced by the general contracts) */
#include "nanoisa/verifier.c"

void h_structure(void)
{
    const NvmModule *mod;
    NvmVerifyResult r = verify_structure(mod);
    VERIF_COVER(r.ok);
    VERIF_COVER(!r.ok);
}

void h_function(void)
{
    const NvmModule *mod; uint32_t fn_idx;
    NvmVerifyResult r = verify_function(mod, fn_idx);
    VERIF_COVER(r.ok && __verif_g.hit && __verif_gpos > 0);
    VERIF_COVER(!r.ok);
}

void h_verify(void)
{
    const NvmModule *mod;
    NvmVerifyResult r = nvm_verify(mod);
    VERIF_COVER(r.ok);
    VERIF_COVER(!r.ok);
}
