/* C20.list.int.* / C08.nat.list_int.* harness: the real src/runtime/list_int.c (annotated scratch copy: one loop
 * contract inserted into ensure_capacity by tools/annotate.py) linked as its own translation unit. */
#include "list_contracts.h"
#include "libc_stubs.h"
#include <stdlib.h>

struct dyn_ghost __verif_dyn;

#ifdef VERIF_EXPECT_ABORT
#define LIST_ABORT_COVER() VERIF_COVER(1 /* exit(1) path reachable */)
#else
#define LIST_ABORT_COVER() ((void)0)
#endif
void exit(int status)
{
    __verif_dyn.exited = 1; __verif_dyn.exit_status = status;
    __CPROVER_assert(status != 0, "C08: the run ends with a non-zero status");
    LIST_ABORT_COVER();
    __CPROVER_assume(0);
}
void abort(void) { __verif_dyn.exited = 1; __verif_dyn.aborted = 1; __verif_dyn.exit_status = 134; __CPROVER_assume(0); }

int64_t in_len, in_cap, in_index, in_value;
#ifdef VERIF_WITNESS
static List_int *wit_list(void)
{
    in_len = nondet_i32(); in_cap = nondet_i32();
    __CPROVER_assume(in_cap >= 0 && in_cap <= 64);
    List_int *l = malloc(sizeof(*l)); __CPROVER_assume(l);
    l->length = (int)in_len; l->capacity = (int)in_cap; l->data = malloc(sizeof(int64_t) * in_cap); __CPROVER_assume(l->data);
    return l;
}
#define WIT_LIST(l) l = wit_list()
#define WIT(stmt) stmt
#else
#define WIT_LIST(l) ((void)0)
#define WIT(stmt)
#endif

void h_with_capacity(void) { int c; WIT(in_cap = nondet_i32(); c = (int)in_cap;) List_int *r = list_int_with_capacity(c); VERIF_COVER(r->capacity == 0); VERIF_COVER(r->capacity > 1000); }
void h_new(void) { List_int *r = list_int_new(); VERIF_COVER(r != NULL); }
void h_get(void)
{
    List_int *l; int index; WIT_LIST(l); WIT(in_index = nondet_i32(); index = (int)in_index;)
    int64_t r = list_int_get(l, index); (void)r;
    VERIF_COVER(index > 1000);
    VERIF_COVER(index == 0);
}
void h_set(void)
{
    List_int *l; int index; int64_t v; WIT_LIST(l); WIT(in_index = nondet_i32(); index = (int)in_index; in_value = nondet_i64(); v = in_value;)
    list_int_set(l, index, v);
    VERIF_COVER(index > 1000 && __verif_k > 3);
}
void h_pop(void) { List_int *l; WIT_LIST(l); int64_t r = list_int_pop(l); (void)r; VERIF_COVER(1 /* pop returned */); }
void h_push(void)
{
    List_int *l; int64_t v; WIT_LIST(l); WIT(in_value = nondet_i64(); v = in_value;)
    list_int_push(l, v);
    VERIF_COVER(1 /* push returned */);
}
void h_insert(void)
{
    List_int *l; int index; int64_t v; WIT_LIST(l); WIT(in_index = nondet_i32(); index = (int)in_index; in_value = nondet_i64(); v = in_value;)
    list_int_insert(l, index, v);
    VERIF_COVER(index == 0);
    VERIF_COVER(index > 100 && __verif_kb > 8 * ((uint64_t)index + 2));
}
void h_remove(void)
{
    List_int *l; int index; WIT_LIST(l); WIT(in_index = nondet_i32(); index = (int)in_index;)
    int64_t r = list_int_remove(l, index); (void)r;
    VERIF_COVER(index == 0);
    VERIF_COVER(index > 100 && __verif_kb > 8 * ((uint64_t)index + 2));
}
void h_clear(void) { List_int *l; WIT_LIST(l); list_int_clear(l); VERIF_COVER(1); }
void h_length(void) { List_int *l; WIT_LIST(l); int r = list_int_length(l); VERIF_COVER(r > 8); }
void h_capacity(void) { List_int *l; WIT_LIST(l); int r = list_int_capacity(l); VERIF_COVER(r > 8); }
void h_is_empty(void) { List_int *l; WIT_LIST(l); bool r = list_int_is_empty(l); VERIF_COVER(r); VERIF_COVER(!r); }
void h_free(void) { List_int *l; WIT_LIST(l); list_int_free(l); VERIF_COVER(1 /* free returned */); }
