/* C09.depth.* : depth guards of the front end.
 *   typechecker.c : check_expression / check_statement  (g_check_expr_depth, g_check_stmt_depth)
 * The real file is included verbatim; ONE function is enforced per obligation and everything it
 * calls is replaced by a contract.  The counters are `static`: the contracts name them through
 * tentative definitions placed before the #include (C11 6.9.2: same object). */
#include "verif_common.h"
#include "nanolang.h"
int fprintf(FILE *f, const char *fmt, ...) { (void)f; (void)fmt; return nondet_int(); }

#ifdef DEPTH_TYPECHECKER
static int g_check_expr_depth;
static int g_check_stmt_depth;
#define LIM_E 2000      /* MAX_CHECK_EXPR_DEPTH; harness asserts the two agree */
#define LIM_S 2000      /* MAX_CHECK_STMT_DEPTH */

/* the guarded bodies: may only be entered with the counter in 1..limit; on return the counter is
 * what it was (they change it only through nested calls of the wrappers, each of which restores it:
 * induction over the call depth, see obligations/c09.py) */
static Type check_expression_impl(ASTNode *expr, Environment *env)
__CPROVER_requires(expr != NULL)
__CPROVER_requires(1 <= g_check_expr_depth && g_check_expr_depth <= LIM_E)
__CPROVER_assigns()
__CPROVER_ensures(1);

Type check_expression(ASTNode *expr, Environment *env)
__CPROVER_requires(0 <= g_check_expr_depth && g_check_expr_depth <= LIM_E)
__CPROVER_assigns(g_check_expr_depth)
__CPROVER_ensures(g_check_expr_depth == __CPROVER_old(g_check_expr_depth))
/* over the limit (or NULL): the answer is TYPE_UNKNOWN */
__CPROVER_ensures((expr == NULL || __CPROVER_old(g_check_expr_depth) == LIM_E) ==> __CPROVER_return_value == TYPE_UNKNOWN);

#include "typechecker.c"

/* TypeChecker is an anonymous struct defined inside typechecker.c: the contracts that mention it are
 * given on re-declarations after the definition */
static Type check_statement_impl(TypeChecker *tc, ASTNode *stmt)
__CPROVER_requires(stmt != NULL)
__CPROVER_requires(1 <= g_check_stmt_depth && g_check_stmt_depth <= LIM_S)
__CPROVER_assigns()
__CPROVER_ensures(1);

static Type check_statement(TypeChecker *tc, ASTNode *stmt)
__CPROVER_requires(VERIF_FRESH(tc, sizeof(TypeChecker)))
__CPROVER_requires(0 <= g_check_stmt_depth && g_check_stmt_depth <= LIM_S)
__CPROVER_assigns(g_check_stmt_depth, tc->has_error)
__CPROVER_ensures(g_check_stmt_depth == __CPROVER_old(g_check_stmt_depth))
/* over the limit: reported as an error */
__CPROVER_ensures((stmt != NULL && __CPROVER_old(g_check_stmt_depth) == LIM_S) ==> (tc->has_error && __CPROVER_return_value == TYPE_VOID))
__CPROVER_ensures((stmt == NULL || __CPROVER_old(g_check_stmt_depth) < LIM_S) ==> tc->has_error == __CPROVER_old(tc->has_error));


void h_check_expression(void)
{
    __CPROVER_assert(MAX_CHECK_EXPR_DEPTH == LIM_E, "C09.depth limit constant of the contract equals MAX_CHECK_EXPR_DEPTH");
    g_check_expr_depth = nondet_int();
    ASTNode *expr; Environment *env;
    Type t = check_expression(expr, env);
    VERIF_COVER(t == TYPE_UNKNOWN);
    VERIF_COVER(t != TYPE_UNKNOWN);
}

void h_check_statement(void)
{
    __CPROVER_assert(MAX_CHECK_STMT_DEPTH == LIM_S, "C09.depth limit constant of the contract equals MAX_CHECK_STMT_DEPTH");
    g_check_stmt_depth = nondet_int();
    TypeChecker *tc; ASTNode *stmt;
    Type t = check_statement(tc, stmt);
    VERIF_COVER(t == TYPE_VOID);
    VERIF_COVER(t != TYPE_VOID);
}
#endif
