/* C09.depth.* : depth guards of the front end.
 *   typechecker.c : check_expression / check_statement  (g_check_expr_depth, g_check_stmt_depth)
 *   parser.c      : parse_block  (p->recursion_depth)   [bounded stand-in, see below; parse_expression: not brought in,
 *                   see obligations/c09.py undecided_part]
 * The real file is included verbatim; ONE function is enforced per obligation and everything it
 * calls is replaced by a contract.  The counters are `static`: the contracts name them through
 * tentative definitions placed before the #include (C11 6.9.2: same object). */
#include "verif_common.h"
#include "nanolang.h"
int fprintf(FILE *f, const char *fmt, ...) { (void)f; (void)fmt; return nondet_int(); }

#ifdef DEPTH_TYPECHECKER
static int g_check_expr_depth;
static int g_check_stmt_depth;
#define LIM_E 2000      /* MAX_CHECK_EXPR_DEPTH; harness asserts the two agree */
#define LIM_S 2000      /* MAX_CHECK_STMT_DEPTH */

/* the guarded bodies: may only be entered with the counter in 1..limit; on return the counter is
 * what it was (they change it only through nested calls of the wrappers, each of which restores it:
 * induction over the call depth, see obligations/c09.py) */
static Type check_expression_impl(ASTNode *expr, Environment *env)
__CPROVER_requires(expr != NULL)
__CPROVER_requires(1 <= g_check_expr_depth && g_check_expr_depth <= LIM_E)
__CPROVER_assigns()
__CPROVER_ensures(1);

Type check_expression(ASTNode *expr, Environment *env)
__CPROVER_requires(0 <= g_check_expr_depth && g_check_expr_depth <= LIM_E)
__CPROVER_assigns(g_check_expr_depth)
__CPROVER_ensures(g_check_expr_depth == __CPROVER_old(g_check_expr_depth))
/* over the limit (or NULL): the answer is TYPE_UNKNOWN */
__CPROVER_ensures((expr == NULL || __CPROVER_old(g_check_expr_depth) == LIM_E) ==> __CPROVER_return_value == TYPE_UNKNOWN);

#include "typechecker.c"

/* TypeChecker is an anonymous struct defined inside typechecker.c: the contracts that mention it are
 * given on re-declarations after the definition */
static Type check_statement_impl(TypeChecker *tc, ASTNode *stmt)
__CPROVER_requires(stmt != NULL)
__CPROVER_requires(1 <= g_check_stmt_depth && g_check_stmt_depth <= LIM_S)
__CPROVER_assigns()
__CPROVER_ensures(1);

static Type check_statement(TypeChecker *tc, ASTNode *stmt)
__CPROVER_requires(VERIF_FRESH(tc, sizeof(TypeChecker)))
__CPROVER_requires(0 <= g_check_stmt_depth && g_check_stmt_depth <= LIM_S)
__CPROVER_assigns(g_check_stmt_depth, tc->has_error)
__CPROVER_ensures(g_check_stmt_depth == __CPROVER_old(g_check_stmt_depth))
/* over the limit: reported as an error */
__CPROVER_ensures((stmt != NULL && __CPROVER_old(g_check_stmt_depth) == LIM_S) ==> (tc->has_error && __CPROVER_return_value == TYPE_VOID))
__CPROVER_ensures((stmt == NULL || __CPROVER_old(g_check_stmt_depth) < LIM_S) ==> tc->has_error == __CPROVER_old(tc->has_error));


/* a rename of the limit macros must not turn the obligation into a build error: the contract's own constants stand */
#ifndef MAX_CHECK_EXPR_DEPTH
#define MAX_CHECK_EXPR_DEPTH LIM_E
#endif
#ifndef MAX_CHECK_STMT_DEPTH
#define MAX_CHECK_STMT_DEPTH LIM_S
#endif

void h_check_expression(void)
{
    __CPROVER_assert(MAX_CHECK_EXPR_DEPTH == LIM_E, "C09.depth limit constant of the contract equals MAX_CHECK_EXPR_DEPTH");
    g_check_expr_depth = nondet_int();
    ASTNode *expr; Environment *env;
    Type t = check_expression(expr, env);
    VERIF_COVER(t == TYPE_UNKNOWN);
    VERIF_COVER(t != TYPE_UNKNOWN);
}

void h_check_statement(void)
{
    __CPROVER_assert(MAX_CHECK_STMT_DEPTH == LIM_S, "C09.depth limit constant of the contract equals MAX_CHECK_STMT_DEPTH");
    g_check_stmt_depth = nondet_int();
    TypeChecker *tc; ASTNode *stmt;
    Type t = check_statement(tc, stmt);
    VERIF_COVER(t == TYPE_VOID);
    VERIF_COVER(t != TYPE_VOID);
}
#endif

#ifdef DEPTH_PARSER
/* parse_block: balanced inc/dec of p->recursion_depth on every return path, no recursion (parse_statement)
 * with the counter above the limit, NULL when entered at the limit.  The function's one loop grows the
 * `statements` array with realloc and counts statements without any bound that could be stated without progress
 * contracts for all 39 parser functions (DESIGN C09.parse.progress, not built), so it gets NO loop contract
 * here: it is unwound DEPTH_UNWIND-1 times (bounded stand-in, never counted as proved).  The counter is not
 * touched by the loop body except on its two `return NULL` paths, which the unwinding covers. */
#define LIM_P 1000      /* MAX_RECURSION_DEPTH; harness asserts the two agree */
#define P_ERRFIELDS(p) __CPROVER_object_upto((char *)&(p)->error_count, sizeof(Stage1Parser) - __builtin_offsetof(Stage1Parser, error_count))

static Token *current_token(Stage1Parser *p)
__CPROVER_requires(p != NULL)
__CPROVER_assigns(p->pos)                    /* the real one clamps a corrupt position */
__CPROVER_ensures(__CPROVER_return_value == NULL || __CPROVER_is_fresh(__CPROVER_return_value, sizeof(Token)));

/* variadic: DFCC 6.11 checks a replaced variadic callee's assigns clause against a wrong write set (same defect as
 * seen with snprintf in the lexer unit), so the frame is given as empty; the error fields it really writes are
 * not read by parse_block and not mentioned in the property checked here */
static void parser_error(Stage1Parser *p, int line, int column, const char *fmt, ...)
__CPROVER_requires(p != NULL)
__CPROVER_assigns()
__CPROVER_ensures(1);

static void advance(Stage1Parser *p)
__CPROVER_requires(p != NULL)
__CPROVER_assigns(p->pos)
__CPROVER_ensures(1);

/* the bound of the stand-in: the block's closing brace (or EOF) is seen at the latest by the
 * 2*(DEPTH_UNWIND-1)-th call, i.e. the block holds at most DEPTH_UNWIND-2 statements */
unsigned __verif_nmatch;
static bool match(Stage1Parser *p, TokenType type)
__CPROVER_requires(p != NULL)
__CPROVER_assigns(__verif_nmatch)
__CPROVER_ensures(__verif_nmatch == __CPROVER_old(__verif_nmatch) + 1)
__CPROVER_ensures(__verif_nmatch >= 2 * (DEPTH_UNWIND - 1) - 1 ==> __CPROVER_return_value == 1);

static bool expect(Stage1Parser *p, TokenType type, const char *msg)
__CPROVER_requires(p != NULL)
__CPROVER_assigns(p->pos, P_ERRFIELDS(p))
__CPROVER_ensures(1);

/* the recursion: entered only with the counter within the limit; returns with the counter restored
 * (assumed for the callee, proved for parse_block: induction over the call depth) */
static ASTNode *parse_statement(Stage1Parser *p)
__CPROVER_requires(p != NULL && 1 <= p->recursion_depth && p->recursion_depth <= LIM_P)
__CPROVER_assigns(p->pos, P_ERRFIELDS(p))
__CPROVER_ensures(__CPROVER_return_value == NULL || __CPROVER_is_fresh(__CPROVER_return_value, sizeof(ASTNode)));

static ASTNode *create_node(ASTNodeType type, int line, int column)
__CPROVER_requires(1)
__CPROVER_assigns()
__CPROVER_ensures(__CPROVER_is_fresh(__CPROVER_return_value, sizeof(ASTNode)));

static ASTNode *parse_block(Stage1Parser *p)
__CPROVER_requires(VERIF_FRESH(p, sizeof(Stage1Parser)))
__CPROVER_requires(0 <= p->recursion_depth && p->recursion_depth <= LIM_P)
__CPROVER_requires(__verif_nmatch == 0)
__CPROVER_assigns(p->pos, p->recursion_depth, P_ERRFIELDS(p), __verif_nmatch)
__CPROVER_ensures(p->recursion_depth == __CPROVER_old(p->recursion_depth))
__CPROVER_ensures(__CPROVER_old(p->recursion_depth) == LIM_P ==> __CPROVER_return_value == NULL);

#include "parser.c"

void h_parse_block(void)
{
    __CPROVER_assert(MAX_RECURSION_DEPTH == LIM_P, "C09.depth limit constant of the contract equals MAX_RECURSION_DEPTH");
    Stage1Parser *p;
    ASTNode *n = parse_block(p);
    VERIF_COVER(n == NULL);
    VERIF_COVER(n != NULL);
}
#endif

