/* Loader harness (C12.gate, C12.dir, C13.deser.*): nvm_deserialize under its
 * contract, the five loops under the sidecar loop contracts, builder callees
 * replaced by their loader-view contracts.  nvm_format.c is the annotated
 * scratch copy of the real file (only loop-contract clauses inserted). */
#define NVM_VIEW_LOADER 1
#include "nvm_contracts.h"
#define NVM_IMPORTS_PER_FILE 9532510u   /* ceil(NVM_MAX_FILE / 11) */
struct verif_ghost __verif_g;
uint32_t __verif_j;

#include "nanoisa/nvm_format.c"

/* witness mode: concrete small file as named input (bounded search for a replayable input) */
struct in_data_s { uint8_t b[96]; } in_data; uint32_t in_size;
struct in_data_s nondet_data(void);

void h_deser(void)
{
    const uint8_t *data; uint32_t size;
#ifdef VERIF_WITNESS
    in_data = nondet_data(); in_size = nondet_u32();
    __CPROVER_assume(in_size <= sizeof(in_data.b));
    uint8_t *wd = malloc(in_size); __CPROVER_assume(wd);
    memcpy(wd, in_data.b, in_size);
    data = wd; size = in_size;
#endif
    NvmModule *m = nvm_deserialize(data, size);
    VERIF_COVER(m == NULL);
    VERIF_COVER(m != NULL);
}

/* C12.hdr: nvm_validate_header == (magic "NVM\x01", version 1, section_count <= 16) */
void h_hdr(void)
{
    const NvmHeader *h;
    bool r = nvm_validate_header(h);
    VERIF_COVER(r);
    VERIF_COVER(!r);
}
