/* probe: allocation via replaced contract inside loop contract */
#include "verif_common.h"
#include <stdlib.h>
#include <string.h>
#ifndef P_OFF
#define P_OFF 0
#endif

void *my_alloc(size_t n)
__CPROVER_requires(1)
__CPROVER_assigns()
__CPROVER_ensures(__CPROVER_is_fresh(__CPROVER_return_value, n));

void my_free(void *p)
__CPROVER_requires(1)
__CPROVER_assigns()
__CPROVER_ensures(1);

#ifdef P_MALLOC
#define my_alloc malloc
#define my_free free
#endif

int f(const char *s, unsigned len)
__CPROVER_requires(len <= 1000 && __CPROVER_is_fresh(s, len + 1) && s[len] == 0)
__CPROVER_assigns()
__CPROVER_ensures(__CPROVER_return_value >= 0)
{
    unsigned i = 0; int acc = 0;
    while (s[i] != 0)
    __CPROVER_assigns(i, acc)
    __CPROVER_loop_invariant(i <= len && acc >= 0 && acc <= 1)
    __CPROVER_decreases(len - i)
    {
        char *t = my_alloc(4);
        t[0] = s[i]; t[3 + P_OFF] = 1;
        acc = t[3];
        my_free(t);
        i++;
    }
    return acc;
}

void h_p(void)
{
    const char *s; unsigned len;
    int r = f(s, len);
    VERIF_COVER(r == 1);
}
