/* Template-catalogue harness (DESIGN 3.1 item 4): the code under contract is  nl_<name>  as the REAL nanoc of the tree under
 * check emitted it for templates/<name>.nano at check time (extract rule tmpl_<name>, tools/extract_tmpl.py ->
 * <work>/gen/<name>.c, #included verbatim below; the helpers nl_array_* it calls come with it).
 *
 *   -DVERIF_TMPL=<name>        which template (one obligation = one template = one generated function)
 *   -DVERIF_MODE=0  value      result == spec function of contracts/spec_int.h on the native domain     (C02.nat, C01.agree)
 *              =1  corner     mul/div/mod: algebraic corner cases on the full native domain            (C02.nat, C01.agree)
 *              =2  ub         no precondition but the language's defined domain, postcondition true: CBMC's standard checks
 *                             (signed overflow, division by zero, pointers, shifts) ARE the obligation   (C20.tmpl.ub)
 *              =3  pass       accessor: the runtime accessor is called once, with the user's array / index / value
 *                             UNMODIFIED, and its result is what the generated function returns          (C08.nat.tmpl)
 *   -DVERIF_SMALL              value mode of mul/div/mod restricted to operands in [-128,127]  (bounded stand-in, label B)
 *   -DVERIF_FMASK=<k>          value mode of mulf/divf restricted to operands whose k low fraction bits are zero (bounded, label B)
 *   -DSPEC_STRMAX=<n>          streq/strne: NUL-terminated strings of length <= n in buffers of n+1 bytes (bounded, label B)
 * String == / != : spec = content equality (contracts/spec_str.h spec_streq); float operators: spec = the C double operation on
 * (a, b) in that order, arithmetic results compared as bit patterns (spec_f64_bits).
 *
 * Runtime accessors (dyn_array_get_int, ...) are NOT under proof here (that is C08.nat.<op>.<kind> / C20.dyn.*): they are
 * STUB BODIES that record their arguments in the one ghost struct __verif_t and return ghost inputs that are never assigned
 * (arbitrary).  exit() ends the path ("the run ends here with an error").
 * Signed overflow: the language defines wrapping; whether `a + b` on int64_t is defined in the generated C depends on the flags
 * the driver hands to cc.  gen/cc_flags.h (written by the extract rule from the command line the real driver printed) says
 * whether -fwrapv is among them; only then are + - * and unary - exempt from CBMC's signed-overflow check in ub mode.
 */
#include "verif_common.h"
#include "spec_int.h"
#include "spec_str.h"
#include <stdio.h>
#include <stdlib.h>
#include <string.h>
#include "runtime/dyn_array.h"      /* the REAL header: DynArray and the prototypes of the runtime accessors */
#include "cc_flags.h"               /* generated at check time */

#ifndef VERIF_MODE
#define VERIF_MODE 0
#endif
#define M_VALUE 0
#define M_CORNER 1
#define M_UB 2
#define M_PASS 3

#define TMPL_CAT_(a, b) a##b
#define TMPL_CAT(a, b) TMPL_CAT_(a, b)
#define TMPL_STR_(x) #x
#define TMPL_STR(x) TMPL_STR_(x)
#define TMPL_FN TMPL_CAT(nl_, VERIF_TMPL)
#define TMPL_SHAPE TMPL_CAT(SHAPE_, VERIF_TMPL)

/* ---- catalogue: shape, spec, defined domain ---- */
#define SH_BIN_INT 1    /* (int64, int64) -> int64 */
#define SH_UN_INT 2     /* int64 -> int64 */
#define SH_CMP 3        /* (int64, int64) -> bool */
#define SH_BIN_BOOL 4   /* (bool, bool) -> bool */
#define SH_UN_BOOL 5    /* bool -> bool */
#define SH_STRCMP 6     /* (const char*, const char*) -> bool : string == / != by content */
#define SH_BIN_F 7      /* (double, double) -> double */
#define SH_CMP_F 8      /* (double, double) -> bool */
#define SH_AT 10        /* (DynArray*, int64) -> T */
#define SH_SET 11       /* (DynArray*, int64, T) -> int64 */
#define SH_POP 12       /* DynArray* -> T */
#define SH_LEN 13       /* DynArray* -> int64 */
#define SH_REMOVE 14    /* (DynArray*, int64) -> DynArray* */

#define SHAPE_addi SH_BIN_INT
#define SHAPE_subi SH_BIN_INT
#define SHAPE_muli SH_BIN_INT
#define SHAPE_divi SH_BIN_INT
#define SHAPE_modi SH_BIN_INT
#define SHAPE_negi SH_UN_INT
#define SHAPE_eqi SH_CMP
#define SHAPE_nei SH_CMP
#define SHAPE_lti SH_CMP
#define SHAPE_lei SH_CMP
#define SHAPE_gti SH_CMP
#define SHAPE_gei SH_CMP
#define SHAPE_andb SH_BIN_BOOL
#define SHAPE_orb SH_BIN_BOOL
#define SHAPE_notb SH_UN_BOOL
#define SHAPE_streq SH_STRCMP
#define SHAPE_strne SH_STRCMP
#define SHAPE_addf SH_BIN_F
#define SHAPE_subf SH_BIN_F
#define SHAPE_mulf SH_BIN_F
#define SHAPE_divf SH_BIN_F
#define SHAPE_eqf SH_CMP_F
#define SHAPE_nef SH_CMP_F
#define SHAPE_ltf SH_CMP_F
#define SHAPE_lef SH_CMP_F
#define SHAPE_gtf SH_CMP_F
#define SHAPE_gef SH_CMP_F
#define SHAPE_at_int SH_AT
#define SHAPE_at_float SH_AT
#define SHAPE_at_string SH_AT
#define SHAPE_at_bool SH_AT
#define SHAPE_set_int SH_SET
#define SHAPE_set_float SH_SET
#define SHAPE_set_string SH_SET
#define SHAPE_pop_int SH_POP
#define SHAPE_pop_float SH_POP
#define SHAPE_pop_string SH_POP
#define SHAPE_len_int SH_LEN
#define SHAPE_remove_int SH_REMOVE

/* spec (contracts/spec_int.h; comparisons and logic are the C operators on the full-width operands, as in harness/vm_step_h.c h_c02) */
#define SPEC_addi(a, b) spec_add(a, b)
#define SPEC_subi(a, b) spec_sub(a, b)
#define SPEC_muli(a, b) spec_mul(a, b)
#define SPEC_divi(a, b) spec_div_vm(a, b)      /* == the native spec wherever the native engine is defined (b != 0) */
#define SPEC_modi(a, b) spec_mod_vm(a, b)
#define SPEC_negi(a) spec_neg(a)
#define SPEC_eqi(a, b) ((a) == (b))
#define SPEC_nei(a, b) ((a) != (b))
#define SPEC_lti(a, b) ((a) < (b))
#define SPEC_lei(a, b) ((a) <= (b))
#define SPEC_gti(a, b) ((a) > (b))
#define SPEC_gei(a, b) ((a) >= (b))
#define SPEC_andb(a, b) ((a) && (b))
#define SPEC_orb(a, b) ((a) || (b))
#define SPEC_notb(a) (!(a))
/* strings: content equality (contracts/spec_str.h); floats: the C double operation on (a, b) in that order */
#define SPEC_streq(a, b) spec_streq(a, b)
#define SPEC_strne(a, b) (!spec_streq(a, b))
#define SPEC_addf(a, b) ((a) + (b))
#define SPEC_subf(a, b) ((a) - (b))
#define SPEC_mulf(a, b) ((a) * (b))
#define SPEC_divf(a, b) ((a) / (b))
#define SPEC_eqf(a, b) ((a) == (b))
#define SPEC_nef(a, b) ((a) != (b))
#define SPEC_ltf(a, b) ((a) < (b))
#define SPEC_lef(a, b) ((a) <= (b))
#define SPEC_gtf(a, b) ((a) > (b))
#define SPEC_gef(a, b) ((a) >= (b))
#define TMPL_SPEC TMPL_CAT(SPEC_, VERIF_TMPL)

/* corner cases on the full domain for the operators whose generic value needs two 64-bit multipliers / dividers compared
 * (same split and same clauses as C02.vm.MUL/DIV/MOD, minus the b == 0 rows: outside the native engine's domain) */
#define CORNER_muli(r, a, b) (((a) != 0 || (r) == 0) && ((b) != 0 || (r) == 0) && ((a) != 1 || (r) == (b)) && ((b) != 1 || (r) == (a)) && \
                              ((a) != -1 || (r) == spec_neg(b)) && ((b) != -1 || (r) == spec_neg(a)) && (((r) & 1) == (((a) & 1) & ((b) & 1))))
#define CORNER_divi(r, a, b) (((b) != 1 || (r) == (a)) && ((b) != -1 || (r) == spec_neg(a)) && ((a) != 0 || (r) == 0) && ((a) != (b) || (r) == 1) && \
                              (((a) >= 0) != ((b) >= 0) || (r) >= 0) && (((a) > 0) != ((b) < 0) || (r) <= 0) /* sign of a truncating quotient */)
#define CORNER_modi(r, a, b) (((b) != 1 || (r) == 0) && ((b) != -1 || (r) == 0) && ((a) != 0 || (r) == 0) && ((a) != (b) || (r) == 0) && \
                              ((a) < 0 || (r) >= 0) && ((a) > 0 || (r) <= 0) /* a remainder has the sign of the dividend */ && \
                              ((b) <= 0 || ((r) < (b) && (r) > -(b))) /* |r| < |b| */)
#define CORNER_addi(r, a, b) 1
#define CORNER_subi(r, a, b) 1
#define TMPL_CORNER TMPL_CAT(CORNER_, VERIF_TMPL)

/* the language's defined domain: a zero divisor is an undefined partial operation (C01 statement; the native engine faults).
 * Value / corner modes of divi, modi additionally leave out the single point (INT64_MIN, -1): the spec (and the VM, C02.vm.DIV/MOD)
 * say INT64_MIN resp. 0 there, the generated `a / b` overflows - that point is carried by C20.tmpl.ub.divi / .modi, which fail. */
#define ISDIV_addi 0
#define ISDIV_subi 0
#define ISDIV_muli 0
#define ISDIV_divi 1
#define ISDIV_modi 1
#define TMPL_ISDIV TMPL_CAT(ISDIV_, VERIF_TMPL)
#if VERIF_MODE == M_UB
#define TMPL_DOM2(a, b) (!TMPL_ISDIV || (b) != 0)
#else
#define TMPL_DOM2(a, b) (!TMPL_ISDIV || ((b) != 0 && !((a) == INT64_MIN && (b) == -1)))
#endif
#ifdef VERIF_SMALL
#define TMPL_SMALL(x) ((x) >= -128 && (x) <= 127)
#else
#define TMPL_SMALL(x) 1
#endif

/* what the generated function must satisfy, by mode */
#if VERIF_MODE == M_VALUE
#define POST2(r, a, b) ((r) == TMPL_SPEC(a, b))
#define POST1(r, a) ((r) == TMPL_SPEC(a))
#define POSTF(r, a, b) (spec_f64_bits(r) == spec_f64_bits(TMPL_SPEC(a, b)))     /* bit pattern: signed zeros, infinities, NaNs included */
#elif VERIF_MODE == M_CORNER
#define POST2(r, a, b) TMPL_CORNER(r, a, b)
#define POST1(r, a) 1
/* float * and /: facts on the FULL domain that pin the operation and the operand order (the bounded value obligation carries the
 * generic product / quotient): neutral element by bit pattern, sign rule, x/x, x/inf, 0*x */
#define F_SIGN(x) (spec_f64_bits(x) >> 63)
#define F_NAN(x) ((x) != (x))
#define F_FIN(x) (!F_NAN(x) && (x) != __builtin_inf() && (x) != -__builtin_inf())
#define CORNERF_mulf(r, a, b) ((F_NAN(a) || (b) != 1.0 || spec_f64_bits(r) == spec_f64_bits(a)) && (F_NAN(b) || (a) != 1.0 || spec_f64_bits(r) == spec_f64_bits(b)) && \
                               (F_NAN(r) || F_SIGN(r) == (F_SIGN(a) ^ F_SIGN(b))) && (!F_FIN(b) || (a) != 0.0 || (r) == 0.0))
/* (b == 1.0 => r == a  and  a / a == 1.0  need the divider itself: > 150 s; left to the bounded value obligation) */
#define CORNERF_divf(r, a, b) ((F_NAN(r) || F_SIGN(r) == (F_SIGN(a) ^ F_SIGN(b))) && (!F_FIN(a) || F_NAN(b) || F_FIN(b) || (r) == 0.0) /* x / inf */ && \
                               (F_NAN(a) || F_FIN(a) || !F_FIN(b) || (F_NAN(r) == 0 && !F_FIN(r))) /* inf / y */ && \
                               (!F_FIN(a) || (a) == 0.0 || (b) != 0.0 || (!F_NAN(r) && !F_FIN(r))) /* x / 0 */ && \
                               ((a) != 0.0 || F_NAN(b) || (b) == 0.0 || (r) == 0.0) /* 0 / y */)
#define CORNERF_addf(r, a, b) 1
#define CORNERF_subf(r, a, b) 1
#define POSTF(r, a, b) TMPL_CAT(CORNERF_, VERIF_TMPL)(r, a, b)
#else
#define POST2(r, a, b) 1
#define POST1(r, a) 1
#endif
#ifndef POSTF
#define POSTF(r, a, b) 1
#endif
/* a string argument: a NUL-terminated string of length <= SPEC_STRMAX, arbitrary bytes, in its own buffer */
#define TMPL_STR_OK(p) (VERIF_FRESH(p, SPEC_STRMAX + 1) && (p)[SPEC_STRMAX] == 0)

/* ---- ghost state of the unit: ONE struct ---- */
struct tmpl_ghost {
    int calls;                 /* runtime accessor calls seen */
    const void *arr;           /* ... with this array */
    int64_t index;             /* ... this index (the callee's own int64_t parameter: a narrowing before the call shows here) */
    int64_t ival; double fval; const void *pval;   /* ... this value (by kind) */
    int flag_ok;               /* pop: a non-NULL success flag was passed */
    int exited, exit_status;   /* exit() reached */
};
struct tmpl_ghost __verif_t;
/* ghost INPUTS: what the runtime accessor returns; extern without definition = arbitrary, never assigned */
extern int64_t __verif_ret_i;
extern double __verif_ret_d;
extern char *__verif_ret_s;
extern bool __verif_ret_b;
extern DynArray *__verif_ret_a;
extern bool __verif_pop_ok;

void exit(int status)
{
    __verif_t.exited = 1; __verif_t.exit_status = status;
#ifdef VERIF_EXIT_COVER
    VERIF_COVER(status != 0 /* the empty-array branch ends the run with a non-zero status */);
#endif
    __CPROVER_assume(0);
}

/* ---- stub bodies of the runtime accessors (prototypes: the real runtime/dyn_array.h) ---- */
#define STUB_REC(a, i) do { __verif_t.calls++; __verif_t.arr = (a); __verif_t.index = (i); } while (0)
int64_t dyn_array_get_int(DynArray *arr, int64_t index) { STUB_REC(arr, index); return __verif_ret_i; }
double dyn_array_get_float(DynArray *arr, int64_t index) { STUB_REC(arr, index); return __verif_ret_d; }
char *dyn_array_get_string(DynArray *arr, int64_t index) { STUB_REC(arr, index); return __verif_ret_s; }
bool dyn_array_get_bool(DynArray *arr, int64_t index) { STUB_REC(arr, index); return __verif_ret_b ? true : false; }
void dyn_array_set_int(DynArray *arr, int64_t index, int64_t value) { STUB_REC(arr, index); __verif_t.ival = value; }
void dyn_array_set_float(DynArray *arr, int64_t index, double value) { STUB_REC(arr, index); __verif_t.fval = value; }
void dyn_array_set_string(DynArray *arr, int64_t index, const char *value) { STUB_REC(arr, index); __verif_t.pval = value; }
#define STUB_POP(success) do { __verif_t.flag_ok = ((success) != NULL); if (success) *(success) = __verif_pop_ok ? true : false; } while (0)
int64_t dyn_array_pop_int(DynArray *arr, bool *success) { STUB_REC(arr, 0); STUB_POP(success); return __verif_ret_i; }
double dyn_array_pop_float(DynArray *arr, bool *success) { STUB_REC(arr, 0); STUB_POP(success); return __verif_ret_d; }
const char *dyn_array_pop_string(DynArray *arr, bool *success) { STUB_REC(arr, 0); STUB_POP(success); return __verif_ret_s; }
int64_t dyn_array_length(DynArray *arr) { STUB_REC(arr, 0); return __verif_ret_i; }
DynArray *dyn_array_remove_at(DynArray *arr, int64_t index) { STUB_REC(arr, index); return __verif_ret_a; }

/* element type of the accessor templates */
#define ET_at_int int64_t
#define ET_at_float double
#define ET_at_string const char *
#define ET_at_bool bool
#define ET_set_int int64_t
#define ET_set_float double
#define ET_set_string const char *
#define ET_pop_int int64_t
#define ET_pop_float double
#define ET_pop_string const char *
#define TMPL_ET TMPL_CAT(ET_, VERIF_TMPL)
/* "the callee's result is what comes back" / "the user's value is what goes in", by kind (doubles: equal, or both NaN) */
#define SAME_D(x, y) ((x) == (y) || ((x) != (x) && (y) != (y)))
#define RET_at_int(r) ((r) == __verif_ret_i)
#define RET_at_float(r) SAME_D(r, __verif_ret_d)
#define RET_at_string(r) ((r) == (const char *)__verif_ret_s)
#define RET_at_bool(r) ((r) == (__verif_ret_b ? true : false))
#define RET_pop_int(r) RET_at_int(r)
#define RET_pop_float(r) RET_at_float(r)
#define RET_pop_string(r) RET_at_string(r)
#define TMPL_RET TMPL_CAT(RET_, VERIF_TMPL)
#define VAL_set_int(v) (__verif_t.ival == (v))
#define VAL_set_float(v) SAME_D(__verif_t.fval, v)
#define VAL_set_string(v) (__verif_t.pval == (const void *)(v))
#define TMPL_VAL TMPL_CAT(VAL_, VERIF_TMPL)

#if VERIF_MODE == M_PASS
#define PASS(c) (c)
#else
#define PASS(c) 1
#endif
#define CALLED_ONCE_WITH(a, i) (__verif_t.calls == 1 && __verif_t.arr == (const void *)(a) && __verif_t.index == (i))

/* libc string functions the generated helpers may call and CBMC 6.11 has NO library model for (a bodiless callee is
 * `assert(false)` under --dfcc, which would refute an obligation for a reason that is not the property): POSIX.1-2008 definition
 * as a body - an ASSUMED contract of a dependency.  strcmp / strncmp / strlen are CBMC's own models. */
#if TMPL_SHAPE == SH_STRCMP
size_t strnlen(const char *s, size_t maxlen)
{
    size_t n = 0;
    while (n < maxlen && s[n] != 0) n++;
    return n;
}
#endif

/* ---- contracts, on forward declarations BEFORE the generated text is brought in ---- */
#if TMPL_SHAPE == SH_BIN_INT
static int64_t TMPL_FN(int64_t a, int64_t b)
__CPROVER_requires(TMPL_DOM2(a, b) && TMPL_SMALL(a) && TMPL_SMALL(b))
__CPROVER_assigns()
__CPROVER_ensures(POST2(__CPROVER_return_value, a, b));
#elif TMPL_SHAPE == SH_UN_INT
static int64_t TMPL_FN(int64_t a)
__CPROVER_requires(1)
__CPROVER_assigns()
__CPROVER_ensures(POST1(__CPROVER_return_value, a));
#elif TMPL_SHAPE == SH_CMP
static bool TMPL_FN(int64_t a, int64_t b)
__CPROVER_requires(1)
__CPROVER_assigns()
__CPROVER_ensures(POST2(__CPROVER_return_value, a, b));
#elif TMPL_SHAPE == SH_BIN_BOOL
static bool TMPL_FN(bool a, bool b)
__CPROVER_requires(1)
__CPROVER_assigns()
__CPROVER_ensures(POST2(__CPROVER_return_value, a, b));
#elif TMPL_SHAPE == SH_UN_BOOL
static bool TMPL_FN(bool a)
__CPROVER_requires(1)
__CPROVER_assigns()
__CPROVER_ensures(POST1(__CPROVER_return_value, a));
#elif TMPL_SHAPE == SH_STRCMP
static bool TMPL_FN(const char *a, const char *b)
__CPROVER_requires(TMPL_STR_OK(a) && TMPL_STR_OK(b))
__CPROVER_assigns()
__CPROVER_ensures(POST2(__CPROVER_return_value, a, b));
#elif TMPL_SHAPE == SH_BIN_F
/* -DVERIF_FMASK=<k>: bounded stand-in for * and / (two 53-bit multipliers / dividers compared do not close on the full domain):
 * operands whose encoding has its k low mantissa bits zero - every sign, every exponent, zeros, subnormals, infinities, NaNs,
 * 52-k significant fraction bits */
#ifdef VERIF_FMASK
#define TMPL_FDOM(x) ((spec_f64_bits(x) & ((((uint64_t)1) << (VERIF_FMASK)) - 1)) == 0)
#else
#define TMPL_FDOM(x) 1
#endif
static double TMPL_FN(double a, double b)
__CPROVER_requires(TMPL_FDOM(a) && TMPL_FDOM(b))
__CPROVER_assigns()
__CPROVER_ensures(POSTF(__CPROVER_return_value, a, b));
#elif TMPL_SHAPE == SH_CMP_F
static bool TMPL_FN(double a, double b)
__CPROVER_requires(1)
__CPROVER_assigns()
__CPROVER_ensures(POST2(__CPROVER_return_value, a, b));
#elif TMPL_SHAPE == SH_AT
static TMPL_ET TMPL_FN(DynArray *xs, int64_t i)
__CPROVER_requires(__verif_t.calls == 0 && __verif_t.exited == 0)
__CPROVER_assigns(__verif_t)
__CPROVER_ensures(PASS(CALLED_ONCE_WITH(xs, i)))
__CPROVER_ensures(PASS(TMPL_RET(__CPROVER_return_value)))
__CPROVER_ensures(__verif_t.exited == 0);
#elif TMPL_SHAPE == SH_SET
static int64_t TMPL_FN(DynArray *xs, int64_t i, TMPL_ET v)
__CPROVER_requires(__verif_t.calls == 0 && __verif_t.exited == 0)
__CPROVER_assigns(__verif_t)
__CPROVER_ensures(PASS(CALLED_ONCE_WITH(xs, i)))
__CPROVER_ensures(PASS(TMPL_VAL(v)))
__CPROVER_ensures(__verif_t.exited == 0);
#elif TMPL_SHAPE == SH_POP
/* reaching the return means: the runtime was asked once, with a flag, and did not report an empty array */
static TMPL_ET TMPL_FN(DynArray *xs)
__CPROVER_requires(__verif_t.calls == 0 && __verif_t.exited == 0)
__CPROVER_assigns(__verif_t)
__CPROVER_ensures(PASS(CALLED_ONCE_WITH(xs, 0) && __verif_t.flag_ok))
__CPROVER_ensures(PASS(__verif_pop_ok))
__CPROVER_ensures(PASS(TMPL_RET(__CPROVER_return_value)))
__CPROVER_ensures(__verif_t.exited == 0);
#elif TMPL_SHAPE == SH_LEN
static int64_t TMPL_FN(DynArray *xs)
__CPROVER_requires(__verif_t.calls == 0 && __verif_t.exited == 0)
__CPROVER_assigns(__verif_t)
__CPROVER_ensures(PASS(CALLED_ONCE_WITH(xs, 0) && __CPROVER_return_value == __verif_ret_i))
__CPROVER_ensures(__verif_t.exited == 0);
#elif TMPL_SHAPE == SH_REMOVE
static DynArray *TMPL_FN(DynArray *xs, int64_t i)
__CPROVER_requires(__verif_t.calls == 0 && __verif_t.exited == 0)
__CPROVER_assigns(__verif_t)
__CPROVER_ensures(PASS(CALLED_ONCE_WITH(xs, i) && __CPROVER_return_value == __verif_ret_a))
__CPROVER_ensures(__verif_t.exited == 0);
#else
#error "harness/tmpl_h.c: VERIF_TMPL is not a template of the catalogue"
#endif

/* ---- the generated text, verbatim ---- */
#if VERIF_MODE == M_UB && TMPL_CC_FWRAPV && (TMPL_SHAPE == SH_BIN_INT || TMPL_SHAPE == SH_UN_INT)
/* the driver passes -fwrapv: + - * and unary - wrap BY DEFINITION of the dialect cc is told to compile.  Division is not
 * covered by -fwrapv (INT64_MIN / -1 still traps): divi / modi keep the check. */
#define TMPL_WRAP_DEFINED (!TMPL_ISDIV_OR_0)
#else
#define TMPL_WRAP_DEFINED 0
#endif
#if TMPL_SHAPE == SH_BIN_INT
#define TMPL_ISDIV_OR_0 TMPL_ISDIV
#else
#define TMPL_ISDIV_OR_0 0
#endif
#if TMPL_WRAP_DEFINED
#pragma CPROVER check push
#pragma CPROVER check disable "signed-overflow"
#endif
#include TMPL_STR(VERIF_TMPL.c)
#if TMPL_WRAP_DEFINED
#pragma CPROVER check pop
#endif

/* ---- entries: uninitialised locals = arbitrary arguments (witness mode: named in_* globals) ---- */
int64_t in_a, in_b, in_i, in_v;
struct tmpl_str { char b[SPEC_STRMAX + 1]; } in_sa, in_sb;     /* witness mode: the two strings (last byte forced to NUL) */
#ifdef VERIF_WITNESS
#define WIT(stmt) stmt
#else
#define WIT(stmt)
#endif

void h_tmpl(void)
{
#if VERIF_MODE == M_UB && (TMPL_SHAPE == SH_BIN_INT || TMPL_SHAPE == SH_UN_INT)
    /* the check this obligation exists for must be present (registry: must_have "overflow") - or be switched off for the stated reason */
#if TMPL_WRAP_DEFINED
    __CPROVER_assert(1, "TMPL signed overflow of + - * unary- is defined as wrapping: the driver passes -fwrapv to cc");
#else
    __CPROVER_assert(1, "TMPL signed-overflow checks apply to the generated text (no -fwrapv on the driver's cc command line, or a division)");
#endif
#endif
#if TMPL_SHAPE == SH_BIN_INT
    int64_t a, b;
    WIT(in_a = nondet_i64(); in_b = nondet_i64(); a = in_a; b = in_b;)
    int64_t r = TMPL_FN(a, b);
#ifdef VERIF_SMALL
    VERIF_COVER(a > 100 && b < -100);
#else
    VERIF_COVER(a > ((int64_t)1 << 40) && b < -((int64_t)1 << 40));
#endif
    VERIF_COVER(a < 0 && b > 1);
#if VERIF_MODE != M_UB
    VERIF_COVER(r != 0 && r != a && r != b);
#if !defined(VERIF_SMALL)
    VERIF_COVER(a == INT64_MIN);
#endif
#endif
#elif TMPL_SHAPE == SH_UN_INT
    int64_t a;
    WIT(in_a = nondet_i64(); a = in_a;)
    int64_t r = TMPL_FN(a);
    VERIF_COVER(a > 1000);
    VERIF_COVER(r > 1000);
#elif TMPL_SHAPE == SH_CMP
    int64_t a, b;
    WIT(in_a = nondet_i64(); in_b = nondet_i64(); a = in_a; b = in_b;)
    bool r = TMPL_FN(a, b);
    VERIF_COVER(r && a > ((int64_t)1 << 40));
    VERIF_COVER(!r && b < -((int64_t)1 << 40));
#elif TMPL_SHAPE == SH_BIN_BOOL
    bool a, b;
    WIT(in_a = nondet_i64(); in_b = nondet_i64(); a = in_a & 1; b = in_b & 1;)
    a = a ? true : false; b = b ? true : false;      /* a C bool object holds 0 or 1 */
    bool r = TMPL_FN(a, b);
    VERIF_COVER(r);
    VERIF_COVER(!r);
    VERIF_COVER(a != b);
#elif TMPL_SHAPE == SH_UN_BOOL
    bool a;
    WIT(in_a = nondet_i64(); a = in_a & 1;)
    a = a ? true : false;
    bool r = TMPL_FN(a);
    VERIF_COVER(r);
    VERIF_COVER(!r);
#elif TMPL_SHAPE == SH_STRCMP
    const char *a, *b;
#ifdef VERIF_WITNESS
    for (int k = 0; k < SPEC_STRMAX; k++) { in_sa.b[k] = (char)nondet_u8(); in_sb.b[k] = (char)nondet_u8(); }
    in_sa.b[SPEC_STRMAX] = 0; in_sb.b[SPEC_STRMAX] = 0; a = in_sa.b; b = in_sb.b;
#endif
    bool r = TMPL_FN(a, b);
    VERIF_COVER(r);
    VERIF_COVER(!r);
#elif TMPL_SHAPE == SH_BIN_F
    double a, b;
#ifdef VERIF_WITNESS
    in_a = nondet_i64(); in_b = nondet_i64(); memcpy(&a, &in_a, 8); memcpy(&b, &in_b, 8);     /* named inputs = bit patterns */
#endif
    double r = TMPL_FN(a, b);
    VERIF_COVER(r > 1.0);
    VERIF_COVER(r != r /* NaN results are inside the domain */);
    VERIF_COVER(a != a);
#elif TMPL_SHAPE == SH_CMP_F
    double a, b;
#ifdef VERIF_WITNESS
    in_a = nondet_i64(); in_b = nondet_i64(); memcpy(&a, &in_a, 8); memcpy(&b, &in_b, 8);
#endif
    bool r = TMPL_FN(a, b);
    VERIF_COVER(r && a > 1.0);
    VERIF_COVER(!r && b < -1.0);
    VERIF_COVER(a != a);
#elif TMPL_SHAPE == SH_AT
    DynArray *xs; int64_t i;
    WIT(in_i = nondet_i64(); i = in_i;)
    TMPL_ET r = TMPL_FN(xs, i);
    (void)r;
    VERIF_COVER(i > ((int64_t)1 << 32) /* an index beyond 32 bits reaches the runtime */);
    VERIF_COVER(i < 0);
    VERIF_COVER(__verif_t.calls == 1);
#elif TMPL_SHAPE == SH_SET
    DynArray *xs; int64_t i; TMPL_ET v;
    WIT(in_i = nondet_i64(); i = in_i;)
    int64_t r = TMPL_FN(xs, i, v);
    (void)r;
    VERIF_COVER(i > ((int64_t)1 << 32));
    VERIF_COVER(i < 0);
    VERIF_COVER(__verif_t.calls == 1);
#elif TMPL_SHAPE == SH_POP
    DynArray *xs;
    WIT(in_i = nondet_i64(); __verif_pop_ok = (in_i & 1) != 0;)     /* named input: what the runtime reports */
    TMPL_ET r = TMPL_FN(xs);
    (void)r;
    VERIF_COVER(__verif_t.calls == 1 /* returned: the array was not empty */);
#elif TMPL_SHAPE == SH_LEN
    DynArray *xs;
    WIT(in_i = nondet_i64(); __verif_ret_i = in_i;)                 /* named input: what the runtime returns */
    int64_t r = TMPL_FN(xs);
    VERIF_COVER(r > ((int64_t)1 << 32));
#elif TMPL_SHAPE == SH_REMOVE
    DynArray *xs; int64_t i;
    WIT(in_i = nondet_i64(); i = in_i;)
    DynArray *r = TMPL_FN(xs, i);
    (void)r;
    VERIF_COVER(i > ((int64_t)1 << 32));
    VERIF_COVER(i < 0);
#endif
}
