/* C11 harness TU: contracts on forward declarations, then the real
 * /repo/src/nanoisa/isa.c included verbatim (route 2 of DESIGN 3.1).
 * Compile with -I/repo/src -I/verif/contracts -DVERIF_K=<opcode byte>.
 */
#include "verif_common.h"
#include <string.h>
#include "nanoisa/isa.h"

#ifndef VERIF_K
#define VERIF_K 0
#endif
#define KK ((uint8_t)VERIF_K)

static const InstructionInfo instruction_table[256];
#include "spec_isa.h"

#define MINSZ(a, b) ((a) < (b) ? (a) : (b))


/* ---- contracts on the static little-endian helpers ---- */
static void write_u16(uint8_t *buf, uint16_t val)
__CPROVER_requires(__CPROVER_is_fresh(buf, 2))
__CPROVER_assigns(__CPROVER_object_whole(buf))
__CPROVER_ensures(spec_le(buf, 2) == val);

static void write_u32(uint8_t *buf, uint32_t val)
__CPROVER_requires(__CPROVER_is_fresh(buf, 4))
__CPROVER_assigns(__CPROVER_object_whole(buf))
__CPROVER_ensures(spec_le(buf, 4) == val);

static void write_i32(uint8_t *buf, int32_t val)
__CPROVER_requires(__CPROVER_is_fresh(buf, 4))
__CPROVER_assigns(__CPROVER_object_whole(buf))
__CPROVER_ensures(spec_le(buf, 4) == (uint32_t)val);

static void write_i64(uint8_t *buf, int64_t val)
__CPROVER_requires(__CPROVER_is_fresh(buf, 8))
__CPROVER_assigns(__CPROVER_object_whole(buf))
__CPROVER_ensures(spec_le(buf, 8) == (uint64_t)val);

static void write_f64(uint8_t *buf, double val)
__CPROVER_requires(__CPROVER_is_fresh(buf, 8))
__CPROVER_assigns(__CPROVER_object_whole(buf))
__CPROVER_ensures(spec_le(buf, 8) == *(uint64_t *)&val);

static uint16_t read_u16(const uint8_t *buf)
__CPROVER_requires(__CPROVER_is_fresh(buf, 2))
__CPROVER_assigns()
__CPROVER_ensures(__CPROVER_return_value == spec_le(buf, 2));

static uint32_t read_u32(const uint8_t *buf)
__CPROVER_requires(__CPROVER_is_fresh(buf, 4))
__CPROVER_assigns()
__CPROVER_ensures(__CPROVER_return_value == spec_le(buf, 4));

static int32_t read_i32(const uint8_t *buf)
__CPROVER_requires(__CPROVER_is_fresh(buf, 4))
__CPROVER_assigns()
__CPROVER_ensures((uint32_t)__CPROVER_return_value == spec_le(buf, 4));

static int64_t read_i64(const uint8_t *buf)
__CPROVER_requires(__CPROVER_is_fresh(buf, 8))
__CPROVER_assigns()
__CPROVER_ensures((uint64_t)__CPROVER_return_value == spec_le(buf, 8));

static double read_f64(const uint8_t *buf)
__CPROVER_requires(__CPROVER_is_fresh(buf, 8))
__CPROVER_assigns()
__CPROVER_ensures(*(uint64_t *)&__CPROVER_return_value == spec_le(buf, 8));

/* ---- contracts of the public codec, instantiated for opcode byte KK ---- */
#define ISA_KK_ENC KK
#define ISA_KK_DEC KK
#define ISA_REQ_ENC (instr->opcode == KK)
#define ISA_REQ_DEC (buf_size == 0 || buf[0] == KK)
#define ISA_PTR_R(p, n) VERIF_FRESH(p, n)
#define ISA_PTR_W(p, n) VERIF_FRESH(p, n)
#define ISA_PTR_R1(p, n) 1
#define ISA_SEP(p, q) 1   /* is_fresh already makes the objects distinct */
#define ISA_ASSIGNS_ENC __CPROVER_object_whole(buf)   /* the object IS buf[0..min(buf_size,len)) */
#include "isa_contracts.h"

/* ===================== the real code, verbatim ===================== */
#include "nanoisa/isa.c"
/* =================================================================== */

struct verif_ghost __verif_g;

/* inputs as named globals so that traces give them by name (DESIGN 3.6) */
DecodedInstruction in_instr;
size_t in_buf_size;
struct in_bytes_s { uint8_t b[ISA_MAX_INSTRUCTION_SIZE]; } in_bytes;
DecodedInstruction nondet_instr(void);
struct in_bytes_s nondet_bytes(void);

/* C11.table.KK : row KK well-formed */
void h_table(void)
{
    const InstructionInfo *row = &instruction_table[KK];
    const InstructionInfo *got = isa_get_info(KK);
    __CPROVER_assert((got == NULL) == (row->name == NULL), "C11.table get_info NULL iff undefined");
    if (row->name == NULL) {
        __CPROVER_assert(row->opcode == 0 && row->operand_count == 0, "C11.table undefined row is all-zero");
    } else {
        __CPROVER_assert(got == row, "C11.table get_info returns row");
        __CPROVER_assert(row->opcode == KK, "C11.table row.opcode == index");
        __CPROVER_assert(row->operand_count <= 3, "C11.table operand_count <= 3");
        for (int i = 0; i < MAX_OPERANDS; i++) {
            if (i >= row->operand_count)
                __CPROVER_assert(row->operands[i] == OPERAND_NONE, "C11.table unused slot is NONE");
            else
                __CPROVER_assert(row->operands[i] >= OPERAND_U8 && row->operands[i] <= OPERAND_F64,
                                 "C11.table used slot has a real operand type");
        }
        __CPROVER_assert(spec_len(KK) <= ISA_MAX_INSTRUCTION_SIZE, "C11.table fits ISA_MAX_INSTRUCTION_SIZE");
    }
    VERIF_COVER(1);
}

/* C11.enc.KK : isa_encode against its contract (enforced) */
void h_enc(void)
{
    const DecodedInstruction *instr; uint8_t *buf; size_t buf_size;
#ifdef VERIF_WITNESS
    in_instr = nondet_instr(); in_buf_size = nondet_size();
    DecodedInstruction *wi = malloc(sizeof(*wi)); __CPROVER_assume(wi); *wi = in_instr;
    instr = wi; buf_size = in_buf_size;
    buf = malloc(MINSZ(buf_size, (size_t)spec_len(KK))); __CPROVER_assume(buf);
#endif
    uint32_t r = isa_encode(instr, buf, buf_size);
    VERIF_COVER(r == 0);
    VERIF_COVER(r != 0 || !SPEC_DEFINED(KK));
}

/* C11.dec.KK : isa_decode against its contract (enforced) */
void h_dec(void)
{
    const uint8_t *buf; size_t buf_size; DecodedInstruction *out;
#ifdef VERIF_WITNESS
    in_bytes = nondet_bytes(); in_buf_size = nondet_size();
    buf_size = in_buf_size;
    size_t wn = MINSZ(buf_size, (size_t)spec_len(KK));
    uint8_t *wb = malloc(wn); __CPROVER_assume(wb);
    memcpy(wb, in_bytes.b, wn);
    buf = wb;
    out = malloc(sizeof(*out)); __CPROVER_assume(out);
#endif
    uint32_t r = isa_decode(buf, buf_size, out);
    VERIF_COVER(r == 0);
    VERIF_COVER(r != 0 || !SPEC_DEFINED(KK));
}

/* C11.rt.enc_dec.KK : decode(encode(i)) == i, both replaced by their contracts */
void h_rt_enc_dec(void)
{
    DecodedInstruction *a = malloc(sizeof(*a));
    DecodedInstruction *b = malloc(sizeof(*b));
    __CPROVER_assume(a && b);
    size_t cap = nondet_size();
    __CPROVER_assume(cap <= ISA_MAX_INSTRUCTION_SIZE);
    size_t alloc = MINSZ(cap, (size_t)spec_len(KK));
    uint8_t *buf = malloc(alloc);
    __CPROVER_assume(buf);
    __CPROVER_assume(a->opcode == KK);
    uint32_t n = isa_encode(a, buf, cap);
    if (n != 0) {
        uint32_t m = isa_decode(buf, n, b);
        __CPROVER_assert(m == n, "C11.rt.enc_dec decode consumes what encode produced");
        __CPROVER_assert(b->opcode == a->opcode, "C11.rt.enc_dec opcode");
        __CPROVER_assert(b->byte_length == n, "C11.rt.enc_dec byte_length");
        for (int i = 0; i < MAX_OPERANDS; i++) {
            if (i < SPEC_ROW(KK).operand_count) {
                OperandType t = SPEC_ROW(KK).operands[i];
                __CPROVER_assert(b->operand_types[i] == t, "C11.rt.enc_dec operand type");
                __CPROVER_assert(spec_bits(b, i, t) == spec_bits(a, i, t), "C11.rt.enc_dec operand bits");
            }
        }
    }
    VERIF_COVER(n != 0 || !SPEC_DEFINED(KK));
    VERIF_COVER(n == 0);
}

/* C11.rt.dec_enc.KK : encode(decode(b)) == b[0..len), both replaced */
void h_rt_dec_enc(void)
{
    size_t size = nondet_size();
    __CPROVER_assume(size <= ISA_MAX_INSTRUCTION_SIZE);
    size_t alloc = MINSZ(size, (size_t)spec_len(KK));
    uint8_t *src = malloc(alloc);
    uint8_t *dst = malloc(spec_len(KK));
    DecodedInstruction *d = malloc(sizeof(*d));
    __CPROVER_assume(src && dst && d);
    __CPROVER_assume(size == 0 || src[0] == KK);
    uint32_t n = isa_decode(src, size, d);
    if (n != 0) {
        __CPROVER_assume(d->opcode == KK);       /* follows from spec_decoded_ok; stated for replace-mode requires */
        uint32_t m = isa_encode(d, dst, n);
        __CPROVER_assert(m == n, "C11.rt.dec_enc same length");
        for (uint32_t j = 0; j < ISA_MAX_INSTRUCTION_SIZE; j++)
            if (j < n)
                __CPROVER_assert(dst[j] == src[j], "C11.rt.dec_enc same bytes");
    }
    VERIF_COVER(n != 0 || !SPEC_DEFINED(KK));
    VERIF_COVER(n == 0);
}

/* C11.name.KK : name lookup inverts the table */
void h_name(void)
{
    if (instruction_table[KK].name != NULL) {
        int r = isa_opcode_by_name(instruction_table[KK].name);
        __CPROVER_assert(r == (int)KK, "C11.name opcode_by_name(info(KK)->name) == KK");
    }
}

/* C11.le.* : each helper against its contract */
void h_le_w16(void){ uint8_t *b; uint16_t v; write_u16(b, v); }
void h_le_w32(void){ uint8_t *b; uint32_t v; write_u32(b, v); }
void h_le_wi32(void){ uint8_t *b; int32_t v; write_i32(b, v); }
void h_le_wi64(void){ uint8_t *b; int64_t v; write_i64(b, v); }
void h_le_wf64(void){ uint8_t *b; double v; write_f64(b, v); }
void h_le_r16(void){ uint8_t *b; read_u16(b); }
void h_le_r32(void){ uint8_t *b; read_u32(b); }
void h_le_ri32(void){ uint8_t *b; read_i32(b); }
void h_le_ri64(void){ uint8_t *b; read_i64(b); }
void h_le_rf64(void){ uint8_t *b; read_f64(b); }

/* C19.enc.K : 2-safety by self-composition of the REAL isa_encode - two instructions that agree on the opcode and on the
 * operand fields the table row names (as bit patterns), and are arbitrary in everything else (operand_count, operand_types,
 * byte_length, unused operand slots, union padding), encode to identical lengths and bytes: the output depends on nothing
 * but the declared content. */
void h_det_enc(void)
{
    DecodedInstruction *a = malloc(sizeof(*a)), *b = malloc(sizeof(*b));
    __CPROVER_assume(a && b);
    __CPROVER_assume(a->opcode == KK && b->opcode == KK);
    for (int i = 0; i < MAX_OPERANDS; i++)
        if (i < SPEC_ROW(KK).operand_count)
            __CPROVER_assume(spec_bits(a, i, SPEC_ROW(KK).operands[i]) == spec_bits(b, i, SPEC_ROW(KK).operands[i]));
    size_t cap = nondet_size();
    __CPROVER_assume(cap <= ISA_MAX_INSTRUCTION_SIZE);
    uint8_t *ba = malloc(ISA_MAX_INSTRUCTION_SIZE), *bb = malloc(ISA_MAX_INSTRUCTION_SIZE);
    __CPROVER_assume(ba && bb);
    uint32_t na = isa_encode(a, ba, cap), nb = isa_encode(b, bb, cap);
    __CPROVER_assert(na == nb, "C19.enc same length");
    for (uint32_t j = 0; j < ISA_MAX_INSTRUCTION_SIZE; j++)
        if (j < na) __CPROVER_assert(ba[j] == bb[j], "C19.enc same bytes");
    VERIF_COVER(na != 0 || !SPEC_DEFINED(KK));
    VERIF_COVER(na == 0);
}
