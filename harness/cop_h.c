/* C15 / C16 harness TU for the FFI co-process protocol.
 * Contracts on forward declarations (cop_contracts.h), then the real
 * /repo/src/nanovm/cop_protocol.c included verbatim (static read_all/write_all).
 * Compile with one of -DCOP_VIEW_SCALAR -DVERIF_TAG=k | -DCOP_VIEW_STRING | -DCOP_VIEW_OTHER |
 *                     -DCOP_VIEW_SAFE -DCOP_SAFE_CLASS=c | -DCOP_VIEW_IO
 */
#include "cop_contracts.h"
#include <string.h>
#include <stdlib.h>
#include <errno.h>
#include <unistd.h>

struct verif_cop_ghost __verif_cop;
uint32_t __verif_cop_k, __verif_cop_slen;

/* ===================== the real code, verbatim ===================== */
#include "nanovm/cop_protocol.c"
/* =================================================================== */

/* inputs as named globals so that traces give them by name (DESIGN 3.6) */
uint64_t in_bits;            /* payload bits of the value */
uint32_t in_buf_size, in_slen;
struct in_bytes_s { uint8_t b[32]; } in_bytes;
struct in_bytes_s nondet_bytes(void);

#if defined(COP_VIEW_SCALAR)
/* C15.ser.<k> : cop_serialize_value against its contract (enforced) */
void h_ser(void)
{
    const NanoValue *val; uint8_t *buf; uint32_t buf_size;
#ifdef VERIF_WITNESS
    in_bits = nondet_u64(); in_buf_size = nondet_u32();
    NanoValue *wv = malloc(sizeof(*wv)); __CPROVER_assume(wv);
    wv->tag = COP_KK; memcpy(&wv->as, &in_bits, 8);
    val = wv; buf_size = in_buf_size;
    buf = malloc(MINSZ(buf_size, COP_IMG)); __CPROVER_assume(buf);
#endif
    uint32_t r = cop_serialize_value(val, buf, buf_size);
    VERIF_COVER(r == 0);
    VERIF_COVER(r != 0);
}

/* C15.dec.<k> : cop_deserialize_value against its contract (enforced) */
void h_dec(void)
{
    const uint8_t *buf; uint32_t buf_size; NanoValue *out; VmHeap *heap;
#ifdef VERIF_WITNESS
    in_bytes = nondet_bytes(); in_buf_size = nondet_u32();
    buf_size = in_buf_size;
    size_t wn = MINSZ(buf_size, COP_IMG);
    uint8_t *wb = malloc(wn); __CPROVER_assume(wb);
    memcpy(wb, in_bytes.b, wn);
    buf = wb;
    out = malloc(sizeof(*out)); __CPROVER_assume(out);
    heap = NULL;
#endif
    uint32_t r = cop_deserialize_value(buf, buf_size, out, heap);
    VERIF_COVER(r == 0);
    VERIF_COVER(r != 0);
}

/* C15.codec.<k> : deserialize(serialize(v)) == v, both REPLACED by their contracts
 * (the two contracts determine each other on tag k) */
void h_rt(void)
{
    NanoValue *a = malloc(sizeof(*a));
    NanoValue *b = malloc(sizeof(*b));
    __CPROVER_assume(a && b);
    uint32_t cap = nondet_u32();
    uint8_t *buf = malloc(MINSZ(cap, COP_IMG));
    __CPROVER_assume(buf);
    __CPROVER_assume(a->tag == COP_KK);
    uint32_t n = cop_serialize_value(a, buf, cap);
    __CPROVER_assert((n == 0) == (cap < COP_IMG), "C15.codec serialize returns 0 iff buffer too small");
    if (n != 0) {
        uint32_t m = cop_deserialize_value(buf, n, b, NULL);
        __CPROVER_assert(m == n, "C15.codec deserialize consumes what serialize produced");
        __CPROVER_assert(b->tag == a->tag, "C15.codec same tag");
        __CPROVER_assert(spec_cop_bits(b, COP_KK) == spec_cop_bits(a, COP_KK), "C15.codec same 64-bit payload bits");
    }
    VERIF_COVER(n != 0);
    VERIF_COVER(n == 0);
}
#endif

#if defined(COP_VIEW_STRING)
/* C15.ser.string : enforced */
void h_sser(void)
{
    const NanoValue *val; uint8_t *buf; uint32_t buf_size;
#ifdef VERIF_WITNESS
    in_slen = nondet_u32(); in_buf_size = nondet_u32(); in_bytes = nondet_bytes();
    __CPROVER_assume(in_slen == __verif_cop_slen);
    NanoValue *wv = malloc(sizeof(*wv)); __CPROVER_assume(wv);
    VmString *ws = malloc(sizeof(VmString) + (size_t)in_slen); __CPROVER_assume(ws);
    ws->length = in_slen;
    wv->tag = TAG_STRING; wv->as.string = ws;
    val = wv; buf_size = in_buf_size;
    buf = malloc(MINSZ((uint64_t)buf_size, COP_SIMG)); __CPROVER_assume(buf);
#endif
    uint32_t r = cop_serialize_value(val, buf, buf_size);
    VERIF_COVER(r == 0);
    VERIF_COVER(r != 0 && __verif_cop_slen == 0);
    VERIF_COVER(r != 0 && __verif_cop_slen > 70000 && __verif_cop_k == 65536);
}

/* C15.dec.string / C16.deser.safe.string : enforced, vm_string_new replaced by its contract */
void h_sdec(void)
{
    const uint8_t *buf; uint32_t buf_size; NanoValue *out; VmHeap *heap;
#ifdef VERIF_WITNESS
    in_bytes = nondet_bytes(); in_buf_size = nondet_u32();
    __CPROVER_assume(in_buf_size <= sizeof(in_bytes.b));
    buf_size = in_buf_size;
    uint8_t *wb = malloc(buf_size); __CPROVER_assume(wb);
    memcpy(wb, in_bytes.b, buf_size);
    buf = wb;
    out = malloc(sizeof(*out)); heap = malloc(sizeof(*heap)); __CPROVER_assume(out && heap);
#endif
    uint32_t r = cop_deserialize_value(buf, buf_size, out, heap);
    VERIF_COVER(r == 0);
    VERIF_COVER(r != 0 && __verif_cop_slen == 0);
    VERIF_COVER(r != 0 && __verif_cop_slen > 70000 && __verif_cop_k == 65536);
}

/* C15.codec.string : lemma, both replaced by their contracts; content compared at the ghost index */
void h_srt(void)
{
    NanoValue *a = malloc(sizeof(*a));
    NanoValue *b = malloc(sizeof(*b));
    VmHeap *heap = malloc(sizeof(*heap));
    __CPROVER_assume(a && b && heap);
    __CPROVER_assume(__verif_cop_slen <= COP_STR_MAXLEN);
    _Bool null_string = nondet_bool();
    VmString *s = null_string ? NULL : malloc(sizeof(VmString) + (size_t)__verif_cop_slen);
    __CPROVER_assume(null_string ? __verif_cop_slen == 0 : (s != NULL && s->length == __verif_cop_slen));
    a->tag = TAG_STRING; a->as.string = s;
    uint32_t cap = nondet_u32();
    uint8_t *buf = malloc(MINSZ((uint64_t)cap, COP_SIMG));
    __CPROVER_assume(buf);
    uint32_t n = cop_serialize_value(a, buf, cap);
    __CPROVER_assert((n == 0) == ((uint64_t)cap < COP_SIMG), "C15.codec serialize returns 0 iff buffer too small");
    if (n != 0) {
        uint32_t m = cop_deserialize_value(buf, n, b, heap);
        __CPROVER_assert(m == n, "C15.codec deserialize consumes what serialize produced");
        __CPROVER_assert(b->tag == TAG_STRING && b->as.string != NULL, "C15.codec same tag");
        __CPROVER_assert(b->as.string->length == __verif_cop_slen, "C15.codec same string length");
        if (__verif_cop_k < __verif_cop_slen)
            __CPROVER_assert(b->as.string->data[__verif_cop_k] == s->data[__verif_cop_k], "C15.codec same string byte at every index");
    }
    VERIF_COVER(n != 0 && null_string);
    VERIF_COVER(n != 0 && __verif_cop_slen > 70000 && __verif_cop_k == 65536);
    VERIF_COVER(n == 0);
}
#endif

#if defined(COP_VIEW_SAFE)
/* C16.deser.safe.<class> : cop_deserialize_value on arbitrary bytes (enforced; recursive calls replaced by
 * the same contract; heap layer replaced by its contracts) */
void h_safe(void)
{
    const uint8_t *buf; uint32_t buf_size; NanoValue *out; VmHeap *heap;
#ifdef VERIF_WITNESS
    in_bytes = nondet_bytes(); in_buf_size = nondet_u32();
    __CPROVER_assume(in_buf_size <= sizeof(in_bytes.b));
    buf_size = in_buf_size;
    uint8_t *wb = malloc(buf_size); __CPROVER_assume(wb);
    memcpy(wb, in_bytes.b, buf_size);
    buf = wb;
    out = malloc(sizeof(*out)); heap = malloc(sizeof(*heap)); __CPROVER_assume(out && heap);
#endif
    uint32_t r = cop_deserialize_value(buf, buf_size, out, heap);
    VERIF_COVER(r == 0);
    VERIF_COVER(r != 0);
#if COP_SAFE_CLASS == 0
    VERIF_COVER(r == 9);
    VERIF_COVER(r == 1 && buf_size > 100000);
#else
    VERIF_COVER(r > 100000);
#endif
}
#endif
