/* C15 / C16 harness TU for the FFI co-process protocol.
 * Contracts on forward declarations (cop_contracts.h), then the real
 * /repo/src/nanovm/cop_protocol.c included verbatim (static read_all/write_all).
 * Compile with one of -DCOP_VIEW_SCALAR -DVERIF_TAG=k | -DCOP_VIEW_STRING | -DCOP_VIEW_OTHER |
 *                     -DCOP_VIEW_SAFE -DCOP_SAFE_CLASS=c | -DCOP_VIEW_IO
 */
#include "cop_contracts.h"
#include <string.h>
#include <stdlib.h>
#include <errno.h>
#include <unistd.h>

struct verif_cop_ghost __verif_cop;
uint32_t __verif_cop_k, __verif_cop_slen;

/* ===================== the real code, verbatim ===================== */
#include "nanovm/cop_protocol.c"
/* =================================================================== */

/* inputs as named globals so that traces give them by name (DESIGN 3.6) */
uint64_t in_bits;            /* payload bits of the value */
uint32_t in_buf_size, in_slen;
struct in_bytes_s { uint8_t b[32]; } in_bytes;
struct in_bytes_s nondet_bytes(void);

#if defined(COP_VIEW_SCALAR)
/* C15.ser.<k> : cop_serialize_value against its contract (enforced) */
void h_ser(void)
{
    const NanoValue *val; uint8_t *buf; uint32_t buf_size;
#ifdef VERIF_WITNESS
    in_bits = nondet_u64(); in_buf_size = nondet_u32();
    NanoValue *wv = malloc(sizeof(*wv)); __CPROVER_assume(wv);
    wv->tag = COP_KK; memcpy(&wv->as, &in_bits, 8);
    val = wv; buf_size = in_buf_size;
    buf = malloc(MINSZ(buf_size, COP_IMG)); __CPROVER_assume(buf);
#endif
    uint32_t r = cop_serialize_value(val, buf, buf_size);
    VERIF_COVER(r == 0);
    VERIF_COVER(r != 0);
}

/* C15.dec.<k> : cop_deserialize_value against its contract (enforced) */
void h_dec(void)
{
    const uint8_t *buf; uint32_t buf_size; NanoValue *out; VmHeap *heap;
#ifdef VERIF_WITNESS
    in_bytes = nondet_bytes(); in_buf_size = nondet_u32();
    buf_size = in_buf_size;
    size_t wn = MINSZ(buf_size, COP_IMG);
    uint8_t *wb = malloc(wn); __CPROVER_assume(wb);
    memcpy(wb, in_bytes.b, wn);
    buf = wb;
    out = malloc(sizeof(*out)); __CPROVER_assume(out);
    heap = NULL;
#endif
    uint32_t depth = nondet_u32();   /* nesting level of this value: arbitrary (the contract bounds it) */
#ifdef VERIF_WITNESS
    depth = 0;
#endif
    uint32_t r = deserialize_value_at(buf, buf_size, out, heap, depth);
    VERIF_COVER(r == 0);
    VERIF_COVER(r != 0);
}

/* C15.codec.<k> : deserialize(serialize(v)) == v, both REPLACED by their contracts
 * (the two contracts determine each other on tag k) */
void h_rt(void)
{
    NanoValue *a = malloc(sizeof(*a));
    NanoValue *b = malloc(sizeof(*b));
    __CPROVER_assume(a && b);
    uint32_t cap = nondet_u32();
    uint8_t *buf = malloc(MINSZ(cap, COP_IMG));
    __CPROVER_assume(buf);
    __CPROVER_assume(a->tag == COP_KK);
    uint32_t n = cop_serialize_value(a, buf, cap);
    __CPROVER_assert((n == 0) == (cap < COP_IMG), "C15.codec serialize returns 0 iff buffer too small");
    if (n != 0) {
        uint32_t m = cop_deserialize_value(buf, n, b, NULL);
        __CPROVER_assert(m == n, "C15.codec deserialize consumes what serialize produced");
        __CPROVER_assert(b->tag == a->tag, "C15.codec same tag");
        __CPROVER_assert(spec_cop_bits(b, COP_KK) == spec_cop_bits(a, COP_KK), "C15.codec same 64-bit payload bits");
    }
    VERIF_COVER(n != 0);
    VERIF_COVER(n == 0);
}
#endif

#if defined(COP_VIEW_STRING)
/* C15.ser.string : enforced */
void h_sser(void)
{
    const NanoValue *val; uint8_t *buf; uint32_t buf_size;
#ifdef VERIF_WITNESS
    in_slen = nondet_u32(); in_buf_size = nondet_u32(); in_bytes = nondet_bytes();
    __CPROVER_assume(in_slen == __verif_cop_slen);
    NanoValue *wv = malloc(sizeof(*wv)); __CPROVER_assume(wv);
    VmString *ws = malloc(sizeof(VmString) + (size_t)in_slen); __CPROVER_assume(ws);
    ws->length = in_slen;
    wv->tag = TAG_STRING; wv->as.string = ws;
    val = wv; buf_size = in_buf_size;
    buf = malloc(MINSZ((uint64_t)buf_size, COP_SIMG)); __CPROVER_assume(buf);
#endif
    uint32_t r = cop_serialize_value(val, buf, buf_size);
    VERIF_COVER(r == 0);
    VERIF_COVER(r != 0 && __verif_cop_slen == 0);
    VERIF_COVER(r != 0 && __verif_cop_slen > 70000 && __verif_cop_k == 65536);
}

/* C15.dec.string / C16.deser.safe.string : enforced, vm_string_new replaced by its contract */
void h_sdec(void)
{
    const uint8_t *buf; uint32_t buf_size; NanoValue *out; VmHeap *heap;
#ifdef VERIF_WITNESS
    in_bytes = nondet_bytes(); in_buf_size = nondet_u32();
    __CPROVER_assume(in_buf_size <= sizeof(in_bytes.b));
    buf_size = in_buf_size;
    uint8_t *wb = malloc(buf_size); __CPROVER_assume(wb);
    memcpy(wb, in_bytes.b, buf_size);
    buf = wb;
    out = malloc(sizeof(*out)); heap = malloc(sizeof(*heap)); __CPROVER_assume(out && heap);
#endif
    uint32_t depth = nondet_u32();   /* nesting level of this value: arbitrary (the contract bounds it) */
#ifdef VERIF_WITNESS
    depth = 0;
#endif
    uint32_t r = deserialize_value_at(buf, buf_size, out, heap, depth);
    VERIF_COVER(r == 0);
    VERIF_COVER(r != 0 && __verif_cop_slen == 0);
    VERIF_COVER(r != 0 && __verif_cop_slen > 70000 && __verif_cop_k == 65536);
}

/* C15.codec.string : lemma, both replaced by their contracts; content compared at the ghost index */
void h_srt(void)
{
    NanoValue *a = malloc(sizeof(*a));
    NanoValue *b = malloc(sizeof(*b));
    VmHeap *heap = malloc(sizeof(*heap));
    __CPROVER_assume(a && b && heap);
    __CPROVER_assume(__verif_cop_slen <= COP_STR_MAXLEN);
    _Bool null_string = nondet_bool();
    VmString *s = null_string ? NULL : malloc(sizeof(VmString) + (size_t)__verif_cop_slen);
    __CPROVER_assume(null_string ? __verif_cop_slen == 0 : (s != NULL && s->length == __verif_cop_slen));
    a->tag = TAG_STRING; a->as.string = s;
    uint32_t cap = nondet_u32();
    uint8_t *buf = malloc(MINSZ((uint64_t)cap, COP_SIMG));
    __CPROVER_assume(buf);
    uint32_t n = cop_serialize_value(a, buf, cap);
    __CPROVER_assert((n == 0) == ((uint64_t)cap < COP_SIMG), "C15.codec serialize returns 0 iff buffer too small");
    if (n != 0) {
        uint32_t m = cop_deserialize_value(buf, n, b, heap);
        __CPROVER_assert(m == n, "C15.codec deserialize consumes what serialize produced");
        __CPROVER_assert(b->tag == TAG_STRING && b->as.string != NULL, "C15.codec same tag");
        __CPROVER_assert(b->as.string->length == __verif_cop_slen, "C15.codec same string length");
        if (__verif_cop_k < __verif_cop_slen)
            __CPROVER_assert(b->as.string->data[__verif_cop_k] == s->data[__verif_cop_k], "C15.codec same string byte at every index");
    }
    VERIF_COVER(n != 0 && null_string);
    VERIF_COVER(n != 0 && __verif_cop_slen > 70000 && __verif_cop_k == 65536);
    VERIF_COVER(n == 0);
}
#endif

#if defined(COP_VIEW_SAFE)
/* C16.deser.safe.<class> : cop_deserialize_value on arbitrary bytes (enforced; recursive calls replaced by
 * the same contract; heap layer replaced by its contracts) */
void h_safe(void)
{
    const uint8_t *buf; uint32_t buf_size; NanoValue *out; VmHeap *heap;
#ifdef VERIF_WITNESS
    in_bytes = nondet_bytes(); in_buf_size = nondet_u32();
    __CPROVER_assume(in_buf_size <= sizeof(in_bytes.b));
#if COP_SAFE_CLASS == 2 && !defined(COP_ALLOC_BOUND)  /* bounded search for a replayable input: element count <= 2 */
    __CPROVER_assume(in_bytes.b[2] <= 2 && in_bytes.b[3] == 0 && in_bytes.b[4] == 0 && in_bytes.b[5] == 0);
#endif
#if defined(COP_ALLOC_BOUND)   /* replayable input: the largest request, which the real allocator refuses */
    __CPROVER_assume(in_bytes.b[2] == 0xff && in_bytes.b[3] == 0xff && in_bytes.b[4] == 0xff && in_bytes.b[5] == 0xff && in_bytes.b[6] == 0 && in_buf_size == 7);
#endif
    buf_size = in_buf_size;
    uint8_t *wb = malloc(buf_size); __CPROVER_assume(wb);
    memcpy(wb, in_bytes.b, buf_size);
    buf = wb;
    out = malloc(sizeof(*out)); heap = malloc(sizeof(*heap)); __CPROVER_assume(out && heap);
#endif
    uint32_t depth = nondet_u32();   /* nesting level of this value: arbitrary (the contract bounds it) */
#ifdef VERIF_WITNESS
    depth = 0;
#endif
    uint32_t r = deserialize_value_at(buf, buf_size, out, heap, depth);
    VERIF_COVER(r == 0);
    VERIF_COVER(r != 0);
#if COP_SAFE_CLASS == 0
    VERIF_COVER(r == 9);
    VERIF_COVER(r == 1 && buf_size > 100000);
#else
    VERIF_COVER(r > 100000);
#endif
}
#endif

#if defined(COP_VIEW_SAFE)
/* C16.deser.wrapper.<class> : the public cop_deserialize_value (enforced) with the helper replaced by the contract
 * proved above: starts the recursion at depth 0 and passes everything else through */
void h_wrapper(void)
{
    const uint8_t *buf; uint32_t buf_size; NanoValue *out; VmHeap *heap;
    uint32_t r = cop_deserialize_value(buf, buf_size, out, heap);
    VERIF_COVER(r == 0);
    VERIF_COVER(r != 0);
}
#endif

#if defined(COP_VIEW_IO)
/* ---- the adversarial OS (assumed contracts, as stub bodies) ---- */
int *__errno_location(void) { return &__verif_cop.os_errno; }
ssize_t nondet_ssize(void);

ssize_t read(int fd, void *buf, size_t count)
{
    (void)fd;
    __CPROVER_assert(count == 0 || __CPROVER_w_ok(buf, count), "OS: read destination valid for count bytes");
    __verif_cop.rd_calls++;
    ssize_t r = nondet_ssize();
    __CPROVER_assume(r >= -1 && (r < 0 || (size_t)r <= count));
    if (r < 0) {
        int e = nondet_int();
        if (e == EINTR) { __CPROVER_assume(__verif_cop.eintr_budget > 0); __verif_cop.eintr_budget--; }
        __verif_cop.os_errno = e;
    } else if (r > 0) {
        /* whatever the peer sent: an arbitrary byte at an ARBITRARY index below r (ghost-index form of
         * "havoc buf[0..r)": every index is written on some path, so frame and bounds are checked for all of
         * them; __CPROVER_havoc_slice with a symbolic 64-bit size does not get through the SAT back end).
         * The byte VALUES a caller sees come from the havoc of read_all's own contract (C16.recv.header). */
        size_t k = nondet_size();
        __CPROVER_assume(k < (size_t)r);
        ((uint8_t *)buf)[k] = nondet_u8();
        __verif_cop.rd_total += (uint64_t)r;
    } else if (count > 0) {
        /* r == 0: end of file, reported as such by read_all */
    }
    return r;
}

ssize_t write(int fd, const void *buf, size_t count)
{
    (void)fd;
    __CPROVER_assert(count == 0 || __CPROVER_r_ok(buf, count), "OS: write source valid for count bytes");
    __verif_cop.wr_calls++;
    ssize_t r = nondet_ssize();
    __CPROVER_assume(r >= -1 && (r < 0 || (size_t)r <= count));
    if (r < 0) {
        int e = nondet_int();
        if (e == EINTR) { __CPROVER_assume(__verif_cop.eintr_budget > 0); __verif_cop.eintr_budget--; }
        __verif_cop.os_errno = e;
    } else {
        /* a write of count > 0 bytes that accepts nothing is a no-progress answer like EINTR: finitely many */
        if (r == 0 && count > 0) { __CPROVER_assume(__verif_cop.eintr_budget > 0); __verif_cop.eintr_budget--; }
        __verif_cop.wr_total += (uint64_t)r;
    }
    return r;
}

void h_read_all(void)
{
    int fd; void *buf; size_t len;
    bool ok = read_all(fd, buf, len);
    VERIF_COVER(ok && len > 100000 && __verif_cop.rd_calls > 1);
    VERIF_COVER(!ok);
    VERIF_COVER(ok && len == 0);
}

void h_write_all(void)
{
    int fd; const void *buf; size_t len;
    bool ok = write_all(fd, buf, len);
    VERIF_COVER(ok && len > 100000 && __verif_cop.wr_calls > 1);
    VERIF_COVER(!ok);
}

uint32_t in_nbytes, in_chunk;
void h_recv_header(void)
{
    int fd; CopMsgHeader *hdr;
#ifdef VERIF_WITNESS
    hdr = malloc(sizeof(*hdr)); __CPROVER_assume(hdr);
#endif
    bool ok = cop_recv_header(fd, hdr);
    VERIF_COVER(ok);
    VERIF_COVER(!ok && __verif_cop.rd_total >= 8);
    VERIF_COVER(!ok && __verif_cop.rd_total < 8);
}

void h_recv_payload(void)
{
    int fd; void *buf; uint32_t len;
    bool ok = cop_recv_payload(fd, buf, len);
    VERIF_COVER(ok && len > 0);
    VERIF_COVER(!ok);
}

void h_send(void)
{
    int fd; CopMsgType type; const void *payload; uint32_t payload_len;
    bool ok = cop_send(fd, type, payload, payload_len);
    VERIF_COVER(ok && payload_len > 0 && payload != NULL);
    VERIF_COVER(ok && payload == NULL);
    VERIF_COVER(!ok);
}
#endif

#if defined(COP_VIEW_ARRAY)
/* C15.codec.array : BOUNDED round trip through the REAL serialiser, deserialiser and heap.c (vm_array_new,
 * vm_array_push, vm_retain linked unmodified); no contracts.  B(depth <= 2, count <= 2 per level, elements:
 * the five scalar kinds and arrays of scalars). */
#ifndef VERIF_ARR_N
#define VERIF_ARR_N 2
#endif
static void mk_scalar(NanoValue *v)
{
    uint8_t t = nondet_u8(); uint64_t bits = nondet_u64();
    __CPROVER_assume(COP_IS_SCALAR(t));
    v->tag = t; memcpy(&v->as, &bits, 8);
    if (t == TAG_BOOL) v->as.boolean = (bits & 1);
}
static VmArray *mk_array(uint32_t n, uint32_t cap)
{
    VmArray *a = malloc(sizeof(*a)); __CPROVER_assume(a);
    a->header.ref_count = 1; a->header.obj_type = TAG_ARRAY;
    a->elem_type = nondet_u8(); a->length = n; a->capacity = cap;
    a->elements = malloc(cap * sizeof(NanoValue)); __CPROVER_assume(a->elements);
    return a;
}
static void same_scalar(const NanoValue *x, const NanoValue *y)
{
    __CPROVER_assert(x->tag == y->tag, "C15.codec.array element tag");
    __CPROVER_assert(spec_cop_bits(x, x->tag) == spec_cop_bits(y, y->tag), "C15.codec.array element payload bits");
}
void h_art(void)
{
    uint32_t n = nondet_u32(); __CPROVER_assume(n <= VERIF_ARR_N);
    VmArray *a = mk_array(n, VERIF_ARR_N);
    _Bool nested[VERIF_ARR_N];
    for (uint32_t i = 0; i < VERIF_ARR_N; i++) {
        nested[i] = nondet_bool();
#ifdef VERIF_ARR_FLAT
        nested[i] = 0;
#endif
        if (i < n) {
            if (nested[i]) {
                uint32_t m = nondet_u32(); __CPROVER_assume(m <= VERIF_ARR_N);
                VmArray *in = mk_array(m, VERIF_ARR_N);
                for (uint32_t j = 0; j < VERIF_ARR_N; j++) if (j < m) mk_scalar(&in->elements[j]);
                a->elements[i] = val_array(in);
            } else mk_scalar(&a->elements[i]);
        }
    }
    NanoValue v = val_array(a), w;
#ifdef VERIF_ARR_CAP
    uint32_t cap = VERIF_ARR_CAP;
#else
    uint32_t cap = nondet_u32(); __CPROVER_assume(cap <= 96);
#endif
    uint8_t *buf = malloc(cap); __CPROVER_assume(buf);
    VmHeap *heap = malloc(sizeof(*heap)); __CPROVER_assume(heap);
    uint32_t k = cop_serialize_value(&v, buf, cap);
    if (k != 0) {
        uint32_t r = cop_deserialize_value(buf, k, &w, heap);
        __CPROVER_assert(r == k, "C15.codec.array deserialize consumes what serialize produced");
        __CPROVER_assert(w.tag == TAG_ARRAY && w.as.array != NULL, "C15.codec.array tag");
        VmArray *b = w.as.array;
        __CPROVER_assert(b->length == n && b->elem_type == a->elem_type, "C15.codec.array length and element type");
        for (uint32_t i = 0; i < VERIF_ARR_N; i++) if (i < n) {
            if (nested[i]) {
                __CPROVER_assert(b->elements[i].tag == TAG_ARRAY && b->elements[i].as.array != NULL, "C15.codec.array nested tag");
                VmArray *x = a->elements[i].as.array, *y = b->elements[i].as.array;
                __CPROVER_assert(y->length == x->length && y->elem_type == x->elem_type, "C15.codec.array nested length and element type");
                for (uint32_t j = 0; j < VERIF_ARR_N; j++) if (j < x->length) same_scalar(&x->elements[j], &y->elements[j]);
            } else same_scalar(&a->elements[i], &b->elements[i]);
        }
    }
#ifdef VERIF_ARR_FLAT
    VERIF_COVER(k != 0 && n == VERIF_ARR_N);
#else
    VERIF_COVER(k != 0 && n == VERIF_ARR_N && nested[0] && nested[VERIF_ARR_N - 1]);
#endif
    VERIF_COVER(k != 0 && n == 0);
#ifndef VERIF_ARR_CAP
    VERIF_COVER(k == 0);
#endif
}
#endif

#if defined(COP_VIEW_OTHER)
/* C15.other.ser / C15.other.dec : recorded behaviour for non-transferable tags (enforced) */
void h_oser(void)
{
    const NanoValue *val; uint8_t *buf; uint32_t buf_size;
    uint32_t r = cop_serialize_value(val, buf, buf_size);
    VERIF_COVER(r == 0);
    VERIF_COVER(r == 1);
}
void h_odec(void)
{
    const uint8_t *buf; uint32_t buf_size; NanoValue *out; VmHeap *heap;
    uint32_t depth = nondet_u32();   /* nesting level of this value: arbitrary (the contract bounds it) */
#ifdef VERIF_WITNESS
    depth = 0;
#endif
    uint32_t r = deserialize_value_at(buf, buf_size, out, heap, depth);
    VERIF_COVER(r == 0);
    VERIF_COVER(r == 1);
}
#endif
