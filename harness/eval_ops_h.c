/* Interpreter operator / assert / array-accessor harness (C03.int.*, C03.sc.int, C03.assert, C08.int.*).
 *
 * PLAIN CBMC harness (no --dfcc), in the style of harness/vm_step_h.c: the REAL src/eval.c is included verbatim
 * (annotated scratch copy: one group of ghost statements at the entry of eval_expression, contracts/loops/
 * eval.c.ops.loops), src/env.c and src/runtime/dyn_array.c are linked unmodified.  See contracts/eval_contracts.h for
 * what is real and what is stubbed.  Each entry point builds, by hand, the AST node the parser would build
 *        (op  <leaf0>  <leaf1>)        AST_PREFIX_OP { op, args = {&leaf0, &leaf1}, arg_count = 2 }
 * with LITERAL leaves (AST_NUMBER / AST_BOOL) whose payloads are arbitrary, hands it to the real eval_expression and
 * states the triple  { operands = a, b }  eval  { result == spec(a, b) }  as assertions.
 */
#include "eval_contracts.h"
struct verif_ev __verif_ev;

/* named inputs (witness extraction reads these from the trace) */
int64_t in_a, in_b;
_Bool in_ba, in_bb;
int in_line, in_column, in_fail0, in_first_line0, in_first_col0;
_Bool in_shadow;
int64_t in_idx, in_len, in_cap;
double in_fa, in_fb;
int64_t in_start, in_length;
uint32_t in_k;            /* ghost element index (never assigned after its choice) */

/* ---- path ends ("the run ends here"): ghost flag, the status must be non-zero, optional cover points ---- */
static void verif_run_ends(int status)
{
    __verif_ev.exited = 1; __verif_ev.exit_status = status;
    __CPROVER_assert(status != 0, "C08.int/C03 a run ended by the interpreter's error path has a non-zero exit status");
#ifdef VERIF_EXIT_COVER          /* the obligation demands that the error path is REACHED for these inputs */
    VERIF_COVER(1);
#endif
#ifdef VERIF_EXIT_COVER_IDX
    VERIF_COVER(in_idx < 0); VERIF_COVER(in_idx == in_len); VERIF_COVER(in_idx >= (int64_t)4294967296); VERIF_COVER(in_idx == INT64_MIN);
#endif
    __CPROVER_assume(0);
}
void exit(int status) { verif_run_ends(status); }
void _exit(int status) { verif_run_ends(status); }
void abort(void) { __verif_ev.aborted = 1; verif_run_ends(134); }
void __assert_fail(const char *a, const char *f, unsigned int l, const char *fn)
{ (void)a; (void)f; (void)l; (void)fn; __verif_ev.aborted = 1; verif_run_ends(134); }

#include "src/eval.c"     /* registry: include_repo ["", "src"]: the annotated copy is found first */

#ifndef VERIF_EOP
#define VERIF_EOP EOP_ADD
#endif
#ifndef VERIF_DOM
#define VERIF_DOM DOM_ALL
#endif

#if VERIF_EOP == EOP_ADD
#define THE_TOKEN TOKEN_PLUS
#elif VERIF_EOP == EOP_SUB || VERIF_EOP == EOP_NEG
#define THE_TOKEN TOKEN_MINUS
#elif VERIF_EOP == EOP_MUL
#define THE_TOKEN TOKEN_STAR
#elif VERIF_EOP == EOP_DIV
#define THE_TOKEN TOKEN_SLASH
#elif VERIF_EOP == EOP_MOD
#define THE_TOKEN TOKEN_PERCENT
#elif VERIF_EOP == EOP_EQ
#define THE_TOKEN TOKEN_EQ
#elif VERIF_EOP == EOP_NE
#define THE_TOKEN TOKEN_NE
#elif VERIF_EOP == EOP_LT
#define THE_TOKEN TOKEN_LT
#elif VERIF_EOP == EOP_LE
#define THE_TOKEN TOKEN_LE
#elif VERIF_EOP == EOP_GT
#define THE_TOKEN TOKEN_GT
#elif VERIF_EOP == EOP_GE
#define THE_TOKEN TOKEN_GE
#elif VERIF_EOP == EOP_AND
#define THE_TOKEN TOKEN_AND
#elif VERIF_EOP == EOP_OR
#define THE_TOKEN TOKEN_OR
#elif VERIF_EOP == EOP_NOT
#define THE_TOKEN TOKEN_NOT
#endif

#ifdef VERIF_BOOL_OPERANDS      /* == / != on two BOOL operands (C03.bool.EQ / NE) */
#define BOOL_LEAVES 1
#else
#define BOOL_LEAVES 0
#endif
#define IS_LOGIC (VERIF_EOP == EOP_AND || VERIF_EOP == EOP_OR || VERIF_EOP == EOP_NOT)
#define IS_UNARY (VERIF_EOP == EOP_NEG || VERIF_EOP == EOP_NOT)

/* the nodes: static storage.  The operator node's union member is given by a static initialiser (ONE union
 * component, all constants): member-by-member writes into the union leave byte_update terms that symbolic execution
 * does not fold, the operand pointers then stop being constants and every arm of eval_expression is explored. */
static ASTNode g_leaf0, g_leaf1;
static ASTNode *g_args[2] = { &g_leaf0, &g_leaf1 };
static ASTNode g_opnode = { .type = AST_PREFIX_OP, .as = { .prefix_op = { .op = THE_TOKEN, .args = g_args, .arg_count = (IS_UNARY ? 1 : 2) } } };

static void mk_int_leaf(ASTNode *n, int64_t v) { n->type = AST_NUMBER; n->line = nondet_int(); n->column = nondet_int(); n->as.number = v; }
static void mk_bool_leaf(ASTNode *n, _Bool v) { n->type = AST_BOOL; n->line = nondet_int(); n->column = nondet_int(); n->as.bool_val = v; }

static void build_op_node(void)
{
    in_a = nondet_i64(); in_b = nondet_i64();
    in_ba = nondet_bool() ? 1 : 0; in_bb = nondet_bool() ? 1 : 0;     /* canonical 0/1 (what create_bool / the parser produce) */
#ifdef VERIF_SMALL
    __CPROVER_assume(in_a >= -128 && in_a <= 127 && in_b >= -128 && in_b <= 127);
#endif
#if VERIF_DOM == DOM_DEFINED
    __CPROVER_assume(in_b != 0 && !(in_a == INT64_MIN && in_b == -1));
#elif VERIF_DOM == DOM_ZERO
    __CPROVER_assume(in_b == 0);
#elif VERIF_DOM == DOM_MINNEG1
    __CPROVER_assume(in_a == INT64_MIN && in_b == -1);
#endif
    if (IS_LOGIC || BOOL_LEAVES) { mk_bool_leaf(&g_leaf0, in_ba); mk_bool_leaf(&g_leaf1, in_bb); }
    else { mk_int_leaf(&g_leaf0, in_a); mk_int_leaf(&g_leaf1, in_b); }
    g_opnode.line = nondet_int(); g_opnode.column = nondet_int();
    __verif_ev.n0 = &g_leaf0; __verif_ev.n1 = &g_leaf1;
}

/* ---- C03.int.<OP>: operator result == spec function (the same ones as C02.vm.<OP>) ---- */
void h_op(void)
{
    build_op_node();
    Environment *env = (Environment *)nondet_ptr();        /* never dereferenced on these paths (pointer checks are on) */
    const int64_t a = in_a, b = in_b; const _Bool ba = in_ba, bb = in_bb;
    Value r = eval_expression(&g_opnode, env);
    (void)a; (void)b; (void)ba; (void)bb;
    __CPROVER_assert(!__verif_ev.exited && !__verif_ev.aborted, "C03.int unreachable: path ends do not return");
#if VERIF_EOP == EOP_ADD
    __CPROVER_assert(EV_IS_INT(r) && r.as.int_val == spec_add(a, b), "C03.int ADD == 64-bit wrapping add");
#elif VERIF_EOP == EOP_SUB
    __CPROVER_assert(EV_IS_INT(r) && r.as.int_val == spec_sub(a, b), "C03.int SUB == 64-bit wrapping sub");
#elif VERIF_EOP == EOP_NEG
    __CPROVER_assert(EV_IS_INT(r) && r.as.int_val == spec_neg(a), "C03.int NEG == 64-bit wrapping neg");
#elif VERIF_EOP == EOP_MUL
#ifdef VERIF_SMALL
    __CPROVER_assert(EV_IS_INT(r) && r.as.int_val == spec_mul(a, b), "C03.int MUL == 64-bit wrapping mul");
#else
    /* as C02.vm.MUL: two 64x64 multipliers compared do not finish on SAT; full domain = type, no fault, algebraic corners */
    __CPROVER_assert(EV_IS_INT(r) && (a != 0 || r.as.int_val == 0) && (b != 0 || r.as.int_val == 0) &&
                     (a != 1 || r.as.int_val == b) && (b != 1 || r.as.int_val == a) &&
                     (a != -1 || r.as.int_val == spec_neg(b)) && (b != -1 || r.as.int_val == spec_neg(a)) &&
                     ((r.as.int_val & 1) == ((a & 1) & (b & 1))), "C03.int MUL corner cases (0, 1, -1, parity)");
#endif
#elif VERIF_EOP == EOP_DIV
#if VERIF_DOM == DOM_ZERO
    /* the native engine's documented behaviour for a zero divisor is a run-time fault: the run ends, no value */
    __CPROVER_assert(0, "C03.int DIV by zero yields no value (the evaluation must not return)");
#elif VERIF_DOM == DOM_MINNEG1
    __CPROVER_assert(EV_IS_INT(r) && r.as.int_val == spec_div_vm(a, b), "C03.int DIV INT64_MIN / -1 == INT64_MIN (wraps, no fault)");
#elif defined(VERIF_SMALL)
    __CPROVER_assert(EV_IS_INT(r) && r.as.int_val == spec_div_vm(a, b), "C03.int DIV == truncating div");
#else
    __CPROVER_assert(EV_IS_INT(r) && (b != 1 || r.as.int_val == a) && (b != -1 || r.as.int_val == spec_neg(a)) &&
                     (a != 0 || r.as.int_val == 0) && (a != b || r.as.int_val == 1) &&
                     ((a < 0) == (b < 0) ? r.as.int_val >= 0 : r.as.int_val <= 0),
                     "C03.int DIV corner cases (b=1, b=-1, a=0, a=b, sign of the quotient)");
#endif
#elif VERIF_EOP == EOP_MOD
#if VERIF_DOM == DOM_ZERO
    __CPROVER_assert(0, "C03.int MOD by zero yields no value (the evaluation must not return)");
#elif VERIF_DOM == DOM_MINNEG1
    __CPROVER_assert(EV_IS_INT(r) && r.as.int_val == spec_mod_vm(a, b), "C03.int MOD INT64_MIN % -1 == 0 (no fault)");
#elif defined(VERIF_SMALL)
    __CPROVER_assert(EV_IS_INT(r) && r.as.int_val == spec_mod_vm(a, b), "C03.int MOD == truncating rem");
#else
    __CPROVER_assert(EV_IS_INT(r) && (b != 1 || r.as.int_val == 0) && (b != -1 || r.as.int_val == 0) &&
                     (a != 0 || r.as.int_val == 0) && (a != b || r.as.int_val == 0) &&
                     (a < 0 ? r.as.int_val <= 0 : r.as.int_val >= 0),
                     "C03.int MOD corner cases (b=+-1, a=0, a=b, sign follows the dividend)");
#endif
#elif VERIF_EOP == EOP_EQ && BOOL_LEAVES
    __CPROVER_assert(EV_IS_BOOL(r) && r.as.bool_val == (ba == bb), "C03.bool EQ");
#elif VERIF_EOP == EOP_NE && BOOL_LEAVES
    __CPROVER_assert(EV_IS_BOOL(r) && r.as.bool_val == (ba != bb), "C03.bool NE");
#elif VERIF_EOP == EOP_EQ
    __CPROVER_assert(EV_IS_BOOL(r) && r.as.bool_val == spec_eq(a, b), "C03.int EQ");
#elif VERIF_EOP == EOP_NE
    __CPROVER_assert(EV_IS_BOOL(r) && r.as.bool_val == spec_ne(a, b), "C03.int NE");
#elif VERIF_EOP == EOP_LT
    __CPROVER_assert(EV_IS_BOOL(r) && r.as.bool_val == spec_lt(a, b), "C03.int LT");
#elif VERIF_EOP == EOP_LE
    __CPROVER_assert(EV_IS_BOOL(r) && r.as.bool_val == spec_le(a, b), "C03.int LE");
#elif VERIF_EOP == EOP_GT
    __CPROVER_assert(EV_IS_BOOL(r) && r.as.bool_val == spec_gt(a, b), "C03.int GT");
#elif VERIF_EOP == EOP_GE
    __CPROVER_assert(EV_IS_BOOL(r) && r.as.bool_val == spec_ge(a, b), "C03.int GE");
#elif VERIF_EOP == EOP_AND
    __CPROVER_assert(EV_IS_BOOL(r) && r.as.bool_val == spec_and(ba, bb), "C03.int AND");
#elif VERIF_EOP == EOP_OR
    __CPROVER_assert(EV_IS_BOOL(r) && r.as.bool_val == spec_or(ba, bb), "C03.int OR");
#elif VERIF_EOP == EOP_NOT
    __CPROVER_assert(EV_IS_BOOL(r) && r.as.bool_val == spec_not(ba), "C03.int NOT");
#endif
    /* evaluation discipline shared by all operators: operand 0 exactly once, before operand 1; operand 1 at most once */
    __CPROVER_assert(__verif_ev.calls0 == 1, "C03.int operand 0 is evaluated exactly once");
    __CPROVER_assert(__verif_ev.calls1 <= 1, "C03.int operand 1 is evaluated at most once");
    __CPROVER_assert(__verif_ev.calls1 == 0 || __verif_ev.seq0 < __verif_ev.seq1, "C03.int operand 0 is evaluated before operand 1");
#if !IS_UNARY && VERIF_EOP != EOP_AND && VERIF_EOP != EOP_OR
    __CPROVER_assert(__verif_ev.calls1 == 1, "C03.int operand 1 of a strict operator is evaluated exactly once");
#endif
#if VERIF_EOP == EOP_AND
#ifdef VERIF_SC
    /* C03.sc.int: the second operand is evaluated iff the first does not decide */
    __CPROVER_assert(__verif_ev.calls1 == (ba ? 1u : 0u), "C03.sc.int AND evaluates operand 1 iff operand 0 is true");
#endif
    VERIF_COVER(!ba); VERIF_COVER(ba && !bb); VERIF_COVER(ba && bb);
#elif VERIF_EOP == EOP_OR
#ifdef VERIF_SC
    __CPROVER_assert(__verif_ev.calls1 == (ba ? 0u : 1u), "C03.sc.int OR evaluates operand 1 iff operand 0 is false");
#endif
    VERIF_COVER(ba); VERIF_COVER(!ba && !bb); VERIF_COVER(!ba && bb);
#elif IS_LOGIC
    VERIF_COVER(ba); VERIF_COVER(!ba);
#elif BOOL_LEAVES
    VERIF_COVER(ba && !bb); VERIF_COVER(ba == bb);
#else
#if VERIF_DOM == DOM_ALL || VERIF_DOM == DOM_DEFINED
    VERIF_COVER(a < 0 && b > 0); VERIF_COVER(a > b); VERIF_COVER(a == b);
#ifndef VERIF_SMALL
    VERIF_COVER(a == INT64_MIN); VERIF_COVER(b == INT64_MAX);
#endif
#endif
#endif
#if VERIF_DOM != DOM_ZERO       /* zero divisor: the demanded behaviour is "does not return"; reachability is the exit-stub cover */
    VERIF_COVER(1);
#endif
}

/* ---- C03.assert: one `assert <cond>` statement through the real eval_statement ----
 *   cond true                      : nothing changes
 *   cond false, inside shadow tests: failure counter + 1, first-failure location recorded iff none was recorded yet
 *   cond false, outside            : the run ends (exit 1) */
static ASTNode g_assert = { .type = AST_ASSERT, .as = { .assert = { .condition = &g_leaf0 } } };

void h_assert(void)
{
    in_ba = nondet_bool() ? 1 : 0;
    mk_bool_leaf(&g_leaf0, in_ba);
    __verif_ev.n0 = &g_leaf0; __verif_ev.n1 = 0;
    in_line = nondet_int(); in_column = nondet_int();
    g_assert.line = in_line; g_assert.column = in_column;
    in_shadow = nondet_bool() ? 1 : 0;
    in_fail0 = nondet_int(); in_first_line0 = nondet_int(); in_first_col0 = nondet_int();
#ifdef VERIF_ASSERT_MAX
    /* C03.assert.nowrap: the one counter value excluded below.  Demanded: a test with one more failed assertion still counts as failed */
    __CPROVER_assume(in_fail0 == 2147483647 && !in_ba && in_shadow);
#else
    /* precondition: the counter is a count (run_shadow_tests resets it to 0 per test, only this arm increments it) and has room */
    __CPROVER_assume(in_fail0 >= 0 && in_fail0 < 2147483647);
#endif
    g_in_shadow_tests = in_shadow;
    g_shadow_current_fail_count = in_fail0;
    g_shadow_current_first_line = in_first_line0;
    g_shadow_current_first_column = in_first_col0;
    Environment *env = (Environment *)nondet_ptr();
    Value r = eval_statement(&g_assert, env);
    __CPROVER_assert(r.type == VAL_VOID && EV_PLAIN(r), "C03.assert the statement yields a plain void");
    __CPROVER_assert(__verif_ev.calls0 == 1, "C03.assert the condition is evaluated exactly once");
    __CPROVER_assert(in_ba || in_shadow, "C03.assert a false assertion outside shadow tests ends the run (never returns)");
    if (in_ba) {
        __CPROVER_assert(g_shadow_current_fail_count == in_fail0, "C03.assert true condition: failure counter unchanged");
        __CPROVER_assert(g_shadow_current_first_line == in_first_line0 && g_shadow_current_first_column == in_first_col0,
                         "C03.assert true condition: first-failure location unchanged");
    } else {
#ifdef VERIF_ASSERT_MAX
        /* counter already at INT_MAX (in_fail0 + 1 does not exist): whatever the code does, run_shadow_tests' `> 0` test must still see a
           failure, and the count must not go DOWN (a saturating counter stays at INT_MAX; a wrapping one fails both) */
        __CPROVER_assert(g_shadow_current_fail_count > 0, "C03.assert.nowrap after a failed assertion the failure counter is positive (run_shadow_tests tests `> 0`)");
        __CPROVER_assert(g_shadow_current_fail_count >= in_fail0, "C03.assert.nowrap the failure counter never decreases");
#else
        __CPROVER_assert(g_shadow_current_fail_count == in_fail0 + 1, "C03.assert false condition: failure counter incremented by exactly one");
#endif
        if (in_first_line0 == 0)
            __CPROVER_assert(g_shadow_current_first_line == in_line && g_shadow_current_first_column == in_column,
                             "C03.assert false condition, no failure recorded yet: location of THIS statement recorded");
        else
            __CPROVER_assert(g_shadow_current_first_line == in_first_line0 && g_shadow_current_first_column == in_first_col0,
                             "C03.assert false condition, a failure already recorded: first-failure location kept");
    }
    __CPROVER_assert(g_in_shadow_tests == in_shadow, "C03.assert the mode flag is not touched");
#ifdef VERIF_ASSERT_MAX       /* this case: false condition, inside shadow tests, counter full */
    VERIF_COVER(in_first_line0 == 0); VERIF_COVER(in_first_line0 != 0);
#else
    VERIF_COVER(in_ba && in_shadow); VERIF_COVER(in_ba && !in_shadow);
    VERIF_COVER(!in_ba && in_first_line0 == 0 && in_fail0 == 0); VERIF_COVER(!in_ba && in_first_line0 != 0 && in_fail0 > 0);
#endif
}

/* ---- C08.int.<acc>: the interpreter's array accessors with an index outside [0, length) never yield a value ----
 * The container is built concretely (kind and element type are constants of the query: case split), header and
 * backing store are separate objects of exactly capacity*elem bytes, length / capacity / index are arbitrary. */
#ifndef VERIF_ACC
#define VERIF_ACC ACC_AT
#endif
#ifndef VERIF_AK
#define VERIF_AK AK_ARRAY
#endif
#ifndef VERIF_ELEM
#define VERIF_ELEM EL_INT
#endif
#if VERIF_ELEM == EL_INT
#define EL_VT VAL_INT
#define EL_DT ELEM_INT
#define EL_SZ 8
#elif VERIF_ELEM == EL_FLOAT
#define EL_VT VAL_FLOAT
#define EL_DT ELEM_FLOAT
#define EL_SZ 8
#else
#define EL_VT VAL_BOOL
#define EL_DT ELEM_BOOL
#define EL_SZ 1
#endif

static Array g_arr;
static DynArray g_dyn;
/* argument vector.  The Values are built the way the interpreter's own constructors build them (create_int / create_float /
 * create_bool of src/env.c, create_dyn_array of eval.c; for VAL_ARRAY the same shape by hand: a LOCAL Value, type, flags, ONE
 * union member, returned by value).  Measured: a static initialiser or a member write into a zero-initialised Value stores
 * the container pointer as byte_update(<widest member zero>, 0, ptr) in CBMC's symbolic execution; the pointer is then not a
 * constant, the element kind read through it is symbolic and every element-kind arm (strings, structs) of the builtin is
 * walked (> 300 s instead of seconds). */
static Value g_argv[3];
static Value mk_array_value(Array *a)
{ Value v; v.type = VAL_ARRAY; v.is_return = false; v.is_break = false; v.is_continue = false; v.as.array_val = a; return v; }
#if VERIF_AK == AK_ARRAY
#define SET_CONTAINER_ARG() (g_argv[0] = mk_array_value(&g_arr))
#else
#define SET_CONTAINER_ARG() (g_argv[0] = create_dyn_array(&g_dyn))
#endif

void h_acc(void)
{
    in_idx = nondet_i64(); in_len = nondet_i64(); in_cap = nondet_i64();
#if VERIF_AK == AK_ARRAY
    /* Array: int length / capacity */
    __CPROVER_assume(0 <= in_len && in_len <= in_cap && in_cap <= 2147483647);
    g_arr.element_type = EL_VT; g_arr.length = (int)in_len; g_arr.capacity = (int)in_cap;
    g_arr.data = malloc((size_t)in_cap * EL_SZ);
    __CPROVER_assume(g_arr.data != NULL);
#else
    /* DynArray well-formed as C20 proves it is kept (DYN_WF): 0 <= length <= capacity, capacity >= 1, store of capacity*elem_size bytes */
    __CPROVER_assume(0 <= in_len && in_len <= in_cap && 1 <= in_cap && in_cap <= ((int64_t)1 << 40));
    g_dyn.length = in_len; g_dyn.capacity = in_cap; g_dyn.elem_type = EL_DT; g_dyn.elem_size = EL_SZ;
    g_dyn.data = malloc((size_t)in_cap * EL_SZ);
    __CPROVER_assume(g_dyn.data != NULL);
#endif
    SET_CONTAINER_ARG();
    g_argv[1] = create_int(in_idx);
#if VERIF_ACC == ACC_SET
#if VERIF_ELEM == EL_INT
    g_argv[2] = create_int(nondet_i64());
#elif VERIF_ELEM == EL_FLOAT
    g_argv[2] = create_float(nondet_double());
#else
    g_argv[2] = create_bool(nondet_bool() ? 1 : 0);
#endif
#endif
#ifdef VERIF_ONLY_OUT
    __CPROVER_assume(EV_OUT_OF_RANGE(in_idx, in_len));
#endif
#ifdef VERIF_CAP_SMALL     /* witness search only (registry: witness.override): a counterexample small enough for the native replayer to allocate */
    __CPROVER_assume(in_cap <= VERIF_CAP_SMALL);
#endif
#ifdef VERIF_CAP_MAX       /* bounds the IN-RANGE branch only (its element-shifting memmove); the out-of-range branch stays full-domain */
    __CPROVER_assume(EV_OUT_OF_RANGE(in_idx, in_len) || in_cap <= VERIF_CAP_MAX);
#endif
    Value r;
#if VERIF_ACC == ACC_AT
    r = builtin_at(g_argv);
    _Bool bad = EV_OUT_OF_RANGE(in_idx, in_len);
#elif VERIF_ACC == ACC_SET
    r = builtin_array_set(g_argv);
    _Bool bad = EV_OUT_OF_RANGE(in_idx, in_len);
#elif VERIF_ACC == ACC_REMOVE
    r = builtin_array_remove_at(g_argv);
    _Bool bad = EV_OUT_OF_RANGE(in_idx, in_len);
#else
    r = builtin_array_pop(g_argv);
    _Bool bad = (in_len == 0);
#endif
    /* the call RETURNED: then the operation was in range (out of range => the path ended in exit(status != 0)) */
    __CPROVER_assert(!bad, "C08.int an out-of-range access / pop of an empty array never returns a value");
    __CPROVER_assert(!__verif_ev.aborted, "C08.int unreachable: path ends do not return");
    /* in range: the functional effect (what the compiled program does with the same call; C03 side of the accessors) */
#if VERIF_AK == AK_ARRAY
#define STORE g_arr.data
#define CUR_LEN ((int64_t)g_arr.length)
#else
#define STORE g_dyn.data
#define CUR_LEN g_dyn.length
#endif
#if VERIF_ELEM == EL_INT
#define ELEM_AT(k) (((long long *)STORE)[k])
#define R_PAYLOAD r.as.int_val
#define V_PAYLOAD g_argv[2].as.int_val
#elif VERIF_ELEM == EL_BOOL
#define ELEM_AT(k) (((bool *)STORE)[k])
#define R_PAYLOAD r.as.bool_val
#define V_PAYLOAD g_argv[2].as.bool_val
#endif
#if VERIF_ACC == ACC_AT || VERIF_ACC == ACC_POP
    __CPROVER_assert(bad || (r.type == EL_VT && EV_PLAIN(r)), "C08.int an in-range read yields a value of the element type");
#endif
#if VERIF_ELEM != EL_FLOAT       /* float payloads: type only (NaN-safe bit comparison is not worth a second encoding here) */
#if VERIF_ACC == ACC_AT
    __CPROVER_assert(bad || R_PAYLOAD == ELEM_AT(in_idx), "C08.int in range: at yields the element at the index");
#elif VERIF_ACC == ACC_SET
    __CPROVER_assert(bad || ELEM_AT(in_idx) == V_PAYLOAD, "C08.int in range: array_set stores the value at the index");
#elif VERIF_ACC == ACC_POP
    __CPROVER_assert(bad || R_PAYLOAD == ELEM_AT(in_len - 1), "C08.int in range: array_pop yields the last element");
#endif
#endif
#if VERIF_ACC == ACC_POP || VERIF_ACC == ACC_REMOVE
    __CPROVER_assert(bad || CUR_LEN == in_len - 1, "C08.int in range: the array is one element shorter");
#else
    __CPROVER_assert(CUR_LEN == in_len, "C08.int at / array_set do not change the length");
#endif
#if VERIF_ACC == ACC_POP
    VERIF_COVER(in_len == 1); VERIF_COVER(in_len > 1);
#elif !defined(VERIF_ONLY_OUT)
    VERIF_COVER(in_idx == 0); VERIF_COVER(in_idx == in_len - 1 && in_len > 1);
#endif
}

/* ---- C03.float.<OP> / C03.mixed.<OP>: FLOAT (resp. INT and FLOAT) literal leaves of arbitrary bit pattern (NaN, +-0, inf,
 *      subnormals) through the real eval_expression / eval_prefix_op; result == the same C double operation ---- */
#ifndef VERIF_MIX
#define VERIF_MIX MIX_FF
#endif
static void mk_float_leaf(ASTNode *n, double v) { n->type = AST_FLOAT; n->line = nondet_int(); n->column = nondet_int(); n->as.float_val = v; }
static uint64_t dbits(double d) { return *(uint64_t *)&d; }

void h_fop(void)
{
    in_fa = nondet_double(); in_fb = nondet_double(); in_a = nondet_i64(); in_b = nondet_i64();
#ifdef VERIF_FMASK
    /* bounded stand-in for the arithmetic operators: both operands keep sign, the full 11-bit exponent (so zeros, subnormals,
       infinities and NaNs are all there) and only the top VERIF_FMASK mantissa bits; the remaining mantissa bits are zero */
    {   uint64_t ma = dbits(in_fa) & ~((((uint64_t)1) << (52 - VERIF_FMASK)) - 1), mb = dbits(in_fb) & ~((((uint64_t)1) << (52 - VERIF_FMASK)) - 1);
        in_fa = *(double *)&ma; in_fb = *(double *)&mb; }
#endif
#ifdef VERIF_FEXP
    /* further bound for * and / : both operands finite NORMAL numbers with unbiased exponent in [-VERIF_FEXP, VERIF_FEXP]
       (no zeros / subnormals / inf / NaN here: the comparison and +,- obligations and C03.float.DIV.zero cover those classes) */
    {   int ea = (int)((dbits(in_fa) >> 52) & 0x7ff) - 1023, eb = (int)((dbits(in_fb) >> 52) & 0x7ff) - 1023;
        __CPROVER_assume(-VERIF_FEXP <= ea && ea <= VERIF_FEXP && -VERIF_FEXP <= eb && eb <= VERIF_FEXP); }
#endif
    Environment *env = (Environment *)nondet_ptr();
    /* The spec-side operand values are obtained through the SAME path as the interpreter's (literal leaf -> eval_expression ->
       create_float / create_int -> Value), so that `x + y` below and `left.as.float_val + right.as.float_val` in eval.c are ONE
       term for the solver (two separately encoded float adders/multipliers/dividers do not close: ADD 185 s, MUL / DIV > 300 s);
       the first assertions tie them to the inputs bit for bit. */
#if VERIF_MIX == MIX_FF
    mk_float_leaf(&g_leaf0, in_fa); mk_float_leaf(&g_leaf1, in_fb);
    Value vx = eval_expression(&g_leaf0, env), vy = eval_expression(&g_leaf1, env);
    __CPROVER_assert(EV_IS_FLOAT(vx) && EV_IS_FLOAT(vy) && dbits(vx.as.float_val) == dbits(in_fa) && dbits(vy.as.float_val) == dbits(in_fb),
                     "C03.float a float literal evaluates to its own bit pattern");
    const double x = vx.as.float_val, y = vy.as.float_val;
#elif VERIF_MIX == MIX_IF
    mk_int_leaf(&g_leaf0, in_a); mk_float_leaf(&g_leaf1, in_fb);
    Value vx = eval_expression(&g_leaf0, env), vy = eval_expression(&g_leaf1, env);
    __CPROVER_assert(EV_IS_INT(vx) && EV_IS_FLOAT(vy) && vx.as.int_val == in_a && dbits(vy.as.float_val) == dbits(in_fb), "C03.float literals evaluate to themselves");
    const double x = (double)vx.as.int_val, y = vy.as.float_val;          /* C's usual arithmetic conversion of the int64_t operand */
#else
    mk_float_leaf(&g_leaf0, in_fa); mk_int_leaf(&g_leaf1, in_b);
    Value vx = eval_expression(&g_leaf0, env), vy = eval_expression(&g_leaf1, env);
    __CPROVER_assert(EV_IS_FLOAT(vx) && EV_IS_INT(vy) && dbits(vx.as.float_val) == dbits(in_fa) && vy.as.int_val == in_b, "C03.float literals evaluate to themselves");
    const double x = vx.as.float_val, y = (double)vy.as.int_val;
#endif
    __verif_ev.calls0 = 0; __verif_ev.calls1 = 0; __verif_ev.calls_other = 0; __verif_ev.seq = 0; __verif_ev.seq0 = 0; __verif_ev.seq1 = 0;
#if VERIF_EOP == EOP_DIV && VERIF_DOM == DOM_DEFINED
    __CPROVER_assume(y != 0.0);                        /* every divisor except +0.0 / -0.0 (NaN and inf included) */
#elif VERIF_EOP == EOP_DIV && VERIF_DOM == DOM_ZERO
    __CPROVER_assume(y == 0.0);
#endif
    g_opnode.line = nondet_int(); g_opnode.column = nondet_int();
    __verif_ev.n0 = &g_leaf0; __verif_ev.n1 = &g_leaf1;
    Value r = eval_expression(&g_opnode, env);
    __CPROVER_assert(!__verif_ev.exited && !__verif_ev.aborted, "C03.float unreachable: path ends do not return");
#if VERIF_EOP == EOP_ADD
    __CPROVER_assert(EV_IS_FLOAT(r) && dbits(r.as.float_val) == dbits(x + y), "C03.float ADD == C double addition (bits)");
#elif VERIF_EOP == EOP_SUB
    __CPROVER_assert(EV_IS_FLOAT(r) && dbits(r.as.float_val) == dbits(x - y), "C03.float SUB == C double subtraction (bits)");
#elif VERIF_EOP == EOP_MUL
    __CPROVER_assert(EV_IS_FLOAT(r) && dbits(r.as.float_val) == dbits(x * y), "C03.float MUL == C double multiplication (bits)");
#elif VERIF_EOP == EOP_DIV
    __CPROVER_assert(EV_IS_FLOAT(r) && dbits(r.as.float_val) == dbits(x / y), "C03.float DIV == C double division (bits; x/0 is +-inf or NaN, not a fault)");
#elif VERIF_EOP == EOP_NEG
    __CPROVER_assert(EV_IS_FLOAT(r) && dbits(r.as.float_val) == dbits(-x), "C03.float NEG == C double negation (bits)");
#elif VERIF_EOP == EOP_EQ
    __CPROVER_assert(EV_IS_BOOL(r) && r.as.bool_val == (x == y), "C03.float EQ == C double ==");
#elif VERIF_EOP == EOP_NE
    __CPROVER_assert(EV_IS_BOOL(r) && r.as.bool_val == (x != y), "C03.float NE == C double !=");
#elif VERIF_EOP == EOP_LT
    __CPROVER_assert(EV_IS_BOOL(r) && r.as.bool_val == (x < y), "C03.float LT == C double <");
#elif VERIF_EOP == EOP_LE
    __CPROVER_assert(EV_IS_BOOL(r) && r.as.bool_val == (x <= y), "C03.float LE == C double <=");
#elif VERIF_EOP == EOP_GT
    __CPROVER_assert(EV_IS_BOOL(r) && r.as.bool_val == (x > y), "C03.float GT == C double >");
#elif VERIF_EOP == EOP_GE
    __CPROVER_assert(EV_IS_BOOL(r) && r.as.bool_val == (x >= y), "C03.float GE == C double >=");
#endif
    __CPROVER_assert(__verif_ev.calls0 == 1, "C03.float operand 0 is evaluated exactly once");
#if VERIF_EOP != EOP_NEG
    __CPROVER_assert(__verif_ev.calls1 == 1 && __verif_ev.seq0 < __verif_ev.seq1, "C03.float operand 1 is evaluated exactly once, after operand 0");
#endif
#if !(VERIF_EOP == EOP_DIV && VERIF_DOM == DOM_ZERO)
#if VERIF_MIX == MIX_FF && defined(VERIF_FEXP)
    VERIF_COVER(x < 0.0 && y > 1.0); VERIF_COVER(x * y != y * y);
#elif VERIF_MIX == MIX_FF
    VERIF_COVER(x != x); VERIF_COVER(y != y);                 /* NaN operands */
    VERIF_COVER(x == 0.0 && dbits(x) != 0);                   /* -0.0 */
    VERIF_COVER(x > 1.0e308 && x == x + x);                   /* +inf */
#ifndef VERIF_FMASK
    VERIF_COVER(x - y != 0.0 && x - y < 1e-9 && y - x < 1e-9);   /* distinct but closer than any tolerance */
#endif
#elif VERIF_MIX == MIX_IF
    VERIF_COVER(y != y); VERIF_COVER(in_a == INT64_MIN); VERIF_COVER(in_a > ((int64_t)1 << 53) && (in_a & 1));   /* int not exactly representable */
#else
    VERIF_COVER(x != x); VERIF_COVER(in_b == INT64_MAX); VERIF_COVER(in_b > ((int64_t)1 << 53) && (in_b & 1));
#endif
    VERIF_COVER(x == y); VERIF_COVER(x < y);
#else
    VERIF_COVER(x > 0.0); VERIF_COVER(x == 0.0); VERIF_COVER(dbits(y) != 0);
#endif
}

/* ---- C03.slice.<kind>.int: builtin_array_slice against the documented (start, length) semantics, saturating ----
 * B(capacity <= VERIF_SLICE_CAP): the copy loop runs once per element; start and length are arbitrary int64. */
#ifndef VERIF_SLICE_CAP
#define VERIF_SLICE_CAP 5
#endif
#ifndef VERIF_SL
#define VERIF_SL SL_NOWRAP
#endif
/* allocator of the runtime's GC objects (src/runtime/gc.c is not in the unit): assumed contract = a fresh block of the size */
void *gc_alloc(size_t size, GCObjectType type) { (void)type; return malloc(size); }

void h_slice(void)
{
    in_start = nondet_i64(); in_length = nondet_i64(); in_len = nondet_i64(); in_cap = nondet_i64(); in_k = nondet_u32();
#if VERIF_AK == AK_ARRAY
    __CPROVER_assume(0 <= in_len && in_len <= in_cap && in_cap <= VERIF_SLICE_CAP);
    g_arr.element_type = VAL_INT; g_arr.length = (int)in_len; g_arr.capacity = (int)in_cap;
    g_arr.data = malloc((size_t)in_cap * 8); __CPROVER_assume(g_arr.data != NULL);
#define SRC_AT(k) (((long long *)g_arr.data)[k])
#else
    __CPROVER_assume(0 <= in_len && in_len <= in_cap && 1 <= in_cap && in_cap <= VERIF_SLICE_CAP);
    g_dyn.length = in_len; g_dyn.capacity = in_cap; g_dyn.elem_type = ELEM_INT; g_dyn.elem_size = 8;
    g_dyn.data = malloc((size_t)in_cap * 8); __CPROVER_assume(g_dyn.data != NULL);
#define SRC_AT(k) (((int64_t *)g_dyn.data)[k])
#endif
    SET_CONTAINER_ARG();
    g_argv[1] = create_int(in_start);
    g_argv[2] = create_int(in_length);
    const int64_t s = spec_slice_start(in_start, in_len), n = spec_slice_count(in_start, in_length, in_len);
    {   /* case split of the (start, length) plane */
        int64_t l = in_length < 0 ? 0 : in_length;
#if VERIF_SL == SL_NOWRAP
        __CPROVER_assume(l <= INT64_MAX - s);
        /* the transcription agrees with the prose spec here: count = length clamped to what remains from the clamped start */
        __CPROVER_assert(0 <= s && s <= in_len && n == (l < in_len - s ? l : in_len - s), "C03.slice spec sanity: clamped start, count = min(length, len - start)");
#else
        __CPROVER_assume(l > INT64_MAX - s);
        __CPROVER_assert(n == in_len - s, "C03.slice spec sanity: a length reaching past INT64_MAX means the rest of the array");
#endif
    }
    /* ghost element: its expected value is read BEFORE the call */
    const _Bool k_in = (int64_t)in_k < n;
    const int64_t want = k_in ? SRC_AT(s + in_k) : 0;
    Value r = builtin_array_slice(g_argv);
    __CPROVER_assert(!__verif_ev.exited && !__verif_ev.aborted, "C03.slice unreachable: path ends do not return");
#if VERIF_AK == AK_ARRAY
    __CPROVER_assert(r.type == VAL_ARRAY && EV_PLAIN(r) && r.as.array_val != NULL && r.as.array_val->element_type == VAL_INT, "C03.slice yields an int array");
    __CPROVER_assert(r.as.array_val->length == n, "C03.slice result length == min(length, len - start)");
    if (k_in) __CPROVER_assert(((long long *)r.as.array_val->data)[in_k] == want, "C03.slice result element k == source element start + k");
    __CPROVER_assert(g_arr.length == in_len, "C03.slice the source array keeps its length");
#else
    __CPROVER_assert(r.type == VAL_DYN_ARRAY && EV_PLAIN(r) && r.as.dyn_array_val != NULL && r.as.dyn_array_val->elem_type == ELEM_INT, "C03.slice yields an int array");
    __CPROVER_assert(r.as.dyn_array_val->length == n, "C03.slice result length == min(length, len - start)");
    if (k_in) __CPROVER_assert(((int64_t *)r.as.dyn_array_val->data)[in_k] == want, "C03.slice result element k == source element start + k");
    __CPROVER_assert(g_dyn.length == in_len, "C03.slice the source array keeps its length");
#endif
#if VERIF_SL == SL_NOWRAP
    VERIF_COVER(in_start < 0 && n > 1); VERIF_COVER(in_start > in_len); VERIF_COVER(in_length < 0);
    VERIF_COVER(n == in_len && in_len == VERIF_SLICE_CAP); VERIF_COVER(k_in && in_k > 0 && s > 0);
#else
    VERIF_COVER(in_len > 1 && s == 1); VERIF_COVER(s == in_len && in_len == VERIF_SLICE_CAP);
#endif
}
