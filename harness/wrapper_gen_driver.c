/* NATIVE helper (cc, not goto-cc) of the extract rule `wrapper_main` (obligations/c10_exit.py).
 * Includes the REAL src/nanovirt/wrapper_gen.c verbatim and calls its static write_wrapper_c() once, on a module
 * whose only relevant property is import_count (argv[2]: 0 or 1 - the generator branches on import_count > 0 only),
 * an 8-byte blob and no AST (program == NULL: no per-import vm_ffi_load_module("<path>") lines, which are straight-line
 * calls).  The text it prints IS the wrapper main that nano_virt would compile; that text is what C10.exit.wrapper
 * verifies. */
#include "nanovirt/wrapper_gen.c"

int main(int argc, char **argv)
{
    if (argc < 3) return 2;
    FILE *f = fopen(argv[1], "w");
    if (!f) return 2;
    NvmModule m;
    memset(&m, 0, sizeof m);
    m.import_count = (uint32_t)atoi(argv[2]);
    static const uint8_t blob[8] = { 'N', 'V', 'M', 0, 1, 2, 3, 4 };
    bool ok = write_wrapper_c(f, &m, blob, sizeof blob, NULL);
    fclose(f);
    return ok ? 0 : 1;
}
