/* C05.gate.nanoc / C06.gate : the real `compile_file` of src/main.c (annotated scratch copy: loop-contract
 * clauses only) under the contract below.  Every callee is cut at its interface (stub bodies of
 * contracts/gate_contracts.h); the driver's own static helpers diags_push_simple (real code) stays,
 * llm_emit_diags_json / llm_emit_diags_toon (they write the --llm-diags-* DIAGNOSTICS file, by design on
 * failure paths) are contract-replaced: "writes a diagnostics file, nothing else".
 * What the extraction changes: the NAME main -> nanoc_main. */
#ifdef VERIF_STRUCT_CHECK_FAILED
#error "compile_file no longer has the shape the path cut at transpile_to_c relies on (obligations/c05.py cut_is_structural): undecided"
#endif
#define GATE_NANOC 1
#ifndef GATE_VIEW_MAIN
#define GATE_CUT_AT_TRANSPILE 1
#endif
#define VERIF_FTELL_MIN 0L
#include "gate_contracts.h"
struct verif_gate __verif_gate;
int __verif_vm_r; uint8_t __verif_top_tag; int64_t __verif_top_i64;

#define main nanoc_main
#include "src/main.c"   /* "src/..." so that the annotated scratch copy is found before /repo/src (registry: include_repo [".", "src"]) */
#undef main

/* contracts on redeclarations (the parameter types are defined inside main.c itself) */
static void llm_emit_diags_json(const char *path, const char *input_file, const char *output_file, int exit_code, List_CompilerDiagnostic *diags)
__CPROVER_requires(1) __CPROVER_assigns(G.diag_written) __CPROVER_ensures(1);
static void llm_emit_diags_toon(const char *path, const char *input_file, const char *output_file, int exit_code, List_CompilerDiagnostic *diags)
__CPROVER_requires(1) __CPROVER_assigns(G.diag_written) __CPROVER_ensures(1);

#ifndef GATE_VIEW_MAIN
#define FRONT_FAILED (G.lex_failed || G.parse_failed || G.import_failed || G.tc_failed)
static int compile_file(const char *input_file, const char *output_file, CompilerOptions *opts)
__CPROVER_requires(__CPROVER_is_fresh(opts, sizeof(CompilerOptions)))
__CPROVER_requires(GATE_INIT)
__CPROVER_assigns(G)
/* C05.gate.nanoc: a failed lexer / parser / import / type-check phase => non-zero, nothing written,
 * nothing built, nothing executed (the shadow tests run program code), no C generated, no C compiler */
__CPROVER_ensures(FRONT_FAILED ==> (__CPROVER_return_value != 0 && !G.artifact_written && !G.cc_invoked && !G.transpiled &&
                                    !G.modules_built && !G.executed && G.shadow_calls == 0))
/* the type checker is consulted exactly once before anything is built, run or generated */
__CPROVER_ensures((G.artifact_written || G.modules_built || G.executed || G.transpiled || G.cc_invoked) ==> (G.tc_calls == 1 && !G.tc_failed))
/* C06.gate: failed shadow tests => non-zero, and no C generation / C compiler / output file */
__CPROVER_ensures(G.shadow_failed ==> (__CPROVER_return_value != 0 && !G.artifact_written && !G.cc_invoked && !G.transpiled))
/* failed module build => non-zero, shadow tests not run */
__CPROVER_ensures(G.modules_failed ==> (__CPROVER_return_value != 0 && !G.executed && !G.transpiled && !G.cc_invoked));

void h_compile_file(void)
{
    const char *in, *out; CompilerOptions *opts;
    int r = compile_file(in, out, opts);
    VERIF_COVER(r != 0 && G.tc_failed);
    VERIF_COVER(r != 0 && G.shadow_failed && G.modules_built);
    VERIF_COVER(r != 0 && G.lex_failed);
    VERIF_COVER(r == 0 && G.artifact_written);      /* --reflect */
    VERIF_COVER(r == 0 && !G.executed && G.tc_calls == 1);   /* --trust-report / --reference-eval */
}
#else
/* ---- C05.exit.nanoc: the tool's exit status IS compile_file's result.  Caller view: compile_file is replaced by
 * "returns some value, recorded in the ghost" (its own gate contract is enforced by C05.gate.nanoc / C06.gate.nanoc). */
static int compile_file(const char *input_file, const char *output_file, CompilerOptions *opts)
__CPROVER_requires(1)
__CPROVER_assigns(G.cf_calls, G.cf_ret)
__CPROVER_ensures(G.cf_calls == __CPROVER_old(G.cf_calls) + 1 && G.cf_ret == __CPROVER_return_value);

int nanoc_main(int argc, char *argv[])
__CPROVER_requires(argc >= 1 && argc <= 4096 && __CPROVER_is_fresh(argv, ((size_t)argc + 1) * sizeof(char *)))
__CPROVER_requires(GATE_INIT)
__CPROVER_assigns(G, g_argc, g_argv, __CPROVER_object_whole(g_project_root))
__CPROVER_ensures(G.cf_calls <= 1)
__CPROVER_ensures(G.cf_calls == 1 ==> __CPROVER_return_value == G.cf_ret)
/* --version / --help / usage errors: nothing is written, built or run */
__CPROVER_ensures(G.cf_calls == 0 ==> (GATE_NO_EFFECT && !G.modules_built));

void h_nanoc_main(void)
{
    int argc; char **argv;
    int r = nanoc_main(argc, argv);
    VERIF_COVER(G.cf_calls == 1 && r == 3);
    VERIF_COVER(G.cf_calls == 0 && r == 1);
    VERIF_COVER(G.cf_calls == 0 && r == 0);
}
#endif
