/* One-step VM harness (DESIGN 4.1a): the REAL vm_core_execute (vm.c included
 * verbatim; heap.c, value.c, isa.c, nvm_format.c linked unmodified) is run on a
 * module whose current function is filled with HALT except for ONE instruction
 * with opcode byte VERIF_OP and symbolic operand bytes, from a VM state that
 * satisfies VM_INV with a materialised footprint (top three stack slots, one
 * addressed slot, one global, container element at the index of interest).
 * Whatever the instruction does next (fall through, jump, call, return) lands
 * on a HALT byte or leaves the function, so the dispatch loop runs at most
 * three times (const-unwind, complete): the triple proved is
 *     { VM_INV & MOD_WF & opcode = K }  step  { VM_INV & post_K }  + no fault.
 * vm_release is replaced by its contract (contracts/vm_contracts.h).
 */
#include "vm_contracts.h"
#include "libc_stubs.h"
#include <stdlib.h>
#include <string.h>

#ifndef VERIF_OP
#define VERIF_OP 0
#endif

#include "nanovm/vm.c"   /* the real code, verbatim */

struct verif_ghost __verif_g;

/* ---- named inputs (witness extraction reads these from the trace) ---- */
struct in_operand_s { uint8_t b[12]; } in_operand;
struct in_operand_s nondet_operand(void);
uint32_t in_k;            /* index of interest inside containers */
uint32_t in_stack_size, in_stack_cap;
NanoValue in_v0, in_v1, in_v2;   /* top, top-1, top-2 as the harness built them */
uint32_t in_len0, in_len1, in_len2;

#define CODE_N 48u

/* ---- builders ---- */
static VmString *mk_string(void)
{
    uint32_t len = nondet_u32();
    __CPROVER_assume(len <= 3);
    VmString *s = malloc(sizeof(VmString) + 4);
    __CPROVER_assume(s != NULL);
    s->header.ref_count = nondet_u32();
    __CPROVER_assume(s->header.ref_count >= 1 && s->header.ref_count < 0x7fffffffu);
    s->header.obj_type = TAG_STRING;
    s->length = len;
    s->data[len] = 0;
    return s;
}

static NanoValue mk_scalar(void)
{
    NanoValue v;
    __CPROVER_assume(v.tag == TAG_VOID || v.tag == TAG_INT || v.tag == TAG_U8 || v.tag == TAG_FLOAT || v.tag == TAG_BOOL ||
                     v.tag == TAG_ENUM || v.tag == TAG_OPAQUE);
    if (v.tag == TAG_BOOL) { _Bool b = nondet_bool(); v.as.i64 = 0; v.as.boolean = b; }
    return v;
}

static NanoValue mk_leaf(void)
{
    if (nondet_bool()) return mk_scalar();
    NanoValue v; v.tag = TAG_STRING; v.as.i64 = 0;
    v.as.string = nondet_bool() ? NULL : mk_string();
    return v;
}

static uint32_t mk_rc(void) { uint32_t r = nondet_u32(); __CPROVER_assume(r >= 1 && r < 0x7fffffffu); return r; }

/* container whose element at in_k (if it exists) is a well-formed leaf; *len_out = its length */
static NanoValue mk_value(uint32_t *len_out)
{
    uint8_t kind = nondet_u8();
    *len_out = 0;
    if (kind == 0) return mk_leaf();
    NanoValue v; v.as.i64 = 0;
    NanoValue leaf = mk_leaf();
    if (kind == 1) {
        v.tag = TAG_ARRAY;
        VmArray *a = malloc(sizeof(VmArray)); __CPROVER_assume(a != NULL);
        a->header.ref_count = mk_rc(); a->header.obj_type = TAG_ARRAY;
        __CPROVER_assume(a->capacity >= 1 && a->capacity <= (1u << 20) && a->length <= a->capacity);
        a->elements = malloc((size_t)a->capacity * sizeof(NanoValue)); __CPROVER_assume(a->elements != NULL);
        if (in_k < a->capacity) a->elements[in_k] = leaf;
        *len_out = a->length;
        v.as.array = a;
    } else if (kind == 2) {
        v.tag = TAG_STRUCT;
        VmStruct *s = malloc(sizeof(VmStruct)); __CPROVER_assume(s != NULL);
        s->header.ref_count = mk_rc(); s->header.obj_type = TAG_STRUCT;
        __CPROVER_assume(s->field_count <= (1u << 16));
        s->field_names = NULL;
        s->fields = malloc((size_t)s->field_count * sizeof(NanoValue)); __CPROVER_assume(s->fields != NULL);
        if (in_k < s->field_count) s->fields[in_k] = leaf;
        *len_out = s->field_count;
        v.as.sval = s;
    } else if (kind == 3) {
        v.tag = TAG_UNION;
        VmUnion *u = malloc(sizeof(VmUnion)); __CPROVER_assume(u != NULL);
        u->header.ref_count = mk_rc(); u->header.obj_type = TAG_UNION;
        u->fields = malloc((size_t)u->field_count * sizeof(NanoValue)); __CPROVER_assume(u->fields != NULL);
        if (in_k < u->field_count) u->fields[in_k] = leaf;
        *len_out = u->field_count;
        v.as.uval = u;
    } else if (kind == 4) {
        v.tag = TAG_TUPLE;
        uint32_t n = nondet_u32(); __CPROVER_assume(n <= (1u << 16));
        VmTuple *t = malloc(sizeof(VmTuple) + (size_t)n * sizeof(NanoValue)); __CPROVER_assume(t != NULL);
        t->header.ref_count = mk_rc(); t->header.obj_type = TAG_TUPLE; t->count = n;
        if (in_k < n) t->elements[in_k] = leaf;
        *len_out = n;
        v.as.tuple = t;
    } else if (kind == 5) {
        v.tag = TAG_FUNCTION;
        uint16_t n = nondet_u16();
        VmClosure *c = malloc(sizeof(VmClosure) + (size_t)n * sizeof(NanoValue)); __CPROVER_assume(c != NULL);
        c->header.ref_count = mk_rc(); c->header.obj_type = TAG_FUNCTION; c->capture_count = n;
        if (in_k < n) c->captures[in_k] = leaf;
        *len_out = n;
        v.as.closure = c;
    } else {
        return mk_leaf();
    }
    return v;
}

static NvmModule *g_m;
static VmState *g_vm;
static uint32_t g_instr_at;   /* absolute offset of the instruction under proof */

#include "modwf.h"          /* FN_OK, IOK_* : what nvm_verify guarantees (proved under C13.verify.*) */
#include "nanoisa/isa.c"    /* the real instruction table + codec, verbatim */

static void build_state(void)
{
    NvmModule *m = malloc(sizeof(NvmModule)); __CPROVER_assume(m != NULL);
    m->function_count = 2;
    m->functions = malloc(2 * sizeof(NvmFunctionEntry)); __CPROVER_assume(m->functions != NULL);
    m->code_size = CODE_N;
    m->code = malloc(CODE_N); __CPROVER_assume(m->code != NULL);
    memset(m->code, OP_HALT, CODE_N);
    m->import_count = 0; m->imports = NULL; m->import_param_types = NULL;   /* C13: import-free modules */
    __CPROVER_assume(m->string_count <= 2);
    m->strings = malloc(2 * sizeof(char *)); m->string_lengths = malloc(2 * sizeof(uint32_t));
    __CPROVER_assume(m->strings != NULL && m->string_lengths != NULL);
    for (int i = 0; i < 2; i++) {
        char *s = malloc(4); __CPROVER_assume(s != NULL); s[3] = 0; m->strings[i] = s;
    }
    /* both functions passed verify_structure */
    __CPROVER_assume(FN_OK(m, 0) && FN_OK(m, 1));

    VmState *vm = malloc(sizeof(VmState)); __CPROVER_assume(vm != NULL);
    vm->module = m;
    __CPROVER_assume(vm->current_fn < 2);
    uint32_t f = vm->current_fn;
    uint32_t p = nondet_u32();                         /* offset of the instruction inside the function */
    __CPROVER_assume(p < m->functions[f].code_length);
    uint8_t *at = m->code + m->functions[f].code_offset + p;
    in_operand = nondet_operand();
    at[0] = (uint8_t)VERIF_OP;
    for (uint32_t j = 1; j < 12; j++)
        if ((uint64_t)m->functions[f].code_offset + p + j < CODE_N) at[j] = in_operand.b[j];
    /* the instruction passed verify_function (decode ok, targets/indices in range) */
    __CPROVER_assume(IOK_DECODE(m, f, p) && IOK_JMP(m, f, p) && IOK_MATCH(m, f, p) && IOK_CALL(m, f, p) &&
                     IOK_STR(m, f, p) && IOK_EXTERN(m, f, p) && IOK_LOCAL(m, f, p));
    vm->ip = m->functions[f].code_offset + p;
    g_instr_at = vm->ip;

    /* scalar invariant */
    in_stack_cap = nondet_u32(); in_stack_size = nondet_u32();
    __CPROVER_assume(in_stack_cap >= 1 && in_stack_cap <= 64 && in_stack_size <= in_stack_cap);
    vm->stack_capacity = in_stack_cap; vm->stack_size = in_stack_size;
    vm->stack = malloc((size_t)in_stack_cap * sizeof(NanoValue)); __CPROVER_assume(vm->stack != NULL);
    __CPROVER_assume(vm->frame_count >= 1 && vm->frame_count <= VM_MAX_FRAMES);
    VmCallFrame *fr = &vm->frames[vm->frame_count - 1];
    __CPROVER_assume(fr->fn_idx == f && fr->module == m && fr->closure == NULL);
    __CPROVER_assume(vm->global_count <= VM_MAX_GLOBALS);
    vm->linked_modules = NULL; vm->linked_module_count = 0; vm->linked_module_capacity = 0;
    vm->heap.intern_table = malloc(4 * sizeof(VmString *)); __CPROVER_assume(vm->heap.intern_table != NULL);
    vm->heap.intern_capacity = 4; vm->heap.intern_count = 0;
    vm->output = NULL;

    /* footprint: top three slots */
    in_k = nondet_u32();
    in_v0 = mk_value(&in_len0); in_v1 = mk_value(&in_len1); in_v2 = mk_value(&in_len2);
    if (in_stack_size >= 1) vm->stack[in_stack_size - 1] = in_v0;
    if (in_stack_size >= 2) vm->stack[in_stack_size - 2] = in_v1;
    if (in_stack_size >= 3) vm->stack[in_stack_size - 3] = in_v2;
    g_m = m; g_vm = vm;
}

#define OPERAND_U16_AT(o) ((uint16_t)(in_operand.b[o] | (in_operand.b[(o) + 1] << 8)))

/* ---- generic safety step: C13.step.<K> ---- */
void h_step(void)
{
    build_state();
    VmState *vm = g_vm; NvmModule *m = g_m;
    uint32_t ss0 = vm->stack_size;
    VmTrap t = vm_core_execute(vm);
    __CPROVER_assert(VM_INV_SCALAR(vm, m), "C13.step VM_INV (scalar part) holds after the step");
    __CPROVER_assert(t.type == TRAP_NONE || t.type == TRAP_EXTERN_CALL || t.type == TRAP_PRINT || t.type == TRAP_ASSERT ||
                     t.type == TRAP_HALT || t.type == TRAP_ERROR, "C13.step the step ends in a defined trap type");
    __CPROVER_assert(!(t.type == TRAP_ERROR && (t.data.error.code == VM_ERR_DECODE || t.data.error.code == VM_ERR_INVALID_OPCODE)),
                     "C13.nodecode a verified instruction never raises a decode / invalid-opcode error");
    VERIF_COVER(t.type == TRAP_HALT || t.type == TRAP_NONE || t.type == TRAP_PRINT || t.type == TRAP_ASSERT);
    (void)ss0;
}

/* ---- C08.vm.<K>: index outside [0,len) => TRAP_ERROR(OUT_OF_BOUNDS), nothing pushed ---- */
void h_c08(void)
{
    build_state();
    VmState *vm = g_vm;
    uint8_t K = (uint8_t)VERIF_OP;
    /* shape needed by the accessor; the index is the int64 on the stack (before any narrowing) or the u16 operand */
    int64_t idx; uint32_t len; _Bool shaped;
    if (K == OP_ARR_GET || K == OP_ARR_REMOVE) {
        shaped = in_stack_size >= 2 && in_v1.tag == TAG_ARRAY && in_v0.tag == TAG_INT;
        idx = in_v0.as.i64; len = in_len1;
    } else if (K == OP_ARR_SET) {
        shaped = in_stack_size >= 3 && in_v2.tag == TAG_ARRAY && in_v1.tag == TAG_INT;
        idx = in_v1.as.i64; len = in_len2;
    } else if (K == OP_ARR_POP) {
        shaped = in_stack_size >= 1 && in_v0.tag == TAG_ARRAY;
        idx = 0; len = in_len0;
    } else if (K == OP_STRUCT_GET || K == OP_UNION_FIELD || K == OP_TUPLE_GET) {
        shaped = in_stack_size >= 1 && in_v0.tag == (K == OP_STRUCT_GET ? TAG_STRUCT : K == OP_UNION_FIELD ? TAG_UNION : TAG_TUPLE);
        idx = OPERAND_U16_AT(1); len = in_len0;
    } else { /* OP_STRUCT_SET */
        shaped = in_stack_size >= 2 && in_v1.tag == TAG_STRUCT;
        idx = OPERAND_U16_AT(1); len = in_len1;
    }
    __CPROVER_assume(shaped);
    __CPROVER_assume(in_k == (uint32_t)idx);     /* the materialised element is the one addressed (after the code's narrowing) */
    _Bool out_of_range = idx < 0 || idx >= (int64_t)len;
    uint32_t ss0 = vm->stack_size;
    VmTrap t = vm_core_execute(vm);
    if (out_of_range) {
        __CPROVER_assert(t.type == TRAP_ERROR, "C08.vm out-of-range access ends the run in an error trap");
        __CPROVER_assert(t.type != TRAP_ERROR || t.data.error.code == VM_ERR_OUT_OF_BOUNDS, "C08.vm the error is OUT_OF_BOUNDS");
    } else {
        __CPROVER_assert(t.type != TRAP_ERROR, "C08.vm an in-range access does not fail");
    }
    VERIF_COVER(out_of_range && idx < 0);
    VERIF_COVER(out_of_range && idx >= (int64_t)len && len > 0);
    VERIF_COVER(!out_of_range);
    (void)ss0;
}
