/* One-step VM harness (DESIGN 4.1a): the REAL vm_core_execute (vm.c included
 * verbatim; heap.c, value.c, isa.c, nvm_format.c linked unmodified) is run on a
 * module whose current function is filled with HALT except for ONE instruction
 * with opcode byte VERIF_OP and symbolic operand bytes, from a VM state that
 * satisfies VM_INV with a materialised footprint (top three stack slots, one
 * addressed slot, one global, container element at the index of interest).
 * Whatever the instruction does next (fall through, jump, call, return) lands
 * on a HALT byte or leaves the function, so the dispatch loop runs at most
 * three times (const-unwind, complete): the triple proved is
 *     { VM_INV & MOD_WF & opcode = K }  step  { VM_INV & post_K }  + no fault.
 * vm_release is replaced by its contract (contracts/vm_contracts.h).
 */
#define VERIF_VM_RELEASE_STUB 1
#define VERIF_RELEASE_CHILD in_k
extern unsigned int in_k;
#include "vm_contracts.h"
#include "libc_stubs.h"
#include "spec_int.h"
#include <stdlib.h>
#include <string.h>

#ifndef VERIF_OP
#define VERIF_OP 0
#endif

/* snprintf (vm_string_from_int/float): assumed contract - returns the number of characters written,
 * 0 <= r < n (the VM's formats "%lld" / "%g" never exceed their 32/64-byte buffers), destination NUL-terminated.
 * (A variadic stub body is fine here: step harnesses are not DFCC-instrumented.) */
int snprintf(char *s, size_t n, const char *fmt, ...)
{
    (void)fmt;
    __CPROVER_assert(n == 0 || __CPROVER_w_ok(s, n), "libc: snprintf destination valid for n bytes");
    int r = nondet_int();
    __CPROVER_assume(r >= 0 && (size_t)r < n && r <= 24);
    if (n) s[r] = 0;
    return r;
}

/* libc string->number / substring search used by CAST_* and STR_CONTAINS: CBMC has no model; assumed contracts:
 * the argument is a NUL-terminated string (checked: its first byte is readable), any result. */
double strtod(const char *s, char **end) { __CPROVER_assert(__CPROVER_r_ok(s, 1), "libc: strtod argument readable"); if (end) *end = (char *)s; return nondet_double(); }
long long strtoll(const char *s, char **end, int base) { (void)base; __CPROVER_assert(__CPROVER_r_ok(s, 1), "libc: strtoll argument readable"); if (end) *end = (char *)s; return nondet_i64(); }
long strtol(const char *s, char **end, int base) { (void)base; __CPROVER_assert(__CPROVER_r_ok(s, 1), "libc: strtol argument readable"); if (end) *end = (char *)s; return (long)nondet_i64(); }
char *strstr(const char *h, const char *n)
{
    __CPROVER_assert(__CPROVER_r_ok(h, 1) && __CPROVER_r_ok(n, 1), "libc: strstr arguments readable");
    return nondet_bool() ? (char *)h : (char *)0;
}

#include "nanovm/vm.c"   /* the real code, verbatim */

struct verif_ghost __verif_g;

/* ---- named inputs (witness extraction reads these from the trace) ---- */
struct in_operand_s { uint8_t b[12]; } in_operand;
struct in_operand_s nondet_operand(void);
unsigned int in_k;        /* index of interest inside containers */
uint32_t in_stack_size, in_stack_cap;
NanoValue in_v0, in_v1, in_v2;   /* top, top-1, top-2 as the harness built them */
uint32_t in_len0, in_len1, in_len2;

#define CODE_N 48u

/* ---- builders ---- */
static VmString *mk_string(void)
{
    uint32_t len = nondet_u32();
    __CPROVER_assume(len <= 3);
    VmString *s = malloc(sizeof(VmString) + 4);
    __CPROVER_assume(s != NULL);
    s->header.ref_count = nondet_u32();
    __CPROVER_assume(s->header.ref_count >= 1 && s->header.ref_count < 0x7fffffffu);
    s->header.obj_type = TAG_STRING;
    s->length = len;
    s->data[len] = 0;
    return s;
}

static NanoValue mk_scalar(void)
{
    /* built field by field from a zeroed struct: an uninitialised union local gives CBMC's
     * field-sensitive symex independent nondets for the union and for its members */
    NanoValue v = {0};
    v.tag = nondet_u8();
    __CPROVER_assume(v.tag == TAG_VOID || v.tag == TAG_INT || v.tag == TAG_U8 || v.tag == TAG_FLOAT || v.tag == TAG_BOOL ||
                     v.tag == TAG_ENUM || v.tag == TAG_OPAQUE);
    v.as.i64 = nondet_i64();
    if (v.tag == TAG_BOOL) { v.as.i64 = 0; v.as.boolean = nondet_bool(); }
    return v;
}

static NanoValue mk_leaf(void)
{
    if (nondet_bool()) return mk_scalar();
    NanoValue v = {0}; v.tag = TAG_STRING;
    v.as.string = mk_string();   /* VAL_WF: under "allocation succeeds" every constructor of a heap-tagged value yields a live object */
    return v;
}

static uint32_t mk_rc(void) { uint32_t r = nondet_u32(); __CPROVER_assume(r >= 1 && r < 0x7fffffffu); return r; }

/* Shape masks: which kinds of value the harness may put in a slot.  Restricting the mask is a
 * case split chosen by the registry (-DVERIF_M0/M1/M2); the default is "any well-formed value". */
#define M_SCALAR 1u
#define M_STRING 2u
#define M_ARRAY 4u
#define M_STRUCT 8u
#define M_UNION 16u
#define M_TUPLE 32u
#define M_CLOSURE 64u
#define M_HASHMAP 512u  /* hashmap with at most one entry per bucket chain */
#define M_INT 128u      /* TAG_INT only */
#define M_BOOL 256u     /* TAG_BOOL only */
#define M_FLOAT 1024u   /* TAG_FLOAT only, any bit pattern (NaN payloads, +-0, inf, subnormals) */
#define M_ANY 127u      /* hashmaps only where the registry asks for them (M_HASHMAP): they triple the formula */
#ifndef VERIF_ARR_CAP
#define VERIF_ARR_CAP (1u << 20)   /* arrays of any length up to 2^20; obligations whose handler loops over the elements pin a small cap and are labelled bounded */
#endif
#ifndef VERIF_M0
#define VERIF_M0 M_ANY
#endif
#ifndef VERIF_M1
#define VERIF_M1 M_ANY
#endif
#ifndef VERIF_M2
#define VERIF_M2 M_ANY
#endif

/* container whose element at in_k (if it exists) is a well-formed leaf; *len_out = its length */
static NanoValue mk_value(unsigned mask, uint32_t *len_out)
{
    if (mask == M_INT) { NanoValue iv = {0}; iv.tag = TAG_INT; iv.as.i64 = nondet_i64(); *len_out = 0; return iv; }
    if (mask == M_FLOAT) { NanoValue fv = {0}; fv.tag = TAG_FLOAT; fv.as.i64 = nondet_i64(); *len_out = 0; return fv; }
    if (mask == M_BOOL) { NanoValue bv = {0}; bv.tag = TAG_BOOL; bv.as.boolean = nondet_bool(); *len_out = 0; return bv; }
    unsigned kind = nondet_u16();
    __CPROVER_assume(kind == M_SCALAR || kind == M_STRING || kind == M_ARRAY || kind == M_STRUCT || kind == M_UNION ||
                     kind == M_TUPLE || kind == M_CLOSURE || kind == M_HASHMAP);
    __CPROVER_assume((kind & mask) != 0);
    *len_out = 0;
    NanoValue v = {0};
    if ((mask & M_SCALAR) && kind == M_SCALAR) return mk_scalar();
    if ((mask & M_STRING) && kind == M_STRING) { v.tag = TAG_STRING; v.as.string = mk_string(); return v; }
    NanoValue leaf = mk_leaf();
    if ((mask & M_ARRAY) && kind == M_ARRAY) {
        v.tag = TAG_ARRAY;
        VmArray *a = malloc(sizeof(VmArray)); __CPROVER_assume(a != NULL);
        a->header.ref_count = mk_rc(); a->header.obj_type = TAG_ARRAY;
        __CPROVER_assume(a->capacity >= 1 && a->capacity <= VERIF_ARR_CAP && a->length <= a->capacity);
        a->elements = malloc((size_t)a->capacity * sizeof(NanoValue)); __CPROVER_assume(a->elements != NULL);
        if (in_k < a->capacity) a->elements[in_k] = leaf;
        *len_out = a->length;
        v.as.array = a;
    } else if ((mask & M_STRUCT) && kind == M_STRUCT) {
        v.tag = TAG_STRUCT;
        VmStruct *s = malloc(sizeof(VmStruct)); __CPROVER_assume(s != NULL);
        s->header.ref_count = mk_rc(); s->header.obj_type = TAG_STRUCT;
        __CPROVER_assume(s->field_count <= (1u << 16));
        s->field_names = NULL;
        s->fields = malloc((size_t)s->field_count * sizeof(NanoValue)); __CPROVER_assume(s->fields != NULL);
        if (in_k < s->field_count) s->fields[in_k] = leaf;
        *len_out = s->field_count;
        v.as.sval = s;
    } else if ((mask & M_UNION) && kind == M_UNION) {
        v.tag = TAG_UNION;
        VmUnion *u = malloc(sizeof(VmUnion)); __CPROVER_assume(u != NULL);
        u->header.ref_count = mk_rc(); u->header.obj_type = TAG_UNION;
        u->fields = malloc((size_t)u->field_count * sizeof(NanoValue)); __CPROVER_assume(u->fields != NULL);
        if (in_k < u->field_count) u->fields[in_k] = leaf;
        *len_out = u->field_count;
        v.as.uval = u;
    } else if ((mask & M_TUPLE) && kind == M_TUPLE) {
        v.tag = TAG_TUPLE;
        uint32_t n = nondet_u32(); __CPROVER_assume(n <= (1u << 16));
        VmTuple *t = malloc(sizeof(VmTuple) + (size_t)n * sizeof(NanoValue)); __CPROVER_assume(t != NULL);
        t->header.ref_count = mk_rc(); t->header.obj_type = TAG_TUPLE; t->count = n;
        if (in_k < n) t->elements[in_k] = leaf;
        *len_out = n;
        v.as.tuple = t;
    } else if ((mask & M_CLOSURE) && kind == M_CLOSURE) {
        v.tag = TAG_FUNCTION;
        uint16_t n = nondet_u16();
        VmClosure *c = malloc(sizeof(VmClosure) + (size_t)n * sizeof(NanoValue)); __CPROVER_assume(c != NULL);
        c->header.ref_count = mk_rc(); c->header.obj_type = TAG_FUNCTION; c->capture_count = n;
        if (in_k < n) c->captures[in_k] = leaf;
        *len_out = n;
        v.as.closure = c;
    } else if ((mask & M_HASHMAP) && kind == M_HASHMAP) {
        v.tag = TAG_HASHMAP;
        VmHashMap *h = malloc(sizeof(VmHashMap)); __CPROVER_assume(h != NULL);
        h->header.ref_count = mk_rc(); h->header.obj_type = TAG_HASHMAP;
        h->bucket_count = 2;                      /* B: two buckets, chains of length <= 1 */
        h->buckets = malloc(2 * sizeof(VmHMEntry *)); __CPROVER_assume(h->buckets != NULL);
        __CPROVER_assume(h->count <= 2);
        for (int bi = 0; bi < 2; bi++) {
            if (nondet_bool()) { h->buckets[bi] = NULL; continue; }
            VmHMEntry *e = malloc(sizeof(VmHMEntry)); __CPROVER_assume(e != NULL);
            e->key = mk_leaf(); e->value = mk_leaf(); e->next = NULL;
            h->buckets[bi] = e;
        }
        *len_out = h->count;
        v.as.hashmap = h;
    } else {
        return mk_scalar();
    }
    return v;
}

static NvmModule *g_m;
static VmState *g_vm;
static uint32_t g_instr_at;   /* absolute offset of the instruction under proof */

#include "modwf.h"          /* FN_OK, IOK_* : what nvm_verify guarantees (proved under C13.verify.*) */
#include "nanoisa/isa.c"    /* the real instruction table + codec, verbatim */

static void build_state(void)
{
    NvmModule *m = malloc(sizeof(NvmModule)); __CPROVER_assume(m != NULL);
    m->function_count = 2;
    m->functions = malloc(2 * sizeof(NvmFunctionEntry)); __CPROVER_assume(m->functions != NULL);
    m->code_size = CODE_N;
    m->code = malloc(CODE_N); __CPROVER_assume(m->code != NULL);
    memset(m->code, OP_HALT, CODE_N);
    m->import_count = 0; m->imports = NULL; m->import_param_types = NULL;   /* C13: import-free modules */
    __CPROVER_assume(m->string_count <= 2);
    m->strings = malloc(2 * sizeof(char *)); m->string_lengths = malloc(2 * sizeof(uint32_t));
    __CPROVER_assume(m->strings != NULL && m->string_lengths != NULL);
    for (int i = 0; i < 2; i++) {
        char *s = malloc(4); __CPROVER_assume(s != NULL); s[3] = 0; m->strings[i] = s;
    }
    /* Fixed code layout (so that the opcode byte read back by isa_decode is a constant and symbolic
     * execution prunes the other 93 cases): function 0 = [3,33), function 1 = [33,43); the instruction
     * under proof sits at offset 5 of function 0 (absolute 8).  Everything else in the entries is symbolic. */
    m->functions[0].code_offset = 3;  m->functions[0].code_length = 30;
    m->functions[1].code_offset = 33; m->functions[1].code_length = 10;
    __CPROVER_assume(m->functions[0].name_idx < m->string_count || m->string_count == 0);

    VmState *vm = malloc(sizeof(VmState)); __CPROVER_assume(vm != NULL);
    vm->module = m;
    vm->current_fn = 0;
    const uint32_t f = 0, p = 5;
    uint8_t *at = m->code + 8;
    in_operand = nondet_operand();
    at[0] = (uint8_t)VERIF_OP;
    {   /* exactly the operand bytes of this opcode are symbolic; the bytes after the instruction stay HALT */
        const uint32_t ilen = SPEC_LEN_M((uint8_t)VERIF_OP);
        if (1 < ilen) at[1] = in_operand.b[1];   if (2 < ilen) at[2] = in_operand.b[2];
        if (3 < ilen) at[3] = in_operand.b[3];   if (4 < ilen) at[4] = in_operand.b[4];
        if (5 < ilen) at[5] = in_operand.b[5];   if (6 < ilen) at[6] = in_operand.b[6];
        if (7 < ilen) at[7] = in_operand.b[7];   if (8 < ilen) at[8] = in_operand.b[8];
        if (9 < ilen) at[9] = in_operand.b[9];   if (10 < ilen) at[10] = in_operand.b[10];
        if (11 < ilen) at[11] = in_operand.b[11];
    }
    /* the instruction passed verify_function (decode ok, targets/indices in range) */
    {
        const uint8_t *c = m->code + 3;
        uint32_t end = 30;
        __CPROVER_assume(IOKP_DECODE(c, end, p));
        uint8_t K = (uint8_t)VERIF_OP;      /* constant: only the clause of this opcode is non-trivial */
        if (K == OP_JMP || K == OP_JMP_TRUE || K == OP_JMP_FALSE) __CPROVER_assume(IOKP_JMP(c, end, p));
        if (K == OP_MATCH_TAG) __CPROVER_assume(IOKP_MATCH(c, end, p));
        if (K == OP_CALL || K == OP_CLOSURE_NEW) __CPROVER_assume(IOKP_CALL(c, end, p, m->function_count));
        if (K == OP_PUSH_STR) __CPROVER_assume(IOKP_STR(c, end, p, m->string_count));
        if (K == OP_CALL_EXTERN) __CPROVER_assume(IOKP_EXTERN(c, end, p, m->import_count));
        if (K == OP_LOAD_LOCAL || K == OP_STORE_LOCAL) __CPROVER_assume(IOKP_LOCAL(c, end, p, m->functions[f].local_count));
    }
    vm->ip = 8;
    g_instr_at = vm->ip;

    /* scalar invariant */
#ifdef VERIF_STACK_SIZE
    /* operator-semantics obligations pin the stack depth (the handlers' arithmetic does not depend on it):
       with concrete slot indices the operands the VM reads are the very SSA symbols the spec is applied to,
       so that e.g. `a / b` in vm.c and in the spec function are one term for the solver */
    in_stack_cap = 8; in_stack_size = VERIF_STACK_SIZE;
#else
    in_stack_cap = nondet_u32(); in_stack_size = nondet_u32();
    __CPROVER_assume(in_stack_cap >= 1 && in_stack_cap <= 64 && in_stack_size <= in_stack_cap);
#endif
    vm->stack_capacity = in_stack_cap; vm->stack_size = in_stack_size;
    vm->stack = malloc((size_t)in_stack_cap * sizeof(NanoValue)); __CPROVER_assume(vm->stack != NULL);
    __CPROVER_assume(vm->frame_count >= 1 && vm->frame_count <= VM_MAX_FRAMES);
    VmCallFrame *fr = &vm->frames[vm->frame_count - 1];
    in_k = nondet_u32();
    __CPROVER_assume(fr->fn_idx == f && fr->module == m);
    fr->closure = NULL;
    if (((uint8_t)VERIF_OP == OP_LOAD_UPVALUE || (uint8_t)VERIF_OP == OP_STORE_UPVALUE) && nondet_bool()) {
        uint32_t cl; NanoValue cv = mk_value(M_CLOSURE, &cl);
        fr->closure = cv.as.closure;
    }
    __CPROVER_assume(vm->global_count <= VM_MAX_GLOBALS);
    vm->linked_modules = NULL; vm->linked_module_count = 0; vm->linked_module_capacity = 0;
    vm->heap.intern_table = malloc(4 * sizeof(VmString *)); __CPROVER_assume(vm->heap.intern_table != NULL);
    vm->heap.intern_capacity = 4; vm->heap.intern_count = 0;
    vm->output = NULL;

    /* footprint: top three slots */
    in_v0 = mk_value(VERIF_M0, &in_len0); in_v1 = mk_value(VERIF_M1, &in_len1); in_v2 = mk_value(VERIF_M2, &in_len2);
    if (in_stack_size >= 1) vm->stack[in_stack_size - 1] = in_v0;
    if (in_stack_size >= 2) vm->stack[in_stack_size - 2] = in_v1;
    if (in_stack_size >= 3) vm->stack[in_stack_size - 3] = in_v2;
    {   /* addressed slots: the local / global named by the operand, if the step can reach it */
        uint8_t K = (uint8_t)VERIF_OP;
        uint32_t dummy;
        if (K == OP_LOAD_LOCAL || K == OP_STORE_LOCAL) {
            uint32_t xs = fr->stack_base + (uint16_t)(in_operand.b[1] | (in_operand.b[2] << 8));
            if (xs < in_stack_size && (uint64_t)xs + 3 < in_stack_size) vm->stack[xs] = mk_value(M_ANY, &dummy);
        }
        if (K == OP_LOAD_GLOBAL || K == OP_STORE_GLOBAL) {
            uint32_t gi = (uint32_t)in_operand.b[1] | ((uint32_t)in_operand.b[2] << 8) | ((uint32_t)in_operand.b[3] << 16) | ((uint32_t)in_operand.b[4] << 24);
            if (gi < VM_MAX_GLOBALS) vm->globals[gi] = mk_value(M_ANY, &dummy);
        }
        /* the element of interest inside a container is the one the instruction addresses */
        if (K == OP_STRUCT_GET || K == OP_STRUCT_SET || K == OP_UNION_FIELD || K == OP_TUPLE_GET)
            __CPROVER_assume(in_k == (uint16_t)(in_operand.b[1] | (in_operand.b[2] << 8)));
        if (K == OP_LOAD_UPVALUE || K == OP_STORE_UPVALUE)
            __CPROVER_assume(in_k == (uint16_t)(in_operand.b[3] | (in_operand.b[4] << 8)));
        if ((K == OP_ARR_GET || K == OP_ARR_REMOVE) && in_v0.tag == TAG_INT) __CPROVER_assume(in_k == (uint32_t)in_v0.as.i64);
        if ((K == OP_ARR_GET || K == OP_ARR_REMOVE) && in_v0.tag != TAG_INT) __CPROVER_assume(in_k == 0);
        if (K == OP_ARR_SET && in_v1.tag == TAG_INT) __CPROVER_assume(in_k == (uint32_t)in_v1.as.i64);
        if (K == OP_ARR_SET && in_v1.tag != TAG_INT) __CPROVER_assume(in_k == 0);
        /* control transfers: keep the harness to ONE step by letting the target land on a HALT byte, i.e. anywhere in the
           function except the instruction's own bytes (a jump to itself re-runs the same step; its post-state differs only
           in the value stored in vm->ip, which VM_IP_OK covers) */
        if (K == OP_JMP || K == OP_JMP_TRUE || K == OP_JMP_FALSE || K == OP_MATCH_TAG) {
            int o = (K == OP_MATCH_TAG) ? 3 : 1;
            int64_t tgt = 8 + (int64_t)(int32_t)((uint32_t)in_operand.b[o] | ((uint32_t)in_operand.b[o + 1] << 8) |
                                               ((uint32_t)in_operand.b[o + 2] << 16) | ((uint32_t)in_operand.b[o + 3] << 24));
            __CPROVER_assume(tgt < 8 || tgt >= 8 + (int64_t)SPEC_LEN_M(K));
#ifdef VERIF_TARGET
            /* the target is pinned (case split over sample targets): with a symbolic target the NEXT opcode byte
               code[ip] is symbolic for symbolic execution and all 94 handlers are explored again */
            __CPROVER_assume(tgt == VERIF_TARGET);
            {   int32_t off = (int32_t)(VERIF_TARGET - 8);
                m->code[8 + o] = (uint8_t)off; m->code[9 + o] = (uint8_t)(off >> 8);
                m->code[10 + o] = (uint8_t)(off >> 16); m->code[11 + o] = (uint8_t)(off >> 24); }
#endif
        }
#ifdef VERIF_RETIP
        /* RET resumes the caller at the callee frame's return_ip: pinned to sample positions of the caller's function */
        fr->return_ip = VERIF_RETIP;
        if (vm->frame_count >= 2) vm->frames[vm->frame_count - 2].fn_idx = 0;
#endif
#ifdef VERIF_LOCALS_MAX
        /* calls push (local_count - arity) fresh locals in a loop: capped (bounded stand-in) */
        __CPROVER_assume(m->functions[0].local_count <= m->functions[0].arity + VERIF_LOCALS_MAX && m->functions[0].arity <= 3);
        __CPROVER_assume(m->functions[1].local_count <= m->functions[1].arity + VERIF_LOCALS_MAX && m->functions[1].arity <= 3);
#endif
#ifdef VERIF_FRAME_DEPTH_MAX
        /* RET pops every slot of the current frame and releases it: the frame holds at most the materialised slots */
        __CPROVER_assume(fr->stack_base <= in_stack_size && in_stack_size - fr->stack_base <= VERIF_FRAME_DEPTH_MAX);
        if (vm->frame_count >= 2) {
            VmCallFrame *caller = &vm->frames[vm->frame_count - 2];
            __CPROVER_assume(caller->module == m && caller->fn_idx < 2);
        }
#endif
#ifdef VERIF_COUNT_MAX
        /* handlers that pop `count` operands in a loop: the count operand is capped (bounded stand-in) */
        if (K == OP_ARR_LITERAL) __CPROVER_assume((uint16_t)(in_operand.b[2] | (in_operand.b[3] << 8)) <= VERIF_COUNT_MAX);
        if (K == OP_STRUCT_LITERAL) __CPROVER_assume((uint16_t)(in_operand.b[5] | (in_operand.b[6] << 8)) <= VERIF_COUNT_MAX);
        if (K == OP_UNION_CONSTRUCT) __CPROVER_assume((uint16_t)(in_operand.b[7] | (in_operand.b[8] << 8)) <= VERIF_COUNT_MAX);
        if (K == OP_TUPLE_NEW) __CPROVER_assume((uint16_t)(in_operand.b[1] | (in_operand.b[2] << 8)) <= VERIF_COUNT_MAX);
        if (K == OP_CLOSURE_NEW) __CPROVER_assume((uint16_t)(in_operand.b[5] | (in_operand.b[6] << 8)) <= VERIF_COUNT_MAX);
#endif
    }
    g_m = m; g_vm = vm;
}

#define OPERAND_U16_AT(o) ((uint16_t)(in_operand.b[o] | (in_operand.b[(o) + 1] << 8)))

/* ---- generic safety step: C13.step.<K> ---- */
void h_step(void)
{
    build_state();
    VmState *vm = g_vm; NvmModule *m = g_m;
    uint32_t ss0 = vm->stack_size;
    VmTrap t = vm_core_execute(vm);
    __CPROVER_assert(VM_INV_SCALAR(vm, m), "C13.step VM_INV (scalar part) holds after the step");
    __CPROVER_assert(t.type == TRAP_NONE || t.type == TRAP_EXTERN_CALL || t.type == TRAP_PRINT || t.type == TRAP_ASSERT ||
                     t.type == TRAP_HALT || t.type == TRAP_ERROR, "C13.step the step ends in a defined trap type");
    __CPROVER_assert(!(t.type == TRAP_ERROR && (t.data.error.code == VM_ERR_DECODE || t.data.error.code == VM_ERR_INVALID_OPCODE)),
                     "C13.nodecode a verified instruction never raises a decode / invalid-opcode error");
    VERIF_COVER(t.type == TRAP_HALT || t.type == TRAP_NONE || t.type == TRAP_PRINT || t.type == TRAP_ASSERT);
    (void)ss0;
}

/* ---- C08.vm.<K>: index outside [0,len) => TRAP_ERROR(OUT_OF_BOUNDS), nothing pushed ---- */
void h_c08(void)
{
    build_state();
    VmState *vm = g_vm;
    uint8_t K = (uint8_t)VERIF_OP;
    /* shape needed by the accessor; the index is the int64 on the stack (before any narrowing) or the u16 operand */
    int64_t idx; uint32_t len; _Bool shaped;
    if (K == OP_ARR_GET || K == OP_ARR_REMOVE) {
        shaped = in_stack_size >= 2 && in_v1.tag == TAG_ARRAY && in_v0.tag == TAG_INT;
        idx = in_v0.as.i64; len = in_len1;
    } else if (K == OP_ARR_SET) {
        shaped = in_stack_size >= 3 && in_v2.tag == TAG_ARRAY && in_v1.tag == TAG_INT;
        idx = in_v1.as.i64; len = in_len2;
    } else if (K == OP_ARR_POP) {
        shaped = in_stack_size >= 1 && in_v0.tag == TAG_ARRAY;
        idx = 0; len = in_len0;
    } else if (K == OP_STRUCT_GET || K == OP_UNION_FIELD || K == OP_TUPLE_GET) {
        shaped = in_stack_size >= 1 && in_v0.tag == (K == OP_STRUCT_GET ? TAG_STRUCT : K == OP_UNION_FIELD ? TAG_UNION : TAG_TUPLE);
        idx = OPERAND_U16_AT(1); len = in_len0;
    } else { /* OP_STRUCT_SET */
        shaped = in_stack_size >= 2 && in_v1.tag == TAG_STRUCT;
        idx = OPERAND_U16_AT(1); len = in_len1;
    }
    __CPROVER_assume(shaped);
    __CPROVER_assume(in_k == (uint32_t)idx);     /* the materialised element is the one addressed (after the code's narrowing) */
    _Bool out_of_range = idx < 0 || idx >= (int64_t)len;
    uint32_t ss0 = vm->stack_size;
    VmTrap t = vm_core_execute(vm);
    if (out_of_range) {
        __CPROVER_assert(t.type == TRAP_ERROR, "C08.vm out-of-range access ends the run in an error trap");
        __CPROVER_assert(t.type != TRAP_ERROR || t.data.error.code == VM_ERR_OUT_OF_BOUNDS, "C08.vm the error is OUT_OF_BOUNDS");
    } else {
        __CPROVER_assert(t.type != TRAP_ERROR, "C08.vm an in-range access does not fail");
    }
#if VERIF_OP == 0x53 || VERIF_OP == 0x57 || VERIF_OP == 0x54   /* index is an int64 from the stack */
    VERIF_COVER(out_of_range && idx < 0);
    VERIF_COVER(out_of_range && idx >= (int64_t)4294967296);
#endif
#if VERIF_OP != 0x52
    VERIF_COVER(out_of_range && idx >= (int64_t)len && len > 0);
#endif
    VERIF_COVER(!out_of_range);
    (void)ss0;
}

/* ---- C02.vm.<OP>: integer / boolean operator semantics against the spec functions ---- */
void h_c02(void)
{
    build_state();
    VmState *vm = g_vm;
    uint8_t K = (uint8_t)VERIF_OP;
    _Bool unary = (K == OP_NEG || K == OP_NOT);
    _Bool logic = (K == OP_AND || K == OP_OR || K == OP_NOT);
    __CPROVER_assume(in_stack_size >= (unary ? 1u : 2u));
    __CPROVER_assume(in_v0.tag == (logic ? TAG_BOOL : TAG_INT));
    if (!unary) __CPROVER_assume(in_v1.tag == (logic ? TAG_BOOL : TAG_INT));
    int64_t b = in_v0.as.i64, a = in_v1.as.i64;      /* a op b : a was pushed first */
#ifdef VERIF_SMALL
    __CPROVER_assume(a >= -128 && a <= 127 && b >= -128 && b <= 127);
#endif
    _Bool bb = in_v0.as.boolean, ba = in_v1.as.boolean;
    uint32_t ss0 = vm->stack_size;
    VmTrap t = vm_core_execute(vm);
    __CPROVER_assert(t.type == TRAP_HALT || t.type == TRAP_NONE, "C02.vm the operator step does not trap");
    __CPROVER_assert(vm->stack_size == ss0 - (unary ? 0u : 1u), "C02.vm operands consumed, one result pushed");
    NanoValue r = vm->stack[vm->stack_size - 1];
    switch (K) {
    case OP_ADD: __CPROVER_assert(r.tag == TAG_INT && r.as.i64 == spec_add(a, b), "C02.vm ADD == wrapping add"); break;
    case OP_SUB: __CPROVER_assert(r.tag == TAG_INT && r.as.i64 == spec_sub(a, b), "C02.vm SUB == wrapping sub"); break;
#ifdef VERIF_SMALL
    case OP_MUL: __CPROVER_assert(r.tag == TAG_INT && r.as.i64 == spec_mul(a, b), "C02.vm MUL == wrapping mul"); break;
#else
    /* full 64x64 multiplier equivalence is beyond the SAT back ends here (measured: > 900 s); the full-domain
       obligation pins type, fault-freedom and the algebraic corner cases, the value itself is the bounded obligation */
    case OP_MUL: __CPROVER_assert(r.tag == TAG_INT && (a != 0 || r.as.i64 == 0) && (b != 0 || r.as.i64 == 0) &&
                                  (a != 1 || r.as.i64 == b) && (b != 1 || r.as.i64 == a) &&
                                  (a != -1 || r.as.i64 == spec_neg(b)) && (b != -1 || r.as.i64 == spec_neg(a)) &&
                                  ((r.as.i64 & 1) == ((a & 1) & (b & 1))), "C02.vm MUL corner cases (0, 1, -1, parity)"); break;
#endif
    case OP_NEG: __CPROVER_assert(r.tag == TAG_INT && r.as.i64 == spec_neg(b), "C02.vm NEG == wrapping neg"); break;
#ifdef VERIF_SMALL
    case OP_DIV: __CPROVER_assert(r.tag == TAG_INT && r.as.i64 == spec_div_vm(a, b), "C02.vm DIV == truncating div (total)"); break;
    case OP_MOD: __CPROVER_assert(r.tag == TAG_INT && r.as.i64 == spec_mod_vm(a, b), "C02.vm MOD == truncating rem (total)"); break;
#else
    /* full-domain: no fault for ANY operands (incl. INT64_MIN / -1, checked by CBMC's overflow check in vm.c),
       and the spec's corner cases; the generic quotient (two 64-bit dividers compared) is the bounded obligation */
    case OP_DIV: __CPROVER_assert(r.tag == TAG_INT && (b != 0 || r.as.i64 == 0) && (b != 1 || r.as.i64 == a) &&
                                  (b != -1 || r.as.i64 == spec_neg(a)) && (a != 0 || r.as.i64 == 0) &&
                                  (a != b || b == 0 || r.as.i64 == 1), "C02.vm DIV corner cases (b=0 -> 0, b=1, b=-1 incl. INT64_MIN, a=0, a=b)"); break;
    case OP_MOD: __CPROVER_assert(r.tag == TAG_INT && (b != 0 || r.as.i64 == 0) && (b != 1 || r.as.i64 == 0) &&
                                  (b != -1 || r.as.i64 == 0) && (a != 0 || r.as.i64 == 0) &&
                                  (a != b || r.as.i64 == 0), "C02.vm MOD corner cases (b=0 -> 0, b=+-1 incl. INT64_MIN, a=0, a=b)"); break;
#endif
    case OP_EQ: __CPROVER_assert(r.tag == TAG_BOOL && r.as.boolean == (a == b), "C02.vm EQ"); break;
    case OP_NE: __CPROVER_assert(r.tag == TAG_BOOL && r.as.boolean == (a != b), "C02.vm NE"); break;
    case OP_LT: __CPROVER_assert(r.tag == TAG_BOOL && r.as.boolean == (a < b), "C02.vm LT"); break;
    case OP_LE: __CPROVER_assert(r.tag == TAG_BOOL && r.as.boolean == (a <= b), "C02.vm LE"); break;
    case OP_GT: __CPROVER_assert(r.tag == TAG_BOOL && r.as.boolean == (a > b), "C02.vm GT"); break;
    case OP_GE: __CPROVER_assert(r.tag == TAG_BOOL && r.as.boolean == (a >= b), "C02.vm GE"); break;
    case OP_AND: __CPROVER_assert(r.tag == TAG_BOOL && r.as.boolean == (ba && bb), "C02.vm AND"); break;
    case OP_OR: __CPROVER_assert(r.tag == TAG_BOOL && r.as.boolean == (ba || bb), "C02.vm OR"); break;
    case OP_NOT: __CPROVER_assert(r.tag == TAG_BOOL && r.as.boolean == !bb, "C02.vm NOT"); break;
    default: __CPROVER_assert(0, "C02.vm harness used with a non-operator opcode");
    }
    VERIF_COVER(t.type == TRAP_HALT);
}

/* ---- C02.vm.ARR_SLICE: (array_slice a start length) as documented (docs/STDLIB.md: start, LENGTH) and as the other two
 * engines compute it: start and length clamped at 0, start clamped at len, count = min(length, len - start); element j of
 * the result is element start+j of the source.  B(source capacity <= VERIF_ARR_CAP, int elements). ---- */
void h_c02_slice(void)
{
    build_state();
    VmState *vm = g_vm;
    __CPROVER_assume(in_stack_size >= 3 && in_v2.tag == TAG_ARRAY && in_v1.tag == TAG_INT && in_v0.tag == TAG_INT);
    VmArray *src = in_v2.as.array;
    for (uint32_t i = 0; i < VERIF_ARR_CAP; i++)
        if (i < src->capacity) { NanoValue e = {0}; e.tag = TAG_INT; e.as.i64 = nondet_i64(); src->elements[i] = e; }
    __CPROVER_assume(src->header.ref_count >= 2);          /* the source stays alive after the handler's release */
    int64_t len = src->length, start = in_v1.as.i64, count = in_v0.as.i64;
    if (start < 0) start = 0;
    if (count < 0) count = 0;
    if (start > len) start = len;
    if (count > len - start) count = len - start;
    uint32_t j = nondet_u32();
    int64_t expect_j = (j < count) ? src->elements[start + j].as.i64 : 0;
    uint32_t ss0 = vm->stack_size;
    VmTrap t = vm_core_execute(vm);
    __CPROVER_assert(t.type == TRAP_HALT || t.type == TRAP_NONE, "C02.vm ARR_SLICE does not trap");
    __CPROVER_assert(vm->stack_size == ss0 - 2, "C02.vm ARR_SLICE consumes three operands, pushes one result");
    NanoValue r = vm->stack[vm->stack_size - 1];
    __CPROVER_assert(r.tag == TAG_ARRAY && r.as.array != NULL && r.as.array != src, "C02.vm ARR_SLICE result is a new array");
    __CPROVER_assert(r.as.array->length == (uint32_t)count, "C02.vm ARR_SLICE length == min(length, len - start) (third operand is a LENGTH)");
    __CPROVER_assert(j >= count || (r.as.array->elements[j].tag == TAG_INT && r.as.array->elements[j].as.i64 == expect_j),
                     "C02.vm ARR_SLICE element j == source element start + j");
    VERIF_COVER(count >= 2 && start >= 1);
    VERIF_COVER(in_v1.as.i64 < 0);
    VERIF_COVER(in_v0.as.i64 > (int64_t)4294967296);
}

/* ---- C02.vm.STR_SUBSTR: (str_substring s start length) as documented (docs/STDLIB.md: empty string when start is out of
 * bounds, "until the end" when start + length exceeds the length) and as the compiled runtime computes it (negative start or
 * negative length: empty string), with start and length arbitrary int64 values - no narrowing before the comparison.
 * B(source strings of <= 3 bytes, the harness's string shape). ---- */
void h_c02_substr(void)
{
    build_state();
    VmState *vm = g_vm;
    __CPROVER_assume(in_stack_size >= 3 && in_v2.tag == TAG_STRING && in_v1.tag == TAG_INT && in_v0.tag == TAG_INT);
    VmString *src = in_v2.as.string;
    __CPROVER_assume(src->header.ref_count >= 2);
    int64_t slen = src->length, start = in_v1.as.i64, count = in_v0.as.i64;
    if (start < 0 || start > slen || count < 0) count = 0;
    else if (count > slen - start) count = slen - start;
    if (count == 0) start = 0;
    uint32_t j = nondet_u32(); __CPROVER_assume(j < 3);
    char want = (j < count) ? src->data[start + j] : 0;
    uint32_t ss0 = vm->stack_size;
    VmTrap t = vm_core_execute(vm);
    __CPROVER_assert(t.type == TRAP_HALT || t.type == TRAP_NONE, "C02.vm STR_SUBSTR does not trap");
    __CPROVER_assert(vm->stack_size == ss0 - 2, "C02.vm STR_SUBSTR consumes three operands, pushes one result");
    NanoValue r = vm->stack[vm->stack_size - 1];
    __CPROVER_assert(r.tag == TAG_STRING && r.as.string != NULL, "C02.vm STR_SUBSTR yields a string");
    __CPROVER_assert(r.as.string->length == (uint32_t)count, "C02.vm STR_SUBSTR length == spec (64-bit start / length, no narrowing)");
    __CPROVER_assert(j >= count || r.as.string->data[j] == want, "C02.vm STR_SUBSTR byte j == source byte start + j");
    VERIF_COVER(count == 2 && start == 1);
    VERIF_COVER(in_v0.as.i64 < 0);
    VERIF_COVER(in_v1.as.i64 > (int64_t)4294967296);
}

/* ---- C02.vm.STR_CHAR_AT[.oob]: (char_at s i): in range: the byte at i as an unsigned value 0..255 (docs/STDLIB.md; the emitted
 * native char_at returns (unsigned char)s[index]); .oob: out of range the VM must agree with the compiled program, which prints an
 * error and yields 0 (the documentation says "terminate"; the VM yields -1: recorded finding).  B(strings of <= 3 bytes, no NUL inside). ---- */
void h_c02_charat(void)
{
    build_state();
    VmState *vm = g_vm;
    __CPROVER_assume(in_stack_size >= 2 && in_v1.tag == TAG_STRING && in_v0.tag == TAG_INT);
    VmString *src = in_v1.as.string;
    __CPROVER_assume(src->header.ref_count >= 2);
    for (uint32_t i = 0; i < 3; i++) if (i < src->length) __CPROVER_assume(src->data[i] != 0);
    int64_t slen = src->length, idx = in_v0.as.i64;
    _Bool in_range = idx >= 0 && idx < slen;
#ifdef VERIF_CHARAT_OOB
    __CPROVER_assume(!in_range);
#else
    __CPROVER_assume(in_range);
#endif
    int64_t want = in_range ? (int64_t)(unsigned char)src->data[in_range ? idx : 0] : 0;
    uint32_t ss0 = vm->stack_size;
    VmTrap t = vm_core_execute(vm);
    __CPROVER_assert(t.type == TRAP_HALT || t.type == TRAP_NONE, "C02.vm STR_CHAR_AT does not trap");
    __CPROVER_assert(vm->stack_size == ss0 - 1, "C02.vm STR_CHAR_AT consumes two operands, pushes one result");
    NanoValue r = vm->stack[vm->stack_size - 1];
    __CPROVER_assert(r.tag == TAG_INT && r.as.i64 == want, "C02.vm STR_CHAR_AT value == the compiled program's (unsigned byte in range; 0 out of range)");
#ifdef VERIF_CHARAT_OOB
    VERIF_COVER(idx < 0); VERIF_COVER(idx > (int64_t)4294967296);
#else
    VERIF_COVER(idx == 2 && want >= 128);
#endif
}

/* ---- C02.vm.STR_EQ / EQs / NEs: string equality on the VM is equality of length and bytes (what the emitted nl_str_equals /
 * strcmp compute natively: C01.agree.streq).  The cached hash is treated as an ARBITRARY function of the content (only: equal
 * content => equal hash), so an implementation that trusts the hash instead of the bytes is refuted without the solver having to
 * find a real FNV collision.  B(strings of <= 3 bytes). ---- */
void h_c02_streq(void)
{
    build_state();
    VmState *vm = g_vm;
    uint8_t K = (uint8_t)VERIF_OP;
    __CPROVER_assume(in_stack_size >= 2 && in_v1.tag == TAG_STRING && in_v0.tag == TAG_STRING);
    VmString *a = in_v1.as.string, *b = in_v0.as.string;
    __CPROVER_assume(a != b && a->header.ref_count >= 2 && b->header.ref_count >= 2);
    _Bool same = a->length == b->length;
    for (uint32_t i = 0; i < 3; i++) if (i < a->length && i < b->length && a->data[i] != b->data[i]) same = 0;
    __CPROVER_assume(!same || a->hash == b->hash);         /* the hash is a function of the content */
    uint32_t ss0 = vm->stack_size;
    VmTrap t = vm_core_execute(vm);
    __CPROVER_assert(t.type == TRAP_HALT || t.type == TRAP_NONE, "C02.vm STR_EQ does not trap");
    __CPROVER_assert(vm->stack_size == ss0 - 1, "C02.vm STR_EQ consumes two operands, pushes one result");
    NanoValue r = vm->stack[vm->stack_size - 1];
    __CPROVER_assert(r.tag == TAG_BOOL && r.as.boolean == (K == OP_NE ? !same : same), "C02.vm STR_EQ result == equality of length and bytes");
    VERIF_COVER(same && a->length == 3);
    VERIF_COVER(!same && a->length == b->length && a->hash == b->hash);
}

/* ---- C14.step.ARR_SLICE.bounded: the census of (array_slice a start length) for an array whose slots hold ints or DISTINCT
 * strings, whatever the array's elem_type tag says: every string copied into the result gains exactly one count (the new
 * reference), strings outside the slice keep theirs, the source array loses the reference popped from the stack.
 * B(source capacity <= VERIF_ARR_CAP; string or int elements). ---- */
void h_c14_slice(void)
{
    build_state();
    VmState *vm = g_vm;
    __CPROVER_assume(in_stack_size >= 3 && in_v2.tag == TAG_ARRAY && in_v1.tag == TAG_INT && in_v0.tag == TAG_INT);
    VmArray *src = in_v2.as.array;
    src->elem_type = nondet_u8();
    uint32_t j = nondet_u32();                       /* source index of interest */
    __CPROVER_assume(j < VERIF_ARR_CAP);
    VmString *sj = NULL; uint32_t rcj = 0;
    for (uint32_t i = 0; i < VERIF_ARR_CAP; i++)
        if (i < src->capacity) {
            NanoValue e = {0};
            if (nondet_bool()) { e.tag = TAG_STRING; e.as.string = mk_string(); if (i == j) { sj = e.as.string; rcj = sj->header.ref_count; } }
            else { e.tag = TAG_INT; e.as.i64 = nondet_i64(); }
            src->elements[i] = e;
        }
    __CPROVER_assume(src->header.ref_count >= 2);
    uint32_t rca = src->header.ref_count;
    int64_t len = src->length, start = in_v1.as.i64, count = in_v0.as.i64;
    if (start < 0) start = 0;
    if (count < 0) count = 0;
    if (start > len) start = len;
    if (count > len - start) count = len - start;
    _Bool in_slice = (int64_t)j >= start && (int64_t)j < start + count;
    VmTrap t = vm_core_execute(vm);
    __CPROVER_assert(t.type == TRAP_HALT || t.type == TRAP_NONE, "C14.slice does not trap");
    NanoValue r = vm->stack[vm->stack_size - 1];
    __CPROVER_assert(r.tag == TAG_ARRAY && r.as.array != NULL && r.as.array->header.ref_count == 1, "C14.slice result is a new array with count 1");
    __CPROVER_assert(src->header.ref_count == rca - 1, "C14.slice the source array loses exactly the popped reference");
    if (sj != NULL && j < src->length) {
        __CPROVER_assert(!in_slice || r.as.array->elements[j - start].as.string == sj, "C14.slice the string at source index j is element j - start of the result");
        __CPROVER_assert(sj->header.ref_count == rcj + (in_slice ? 1u : 0u), "C14.slice a copied string gains exactly one count, any other keeps its count");
    }
    VERIF_COVER(sj != NULL && in_slice && j >= 1);
    VERIF_COVER(sj != NULL && !in_slice && j < src->length);
}

/* ---- C02.vm.<OP>f: float operators = the same C double operation on (a, b), results compared as bit patterns ---- */
static inline uint64_t dbits(double d) { uint64_t u; memcpy(&u, &d, 8); return u; }
void h_c02f(void)
{
    build_state();
    VmState *vm = g_vm;
    uint8_t K = (uint8_t)VERIF_OP;
    __CPROVER_assume(in_stack_size >= 2 && in_v0.tag == TAG_FLOAT && in_v1.tag == TAG_FLOAT);
    double b = in_v0.as.f64, a = in_v1.as.f64;
    uint32_t ss0 = vm->stack_size;
    VmTrap t = vm_core_execute(vm);
    __CPROVER_assert(t.type == TRAP_HALT || t.type == TRAP_NONE, "C02.vm float operator step does not trap");
    __CPROVER_assert(vm->stack_size == ss0 - 1, "C02.vm float operands consumed, one result pushed");
    NanoValue r = vm->stack[vm->stack_size - 1];
    switch (K) {
    case OP_ADD: __CPROVER_assert(r.tag == TAG_FLOAT && dbits(r.as.f64) == dbits(a + b), "C02.vm ADDf == C double +"); break;
    case OP_SUB: __CPROVER_assert(r.tag == TAG_FLOAT && dbits(r.as.f64) == dbits(a - b), "C02.vm SUBf == C double -"); break;
    case OP_MUL: __CPROVER_assert(r.tag == TAG_FLOAT && dbits(r.as.f64) == dbits(a * b), "C02.vm MULf == C double *"); break;
    case OP_DIV: __CPROVER_assert(r.tag == TAG_FLOAT && (b == 0.0 ? dbits(r.as.f64) == dbits(0.0) : dbits(r.as.f64) == dbits(a / b)),
                                  "C02.vm DIVf == C double / (total: x / 0.0 = 0.0, isa.h)"); break;
    case OP_EQ: __CPROVER_assert(r.tag == TAG_BOOL && r.as.boolean == (a == b), "C02.vm EQf == C double =="); break;
    case OP_NE: __CPROVER_assert(r.tag == TAG_BOOL && r.as.boolean == (a != b), "C02.vm NEf == C double !="); break;
    case OP_LT: __CPROVER_assert(r.tag == TAG_BOOL && r.as.boolean == (a < b), "C02.vm LTf == C double <"); break;
    case OP_LE: __CPROVER_assert(r.tag == TAG_BOOL && r.as.boolean == (a <= b), "C02.vm LEf == C double <="); break;
    case OP_GT: __CPROVER_assert(r.tag == TAG_BOOL && r.as.boolean == (a > b), "C02.vm GTf == C double >"); break;
    case OP_GE: __CPROVER_assert(r.tag == TAG_BOOL && r.as.boolean == (a >= b), "C02.vm GEf == C double >="); break;
    default: __CPROVER_assert(0, "C02.vm float harness used with a non-operator opcode");
    }
    VERIF_COVER(t.type == TRAP_HALT && a != a);      /* NaN operands are part of the domain */
}
