/* C20.list.int.insert.bounded : the REAL list_int_insert (src/runtime/list_int.c included verbatim; plain CBMC, no DFCC - the
 * contract-enforced form does not get past propositional reduction, obligations/c20.py) on a list of capacity 1..LIST_CAP with any
 * fill level (including length == capacity: the buffer has to grow) and any in-range index: memory-safe (memmove stays inside
 * the block), length + 1, the value placed at the index, the prefix kept, the suffix shifted by one - checked at a ghost index.
 * Bounded stand-in: B(capacity <= LIST_CAP). */
#include "verif_common.h"
#include "libc_stubs.h"
#include <stdlib.h>
#include <string.h>
struct verif_ghost __verif_g;
void exit(int status) { (void)status; __verif_g.exited = 1; __CPROVER_assume(0); }
#include "runtime/list_int.c"
#ifndef LIST_CAP
#define LIST_CAP 4
#endif

void h_insert_bounded(void)
{
    List_int *l = malloc(sizeof(List_int)); __CPROVER_assume(l != NULL);
    /* capacity, fill level and index are a CASE SPLIT made by the registry (-DLIST_C/-DLIST_L/-DLIST_I, all 34 combinations with
       capacity <= 4): with symbolic sizes the memmove / realloc pair exhausts 12 GB; contents and value stay arbitrary */
    int cap = LIST_C, len = LIST_L, idx = LIST_I;
    __CPROVER_assert(1 <= cap && cap <= LIST_CAP && 0 <= len && len <= cap && 0 <= idx && idx <= len, "C20.list insert: case is inside the bound");
    l->capacity = cap; l->length = len;
    l->data = malloc(sizeof(int64_t) * (size_t)cap); __CPROVER_assume(l->data != NULL);
    int64_t old[LIST_CAP];
    for (int i = 0; i < LIST_CAP; i++) { old[i] = nondet_i64(); if (i < cap) l->data[i] = old[i]; }
    int64_t v = nondet_i64();
    int k = nondet_int(); __CPROVER_assume(0 <= k && k <= len);
    list_int_insert(l, idx, v);
    __CPROVER_assert(l->length == len + 1 && l->capacity >= l->length, "C20.list insert: length + 1 within the capacity");
    __CPROVER_assert(l->data[idx] == v, "C20.list insert: the value sits at the index");
    __CPROVER_assert(k >= idx || l->data[k] == old[k], "C20.list insert: prefix kept");
    __CPROVER_assert(k <= idx || l->data[k] == old[k - 1], "C20.list insert: suffix shifted by one");
    VERIF_COVER(v == 7);
}
