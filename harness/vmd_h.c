/* C18 harness TU: the nano_vm daemon.
 *   -DVMD_VIEW_PROTO   : src/nanovm/vmd_protocol.c verbatim (scratch copy: loop-contract clauses only), adversarial
 *                        read()/write() (contracts/vmd_contracts.h); one function enforced per obligation.
 *   -DVMD_VIEW_SESSION : src/nanovm/vmd_server.c verbatim; client_thread / setup_signals / vmd_server_run enforced,
 *                        every callee an effect-recording stub body.
 * Nothing of the real text is dropped or renamed. */
#include "vmd_contracts.h"
struct verif_vmd __verif_vmd;

#ifdef VMD_VIEW_PROTO
uint32_t __verif_vmd_msgsz;     /* ghost input (never assigned): size of the error-message object */
/* ===================== the real code, verbatim ===================== */
#include "nanovm/vmd_protocol.c"
/* =================================================================== */

void h_read_all(void)
{
    int fd; void *buf; size_t len;
    bool ok = read_all(fd, buf, len);
    VERIF_COVER(ok && len > 100000 && G.io.rd_calls > 1);
    VERIF_COVER(!ok);
    VERIF_COVER(ok && len == 0);
}

void h_write_all(void)
{
    int fd; const void *buf; size_t len;
    bool ok = write_all(fd, buf, len);
    VERIF_COVER(ok && len > 100000 && G.io.wr_calls > 1);
    VERIF_COVER(!ok);
}

void h_recv_header(void)
{
    int fd; VmdMsgHeader *hdr;
    bool ok = vmd_msg_recv_header(fd, hdr);
    VERIF_COVER(ok);
    VERIF_COVER(!ok && G.io.rd_total >= 8);       /* eight bytes arrived and were rejected (version / length) */
    VERIF_COVER(!ok && G.io.rd_total < 8);        /* the client went away inside the header */
}

void h_recv_payload(void)
{
    int fd; void *buf; uint32_t len;
    bool ok = vmd_msg_recv_payload(fd, buf, len);
    VERIF_COVER(ok && len == VMD_MAX_PAYLOAD);
    VERIF_COVER(!ok);
}

void h_send(void)
{
    int fd; VmdMsgType type; const void *payload; uint32_t payload_len;
    bool ok = vmd_msg_send(fd, type, payload, payload_len);
    VERIF_COVER(ok && payload_len > 0);
    VERIF_COVER(!ok && G.io.wr_total >= 8);       /* header out, payload cut */
    VERIF_COVER(!ok && G.io.wr_total < 8);
}

void h_send_simple(void) { int fd; VmdMsgType type; bool ok = vmd_msg_send_simple(fd, type); VERIF_COVER(ok); VERIF_COVER(!ok); }
void h_send_output(void) { int fd; const char *t; uint32_t n; bool ok = vmd_msg_send_output(fd, t, n); VERIF_COVER(ok && n > 0); VERIF_COVER(!ok); }
void h_send_exit(void) { int fd; int32_t c; bool ok = vmd_msg_send_exit(fd, c); VERIF_COVER(ok); VERIF_COVER(!ok); }
void h_send_error(void) { int fd; const char *m; bool ok = vmd_msg_send_error(fd, m); VERIF_COVER(ok && m != NULL); VERIF_COVER(ok && m == NULL); VERIF_COVER(!ok); }
#endif /* VMD_VIEW_PROTO */

#ifdef VMD_VIEW_SESSION
/* ===================== the real code, verbatim ===================== */
#ifdef VMD_REAL_PROTO
#include "nanovm/vmd_protocol.c"     /* C18.session.os: the real protocol layer under client_thread, read()/write() adversarial */
#endif
#include "nanovm/vmd_server.c"
/* =================================================================== */

/* ---- ghost state at the start of a session / of the server ---- */
#define VMD_GHOST_ZERO ( \
    G.closed == 0 && G.closed_other == 0 && \
    G.lock_held == 0 && G.lock_err == 0 && G.locks == 0 && G.unlocks == 0 && G.ctr_err == 0 && G.incs == 0 && G.decs == 0 && \
    G.hdr_calls == 0 && G.hdr_ok == 0 && G.pay_calls == 0 && G.pay_ok == 0 && G.pay_fail == 0 && G.pay_buf == NULL && \
    G.frames == 0 && G.err_frames == 0 && G.exit_frames == 0 && G.out_frames == 0 && G.send_failed == 0 && \
    G.deser_calls == 0 && G.deser_null == 0 && G.module == NULL && G.modules_made == 0 && G.modules_freed == 0 && \
    G.verify_calls == 0 && G.verified_module == NULL && G.verify_rejected == 0 && G.vm_inits == 0 && G.vm_destroys == 0 && G.cop_stops == 0 && \
    G.executed == 0 && G.exec_unverified == 0 && G.exec_bad_output == 0 && \
    G.file == NULL && G.cookie == NULL && G.files_opened == 0 && G.files_closed == 0 && G.cookies_closed == 0 && G.file_misuse == 0 && \
    G.io.rd_total == 0 && G.io.wr_total == 0 && G.exited == 0 && G.accepts == 0 && G.accept_failed == 0 && G.fd_outstanding == 0 && G.leaked_fd == 0 && G.threads == 0 && \
    G.thread_bad == 0 && G.accept_unignored == 0 && G.polls == 0 && G.listening == 0 && G.ctx_live == 0 && \
    G.sigpipe_ignored == 0 && G.sigterm_handled == 0 && G.sigint_handled == 0)

/* ---- the mutex and the counter it guards (stubs need the file's statics, hence here) ----
 * lock/unlock are no-ops on a ghost lock bit.  The counter discipline is observed at the lock operations:
 * the counter may differ from its value at the previous unlock only inside a critical section. */
int pthread_mutex_lock(pthread_mutex_t *m)
{
    if (m != &g_client_count_mutex || G.lock_held) G.lock_err = 1;      /* foreign mutex / self-deadlock */
    if (g_active_clients != G.ctr_seen) G.ctr_err = 1;                  /* counter touched without the mutex */
    G.lock_held = 1; G.locks++; G.ctr_at_lock = g_active_clients;
    return 0;
}
int pthread_mutex_unlock(pthread_mutex_t *m)
{
    if (m != &g_client_count_mutex || !G.lock_held) G.lock_err = 1;     /* unlock of a mutex that is not held */
    if ((long)g_active_clients == (long)G.ctr_at_lock + 1) G.incs++;
    else if ((long)g_active_clients == (long)G.ctr_at_lock - 1) G.decs++;
    else if (g_active_clients != G.ctr_at_lock) G.ctr_err = 1;
    G.lock_held = 0; G.unlocks++; G.ctr_seen = g_active_clients;
    return 0;
}

/* ---- stdio over the socket: fopencookie / the write + close callbacks are the REAL socket_write_cookie /
 * socket_close_cookie; stdio is the stub that calls them ---- */
static char __verif_vmd_chunk[4096];
/* stdio hands a chunk of buffered program output to the cookie's write function */
static void vmd_stdio_flush_chunk(void)
{
    size_t n = nondet_size();
    __CPROVER_assume(n <= sizeof(__verif_vmd_chunk));
    ssize_t r = socket_write_cookie(G.cookie, __verif_vmd_chunk, n);
    __CPROVER_assert(r == (ssize_t)n, "C18.session: the write callback reports the chunk as consumed (stdio never retries into a dead socket)");
}
FILE *fopencookie(void *cookie, const char *mode, cookie_io_functions_t funcs)
{
    (void)mode;
    __CPROVER_assert(funcs.write == socket_write_cookie && funcs.close == socket_close_cookie && funcs.read == NULL,
                     "C18.session: the stream's callbacks are the socket writer / cookie releaser");
    __CPROVER_assert(__CPROVER_r_ok(cookie, sizeof(SocketCookie)) && ((SocketCookie *)cookie)->fd == G.client_fd,
                     "C18.session: program output is bound to this client's descriptor");
    __CPROVER_assert(G.files_opened == G.files_closed, "C18.session: one output stream per session");
    if (VMD_BIT()) return NULL;
    FILE *f = (FILE *)malloc(sizeof(FILE));
    if (f == NULL) return NULL;
    G.file = f; G.cookie = cookie; G.files_opened++;
    return f;
}
int fflush(FILE *f)
{
    if (f == NULL || (void *)f != G.file || G.files_closed >= G.files_opened) { G.file_misuse = 1; return EOF; }
    if (VMD_BIT()) vmd_stdio_flush_chunk();
    return nondet_int();
}
int fclose(FILE *f)
{
    if (f == NULL || (void *)f != G.file || G.files_closed >= G.files_opened) { G.file_misuse = 1; return EOF; }
    if (VMD_BIT()) vmd_stdio_flush_chunk();          /* what was still buffered */
    G.files_closed++;
    socket_close_cookie(G.cookie); G.cookies_closed++;
    free(f);
    return nondet_int();
}
/* runs the program: prints through vm->output (0..2 chunks reach the socket while it runs; the client may be gone:
 * every send may fail), any result.  Records whether the module had been verified. */
VmResult vm_execute(VmState *vm)
{
    __CPROVER_assert(__CPROVER_r_ok(vm, sizeof(*vm)), "C18.session: vm_execute argument valid");
    G.executed++;
    if (G.verified_module == NULL || G.verified_module != (const void *)vm->module) G.exec_unverified = 1;
    if ((void *)vm->output != G.file) G.exec_bad_output = 1;
    if (G.file != NULL && G.files_closed < G.files_opened) {
        if (VMD_BIT()) vmd_stdio_flush_chunk();
        if (VMD_BIT()) vmd_stdio_flush_chunk();
    }
    return (VmResult)nondet_int();
}

/* ---- the function under proof ---- */
#define VMD_POST_SESSION \
    /* the descriptor is closed exactly once, no other descriptor is touched */ \
    __CPROVER_ensures(G.closed == 1 && G.closed_other == 0) \
    /* mutex: balanced, never unlocked when not held, never taken twice; free at the end */ \
    __CPROVER_ensures(!G.lock_held && !G.lock_err && G.locks == G.unlocks) \
    /* counter: one +1 and one -1, each inside a critical section; nothing outside; net effect zero */ \
    __CPROVER_ensures(G.incs == 1 && G.decs == 1 && !G.ctr_err && g_active_clients == G.ctr_seen && \
                      g_active_clients == __CPROVER_old(g_active_clients)) \
    /* resources: module, output stream (+ its cookie), VM released on every path (blob, cookie, ctx: memory-leak check) */ \
    __CPROVER_ensures(G.modules_freed == G.modules_made && G.files_closed == G.files_opened && \
                      G.cookies_closed == G.files_opened && G.vm_destroys == G.vm_inits && !G.file_misuse) \
    /* the context block handed over by the accept loop is released */ \
    __CPROVER_ensures(__CPROVER_was_freed(arg)) \
    __CPROVER_ensures(G.exited == 0 && __CPROVER_return_value == NULL)

#define VMD_NOTHING_RUN (G.executed == 0 && G.vm_inits == 0)
#define VMD_POST_NOEXEC \
    /* exactly one message is read per session */ \
    __CPROVER_ensures(G.hdr_calls == 1) \
    /* rejected / incomplete header: connection closed, nothing sent, nothing read further, nothing loaded or run */ \
    __CPROVER_ensures(!G.hdr_ok ==> (VMD_NOTHING_RUN && G.frames == 0 && G.pay_calls == 0 && G.deser_calls == 0 && G.closed == 1)) \
    /* unknown type: one ERROR frame, nothing loaded or run */ \
    __CPROVER_ensures((G.hdr_ok && !VMD_TYPE_KNOWN(G.hdr_type)) ==> \
                      (VMD_NOTHING_RUN && G.pay_calls == 0 && G.deser_calls == 0 && G.err_frames == 1 && G.frames == 1)) \
    /* LOAD_EXEC with payload_len == 0 is rejected by the session */ \
    __CPROVER_ensures((G.hdr_ok && G.hdr_type == VMD_MSG_LOAD_EXEC && G.hdr_len == 0) ==> \
                      (VMD_NOTHING_RUN && G.pay_calls == 0 && G.deser_calls == 0 && G.err_frames == 1 && G.frames == 1)) \
    /* short payload / disconnect inside the payload */ \
    __CPROVER_ensures(G.pay_fail ==> (VMD_NOTHING_RUN && G.deser_calls == 0 && G.err_frames == 1 && G.frames == 1)) \
    /* not a module */ \
    __CPROVER_ensures(G.deser_null ==> (VMD_NOTHING_RUN && G.err_frames == 1 && G.frames == 1)) \
    /* a module the verifier rejects (no such call on the unchanged tree: see C18.verified) */ \
    __CPROVER_ensures(G.verify_rejected ==> (G.executed == 0 && G.err_frames == 1)) \
    /* other requests never load or run anything */ \
    __CPROVER_ensures((G.hdr_ok && G.hdr_type != VMD_MSG_LOAD_EXEC) ==> (VMD_NOTHING_RUN && G.pay_calls == 0 && G.deser_calls == 0)) \
    /* what HAS happened when a program was run */ \
    __CPROVER_ensures(G.executed ==> (G.executed == 1 && G.hdr_ok && G.hdr_type == VMD_MSG_LOAD_EXEC && \
                      1 <= G.hdr_len && G.hdr_len <= VMD_MAX_PAYLOAD && G.pay_ok && G.pay_len == G.hdr_len && \
                      G.deser_calls == 1 && G.deser_len == G.hdr_len && !G.deser_null && G.exit_frames == 1 && !G.exec_bad_output)) \
    /* only a well-formed SHUTDOWN request touches the shutdown flag */ \
    __CPROVER_ensures(g_shutdown != __CPROVER_old(g_shutdown) ==> (G.hdr_ok && G.hdr_type == VMD_MSG_SHUTDOWN))

/* C18.verified: vm_execute only on a module for which nvm_verify returned ok */
#define VMD_POST_VERIFIED __CPROVER_ensures(G.exec_unverified == 0)

#if defined(VMD_OBL_SESSION)
#define VMD_POST VMD_POST_SESSION
#elif defined(VMD_OBL_NOEXEC)
#define VMD_POST VMD_POST_NOEXEC
#elif defined(VMD_OBL_VERIFIED)
#define VMD_POST VMD_POST_VERIFIED
#else
#define VMD_POST __CPROVER_ensures(1)
#endif

static void *client_thread(void *arg)
__CPROVER_requires(VERIF_FRESH(arg, sizeof(ClientCtx)))
__CPROVER_requires(((ClientCtx *)arg)->client_fd == G.client_fd)
__CPROVER_requires(VMD_GHOST_ZERO && G.ctr_seen == g_active_clients)
/* fewer than INT_MAX sessions at a time */
__CPROVER_requires(0 <= g_active_clients && g_active_clients < 0x7fffffff)
__CPROVER_assigns(G, g_active_clients, g_shutdown)
__CPROVER_frees(arg)
VMD_POST;

#ifdef VERIF_WITNESS
int in_client_fd;        /* named input for the native replay (the failing fact of C18.verified needs no other input) */
#endif
void h_client_thread(void)
{
    void *arg;
#ifdef VERIF_WITNESS
    in_client_fd = nondet_int();
    ClientCtx *wc = malloc(sizeof(*wc)); __CPROVER_assume(wc != NULL);
    wc->client_fd = in_client_fd; G.client_fd = in_client_fd; arg = wc;
#endif
    void *r = client_thread(arg);
    (void)r;
    VERIF_COVER(G.executed == 1 && G.exit_frames == 1 && G.out_frames >= 2 && G.send_failed);   /* ran, printed, client went away */
    VERIF_COVER(G.executed == 1 && G.file == NULL);                /* no output stream (allocation failed) */
    VERIF_COVER(!G.hdr_ok && G.closed == 1);                       /* malformed header / disconnect */
    VERIF_COVER(G.hdr_ok && !VMD_TYPE_KNOWN(G.hdr_type));          /* unknown type */
    VERIF_COVER(G.hdr_ok && G.hdr_type == VMD_MSG_LOAD_EXEC && G.hdr_len == 0);
    VERIF_COVER(G.pay_fail);                                       /* short payload */
    VERIF_COVER(G.hdr_ok && G.hdr_type == VMD_MSG_LOAD_EXEC && G.hdr_len > 0 && G.pay_calls == 0 && G.err_frames == 1);   /* no memory for the blob */
    VERIF_COVER(G.deser_null);                                     /* not a module */
    VERIF_COVER(G.hdr_ok && G.hdr_type == VMD_MSG_STATUS && G.locks == 3);
    VERIF_COVER(G.hdr_ok && G.hdr_type == VMD_MSG_SHUTDOWN && g_shutdown == 1);
    VERIF_COVER(G.hdr_ok && G.hdr_type == VMD_MSG_LOAD_EXEC && G.hdr_len == VMD_MAX_PAYLOAD && G.pay_calls == 1);
}

/* ---- C18.sigpipe: the dispositions setup_signals establishes ---- */
static void setup_signals(void)
__CPROVER_requires(G.sigpipe_ignored == 0 && G.sigterm_handled == 0 && G.sigint_handled == 0)
__CPROVER_assigns(G)
/* a write to a client that has gone away comes back as an error instead of killing the process */
__CPROVER_ensures(G.sigpipe_ignored == 1)
__CPROVER_ensures(G.sigterm_handled == 1 && G.sigint_handled == 1);

void h_setup_signals(void)
{
    setup_signals();
    VERIF_COVER(G.sigpipe_ignored == 1);
}

#ifdef VMD_OBL_ACCEPT
/* ---- C18.accept: vmd_server_run ---- */
/* the pid-file helpers are file management outside C18: cut by contract (any answer, no effect on the ghost) */
static pid_t check_pid_file(const char *path) __CPROVER_requires(1) __CPROVER_assigns() __CPROVER_ensures(1);
static bool write_pid_file(const char *path) __CPROVER_requires(1) __CPROVER_assigns() __CPROVER_ensures(1);
static void remove_pid_file(const char *path) __CPROVER_requires(1) __CPROVER_assigns() __CPROVER_ensures(1);
/* the new thread takes over the context and the descriptor; creation fails whenever it likes (EAGAIN) */
int pthread_create(pthread_t *t, const pthread_attr_t *a, void *(*start)(void *), void *arg)
{
    (void)a;
    __CPROVER_assert(__CPROVER_w_ok(t, sizeof(*t)), "OS: pthread_create thread id destination valid");
    if (!G.sigpipe_ignored) G.accept_unignored = 1;
    if (start != client_thread || arg == NULL || !__CPROVER_r_ok(arg, sizeof(ClientCtx)) ||
        ((ClientCtx *)arg)->client_fd != G.client_fd || !G.fd_outstanding) G.thread_bad = 1;
    if (VMD_BIT()) return 11 /* EAGAIN */;
    G.threads++; G.fd_outstanding = 0; G.ctx_live--;       /* descriptor and context now belong to the thread */
    return 0;
}

#define VMD_ACCEPT_POST \
    /* no accepted descriptor is dropped on the floor */ \
    __CPROVER_ensures(G.fd_outstanding == 0 && G.leaked_fd == 0 && G.thread_bad == 0 && G.ctx_live == 0) \
    /* SIGPIPE is ignored before the first accept / thread */ \
    __CPROVER_ensures(G.accept_unignored == 0 && (G.polls > 0 ==> G.sigpipe_ignored == 1)) \
    /* the loop is left only through the shutdown flag, a poll() error other than EINTR, or the idle timeout: never \
     * from an iteration in which poll() reported a connection (accept / malloc / pthread_create failure included) */ \
    __CPROVER_ensures((G.polls > 0 && !g_shutdown) ==> (G.last_poll == 0 || (G.last_poll < 0 && G.last_poll_errno != EINTR))) \
    /* the idle timeout ends the daemon only when the session counter says nobody is being served */ \
    __CPROVER_ensures((G.polls > 0 && !g_shutdown && G.last_poll == 0) ==> g_active_clients == 0) \
    __CPROVER_ensures(G.polls > 0 ==> __CPROVER_return_value == 0) \
    __CPROVER_ensures(!G.lock_held && !G.lock_err && !G.ctr_err && G.exited == 0)

int vmd_server_run(const VmdServerConfig *cfg)
__CPROVER_requires(VERIF_FRESH(cfg, sizeof(*cfg)))
/* operator configuration (not client input): `idle_timeout_sec * 1000` must not overflow int */
__CPROVER_requires(cfg->idle_timeout_sec <= 0x7fffffff / 1000)
__CPROVER_requires(VMD_GHOST_ZERO && G.ctr_seen == g_active_clients)
__CPROVER_assigns(G, g_shutdown, __CPROVER_object_whole(__verif_vmd_ctxpool))
VMD_ACCEPT_POST;

void h_server_run(void)
{
    const VmdServerConfig *cfg;
    int r = vmd_server_run(cfg);
    VERIF_COVER(r == 0 && G.polls > 0 && g_shutdown);
    VERIF_COVER(r == 0 && G.polls > 0 && !g_shutdown && G.last_poll == 0);
    VERIF_COVER(r == 1);
}
#endif

#ifdef VMD_REAL_PROTO
void h_client_thread_os(void)
{
    void *arg;
    void *r = client_thread(arg);
    (void)r;
    VERIF_COVER(G.executed == 1 && G.io.rd_total > 8 && G.io.wr_total >= 20);       /* ran a program, replies went out */
    VERIF_COVER(G.executed == 1 && G.io.wr_total == 0);        /* ran, the client was gone: every write failed */
    VERIF_COVER(G.io.rd_total < 8 && G.closed == 1);                               /* disconnect inside the header */
    VERIF_COVER(G.io.rd_total == 8 && G.io.wr_total == 0 && G.deser_calls == 0);         /* rejected header: closed without reply */
    VERIF_COVER(G.deser_calls == 1 && G.deser_null && G.io.wr_total > 8);          /* not a module: error reply */
    VERIF_COVER(G.io.rd_total > 8 && G.deser_calls == 0);                          /* short payload */
}
#endif
#endif /* VMD_VIEW_SESSION */
