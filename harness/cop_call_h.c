/* C16.call / C16.stop / C15.reqbuf harness TU: the caller side of the FFI co-process protocol.
 * The real /repo/src/nanovm/vm_ffi.c is included verbatim (static cop_is_alive / cop_ensure);
 * the protocol functions are REPLACED by their caller-view contracts (cop_contracts.h, COP_VIEW_CALLER),
 * vm_ffi_call (in-process path) and vm_ffi_cop_start (fork/exec) by the contracts below,
 * the OS (waitpid, close, kill, usleep) is an adversarial stub. */
#define COP_VIEW_CALLER 1
/* The request path mallocs COP_MAX_PAYLOAD (16 MiB) bytes when the 8 KiB stack buffer is too small (repo fix for C15.reqbuf);
 * a replaced callee's frame over a CONSTANT 16 MiB object makes CBMC need > 18 GB and 20 min.  The caller-view obligations are
 * therefore run with the protocol constant scaled down in this TU (code and contracts alike; the code is parametric in it:
 * it only compares against it and passes it to malloc).  Stated drop: the value of one #define. */
#include "nanovm/cop_protocol.h"
#ifdef VERIF_COP_MAX_SCALED
#undef COP_MAX_PAYLOAD
#define COP_MAX_PAYLOAD VERIF_COP_MAX_SCALED
#endif
#include "cop_contracts.h"
#include "libc_stubs.h"
#include <sys/types.h>
#include <sys/wait.h>
#include <signal.h>
#include <unistd.h>
#include "nanovm/vm_ffi.h"

struct verif_cop_ghost __verif_cop;
uint32_t __verif_cop_k, __verif_cop_slen;
struct verif_cop_peer __verif_cop_peer;      /* never assigned: arbitrary scripted reply */

/* the three co-process fields are contiguous ints: one assigns target */
#define VM_COP_FIELDS(vm) __CPROVER_object_upto((char *)&(vm)->cop_in_fd, 3 * sizeof(int))
#define COP_GHOST_KEEP_IO (__verif_cop.req_sent == __CPROVER_old(__verif_cop.req_sent) && __verif_cop.req_len == __CPROVER_old(__verif_cop.req_len) && \
        __verif_cop.req_fail == __CPROVER_old(__verif_cop.req_fail) && __verif_cop.hdr_fail == __CPROVER_old(__verif_cop.hdr_fail) && \
        __verif_cop.pay_fail == __CPROVER_old(__verif_cop.pay_fail) && __verif_cop.bad_kill == __CPROVER_old(__verif_cop.bad_kill) && \
        __verif_cop.waited == __CPROVER_old(__verif_cop.waited))

/* in-process path: only reached when the co-process cannot be started */
bool vm_ffi_call(const NvmModule *module, uint32_t import_idx, NanoValue *args, int arg_count,
                 NanoValue *result, VmHeap *heap, char *error_msg, size_t error_msg_size)
__CPROVER_requires(__CPROVER_w_ok(result, sizeof(*result)))
__CPROVER_assigns(__CPROVER_object_upto(result, sizeof(*result)), __verif_cop)
__CPROVER_ensures(__verif_cop.inproc_called == 1 && COP_GHOST_KEEP_IO && __verif_cop.started == __CPROVER_old(__verif_cop.started))
__CPROVER_ensures(__CPROVER_return_value ==> COP_IS_TRANSFERABLE(result->tag));

/* fork/exec/INIT/READY: true => a live co-process with both pipe ends; false => none */
bool vm_ffi_cop_start(VmState *vm, const NvmModule *module)
__CPROVER_requires(__CPROVER_rw_ok(vm, sizeof(*vm)))
__CPROVER_assigns(VM_COP_FIELDS(vm), __verif_cop)
__CPROVER_ensures(__verif_cop.started == 1 && COP_GHOST_KEEP_IO && __verif_cop.inproc_called == __CPROVER_old(__verif_cop.inproc_called))
__CPROVER_ensures(__CPROVER_return_value ==> (vm->cop_pid > 0 && vm->cop_in_fd >= 0 && vm->cop_out_fd >= 0))
__CPROVER_ensures(!__CPROVER_return_value ==> vm->cop_pid <= 0)
__CPROVER_ensures(vm->cop_in_fd >= -1 && vm->cop_out_fd >= -1);

/* C16.stop */
/* representation invariant of the three fields: a descriptor is open (>= 0) or -1 */
#define VM_COP_INV(vm) ((vm)->cop_in_fd >= -1 && (vm)->cop_out_fd >= -1)
void vm_ffi_cop_stop(VmState *vm)
__CPROVER_requires(VERIF_FRESH(vm, sizeof(*vm)) && VM_COP_INV(vm))
__CPROVER_requires(__verif_cop.waited == 0 && __verif_cop.bad_kill == 0)
__CPROVER_assigns(VM_COP_FIELDS(vm), __verif_cop)
/* a co-process that was running is waited for (reaped) and the three fields are reset */
__CPROVER_ensures(__CPROVER_old(vm->cop_pid) > 0 ==> (__verif_cop.waited == 1 && vm->cop_pid == -1 && vm->cop_in_fd == -1 && vm->cop_out_fd == -1))
__CPROVER_ensures(__CPROVER_old(vm->cop_pid) <= 0 ==> (vm->cop_pid == __CPROVER_old(vm->cop_pid) && __verif_cop.waited == 0))
__CPROVER_ensures(__verif_cop.bad_kill == 0);

#ifndef COP_ERRSZ_MAX
#define COP_ERRSZ_MAX 4096
#endif
#ifdef COP_REQBUF
/* C15.reqbuf.argc1: one transferable scalar-or-string argument whose request (6 + image) fits COP_MAX_PAYLOAD */
#define COP_ARGS_PRE (arg_count == 1 && VERIF_FRESH(args, sizeof(NanoValue)) && \
    (COP_IS_SCALAR(args[0].tag) || (args[0].tag == TAG_STRING && __verif_cop_slen <= COP_MAX_PAYLOAD - 11 && \
      VERIF_FRESH(args[0].as.string, sizeof(VmString) + (size_t)__verif_cop_slen + 1) && args[0].as.string->length == __verif_cop_slen)))
#else
/* arguments: up to 16 values of ANY tag (the VM's trap record holds NanoValue args[16]); string arguments are NULL
 * here (the serialiser's own contract, C15.ser.string, covers live strings; C15.reqbuf.argc1 passes one through) */
static inline _Bool spec_args_no_live_string(const NanoValue *a)
{
    for (int i = 0; i < 16; i++) if (a[i].tag == TAG_STRING && a[i].as.string != NULL) return 0;
    return 1;
}
#define COP_ARGS_PRE (0 <= arg_count && arg_count <= 16 && VERIF_FRESH(args, 16 * sizeof(NanoValue)) && spec_args_no_live_string(args))
#endif

bool vm_ffi_call_cop(VmState *vm, const NvmModule *module, uint32_t import_idx, NanoValue *args, int arg_count,
                     NanoValue *result, VmHeap *heap, char *error_msg, size_t error_msg_size)
__CPROVER_requires(VERIF_FRESH(vm, sizeof(*vm)) && VM_COP_INV(vm))
__CPROVER_requires(COP_ARGS_PRE)
__CPROVER_requires(VERIF_FRESH(result, sizeof(*result)))
__CPROVER_requires(VERIF_FRESH(heap, sizeof(*heap)))
__CPROVER_requires(1 <= error_msg_size && error_msg_size <= COP_ERRSZ_MAX && VERIF_FRESH(error_msg, error_msg_size))
__CPROVER_requires(__verif_cop.req_sent == 0 && __verif_cop.req_fail == 0 && __verif_cop.hdr_fail == 0 && __verif_cop.pay_fail == 0 &&
                   __verif_cop.bad_kill == 0 && __verif_cop.inproc_called == 0 && __verif_cop.started == 0 && __verif_cop.waited == 0)
__CPROVER_assigns(VM_COP_FIELDS(vm), __verif_cop, __CPROVER_object_whole(result), __CPROVER_object_whole(heap), __CPROVER_object_whole(error_msg))
/* success hands back a value of a transferable kind */
__CPROVER_ensures(__CPROVER_return_value ==> COP_IS_TRANSFERABLE(result->tag))
/* a failed request send or a failed/rejected response header: the co-process is reaped and forgotten, so the next call relaunches */
__CPROVER_ensures((__verif_cop.req_fail || __verif_cop.hdr_fail) ==>
                  (!__CPROVER_return_value && __verif_cop.waited == 1 && vm->cop_pid == -1 && vm->cop_in_fd == -1 && vm->cop_out_fd == -1))
/* a failed payload receive is an error, never a success */
__CPROVER_ensures((__verif_cop.pay_fail && !__verif_cop.inproc_called) ==> (!__CPROVER_return_value || __verif_cop.hdr_fail))
__CPROVER_ensures(__verif_cop.bad_kill == 0)
#ifdef COP_REQBUF
/* transparency: whenever a co-process is available the request IS sent (nothing is refused for lack of buffer space) */
__CPROVER_ensures(!__verif_cop.inproc_called ==> __verif_cop.req_sent == 1)
__CPROVER_ensures((!__verif_cop.inproc_called && COP_IS_SCALAR(args[0].tag)) ==> __verif_cop.req_len == 6u + 1u + SPEC_COP_PAYLEN_M(args[0].tag))
__CPROVER_ensures((!__verif_cop.inproc_called && args[0].tag == TAG_STRING) ==> __verif_cop.req_len == 6u + 5u + __verif_cop_slen)
#endif
#ifdef COP_REPLY_ACCEPT
/* C15.reply.accept: a well-formed reply IS accepted.  Whenever a co-process was available, the request went out, the
 * response header was accepted by cop_recv_header (version 1, payload_len <= COP_MAX_PAYLOAD) with type FFI_RESULT, and
 * the peer's script delivers the whole payload and the payload decodes to a transferable value, the call SUCCEEDS,
 * *result is exactly that value (void for an empty payload) and the co-process is kept. */
#define COP_REPLY_WF (!__verif_cop.inproc_called && __verif_cop.req_sent == 1 && !__verif_cop.req_fail && !__verif_cop.hdr_fail && \
    __verif_cop_peer.type == COP_MSG_FFI_RESULT && \
    (__verif_cop_peer.len == 0 || (__verif_cop_peer.pay_ok && __verif_cop_peer.deser_ok && COP_IS_TRANSFERABLE(__verif_cop_peer.val_tag))))
__CPROVER_ensures(COP_REPLY_WF ==> __CPROVER_return_value)
__CPROVER_ensures(COP_REPLY_WF ==> vm->cop_pid > 0)
__CPROVER_ensures((COP_REPLY_WF && __verif_cop_peer.len == 0) ==> result->tag == TAG_VOID)
__CPROVER_ensures((COP_REPLY_WF && __verif_cop_peer.len > 0) ==>
                  (result->tag == __verif_cop_peer.val_tag && COP_VAL_BITS(result) == __verif_cop_peer.val_bits))
#endif
;

/* ===================== the real code, verbatim ===================== */
#include "nanovm/vm_ffi.c"
/* =================================================================== */

/* ---- the adversarial OS ---- */
pid_t nondet_pid(void);
pid_t waitpid(pid_t pid, int *status, int options)
{
    __CPROVER_assert(status == NULL || __CPROVER_w_ok(status, sizeof(int)), "OS: waitpid status valid");
    pid_t r = nondet_pid();
    __CPROVER_assume(r == -1 || r == pid || (r == 0 && (options & WNOHANG)));
    if (status) *status = nondet_int();
    if (pid > 0) __verif_cop.waited = 1;
    return r;
}
int close(int fd) { (void)fd; return nondet_int(); }
int kill(pid_t pid, int sig) { (void)sig; if (pid <= 0) __verif_cop.bad_kill = 1; __verif_cop.killed = 1; return nondet_int(); }
int usleep(useconds_t us) { (void)us; return nondet_int(); }

uint32_t in_slen;
void h_call(void)
{
    VmState *vm; const NvmModule *module; uint32_t import_idx; NanoValue *args; int arg_count;
    NanoValue *result; VmHeap *heap; char *error_msg; size_t error_msg_size;
#ifdef VERIF_WITNESS
    in_slen = nondet_u32(); __CPROVER_assume(in_slen == __verif_cop_slen);
    vm = malloc(sizeof(*vm)); args = malloc(sizeof(NanoValue)); result = malloc(sizeof(*result)); heap = malloc(sizeof(*heap));
    error_msg_size = 256; error_msg = malloc(256);
    __CPROVER_assume(vm && args && result && heap && error_msg);
    VmString *ws = malloc(sizeof(VmString) + (size_t)in_slen + 1); __CPROVER_assume(ws);
    ws->length = in_slen; args[0].tag = TAG_STRING; args[0].as.string = ws; arg_count = 1;
#endif
    bool ok = vm_ffi_call_cop(vm, module, import_idx, args, arg_count, result, heap, error_msg, error_msg_size);
    VERIF_COVER(ok && !__verif_cop.inproc_called);
    VERIF_COVER(!ok && __verif_cop.req_fail);
    VERIF_COVER(!ok && __verif_cop.hdr_fail && !__verif_cop.req_fail);
    VERIF_COVER(!ok && __verif_cop.pay_fail && !__verif_cop.hdr_fail);
    VERIF_COVER(__verif_cop.inproc_called);
    VERIF_COVER(ok && __verif_cop.started && __verif_cop.req_sent == 1);
#ifdef COP_REPLY_ACCEPT
    VERIF_COVER(ok && !__verif_cop.inproc_called && __verif_cop_peer.len > 8192 && __verif_cop_peer.len <= 65536);
    VERIF_COVER(ok && !__verif_cop.inproc_called && __verif_cop_peer.len > COP_MAX_PAYLOAD / 2 && __verif_cop_peer.val_tag == TAG_STRING);
    VERIF_COVER(ok && !__verif_cop.inproc_called && __verif_cop_peer.len == 0);
    VERIF_COVER(!ok && !__verif_cop.hdr_fail && !__verif_cop.req_fail && __verif_cop_peer.type == COP_MSG_FFI_RESULT && !__verif_cop_peer.deser_ok);
#endif
}

void h_stop(void)
{
    VmState *vm;
    vm_ffi_cop_stop(vm);
    VERIF_COVER(__verif_cop.waited && __verif_cop.killed);
    VERIF_COVER(__verif_cop.waited && !__verif_cop.killed);
    VERIF_COVER(!__verif_cop.waited);
}
