/* C05.gate.virt / C10.exit.virt : the real `main` of src/nanovirt/main.c (annotated
 * scratch copy: loop-contract clauses only) under the contract virt_main of
 * contracts/gate_contracts.h.  Every callee is replaced by its contract; the
 * only bodies that remain are the driver's own static helpers read_file, usage,
 * has_nvm_extension (real code).
 * What the extraction changes: the NAME main -> virt_main (so that the contract
 * can be attached to a forward declaration and the CBMC entry stays h_*). */
#define GATE_VIRT 1
#include "gate_contracts.h"
struct verif_gate __verif_gate;
int __verif_vm_r; uint8_t __verif_top_tag; int64_t __verif_top_i64;   /* ghost inputs, never assigned */

#define main virt_main
#include "nanovirt/main.c"
#undef main

void h_virt_main(void)
{
    int argc; char **argv;
    int r = virt_main(argc, argv);
    VERIF_COVER(r == 0 && G.main_executed && G.artifact_written);     /* -o x --run, all phases fine */
    VERIF_COVER(r != 0 && G.tc_failed);
    VERIF_COVER(r != 0 && G.cg_failed);
    VERIF_COVER(r == 7 && G.main_executed);
    VERIF_COVER(r != 0 && G.lex_failed);
}
