/* C19.emit.K : the bytecode generator's emit_op (src/nanovirt/codegen.c, included verbatim; plain CBMC, emit_op is
 * variadic) for opcode byte VERIF_K with arbitrary operand values and an arbitrary code-buffer fill level:
 * memory-safe across the buffer growth (no write through a stale pointer after realloc), returns the old fill level,
 * advances code_size by exactly the instruction length, and the bytes written are the encoding of exactly the operands
 * passed (spec_image_ok) - nothing else influences the emitted bytes.
 * Operand C types come from the registry (-DVERIF_NARGS, -DVERIF_T1..3 = OperandType codes read mechanically from the
 * real table in isa.c by obligations/c19.py); they are re-checked against the real table here. */
#include "verif_common.h"
#include "libc_stubs.h"
#include <stdlib.h>
#include <string.h>
#include "nanoisa/isa.h"
static const InstructionInfo instruction_table[256];
#include "spec_isa.h"
#include "nanoisa/isa.c"
#include "nanovirt/codegen.c"

struct verif_ghost __verif_g;
#define KK ((uint8_t)VERIF_K)
#ifndef VERIF_NARGS
#define VERIF_NARGS 0
#endif
#ifndef VERIF_T1
#define VERIF_T1 0
#endif
#ifndef VERIF_T2
#define VERIF_T2 0
#endif
#ifndef VERIF_T3
#define VERIF_T3 0
#endif

/* argument i: C type as va_arg reads it in emit_op, value arbitrary */
#define DECL_ARG(n, T) \
    int a##n##_int = nondet_int(); uint32_t a##n##_u32 = nondet_u32(); int32_t a##n##_i32 = nondet_i32(); \
    int64_t a##n##_i64 = nondet_i64(); double a##n##_f64 = nondet_double();
#if VERIF_T1 == 1 || VERIF_T1 == 2
#define ARG1 a1_int
#elif VERIF_T1 == 3
#define ARG1 a1_u32
#elif VERIF_T1 == 4
#define ARG1 a1_i32
#elif VERIF_T1 == 5
#define ARG1 a1_i64
#else
#define ARG1 a1_f64
#endif
#if VERIF_T2 == 1 || VERIF_T2 == 2
#define ARG2 a2_int
#elif VERIF_T2 == 3
#define ARG2 a2_u32
#elif VERIF_T2 == 4
#define ARG2 a2_i32
#elif VERIF_T2 == 5
#define ARG2 a2_i64
#else
#define ARG2 a2_f64
#endif
#if VERIF_T3 == 1 || VERIF_T3 == 2
#define ARG3 a3_int
#elif VERIF_T3 == 3
#define ARG3 a3_u32
#elif VERIF_T3 == 4
#define ARG3 a3_i32
#elif VERIF_T3 == 5
#define ARG3 a3_i64
#else
#define ARG3 a3_f64
#endif

#define SET_EXP(i, T, n) do { \
    if ((T) == 1) exp.operands[i].u8 = (uint8_t)a##n##_int; else if ((T) == 2) exp.operands[i].u16 = (uint16_t)a##n##_int; \
    else if ((T) == 3) exp.operands[i].u32 = a##n##_u32; else if ((T) == 4) exp.operands[i].i32 = a##n##_i32; \
    else if ((T) == 5) exp.operands[i].i64 = a##n##_i64; else if ((T) == 6) exp.operands[i].f64 = a##n##_f64; } while (0)

void h_emit(void)
{
    /* the registry's view of the row must be the real row (else the obligation is meaningless) */
    __CPROVER_assert(SPEC_DEFINED(KK) && SPEC_ROW(KK).operand_count == VERIF_NARGS &&
                     (VERIF_NARGS < 1 || (int)SPEC_ROW(KK).operands[0] == VERIF_T1) &&
                     (VERIF_NARGS < 2 || (int)SPEC_ROW(KK).operands[1] == VERIF_T2) &&
                     (VERIF_NARGS < 3 || (int)SPEC_ROW(KK).operands[2] == VERIF_T3), "C19.emit registry row == real table row");
    CG *cg = malloc(sizeof(CG)); __CPROVER_assume(cg != NULL);
    cg->had_error = false;
    __CPROVER_assume(cg->code_cap >= 64 && cg->code_cap <= (1u << 20) && cg->code_size <= cg->code_cap);
    cg->code = malloc(cg->code_cap); __CPROVER_assume(cg->code != NULL);
    uint32_t size0 = cg->code_size;
    DECL_ARG(1, VERIF_T1) DECL_ARG(2, VERIF_T2) DECL_ARG(3, VERIF_T3)
#if VERIF_NARGS == 0
    uint32_t off = emit_op(cg, (NanoOpcode)KK);
#elif VERIF_NARGS == 1
    uint32_t off = emit_op(cg, (NanoOpcode)KK, ARG1);
#elif VERIF_NARGS == 2
    uint32_t off = emit_op(cg, (NanoOpcode)KK, ARG1, ARG2);
#else
    uint32_t off = emit_op(cg, (NanoOpcode)KK, ARG1, ARG2, ARG3);
#endif
    __CPROVER_assert(!cg->had_error, "C19.emit no error for a defined opcode when allocation succeeds");
    __CPROVER_assert(off == size0, "C19.emit returns the offset where the instruction starts");
    __CPROVER_assert(cg->code_size == size0 + spec_len(KK) && cg->code_size <= cg->code_cap, "C19.emit fill level advanced by the instruction length");
    DecodedInstruction exp; memset(&exp, 0, sizeof exp); exp.opcode = KK;
#if VERIF_NARGS >= 1
    SET_EXP(0, VERIF_T1, 1);
#endif
#if VERIF_NARGS >= 2
    SET_EXP(1, VERIF_T2, 2);
#endif
#if VERIF_NARGS >= 3
    SET_EXP(2, VERIF_T3, 3);
#endif
    __CPROVER_assert(spec_image_ok(&exp, cg->code + off, KK), "C19.emit the emitted bytes are the encoding of exactly the operands passed");
    VERIF_COVER(size0 + 32 > cg->code_cap / 2 /* the buffer had to grow */ && cg->code_cap > 64);
    VERIF_COVER(size0 == 0);
}
