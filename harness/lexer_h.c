/* C09.lex.* : the real src/lexer.c (annotated scratch copy: loop-contract clauses and ghost
 * assignments only) under the contracts of contracts/lexer_contracts.h. */
#include "lexer_contracts.h"
struct lex_ghost __verif_lx;
const void *__verif_tok;
size_t __verif_len, __verif_S; /* never assigned by code under proof; made arbitrary in h_tokenize */

#include "src/lexer.c"       /* annotated scratch copy when a sidecar is given (include_repo = ["", "src"]) */

#ifdef VERIF_WITNESS
/* witness mode: concrete buffer built from named inputs (replay/replayers_lex.py reads in_len, in_src.b[k]) */
#ifndef LEX_WIT_MAX
#define LEX_WIT_MAX 6
#endif
struct { char b[LEX_WIT_MAX + 1]; } in_src;
size_t in_len;
#endif

void h_tokenize(void)
{
    lex_ctype_init();
    __verif_len = nondet_size(); __verif_S = nondet_size();
    __CPROVER_assume(__verif_len <= LEX_MAX_LEN);          /* same bound as the precondition: keeps len+1 from wrapping */
#ifdef VERIF_WITNESS
    in_len = nondet_size();
    __CPROVER_assume(in_len <= LEX_WIT_MAX);
    __verif_len = in_len;
#endif
    /* every NUL-terminated buffer of length __verif_len: exact-size block, arbitrary content, terminator at len */
    char *buf = __CPROVER_allocate(LEX_SRC_OBJ, 0);    /* not malloc(): that name is replaced by the contract above */
    __CPROVER_havoc_object(buf);
#ifdef VERIF_WITNESS
    for (size_t k = 0; k < LEX_WIT_MAX; k++) { in_src.b[k] = (char)nondet_u8(); if (k < in_len) buf[k] = in_src.b[k]; }
#endif
    buf[__verif_len] = 0;
    int cnt;
    Token *r = tokenize(buf, &cnt);
#ifdef VERIF_WITNESS
    /* no DFCC in witness mode: the postcondition of the contract as plain assertions */
    __CPROVER_assert(r == NULL || (cnt >= 1 && (size_t)cnt <= __verif_len + 1), "WITNESS token count within 1..len+1");
    __CPROVER_assert(r == NULL || cnt < 1 || (r[cnt - 1].token_type == TOKEN_EOF && r[cnt - 1].value == NULL), "WITNESS last token is EOF");
#endif
    /* one cover point per obligation (each extra one costs a further solver pass of ~40 s) */
#ifdef LEX_COVER_NULL
    VERIF_COVER(r == NULL);
#else
    VERIF_COVER(r != NULL && __verif_len == 5);
#endif
}

/* the five classes of the case split cover every byte */
void h_cases(void)
{
    lex_ctype_init();
    char c = (char)nondet_u8();
    __CPROVER_assert(LEX_P0(c) || LEX_P1(c) || LEX_P2(c) || LEX_P3(c) || LEX_P4(c),
                     "C09.lex case split is exhaustive");
    VERIF_COVER(LEX_P4(c));
    VERIF_COVER(LEX_P3(c) && (unsigned char)c >= 0x80);
}
