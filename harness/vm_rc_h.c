/* C14.step.<OP>: reference-count CONSERVATION of one VM step over the step's footprint.
 *
 * Reuses the one-step harness (harness/vm_step_h.c, included verbatim: the real vm_core_execute on a module
 * holding one instruction; vm_release = executable rendering of its contract, contracts/vm_contracts.h) and adds
 * the entry h_c14.
 *
 * Census.  POSITIONS of the footprint (places that hold a NanoValue and are materialised):
 *     S0,S1,S2   the top three stack slots (before: [old_size-3, old_size); after: [old_size-3, new_size))
 *     LOC        the local / global slot addressed by the operand, when it lies below the window
 *     E(c)       the element at the index of interest in_k of every materialised container c
 *                (the values of S0..S2, LOC), while c is allocated and in_k < its length
 *     TRAP       the values carried by the returned VmTrap (print value, assert condition, extern args)
 * OBJECTS tracked: the heap objects of the values built for S0..S2 and LOC ("big" values B0,B1,B2,BL) and the
 * leaf of each container (L0,L1,L2,LL).
 *     indeg(o)  = number of positions holding a heap-tagged value whose pointer is o
 *     excess(o) = ref_count(o) - indeg(o)            (ref_count of a freed object counts as 0)
 * ALIASING (after build_state()): (1) S1, S2, LOC may hold the heap value of a slot ABOVE them instead of their own
 * (nondeterministic selectors; heap values replace heap values only, so scalar operands and build_state's index ties
 * stay); (2) in the C14.step.<OP>.elem obligations (shapes pinned, -DVERIF_RC_EC/-DVERIF_RC_ES) the element position of
 * a container holds the STRING another slot holds instead of its own leaf.  Not covered: two element positions with one
 * object, a container that contains itself (cycles leak by design), a non-string heap value as an element (the contract
 * stub of vm_release releases string children only).  Then the harness ASSUMES the census invariant
 * ref_count(o) >= indeg(o) for every tracked object (induction hypothesis over steps).
 * STACK DEPTH is pinned by the registry (-DVERIF_STACK_SIZE=7 of capacity 8: window slots 4..6, four slots below for the
 * addressed local): with a symbolic depth/capacity the realloc branch of stack_push makes every later read of a slot
 * a read through a symbolic-size copy (measured: out of memory at 10 GB).  Hence NOT covered here: stack growth inside
 * the step (realloc copies the slots bitwise; its memory safety is C13.step.*), and steps with fewer than three slots
 * (operand underflow, which the handlers treat as void operands).
 * Obligation, for an arbitrary tracked object o referenced from the footprint:
 *     SAFETY   excess_after(o) >= excess_before(o)      - a reference is never dropped without its count; with
 *              ref_count 0 for a freed object this includes  freed => indeg_after == 0 && excess_before == 0
 *     NO LEAK  excess_after(o) == excess_before(o)      - on paths that do not end in TRAP_ERROR and whose
 *              operands have the shape the compiler emits (RC_TYPED below); not asserted when the registry
 *              passes -DVERIF_RC_GE_ONLY (opcodes listed by name in obligations/c14.py), where a cover point
 *              shows that the excess really grows.
 * Slots of the stack below the window, elements at other indices, objects not in the footprint: untouched by the
 * step or the step fails CBMC's pointer checks (frame argument of DESIGN 4.1).
 */
#include "vm_step_h.c"

/* a position's content as the census sees it: tag and object pointer (copied member by member: whole-struct copies of
 * the tagged union into uninitialised locals give CBMC's field-sensitive symex unrelated symbols for the union members).
 * The tracked values are kept in SEPARATE variables, not in arrays: CBMC's value sets merge all elements of an array,
 * and every dereference would then range over all ~25 objects of the harness (measured: 4.6 M variables, 50 s, or out
 * of memory) instead of the ~5 objects built for one slot. */
typedef struct { uint8_t tag; const void *obj; } rcv;
#define RCV_IS_RC(x) (IS_RC_TAG((x).tag) && (x).obj != NULL)
#define RCV_HDR(x) ((const VmHeapHeader *)(x).obj)
#define RC_OF(r, p) do { (r).tag = (p)->tag; (r).obj = (p)->as.obj; } while (0)
#define RC_VOID(r) do { (r).tag = TAG_VOID; (r).obj = NULL; } while (0)
#define RC_OCC(x, o) ((uint32_t)(RCV_IS_RC(x) && (x).obj == (o)))

/* element position E(c): the slot of the element at in_k of container c, NULL if there is none */
#define RC_ELEM_SLOT(ep, c) do { (ep) = NULL; \
    if (RCV_IS_RC(c)) { \
        if ((c).tag == TAG_ARRAY) { VmArray *a_ = (VmArray *)(c).obj; if (in_k < a_->length && in_k < a_->capacity) (ep) = &a_->elements[in_k]; } \
        else if ((c).tag == TAG_STRUCT) { VmStruct *s_ = (VmStruct *)(c).obj; if (in_k < s_->field_count) (ep) = &s_->fields[in_k]; } \
        else if ((c).tag == TAG_UNION) { VmUnion *u_ = (VmUnion *)(c).obj; if (in_k < u_->field_count) (ep) = &u_->fields[in_k]; } \
        else if ((c).tag == TAG_TUPLE) { VmTuple *t_ = (VmTuple *)(c).obj; if (in_k < t_->count) (ep) = &t_->elements[in_k]; } \
        else if ((c).tag == TAG_FUNCTION) { VmClosure *f_ = (VmClosure *)(c).obj; if (in_k < f_->capture_count) (ep) = &f_->captures[in_k]; } \
    } } while (0)

/* freed-ness of a tracked object after the step.  CBMC records only ONE deallocated object (chosen nondeterministically),
 * so r_ok alone does not tell; but every tracked object starts with ref_count >= 1 and the release contract writes
 * ref_count = 0 exactly when it frees: after the step  freed <=> not readable any more or ref_count == 0
 * (the header is read only where r_ok holds, so the harness itself never reads a deallocated object) */
#define RC_ALLOCATED(x) (__CPROVER_r_ok((x).obj, sizeof(VmHeapHeader)) && RCV_HDR(x)->ref_count != 0)

/* the values build_state made: zero-initialised statics, copied from the places that hold them */
static NanoValue rc_b0, rc_b1, rc_b2, rc_b3, rc_l0, rc_l1, rc_l2, rc_l3;

/* occurrences of o in the positions before the step: S0 S1 S2 LOC E(B0) E(B1) E(B2) E(BL) */
#define RC_INDEG0(o) (RC_OCC(S0, o) + RC_OCC(S1, o) + RC_OCC(S2, o) + RC_OCC(S3, o) + \
                      (live0 ? RC_OCC(L0, o) : 0u) + (live1 ? RC_OCC(L1, o) : 0u) + (live2 ? RC_OCC(L2, o) : 0u) + (live3 ? RC_OCC(L3, o) : 0u))
/* ... after the step: five window slots, LOC, the element positions of the containers still allocated, the trap value */
#define RC_INDEG1(o) (RC_OCC(Q0, o) + RC_OCC(Q1, o) + RC_OCC(Q2, o) + RC_OCC(Q3, o) + RC_OCC(Q4, o) + RC_OCC(Q5, o) + \
                      RC_OCC(E0, o) + RC_OCC(E1, o) + RC_OCC(E2, o) + RC_OCC(E3, o) + RC_OCC(QT, o))

void h_c14(void)
{
    build_state();
    VmState *vm = g_vm;
    const uint8_t K = (uint8_t)VERIF_OP;

    /* ---- the tracked values as build_state made them: big values B0..B2 (slots), B3 (LOC) and their leaves L0..L3 ---- */
    rcv B0, B1, B2, B3, L0, L1, L2, L3;
    _Bool live0 = in_stack_size >= 1, live1 = in_stack_size >= 2, live2 = in_stack_size >= 3, live3 = 0;
    rc_b0 = in_v0; rc_b1 = in_v1; rc_b2 = in_v2;
    NanoValue *loc = NULL;
    {
        VmCallFrame *fr = &vm->frames[vm->frame_count - 1];
        if (K == OP_LOAD_LOCAL || K == OP_STORE_LOCAL) {
            uint32_t xs = fr->stack_base + (uint16_t)(in_operand.b[1] | (in_operand.b[2] << 8));
            if (xs < in_stack_size && (uint64_t)xs + 3 < in_stack_size) { loc = &vm->stack[xs]; rc_b3 = *loc; live3 = 1; }
        }
        if (K == OP_LOAD_GLOBAL || K == OP_STORE_GLOBAL) {
            uint32_t gi = (uint32_t)in_operand.b[1] | ((uint32_t)in_operand.b[2] << 8) | ((uint32_t)in_operand.b[3] << 16) | ((uint32_t)in_operand.b[4] << 24);
            if (gi < VM_MAX_GLOBALS) { loc = &vm->globals[gi]; rc_b3 = *loc; live3 = 1; }
        }
    }
    if (K == OP_ARR_POP && in_v0.tag == TAG_ARRAY && in_len0 > 0) __CPROVER_assume(in_k == in_len0 - 1);   /* the element of interest is the one popped */
#define RC_INIT(Bi, Li, livei, bi, li) do { NanoValue *ep_; \
        if (livei) RC_OF(Bi, &bi); else RC_VOID(Bi); \
        RC_ELEM_SLOT(ep_, Bi); \
        if (ep_) { li = *ep_; RC_OF(Li, ep_); } else RC_VOID(Li); } while (0)
    RC_INIT(B0, L0, live0, rc_b0, rc_l0); RC_INIT(B1, L1, live1, rc_b1, rc_l1);
    RC_INIT(B2, L2, live2, rc_b2, rc_l2); RC_INIT(B3, L3, live3, rc_b3, rc_l3);

    /* ---- aliasing ----
       (1) a slot position that holds a heap value may hold what a slot ABOVE it holds instead (S1 <- S0, S2 <- S0|S1,
           LOC <- S0|S1|S2): two or three positions with one object.  Heap values replace heap values only, so that scalar
           operands and the index ties of build_state stay as they are.
       (2) the element position of a container may hold the STRING another slot holds instead of its own leaf: a slot and
           an element with one object (ARR_SET / STRUCT_SET storing the value that is already there, *_GET of an element
           that is also on the stack ...).  Strings only: the contract stub of vm_release releases string children
           (containers hold leaves, DESIGN 10.4). */
    rcv S0 = B0, S1 = B1, S2 = B2, S3 = B3;      /* what S0 S1 S2 LOC hold */
#ifndef VERIF_RC_NOALIAS
#define RC_TRY(Si, livei, dst, Bsrc, src_ok, srcv, fix) do { \
        if ((livei) && RCV_IS_RC(Si) && (src_ok)) { *(dst) = (srcv); Si = (Bsrc); livei = 0; fix; } } while (0)
    {
        uint8_t e1 = nondet_u8(), e2 = nondet_u8(), e3 = nondet_u8();
        if (live1) {
            NanoValue *d = &vm->stack[in_stack_size - 2];
            if (e1 == 1) RC_TRY(S1, live1, d, S0, RCV_IS_RC(S0), in_v0, (in_v1 = in_v0, in_len1 = in_len0));
        }
        if (live2) {
            NanoValue *d = &vm->stack[in_stack_size - 3];
            if (e2 == 1) RC_TRY(S2, live2, d, S0, RCV_IS_RC(S0), in_v0, (in_v2 = in_v0, in_len2 = in_len0));
            else if (e2 == 2) RC_TRY(S2, live2, d, S1, RCV_IS_RC(S1), in_v1, (in_v2 = in_v1, in_len2 = in_len1));
        }
        if (live3 && loc) {
            if (e3 == 1) RC_TRY(S3, live3, loc, S0, RCV_IS_RC(S0), in_v0, (void)0);
            else if (e3 == 2) RC_TRY(S3, live3, loc, S1, RCV_IS_RC(S1), in_v1, (void)0);
            else if (e3 == 3) RC_TRY(S3, live3, loc, S2, RCV_IS_RC(S2), in_v2, (void)0);
        }
    }
#ifdef VERIF_RC_EC
    /* (2) registry: -DVERIF_RC_EC=<slot of the container> -DVERIF_RC_ES=<slot of the string>, with the slot shapes pinned
       (a symbolic choice of container and source over all shapes exhausts 10 GB in the SAT back end) */
#define RC_CAT_(a, b) a##b
#define RC_CAT(a, b) RC_CAT_(a, b)
#define RC_STR(x) ((x).tag == TAG_STRING && (x).obj != NULL)
    {
        NanoValue *ep_;
        if (RC_CAT(live, VERIF_RC_EC)) {
            RC_ELEM_SLOT(ep_, RC_CAT(B, VERIF_RC_EC));
            if (ep_ && RC_STR(RC_CAT(S, VERIF_RC_ES)) && nondet_bool()) { *ep_ = RC_CAT(in_v, VERIF_RC_ES); RC_CAT(L, VERIF_RC_EC) = RC_CAT(S, VERIF_RC_ES); }
        }
    }
#endif
#endif

    /* ---- census invariant (induction hypothesis over steps): ref_count >= indeg for every tracked object ---- */
#define RC_INV(X) do { if (RCV_IS_RC(X)) { uint32_t need_ = RC_INDEG0((X).obj); __CPROVER_assume(RCV_HDR(X)->ref_count >= need_); } } while (0)
    RC_INV(B0); RC_INV(B1); RC_INV(B2); RC_INV(B3); RC_INV(L0); RC_INV(L1); RC_INV(L2); RC_INV(L3);

    /* ---- the object under consideration: any tracked object referenced from the footprint ---- */
    uint8_t c = nondet_u8();
    __CPROVER_assume(c < 8);
    rcv ov; uint32_t rcnt0 = 0;
#define RC_PICK(i, X) if (c == (i)) { ov = X; if (RCV_IS_RC(X)) rcnt0 = RCV_HDR(X)->ref_count; }
    RC_VOID(ov);
    RC_PICK(0, B0) RC_PICK(1, B1) RC_PICK(2, B2) RC_PICK(3, B3) RC_PICK(4, L0) RC_PICK(5, L1) RC_PICK(6, L2) RC_PICK(7, L3)
    __CPROVER_assume(RCV_IS_RC(ov));
    const void *o = ov.obj;
    uint32_t indeg0 = RC_INDEG0(o);
    __CPROVER_assume(indeg0 >= 1);
    int64_t excess0 = (int64_t)rcnt0 - (int64_t)indeg0;

    const void *arr_operand = in_v1.as.obj;      /* ARR_REMOVE operates on S1 */
    const uint32_t lo = in_stack_size >= 3 ? in_stack_size - 3 : 0;
    _Bool typed = 1;                    /* RC_TYPED: operand shapes the compiler emits (index operands are not heap values) */
    if (K == OP_ARR_GET || K == OP_ARR_REMOVE) typed = !(in_stack_size >= 1 && IS_RC(in_v0));
    if (K == OP_ARR_SET) typed = !(in_stack_size >= 2 && IS_RC(in_v1));
    /* index / scalar operands that the handler pops and does not release (they are ints where the compiler emits the opcode) */
    if (K == OP_STR_CHAR_AT || K == OP_OPAQUE_VALID || K == OP_STR_FROM_INT || K == OP_STR_FROM_FLOAT) typed = !(in_stack_size >= 1 && IS_RC(in_v0));
    if (K == OP_STR_SUBSTR || K == OP_ARR_SLICE) typed = !(in_stack_size >= 1 && IS_RC(in_v0)) && !(in_stack_size >= 2 && IS_RC(in_v1));

    VmTrap t = vm_core_execute(vm);

    /* ---- positions after the step ---- */
    uint32_t ss1 = vm->stack_size;
    __CPROVER_assert(ss1 <= lo + 5, "C14.step the window [old_size-3, old_size+2) covers every slot the step wrote");
    rcv Q0, Q1, Q2, Q3, Q4, Q5, E0, E1, E2, E3, QT;
#define RC_SLOT(Qd, d) do { if (lo + (d) < ss1) RC_OF(Qd, &vm->stack[lo + (d)]); else RC_VOID(Qd); } while (0)
    RC_SLOT(Q0, 0); RC_SLOT(Q1, 1); RC_SLOT(Q2, 2); RC_SLOT(Q3, 3); RC_SLOT(Q4, 4);
    if (loc) RC_OF(Q5, loc); else RC_VOID(Q5);
    /* element positions of the containers that still exist.  ARR_REMOVE shifts the (unmaterialised) neighbours down:
       position in_k then holds a value from outside the footprint, whose count moved with it */
#define RC_ELEM1(Ei, Bi, livei) do { NanoValue *ep_ = NULL; RC_VOID(Ei); \
        if ((livei) && RCV_IS_RC(Bi) && RC_ALLOCATED(Bi) && !(K == OP_ARR_REMOVE && t.type != TRAP_ERROR && (Bi).obj == arr_operand)) { \
            RC_ELEM_SLOT(ep_, Bi); if (ep_) RC_OF(Ei, ep_); } } while (0)
    RC_ELEM1(E0, B0, live0); RC_ELEM1(E1, B1, live1); RC_ELEM1(E2, B2, live2); RC_ELEM1(E3, B3, live3);
    RC_VOID(QT);
    if (t.type == TRAP_PRINT) RC_OF(QT, &t.data.print.value);
    if (t.type == TRAP_ASSERT) RC_OF(QT, &t.data.assert_check.condition);
    uint32_t indeg1 = RC_INDEG1(o);
#if VERIF_OP == 0x3E   /* CALL_EXTERN */
    if (t.type == TRAP_EXTERN_CALL)
        for (int i = 0; i < 16; i++) if (i < t.data.extern_call.argc) { rcv x_; RC_OF(x_, &t.data.extern_call.args[i]); indeg1 += RC_OCC(x_, o); }
#endif

    _Bool alive = 0; uint32_t rcnt1 = 0;
#define RC_POST(i, X) if (c == (i)) { alive = RC_ALLOCATED(X); if (alive) rcnt1 = RCV_HDR(X)->ref_count; }
    RC_POST(0, B0) RC_POST(1, B1) RC_POST(2, B2) RC_POST(3, B3) RC_POST(4, L0) RC_POST(5, L1) RC_POST(6, L2) RC_POST(7, L3)
    int64_t excess1 = (int64_t)rcnt1 - (int64_t)indeg1;

    __CPROVER_assert(alive || indeg1 == 0, "C14.step.dangling a freed object is not referenced from any position of the footprint");
    __CPROVER_assert(excess1 >= excess0, "C14.step.safety excess' >= excess: no reference is dropped without its count (freed => no reference inside or outside the footprint)");
#ifndef VERIF_RC_GE_ONLY
    __CPROVER_assert(t.type == TRAP_ERROR || !typed || excess1 == excess0, "C14.step.noleak excess' == excess on the non-error paths");
#elif !defined(VERIF_RC_NOLEAKCOVER)
    VERIF_COVER(t.type != TRAP_ERROR && typed && alive && excess1 > excess0);      /* the leak is real */
#endif
#ifdef VERIF_RC_UNTYPED_LEAK
    /* a heap value in an index / scalar operand position is popped and not released: the step goes on, the excess grows */
    VERIF_COVER(t.type != TRAP_ERROR && !typed && alive && excess1 > excess0);
#endif
    /* reachability guards; which of them apply to an opcode is told by the registry (VERIF_RC_COVERS bit mask) */
#ifndef VERIF_RC_COVERS
#define VERIF_RC_COVERS 0
#endif
#ifdef VERIF_RC_UNDERFLOW
    VERIF_COVER(ss1 <= 8);                                                   /* the step returned (with missing operands many handlers can only fail) */
#else
    VERIF_COVER(t.type != TRAP_ERROR && t.type != TRAP_NONE);                /* the step ran to the HALT after it / to its trap */
#endif
#if VERIF_RC_COVERS & 1
    VERIF_COVER(t.type != TRAP_ERROR && alive && rcnt1 != rcnt0);            /* the count of the object changes */
#endif
#if VERIF_RC_COVERS & 2
    VERIF_COVER(t.type != TRAP_ERROR && alive && indeg1 != indeg0);          /* the number of references changes */
#endif
#if VERIF_RC_COVERS & 4
    VERIF_COVER(t.type != TRAP_ERROR && !alive);                             /* the object is freed by the step */
#endif
#if !defined(VERIF_RC_NOALIAS) && (VERIF_RC_COVERS & 8)
    VERIF_COVER(t.type != TRAP_ERROR && indeg0 >= 2);                        /* aliasing inside the footprint */
#endif
}
