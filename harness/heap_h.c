/* C14.heap.* harness TU: contracts on forward declarations (heap_contracts.h), then the real
 * /repo/src/nanovm/heap.c included verbatim (static release_* helpers, array_grow, fnv1a). */
#include "heap_contracts.h"
#include <stdlib.h>
#include <string.h>

#include "nanovm/heap.c"   /* the real code, verbatim (annotated scratch copy when a sidecar is attached) */

struct verif_heap_ghost __verif_h;

/* C14.heap.release.<kind>: vm_release against its contract; the recursive calls inside release_* are replaced by the same
 * contract (--enforce-contract-rec); lvl = 2: the argument is the object under proof */
void h_release(void)
{
    VmHeap *heap; NanoValue v;
    __verif_h.lvl = 2;
#if VERIF_HKIND != 0
    v.tag = VERIF_HKIND;     /* a constant for symbolic execution: the arms of the other kinds are pruned */
#endif
    unsigned kc0 = __verif_h.kid_calls;
    vm_release(heap, v);
#if VERIF_HKIND != 0
    VERIF_COVER(__verif_rc0 == 1);
    VERIF_COVER(__verif_rc0 >= 2);
    VERIF_COVER(__verif_rc0 == 0);
#endif
#if VERIF_HKIND == 7 || VERIF_HKIND == 8 || VERIF_HKIND == 10 || VERIF_HKIND == 12 || VERIF_HKIND == 11
    VERIF_COVER(__verif_h.kid_calls == kc0 + 1 && __verif_hk > 2);
#endif
#if VERIF_HKIND == 0
    VERIF_COVER(!IS_RC_TAG(v.tag));
    VERIF_COVER(IS_RC_TAG(v.tag));
#endif
}

void h_retain(void)
{
    NanoValue v;
    vm_retain(v);
    VERIF_COVER(IS_RC(v));
    VERIF_COVER(!IS_RC_TAG(v.tag));
    VERIF_COVER(IS_RC_TAG(v.tag) && v.as.obj == NULL);
}
