/* C14.heap.* harness TU: contracts on forward declarations (heap_contracts.h), then the real
 * /repo/src/nanovm/heap.c included verbatim (static release_* helpers, array_grow, fnv1a). */
#include "heap_contracts.h"
#include <stdlib.h>
#include <string.h>

#include "nanovm/heap.c"   /* the real code, verbatim (annotated scratch copy when a sidecar is attached) */

void h_retain(void)
{
    NanoValue v;
    vm_retain(v);
    VERIF_COVER(IS_RC(v));
    VERIF_COVER(!IS_RC_TAG(v.tag));
    VERIF_COVER(IS_RC_TAG(v.tag) && v.as.obj == NULL);
}
