/* C14.heap.* harness TU: contracts on forward declarations (heap_contracts.h), then the real
 * /repo/src/nanovm/heap.c included verbatim (static release_* helpers, array_grow, fnv1a). */
#include "heap_contracts.h"
#include <stdlib.h>
#include <string.h>

#include "nanovm/heap.c"   /* the real code, verbatim (annotated scratch copy when a sidecar is attached) */

struct verif_heap_ghost __verif_h;

#ifndef HEAP_VIEW_CHILD
/* C14.heap.release.<kind>: vm_release against its contract; the call of the kind's release_* helper is replaced by the
 * helper's contract (proved by C14.heap.helper.<kind>) */
void h_release(void)
{
    VmHeap *heap; NanoValue v;
#if VERIF_HKIND != 0
    v.tag = VERIF_HKIND;     /* a constant for symbolic execution: the arms of the other kinds are pruned */
#endif
    _Bool null_obj = (v.as.obj == NULL);
    unsigned kc0 = __verif_h.kid_calls;
    vm_release(heap, v);
#if VERIF_HKIND != 0
    VERIF_COVER(!null_obj && __verif_rc0 == 1);
    VERIF_COVER(!null_obj && __verif_rc0 >= 2);
    VERIF_COVER(!null_obj && __verif_rc0 == 0);
    VERIF_COVER(null_obj);
#else
    VERIF_COVER(!IS_RC_TAG(v.tag));
#endif
#if VERIF_HKIND == 7 || VERIF_HKIND == 8 || VERIF_HKIND == 10 || VERIF_HKIND == 12 || VERIF_HKIND == 11
    VERIF_COVER(__verif_h.kid_calls == kc0 + 1 && __verif_hk > 2);
#endif
}
#else
/* C14.heap.helper.<kind>: release_<kind> against its contract; the recursive vm_release calls in its loop are replaced by
 * the child view of vm_release's contract; loop contract from contracts/loops/heap.c.loops */
void h_helper(void)
{
    VmHeap *heap; REL_T *p;
    unsigned kc0 = __verif_h.kid_calls;
    REL_FN(heap, p);
    VERIF_COVER(__verif_h.kid_calls == kc0 + 1 && __verif_hk > 2);
    VERIF_COVER(__verif_h.kid_calls == kc0 && __verif_hkidrc == 0);
#if VERIF_HKIND == 8 || VERIF_HKIND == 10
    VERIF_COVER(__verif_hstn == 0);
#endif
}
#endif

void h_retain(void)
{
    NanoValue v;
    vm_retain(v);
    VERIF_COVER(IS_RC(v));
    VERIF_COVER(!IS_RC_TAG(v.tag));
    VERIF_COVER(IS_RC_TAG(v.tag) && v.as.obj == NULL);
}

#ifndef HEAP_VIEW_CHILD
/* C14.heap.arr.* / C14.heap.new.*: one enforced function each; covers look at return values and ghosts only.
 * Value arguments are built field by field from a zeroed struct (an uninitialised union local gives CBMC unrelated
 * symbols for the union and its members). */
void h_arr_get(void) { VmArray *a; uint32_t index; NanoValue r = vm_array_get(a, index); VERIF_COVER(r.tag == TAG_VOID); VERIF_COVER(r.tag == TAG_STRING && index > 5); }
void h_arr_set(void) { VmArray *a; uint32_t index; NanoValue v = {0}; v.tag = nondet_u8(); v.as.i64 = nondet_i64(); vm_array_set(a, index, v); VERIF_COVER(__verif_hk > 3 && __verif_hk < index); VERIF_COVER(index == 0); }
void h_arr_pop(void) { VmArray *a; NanoValue r = vm_array_pop(a); VERIF_COVER(r.tag == TAG_VOID); VERIF_COVER(r.tag == TAG_ARRAY); }
void h_arr_remove(void) { VmArray *a; uint32_t index; vm_array_remove(a, index); VERIF_COVER(index == 0 && __verif_hk == 2); VERIF_COVER(index > 4 && __verif_hk > index); VERIF_COVER(index > 4 && __verif_hk < index); }
void h_arr_push(void) { VmArray *a; NanoValue v = {0}; v.tag = nondet_u8(); v.as.i64 = nondet_i64(); vm_array_push(a, v); VERIF_COVER(IS_RC_TAG(v.tag) && __verif_rc0 == 7); VERIF_COVER(!IS_RC_TAG(v.tag) && __verif_hk == 9); }
void h_arr_new(void) { VmHeap *heap; uint8_t et; uint32_t cap; VmArray *r = vm_array_new(heap, et, cap); VERIF_COVER(r->capacity == 8); VERIF_COVER(r->capacity > 1000 && __verif_hk == 999); }
void h_struct_new(void) { VmHeap *heap; uint32_t d, n; VmStruct *r = vm_struct_new(heap, d, n); VERIF_COVER(r->field_count == 0); VERIF_COVER(r->field_count > 1000 && __verif_hk == 999); }
void h_union_new(void) { VmHeap *heap; uint32_t d; uint16_t va, n; VmUnion *r = vm_union_new(heap, d, va, n); VERIF_COVER(r->field_count == 0); VERIF_COVER(r->field_count > 1000 && __verif_hk == 999); }
void h_tuple_new(void) { VmHeap *heap; uint32_t n; VmTuple *r = vm_tuple_new(heap, n); VERIF_COVER(r->count == 0); VERIF_COVER(r->count > 1000 && __verif_hk == 999); }
void h_closure_new(void) { VmHeap *heap; uint32_t f; uint16_t n; VmClosure *r = vm_closure_new(heap, f, n); VERIF_COVER(r->capture_count == 0); VERIF_COVER(r->capture_count > 1000 && __verif_hk == 999); }
#endif
