/* Assumed contracts on libc output/formatting functions, given as stub BODIES
 * (they replace CBMC's built-in models, which loop over the format string).
 * Each stub checks the one memory-safety fact the caller owes (destination
 * valid for n bytes) and leaves the destination content unconstrained-as-is (message text is not part of any
 * property; any return value).  They are assumptions on dependencies and are listed as such
 * in every evidence file that uses them. */
#ifndef VERIF_LIBC_STUBS_H
#define VERIF_LIBC_STUBS_H
#include <stdarg.h>
#include <stdio.h>
#include "verif_common.h"

int vsnprintf(char *s, size_t n, const char *fmt, va_list ap)
{
    (void)fmt; (void)ap;
    __CPROVER_assert(n == 0 || __CPROVER_w_ok(s, n), "libc: vsnprintf destination valid for n bytes");
    return nondet_int();
}

/* NOTE: truly variadic functions (snprintf, fprintf, printf) must NOT be given bodies here: under
 * --dfcc a variadic definition gets an extra write-set parameter that collides with the variable
 * arguments ("parameter type mismatch", cbmc rc=6).  CBMC's built-in library models are used for them. */
int vfprintf(FILE *f, const char *fmt, va_list ap) { (void)f; (void)fmt; (void)ap; return nondet_int(); }
int fputs(const char *s, FILE *f) { (void)s; (void)f; return nondet_int(); }
int fputc(int c, FILE *f) { (void)c; (void)f; return nondet_int(); }
int putchar(int c) { (void)c; return nondet_int(); }
int puts(const char *s) { (void)s; return nondet_int(); }
int fflush(FILE *f) { (void)f; return nondet_int(); }
#endif
