/* Spec functions for the FFI co-process value codec (properties C15, C16).
 * Written from the wire format documented in src/nanovm/cop_protocol.h:
 *
 *   value  = tag(u8) + payload
 *   TAG_INT    : i64, 8 bytes little-endian
 *   TAG_FLOAT  : f64, 8 bytes IEEE 754 (bit image, little-endian)
 *   TAG_BOOL   : u8, 0 or 1
 *   TAG_STRING : len(u32 little-endian) + len data bytes
 *   TAG_OPAQUE : i64 (proxy id), 8 bytes little-endian
 *   TAG_ARRAY  : elem_type(u8) + count(u32 little-endian) + count serialized values
 *   TAG_VOID   : nothing
 *
 * and from the property statement (C15): "arrives bit-for-bit identical".
 * Pure, loop trip counts are compile-time constants (<= 8 bytes).
 */
#ifndef SPEC_COP_H
#define SPEC_COP_H
#include <stdint.h>
#include <stddef.h>
#include "nanovm/value.h"
#include "nanovm/heap.h"

#define COP_IS_SCALAR(t) ((t) == TAG_VOID || (t) == TAG_INT || (t) == TAG_FLOAT || (t) == TAG_BOOL || (t) == TAG_OPAQUE)
/* the transferable set of the property statement */
#define COP_IS_TRANSFERABLE(t) (COP_IS_SCALAR(t) || (t) == TAG_STRING || (t) == TAG_ARRAY)

/* payload bytes after the tag byte, scalar tags */
static inline uint32_t spec_cop_paylen(uint8_t tag)
{
    return (tag == TAG_INT || tag == TAG_FLOAT || tag == TAG_OPAQUE) ? 8u
         : tag == TAG_BOOL ? 1u
         : 0u;
}
/* macro twin (usable where calls are not: assigns targets, loop invariants) */
#define SPEC_COP_PAYLEN_M(t) (((t) == TAG_INT || (t) == TAG_FLOAT || (t) == TAG_OPAQUE) ? 8u : (t) == TAG_BOOL ? 1u : 0u)

/* little-endian value of n (<= 8) bytes */
static inline uint64_t spec_cop_le(const uint8_t *p, uint32_t n)
{
    uint64_t v = 0;
    for (uint32_t j = 0; j < 8; j++)
        if (j < n) v |= ((uint64_t)p[j]) << (8 * j);
    return v;
}
#define COP_LE32(p) ((uint32_t)(p)[0] | ((uint32_t)(p)[1] << 8) | ((uint32_t)(p)[2] << 16) | ((uint32_t)(p)[3] << 24))

/* the payload of a scalar value as a 64-bit pattern, seen through the union
 * member its tag names (floats by their bit image: NaN payloads, -0.0, inf
 * are compared as bits; a bool is 0 or 1) */
static inline uint64_t spec_cop_bits(const NanoValue *v, uint8_t tag)
{
    switch (tag) {
    case TAG_INT:    return (uint64_t)v->as.i64;
    case TAG_OPAQUE: return (uint64_t)v->as.i64;
    case TAG_FLOAT:  return *(const uint64_t *)&v->as.f64;
    case TAG_BOOL:   return v->as.boolean ? 1u : 0u;
    default:         return 0;
    }
}

/* what the wire payload of a scalar denotes (same 64-bit pattern) */
static inline uint64_t spec_cop_wire_bits(const uint8_t *payload, uint8_t tag)
{
    if (tag == TAG_BOOL) return payload[0] != 0 ? 1u : 0u;
    return spec_cop_le(payload, spec_cop_paylen(tag));
}

/* buf[0..1+paylen) is exactly the image of scalar v */
static inline _Bool spec_cop_scalar_image_ok(const NanoValue *v, const uint8_t *buf, uint8_t tag)
{
    if (buf[0] != tag) return 0;
    if (spec_cop_paylen(tag) == 0) return 1;
    /* the serialiser must emit the canonical image: bool is the byte 0 or 1 */
    return spec_cop_le(buf + 1, spec_cop_paylen(tag)) == spec_cop_bits(v, tag);
}

/* well-formed scalar result of the deserialiser (VAL_WF restricted to scalars) */
static inline _Bool spec_cop_scalar_wf(const NanoValue *v)
{
    return COP_IS_SCALAR(v->tag);
}
#endif
