/* MOD_WF (DESIGN 4.3): module well-formedness = the verifier's postcondition, as
 * macros over ghost indices (no quantifiers, no calls: usable in loop invariants).
 * Shared by the verifier contracts (where it is PROVED) and the VM step harnesses
 * (where it is ASSUMED of the module the VM runs). */
#ifndef MODWF_H
#define MODWF_H
#include "nanoisa/nvm_format.h"
#include "isa_contracts.h"

#define NVM_MAX_FILE (100u * 1024u * 1024u)
#ifndef LE32
#define LE16(p) ((uint16_t)((uint16_t)(p)[0] | ((uint16_t)(p)[1] << 8)))
#define LE32(p) ((uint32_t)(p)[0] | ((uint32_t)(p)[1] << 8) | ((uint32_t)(p)[2] << 16) | ((uint32_t)(p)[3] << 24))
#endif

/* what the loader hands to the verifier: counts within the file-size bound, arrays valid for `count` entries */
#define MODV_PRE(mod) ( \
    VERIF_FRESH(mod, sizeof(NvmModule)) && \
    (mod)->function_count <= NVM_MAX_FILE && (mod)->import_count <= NVM_MAX_FILE && (mod)->code_size <= 16u * NVM_MAX_FILE && \
    VERIF_FRESH((mod)->functions, (size_t)(mod)->function_count * sizeof(NvmFunctionEntry)) && \
    VERIF_FRESH((mod)->imports, (size_t)(mod)->import_count * sizeof(NvmImportEntry)) && \
    VERIF_FRESH((mod)->code, (mod)->code_size))

/* spec: instruction length from the table row, as an expression (slots beyond operand_count are NONE by C11.table.k) */
/* operand size by operand type as ONE table lookup (OperandType enumerators 0..6; C11.table.k shows every slot is one of them) */
static const uint8_t spec_opsize_tab[8] = { 0, 1, 2, 4, 4, 8, 8, 0 };
#define OPSZ_M(t) ((uint32_t)spec_opsize_tab[(unsigned)(t) & 7u])
#define ROW_M(k) (instruction_table[(uint8_t)(k)])
#define SPEC_LEN_M(k) (1u + OPSZ_M(ROW_M(k).operands[0]) + OPSZ_M(ROW_M(k).operands[1]) + OPSZ_M(ROW_M(k).operands[2]) + OPSZ_M(ROW_M(k).operands[3]))

#define FN_OK(mod, f) ((mod)->functions[f].code_offset <= (mod)->code_size && \
    (uint64_t)(mod)->functions[f].code_offset + (uint64_t)(mod)->functions[f].code_length <= (uint64_t)(mod)->code_size && \
    (mod)->functions[f].name_idx < (mod)->string_count)
#define IMP_OK(mod, i) ((mod)->imports[i].module_name_idx < (mod)->string_count && (mod)->imports[i].function_name_idx < (mod)->string_count)
#define ENTRY_OK(mod) (!((mod)->header.flags & NVM_FLAG_HAS_MAIN) || (mod)->header.entry_point < (mod)->function_count)

/* instruction at offset p of function f is well-formed (what the VM may rely on) */
#define FCODE(mod, f) ((mod)->code + (mod)->functions[f].code_offset)
#define FEND(mod, f) ((mod)->functions[f].code_length)
#define JTGT(mod, f, p, o) ((int64_t)(p) + (int64_t)(int32_t)LE32(FCODE(mod, f) + (p) + (o)))
/* primitive forms over a code pointer c (start of the function), its length end, an offset p and the table sizes */
#define JTGT_P(c, p, o) ((int64_t)(p) + (int64_t)(int32_t)LE32((c) + (p) + (o)))
#define IOKP_DECODE(c, end, p) ((p) < (end) && ROW_M((c)[p]).name != NULL && SPEC_LEN_M((c)[p]) <= (end) - (p))
#define IOKP_JMP(c, end, p) (!IOKP_DECODE(c, end, p) ? 0 : ((c)[p] != OP_JMP && (c)[p] != OP_JMP_TRUE && (c)[p] != OP_JMP_FALSE) || \
        (JTGT_P(c, p, 1) >= 0 && JTGT_P(c, p, 1) <= (int64_t)(end)))
#define IOKP_MATCH(c, end, p) (!IOKP_DECODE(c, end, p) ? 0 : (c)[p] != OP_MATCH_TAG || (JTGT_P(c, p, 3) >= 0 && JTGT_P(c, p, 3) <= (int64_t)(end)))
#define IOKP_CALL(c, end, p, fcount) (!IOKP_DECODE(c, end, p) ? 0 : ((c)[p] != OP_CALL && (c)[p] != OP_CLOSURE_NEW) || LE32((c) + (p) + 1) < (fcount))
#define IOKP_STR(c, end, p, scount) (!IOKP_DECODE(c, end, p) ? 0 : (c)[p] != OP_PUSH_STR || LE32((c) + (p) + 1) < (scount))
#define IOKP_EXTERN(c, end, p, icount) (!IOKP_DECODE(c, end, p) ? 0 : (c)[p] != OP_CALL_EXTERN || LE32((c) + (p) + 1) < (icount))
#define IOKP_LOCAL(c, end, p, lcount) (!IOKP_DECODE(c, end, p) ? 0 : ((c)[p] != OP_LOAD_LOCAL && (c)[p] != OP_STORE_LOCAL) || LE16((c) + (p) + 1) < (lcount))

#define OPC(mod, f, p) (FCODE(mod, f)[p])
#define IOK_DECODE(mod, f, p) IOKP_DECODE(FCODE(mod, f), FEND(mod, f), p)
#define IOK_JMP(mod, f, p) IOKP_JMP(FCODE(mod, f), FEND(mod, f), p)
#define IOK_MATCH(mod, f, p) IOKP_MATCH(FCODE(mod, f), FEND(mod, f), p)
#define IOK_CALL(mod, f, p) IOKP_CALL(FCODE(mod, f), FEND(mod, f), p, (mod)->function_count)
#define IOK_STR(mod, f, p) IOKP_STR(FCODE(mod, f), FEND(mod, f), p, (mod)->string_count)
#define IOK_EXTERN(mod, f, p) IOKP_EXTERN(FCODE(mod, f), FEND(mod, f), p, (mod)->import_count)
#define IOK_LOCAL(mod, f, p) IOKP_LOCAL(FCODE(mod, f), FEND(mod, f), p, (mod)->functions[f].local_count)
/* the same parts over an explicit code pointer / length (used where the function's own locals or ghost-bound
 * copies of them are available: far smaller expressions than the FCODE(mod,f) forms) */
#define IOKX_DECODE(c, end, p, mod, f) IOKP_DECODE(c, end, p)
#define IOKX_JMP(c, end, p, mod, f) IOKP_JMP(c, end, p)
#define IOKX_MATCH(c, end, p, mod, f) IOKP_MATCH(c, end, p)
#define IOKX_CALL(c, end, p, mod, f) IOKP_CALL(c, end, p, (mod)->function_count)
#define IOKX_STR(c, end, p, mod, f) IOKP_STR(c, end, p, (mod)->string_count)
#define IOKX_EXTERN(c, end, p, mod, f) IOKP_EXTERN(c, end, p, (mod)->import_count)
#define IOKX_LOCAL(c, end, p, mod, f) IOKP_LOCAL(c, end, p, (mod)->functions[f].local_count)
/* INSTR_OK = conjunction of the seven parts; each part is proved by its own obligation
 * (-DVERIF_IOK=<part>) because the conjunction makes symbolic execution of the contract itself too slow */
#ifndef VERIF_IOK
#define INSTR_OK(mod, f, p) 1
#define INSTR_OKX(c, end, p, mod, f) 1
#else
#define INSTR_OK(mod, f, p) VERIF_IOK(mod, f, p)
#define VERIF_CAT_(a, b) a##b
#define VERIF_CAT(a, b) VERIF_CAT_(a, b)
#define INSTR_OKX(c, end, p, mod, f) VERIF_CAT(IOKX_, VERIF_IOKN)(c, end, p, mod, f)
#endif

#endif
