/* Contracts for src/nanoisa/nvm_format.c (properties C12, C13, C10).
 *
 * Two views of the builder functions exist, selected by NVM_VIEW:
 *   NVM_VIEW_LOADER  the contract the *loader proof* uses when it replaces a
 *                    builder call: what the caller may rely on and must
 *                    establish, with the module's private arrays (strings[],
 *                    code[], functions[], debug_entries[]) left out of the
 *                    frame.  The loader never dereferences those (it does touch
 *                    imports[] / import_param_types[], which therefore ARE in
 *                    its view).
 *   NVM_VIEW_BUILDER the strong contract each builder function is *enforced*
 *                    against on its own (C13.builder.*), including the private
 *                    arrays, growth arithmetic and memcpy ranges.
 * The step from "builder satisfies the strong contract" to "builder satisfies
 * the loader view" is representation hiding (the arrays are reachable only
 * through *mod) and is NOT machine-checked: listed under assumptions.
 */
#ifndef NVM_CONTRACTS_H
#define NVM_CONTRACTS_H
#include "verif_common.h"
#include "nanoisa/nvm_format.h"

#define NVM_MAX_FILE (100u * 1024u * 1024u)   /* every caller's limit: main.c:40, VMD_MAX_PAYLOAD */

#define LE16(p) ((uint16_t)((uint16_t)(p)[0] | ((uint16_t)(p)[1] << 8)))
#define LE32(p) ((uint32_t)(p)[0] | ((uint32_t)(p)[1] << 8) | ((uint32_t)(p)[2] << 16) | ((uint32_t)(p)[3] << 24))

/* statics of nvm_format.c (tentative definitions; completed by the include) */
static uint32_t crc32_table[256];
static bool crc32_initialized;

/* ---- header validation: spec from the property text ---- */
#define SPEC_HDR_OK(h) ((h)->magic[0] == 'N' && (h)->magic[1] == 'V' && (h)->magic[2] == 'M' && (h)->magic[3] == 0x01 && \
                        (h)->format_version == 1 && (h)->section_count <= 16)

bool nvm_validate_header(const NvmHeader *header)
__CPROVER_requires(__CPROVER_is_fresh(header, sizeof(*header)))
__CPROVER_assigns()
__CPROVER_ensures(__CPROVER_return_value == SPEC_HDR_OK(header));

#if defined(NVM_VIEW_LOADER)

/* checksum: records WHAT was checksummed in ghost state (C12.gate) */
uint32_t nvm_crc32(const uint8_t *data, uint32_t size)
__CPROVER_requires(size == 0 || __CPROVER_r_ok(data, size))
__CPROVER_assigns(__verif_g)
__CPROVER_ensures(__verif_g.seq == __CPROVER_old(__verif_g.seq) + 1)
__CPROVER_ensures(__verif_g.crc_seq == __verif_g.seq)
__CPROVER_ensures(__verif_g.crc_ptr == data && __verif_g.crc_len == size)
__CPROVER_ensures(__verif_g.crc_res == __CPROVER_return_value)
__CPROVER_ensures(__verif_g.module_new_seq == __CPROVER_old(__verif_g.module_new_seq))
__CPROVER_ensures(__verif_g.partial == __CPROVER_old(__verif_g.partial) && __verif_g.unconsumed == __CPROVER_old(__verif_g.unconsumed))
__CPROVER_ensures(__verif_g.exited == __CPROVER_old(__verif_g.exited));

NvmModule *nvm_module_new(void)
__CPROVER_assigns(__verif_g)
__CPROVER_ensures(__verif_g.seq == __CPROVER_old(__verif_g.seq) + 1)
__CPROVER_ensures(__verif_g.module_new_seq == __verif_g.seq)
__CPROVER_ensures(__verif_g.crc_seq == __CPROVER_old(__verif_g.crc_seq) &&
                  __verif_g.crc_ptr == __CPROVER_old(__verif_g.crc_ptr) &&
                  __verif_g.crc_len == __CPROVER_old(__verif_g.crc_len) &&
                  __verif_g.crc_res == __CPROVER_old(__verif_g.crc_res) &&
                  __verif_g.exited == __CPROVER_old(__verif_g.exited))
__CPROVER_ensures(__verif_g.partial == __CPROVER_old(__verif_g.partial) && __verif_g.unconsumed == __CPROVER_old(__verif_g.unconsumed))
__CPROVER_ensures(__CPROVER_return_value == NULL ||
    (__CPROVER_is_fresh(__CPROVER_return_value, sizeof(NvmModule)) &&
     __CPROVER_return_value->import_count == 0 &&
     __CPROVER_return_value->import_capacity == 32 &&
     __CPROVER_is_fresh(__CPROVER_return_value->imports, 32 * sizeof(NvmImportEntry)) &&
     __CPROVER_is_fresh(__CPROVER_return_value->import_param_types, 32 * sizeof(uint8_t *)) &&
     __CPROVER_return_value->code_size == 0 &&
     __CPROVER_return_value->string_count == 0 &&
     __CPROVER_return_value->function_count == 0 &&
     __CPROVER_return_value->debug_count == 0));

void nvm_module_free(NvmModule *mod)
__CPROVER_requires(mod == NULL || __CPROVER_rw_ok(mod, sizeof(*mod)))
__CPROVER_assigns()
__CPROVER_frees(mod);

/* data-range preconditions are the point: the loader must hand in-bounds ranges to the builders */
uint32_t nvm_add_string(NvmModule *mod, const char *str, uint32_t length)
__CPROVER_requires(__CPROVER_rw_ok(mod, sizeof(*mod)))
__CPROVER_requires(length == 0 || __CPROVER_r_ok(str, length))
__CPROVER_requires(length <= NVM_MAX_FILE)
__CPROVER_assigns(mod->strings, mod->string_lengths, mod->string_count, mod->string_capacity);

uint32_t nvm_append_code(NvmModule *mod, const uint8_t *code, uint32_t size)
__CPROVER_requires(__CPROVER_rw_ok(mod, sizeof(*mod)))
__CPROVER_requires(size == 0 || __CPROVER_r_ok(code, size))
__CPROVER_requires(size <= NVM_MAX_FILE && mod->code_size <= 15u * NVM_MAX_FILE)
__CPROVER_assigns(mod->code, mod->code_size, mod->code_capacity)
__CPROVER_ensures(mod->code_size <= __CPROVER_old(mod->code_size) + size);

uint32_t nvm_add_function(NvmModule *mod, const NvmFunctionEntry *entry)
__CPROVER_requires(__CPROVER_rw_ok(mod, sizeof(*mod)))
__CPROVER_requires(__CPROVER_r_ok(entry, sizeof(*entry)))
__CPROVER_assigns(mod->functions, mod->function_count, mod->function_capacity);

void nvm_add_debug_entry(NvmModule *mod, uint32_t bytecode_offset, uint32_t source_line)
__CPROVER_requires(__CPROVER_rw_ok(mod, sizeof(*mod)))
__CPROVER_assigns(mod->debug_entries, mod->debug_count, mod->debug_capacity);

/* ---- the loader itself ---- */
extern uint32_t __verif_j;   /* ghost index of a directory entry (C12.dir) */
#define DIR_OFF(data, j)  LE32((data) + 32 + 12 * (j) + 4)
#define DIR_SIZE(data, j) LE32((data) + 32 + 12 * (j) + 8)
#define DIR_KIND(data, j) LE32((data) + 32 + 12 * (j))
#define DIR_ENTRY_OK(data, size, j) ((uint64_t)DIR_OFF(data, j) + (uint64_t)DIR_SIZE(data, j) <= (uint64_t)(size))

#ifdef VERIF_KIND
/* case split over the section kind: every directory slot that exists is of the kind under proof.
 * VERIF_KIND = 1,2,3,8,9 (the five parsed kinds) or 0 = "any other value" (the default arm). */
#if VERIF_KIND == 0
#define KIND_IS(k) ((k) != 1u && (k) != 2u && (k) != 3u && (k) != 8u && (k) != 9u)
#else
#define KIND_IS(k) ((k) == (uint32_t)(VERIF_KIND))
#endif
#define KIND_SLOT(data, size, j) ((size) < 32u + 12u * ((j) + 1u) || KIND_IS(DIR_KIND(data, j)))
#define KIND_PRE(data, size) ( \
  KIND_SLOT(data,size,0u) && KIND_SLOT(data,size,1u) && KIND_SLOT(data,size,2u) && KIND_SLOT(data,size,3u) && \
  KIND_SLOT(data,size,4u) && KIND_SLOT(data,size,5u) && KIND_SLOT(data,size,6u) && KIND_SLOT(data,size,7u) && \
  KIND_SLOT(data,size,8u) && KIND_SLOT(data,size,9u) && KIND_SLOT(data,size,10u) && KIND_SLOT(data,size,11u) && \
  KIND_SLOT(data,size,12u) && KIND_SLOT(data,size,13u) && KIND_SLOT(data,size,14u) && KIND_SLOT(data,size,15u))
#else
#define KIND_PRE(data, size) 1
#endif
#ifndef VERIF_MAX_SIZE
#define VERIF_MAX_SIZE NVM_MAX_FILE
#endif

NvmModule *nvm_deserialize(const uint8_t *data, uint32_t size)
__CPROVER_requires(size <= VERIF_MAX_SIZE)
__CPROVER_requires(VERIF_FRESH(data, size))
__CPROVER_requires(KIND_PRE(data, size))
__CPROVER_requires(__verif_g.seq == 0 && __verif_g.crc_seq == 0 && __verif_g.module_new_seq == 0 && __verif_g.exited == 0 && __verif_g.partial == 0 && __verif_g.unconsumed == 0)
__CPROVER_requires(__verif_j < 16)
__CPROVER_assigns(__verif_g)
/* C12.gate: a module is returned only for a well-formed header whose stored checksum equals the
   checksum computed over exactly the bytes after the header, computed before anything is built */
__CPROVER_ensures(__CPROVER_return_value != NULL ==> size >= 32)
__CPROVER_ensures(__CPROVER_return_value != NULL ==>
    (data[0] == 'N' && data[1] == 'V' && data[2] == 'M' && data[3] == 0x01 && LE32(data + 4) == 1 && LE32(data + 16) <= 16))
__CPROVER_ensures(__CPROVER_return_value != NULL ==>
    (__verif_g.crc_seq != 0 && __verif_g.crc_ptr == data + 32 && __verif_g.crc_len == size - 32 &&
     __verif_g.crc_res == LE32(data + 28)))
__CPROVER_ensures(__CPROVER_return_value != NULL ==>
    (__verif_g.module_new_seq != 0 && __verif_g.crc_seq < __verif_g.module_new_seq))
__CPROVER_ensures(__CPROVER_return_value == NULL ==>
    (__verif_g.module_new_seq == 0 || __verif_g.crc_seq < __verif_g.module_new_seq))
/* C12.dir: every directory entry of an accepted file lies inside the file (no wrap-around) */
__CPROVER_ensures((__CPROVER_return_value != NULL && __verif_j < LE32(data + 16)) ==> DIR_ENTRY_OK(data, size, __verif_j))
/* C12.whole: loading is all-or-nothing - an accepted file had every known section consumed to its very end */
__CPROVER_ensures(__CPROVER_return_value != NULL ==> __verif_g.partial == 0)
/* C10.load.complete: an entry loop never stops while a complete fixed-size entry (or string length word) is left */
__CPROVER_ensures(__verif_g.unconsumed == 0)
__CPROVER_ensures(__verif_g.exited == 0);

#endif /* NVM_VIEW_LOADER */
#endif
