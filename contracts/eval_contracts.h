/* Contract vocabulary for the tree-walking interpreter unit (src/eval.c): C03.int.*, C03.assert, C03.sc.int, C08.int.*
 *
 * WHAT IS REAL / WHAT IS NOT (harness/eval_ops_h.c):
 *   real, verbatim (#include "src/eval.c", annotated scratch copy): eval_expression (dispatch + literal leaves),
 *   eval_prefix_op, is_truthy, the AST_ASSERT arm of eval_statement, builtin_at, builtin_array_set,
 *   builtin_array_pop, builtin_array_remove_at; real, linked unmodified: src/env.c (create_int/bool/void/...),
 *   src/runtime/dyn_array.c (dyn_array_length, dyn_array_get_*, dyn_array_pop_*, dyn_array_remove_at).
 *   The harness is a PLAIN CBMC harness (no --dfcc): eval.c is a 4.9k-line TU in which the callee that would have to
 *   be contract-replaced (the recursive eval_expression) is a static function of the same file; a contract
 *   replacement makes the operand TYPE symbolic and symbolic execution then walks every array/float/string arm of
 *   eval_prefix_op.  Instead the operands are LITERAL LEAF NODES (AST_NUMBER / AST_BOOL with an arbitrary payload)
 *   evaluated by the REAL eval_expression: the node kinds are constants, so symbolic execution follows exactly the
 *   int (resp. bool) arm, and the payloads are full-domain symbolic.
 *   ghost: ONE group of seven statements inserted by tools/annotate.py (contracts/loops/eval.c.ops.loops) at the entry of
 *   eval_expression counts the evaluations per node in __verif_ev (never read by the code).
 *   exit / abort / __assert_fail are path ends that set a ghost flag ("the run ends here with an error").
 *
 * The triples are stated in the harness (as in harness/vm_step_h.c) with the predicates below; the operator results
 * are compared with the SAME spec functions the VM handlers are proved against (contracts/spec_int.h, C02.vm.*).
 */
#ifndef EVAL_CONTRACTS_H
#define EVAL_CONTRACTS_H
#include "verif_common.h"
#include "spec_int.h"
#include <stdlib.h>
#include <stdio.h>

/* ---- ghost state of the unit: one struct ---- */
struct verif_ev {
    const void *n0, *n1;        /* the two operand nodes of the operator under proof (set by the harness) */
    unsigned calls0, calls1;    /* evaluations of operand 0 / operand 1 */
    unsigned calls_other;       /* evaluations of any other node (the operator node itself, the assert condition, ...) */
    unsigned seq;               /* event counter */
    unsigned seq0, seq1;        /* event number of the FIRST evaluation of operand 0 / 1 (0 = never) */
    int exited;                 /* exit() reached */
    int exit_status;
    int aborted;                /* abort() / __assert_fail reached */
};
extern struct verif_ev __verif_ev;

/* ---- path ends: exit / _exit / abort / __assert_fail get BODIES in the harness: ghost flag, "status is non-zero"
 *      assertion, optional cover points, then assume(false) = the run ends here ---- */

/* ---- well-formed scalar results ---- */
#define EV_PLAIN(v)   (!(v).is_return && !(v).is_break && !(v).is_continue)
#define EV_IS_INT(v)  ((v).type == VAL_INT && EV_PLAIN(v))
#define EV_IS_BOOL(v) ((v).type == VAL_BOOL && EV_PLAIN(v))
#define EV_IS_FLOAT(v) ((v).type == VAL_FLOAT && EV_PLAIN(v))

/* ---- spec of the comparison / logic operators (C02 statement: ordinary signed 64-bit order; and/or/not on bool) ---- */
static inline _Bool spec_eq(int64_t a, int64_t b) { return a == b; }
static inline _Bool spec_ne(int64_t a, int64_t b) { return a != b; }
static inline _Bool spec_lt(int64_t a, int64_t b) { return a < b; }
static inline _Bool spec_le(int64_t a, int64_t b) { return a <= b; }
static inline _Bool spec_gt(int64_t a, int64_t b) { return a > b; }
static inline _Bool spec_ge(int64_t a, int64_t b) { return a >= b; }
static inline _Bool spec_and(_Bool a, _Bool b) { return a && b; }
static inline _Bool spec_or(_Bool a, _Bool b) { return a || b; }
static inline _Bool spec_not(_Bool a) { return !a; }

/* operator selector of the registry (-DVERIF_EOP=EOP_x); the token constant comes from the repo's own enum */
#define EOP_ADD 1
#define EOP_SUB 2
#define EOP_MUL 3
#define EOP_DIV 4
#define EOP_MOD 5
#define EOP_NEG 6
#define EOP_EQ 7
#define EOP_NE 8
#define EOP_LT 9
#define EOP_LE 10
#define EOP_GT 11
#define EOP_GE 12
#define EOP_AND 13
#define EOP_OR 14
#define EOP_NOT 15

/* operand domain selector (-DVERIF_DOM=DOM_x): a CASE SPLIT of the int64 x int64 operand plane for / and % */
#define DOM_ALL 0        /* every operand pair */
#define DOM_DEFINED 1    /* divisor != 0 and not (INT64_MIN, -1): where C's / and % are defined */
#define DOM_ZERO 2       /* divisor == 0 */
#define DOM_MINNEG1 3    /* (INT64_MIN, -1) */

/* array accessor selector (-DVERIF_ACC=ACC_x), container kind (-DVERIF_AK=AK_x), element kind (-DVERIF_ELEM=EL_x) */
#define ACC_AT 1
#define ACC_SET 2
#define ACC_POP 3
#define ACC_REMOVE 4
#define AK_ARRAY 1       /* Value of type VAL_ARRAY (what an array literal evaluates to): Array {element_type,length,capacity,data} */
#define AK_DYN 2         /* Value of type VAL_DYN_ARRAY (what array_push returns): DynArray of src/runtime/dyn_array.c */
#define EL_INT 1
#define EL_FLOAT 2
#define EL_BOOL 3

/* ---- float operators (C03.float.*, C03.mixed.*): the spec is the C double operation itself (what the generated C
 *      performs: `(a + b)`, `(a < b)`, ... on double, resp. on int64_t and double with C's usual conversion);
 *      arithmetic results are compared as BIT PATTERNS (so NaN payloads and the sign of zero count) ---- */
#define MIX_FF 0          /* float op float */
#define MIX_IF 1          /* int op float (admitted by the type checker with a diagnostic for comparisons / equality) */
#define MIX_FI 2          /* float op int */

/* ---- array_slice (C03.slice.*): docs/STDLIB.md `array_slice(arr, start, length)`: start and length clamped at 0, start
 *      clamped at len, count = length clamped to what remains (SATURATING: a huge length means "the rest").  The same
 *      formula is the spec of the VM handler (C02.vm.ARR_SLICE) and is what nl_array_slice emitted by
 *      src/stdlib_runtime.c computes since fix 5597440 (before it, start + length wrapped: empty slice / interpreter crash). ---- */
static inline int64_t spec_slice_start(int64_t start, int64_t len)
{ int64_t s = start < 0 ? 0 : start; return s > len ? len : s; }
static inline int64_t spec_slice_count(int64_t start, int64_t length, int64_t len)
{
    int64_t s = spec_slice_start(start, len);
    int64_t l = length < 0 ? 0 : length;
    return l < len - s ? l : len - s;
}
#define SL_NOWRAP 1       /* clamped start + clamped length does not exceed INT64_MAX */
#define SL_WRAP 2         /* it does (start + length would overflow: the result is the rest of the array) */

/* C08: index outside the half-open range from 0 to length */
#define EV_OUT_OF_RANGE(idx, len) ((idx) < 0 || (idx) >= (int64_t)(len))

#endif
