/* Contracts for the nano_vm daemon (C18): src/nanovm/vmd_protocol.c and src/nanovm/vmd_server.c.
 *
 * Two layers, one ghost struct (__verif_vmd, ONE assigns target; its member `io` - the byte counters of the OS stubs - is
 * the frame of the read_all / write_all contracts, so that replacing those calls does not havoc the session ghost):
 *
 *   -DVMD_VIEW_PROTO   protocol layer.  vmd_protocol.c is #included verbatim by harness/vmd_h.c (scratch copy with
 *                      the loop-contract clauses of contracts/loops/vmd_protocol.loops).  read()/write() are
 *                      adversarial stub BODIES (the client is nondeterminism there); read_all / write_all /
 *                      vmd_msg_recv_header / vmd_msg_recv_payload / vmd_msg_send* carry REAL contracts (enforced one
 *                      at a time; read_all / write_all / vmd_msg_send replaced by their contracts in the callers).
 *
 *   -DVMD_VIEW_SESSION session layer.  vmd_server.c is #included verbatim; client_thread / setup_signals /
 *                      vmd_server_run carry REAL contracts (given in the harness, after the real text, because they
 *                      mention file-local types and statics).  Every callee is cut at its interface by a STUB BODY
 *                      that records its effect in __verif_vmd (gate_contracts.h convention: a stub body
 *                      { assert(pre); G.x = ..; return nondet; } IS the contract requires(pre) assigns(G) ensures(..),
 *                      without the write-set build per call).  The stubs of the vmd_msg_* functions are renderings of
 *                      the contracts ENFORCED in the protocol layer (same macros VMD_HDR_ACCEPTED etc.).
 *     + -DVMD_REAL_PROTO  (C18.session.os) no renderings: the REAL vmd_protocol.c runs under client_thread, only
 *                      read_all / write_all are replaced by the contracts that C18.proto.read_all / write_all enforce
 *                      against the adversarial read()/write().
 *
 * Concurrency is outside function contracts: every obligation here speaks about ONE thread of control. */
#ifndef VMD_CONTRACTS_H
#define VMD_CONTRACTS_H
#include "verif_common.h"
#include <stdio.h>
#include <stdlib.h>
#include <string.h>
#include <errno.h>
#include <unistd.h>
#include <sys/types.h>
#include "nanovm/vmd_protocol.h"

/* ---- the ONE ghost struct of this unit ---- */
struct verif_vmd {
    /* --- the OS as the protocol layer sees it: a sub-struct, so that the contracts of read_all / write_all (which
     *     REPLACE calls in the callers' proofs) have a frame of their own: assigns(G.io) --- */
    struct verif_vmd_io {
        int      os_errno;        /* errno (__errno_location returns &io.os_errno) */
        uint32_t eintr_budget;    /* how many more EINTR answers the OS may give: arbitrary, finite */
        uint64_t rd_total;        /* bytes delivered by read() so far */
        uint64_t wr_total;        /* bytes accepted by write() so far */
        unsigned rd_calls, wr_calls;
    } io;
    /* --- session: descriptor --- */
    int      client_fd;       /* the descriptor handed to client_thread (ghost input, equals ctx->client_fd) */
    unsigned closed;          /* close(client_fd) calls */
    unsigned closed_other;    /* close() on any other descriptor */
    /* --- session: mutex + counter --- */
    int      lock_held;       /* g_client_count_mutex is held */
    int      lock_err;        /* lock while held (self-deadlock), unlock while not held, or a foreign mutex */
    unsigned locks, unlocks;
    int      ctr_seen;        /* g_active_clients at the last unlock (at entry: its initial value) */
    int      ctr_at_lock;     /* g_active_clients when the mutex was taken */
    int      ctr_err;         /* counter changed while the mutex was NOT held, or by a step other than -1/0/+1 */
    unsigned incs, decs;      /* critical sections that changed the counter by +1 / -1 */
    /* --- session: what the client did (recorded by the protocol stubs) --- */
    int      hdr_calls;       /* vmd_msg_recv_header calls */
    int      hdr_ok;          /* ... and it accepted the header */
    uint8_t  hdr_type;        /* msg_type of the accepted header */
    uint32_t hdr_len;         /* payload_len of the accepted header */
    int      pay_calls, pay_ok, pay_fail;
    uint32_t pay_len;         /* length asked of vmd_msg_recv_payload */
    const void *pay_buf;
    /* --- session: replies --- */
    unsigned frames;          /* vmd_msg_send* calls from client_thread's own code */
    unsigned err_frames;      /* ... of type VMD_MSG_ERROR */
    unsigned exit_frames;     /* ... of type VMD_MSG_EXIT_CODE */
    unsigned out_frames;      /* OUTPUT frames (program output through the FILE* cookie) */
    int      send_failed;     /* some send reported failure (client gone) */
    /* --- session: load / verify / execute --- */
    int      deser_calls, deser_null;
    uint32_t deser_len;
    const void *module;       /* the module nvm_deserialize handed out */
    unsigned modules_made, modules_freed;
    int      verify_calls;
    const void *verified_module;   /* module for which nvm_verify returned ok */
    int      verify_rejected;      /* nvm_verify returned not-ok */
    unsigned vm_inits, vm_destroys, cop_stops;
    unsigned executed;        /* vm_execute calls */
    int      exec_unverified; /* vm_execute on a module for which nvm_verify has not returned ok */
    int      exec_bad_output; /* vm_execute with vm->output other than the socket FILE* / NULL */
    /* --- session: FILE* over the socket --- */
    void    *file;            /* what fopencookie returned */
    void    *cookie;
    unsigned files_opened, files_closed, cookies_closed;
    int      file_misuse;     /* fflush/fclose of a stream that is not open */
    /* --- process --- */
    int      exited;          /* exit()/_exit()/abort()/__assert_fail/pthread_exit-of-the-process reached */
    int      sigpipe_ignored; /* SIGPIPE disposition is SIG_IGN */
    int      sigterm_handled, sigint_handled;
    /* --- accept loop (vmd_server_run) --- */
    int      server_fd;       /* what socket() returned */
    unsigned accepts, accept_failed;
    int      fd_outstanding;  /* an accepted descriptor that has neither been handed to a thread nor closed */
    int      leaked_fd;       /* accept() called while a descriptor was outstanding */
    unsigned threads;         /* successful pthread_create calls */
    int      thread_bad;      /* pthread_create with another start routine / a context that does not carry the descriptor */
    int      accept_unignored;/* accept() / pthread_create() reached while SIGPIPE is not ignored */
    unsigned polls;
    int      last_poll;       /* result of the last poll() */
    int      last_poll_errno; /* ... and the errno it set when it failed */
    int      listening;       /* listen() succeeded on server_fd */
    int      ctx_live;        /* ClientCtx blocks the accept loop owns (allocated, not yet freed / handed to a thread) */
};
extern struct verif_vmd __verif_vmd;
#define G __verif_vmd

/* ---- spec vocabulary (from the property statement / the wire format in vmd_protocol.h) ---- */
/* a header the receiver may accept: right version and a payload the receiver is prepared to allocate */
#define VMD_HDR_ACCEPTED(h) ((h)->version == VMD_PROTO_VERSION && (h)->payload_len <= VMD_MAX_PAYLOAD)
#define VMD_TYPE_KNOWN(t)   ((t) == VMD_MSG_LOAD_EXEC || (t) == VMD_MSG_PING || (t) == VMD_MSG_STATUS || (t) == VMD_MSG_SHUTDOWN)

ssize_t nondet_ssize(void);

/* errno is the ghost's (both views) */
int *__errno_location(void) { return &G.io.os_errno; }

/* =====================================================================
 * read_all / write_all: contracts ENFORCED by C18.proto.read_all / write_all against the adversarial OS, and used to
 * REPLACE the calls in the proofs of their callers (C18.proto.recv_* / send, and C18.session.os where the real
 * vmd_protocol.c runs under client_thread: there every call must in addition be on the client's open descriptor)
 * ===================================================================== */
#if defined(VMD_VIEW_PROTO) || defined(VMD_REAL_PROTO)
#ifdef VMD_VIEW_SESSION
#define VMD_RW_SESSION_PRE(fd) ((fd) == G.client_fd && G.closed == 0)
#else
#define VMD_RW_SESSION_PRE(fd) 1
#endif
/* a pointer argument of a function under contract: a fresh object where the contract is ENFORCED, merely valid
 * where the contract REPLACES a call: -DVMD_REPLACE_RW (read_all, write_all), -DVMD_REPLACE_SEND (vmd_msg_send) */
#define VMD_RBUF(p, n) VERIF_FRESH(p, n)
#define VMD_WBUF(p, n) VERIF_FRESH(p, n)
#ifdef VMD_REPLACE_RW
#define VMD_RW_RBUF(p, n) __CPROVER_r_ok(p, n)
#define VMD_RW_WBUF(p, n) __CPROVER_w_ok(p, n)
#else
#define VMD_RW_RBUF(p, n) VERIF_FRESH(p, n)
#define VMD_RW_WBUF(p, n) VERIF_FRESH(p, n)
#endif
#ifdef VMD_REPLACE_SEND
#define VMD_SEND_RBUF(p, n) __CPROVER_r_ok(p, n)
#else
#define VMD_SEND_RBUF(p, n) VERIF_FRESH(p, n)
#endif

/* every caller passes VMD_HEADER_SIZE or a uint32_t length */
static bool read_all(int fd, void *buf, size_t len)
__CPROVER_requires(VMD_RW_SESSION_PRE(fd))
__CPROVER_requires(len <= 0xFFFFFFFFu)
__CPROVER_requires(len == 0 || VMD_RW_WBUF(buf, len))
__CPROVER_assigns(len > 0: __CPROVER_object_upto(buf, len); G.io)
/* success means exactly len bytes were delivered by the OS, into buf[0..len) (frame) */
__CPROVER_ensures(__CPROVER_return_value ==> G.io.rd_total == __CPROVER_old(G.io.rd_total) + len)
__CPROVER_ensures(!__CPROVER_return_value ==> G.io.rd_total - __CPROVER_old(G.io.rd_total) < len);

static bool write_all(int fd, const void *buf, size_t len)
__CPROVER_requires(VMD_RW_SESSION_PRE(fd))
__CPROVER_requires(len <= 0xFFFFFFFFu)
__CPROVER_requires(len == 0 || VMD_RW_RBUF(buf, len))
__CPROVER_assigns(G.io)
__CPROVER_ensures(__CPROVER_return_value ==> G.io.wr_total == __CPROVER_old(G.io.wr_total) + len)
__CPROVER_ensures(!__CPROVER_return_value ==> G.io.wr_total - __CPROVER_old(G.io.wr_total) < len);

#endif

/* =====================================================================
 * protocol layer
 * ===================================================================== */
#ifdef VMD_VIEW_PROTO
/* C18.proto: accepted => version ok AND payload_len <= VMD_MAX_PAYLOAD; exactly one header was consumed */
bool vmd_msg_recv_header(int fd, VmdMsgHeader *hdr)
__CPROVER_requires(VMD_WBUF(hdr, sizeof(*hdr)))
__CPROVER_assigns(__CPROVER_object_whole(hdr), G.io)
__CPROVER_ensures(__CPROVER_return_value ==> VMD_HDR_ACCEPTED(hdr))
__CPROVER_ensures(__CPROVER_return_value ==> G.io.rd_total == __CPROVER_old(G.io.rd_total) + VMD_HEADER_SIZE)
__CPROVER_ensures(!__CPROVER_return_value ==> G.io.rd_total - __CPROVER_old(G.io.rd_total) <= VMD_HEADER_SIZE);

/* writes buf[0..len) only; success => exactly len bytes consumed */
bool vmd_msg_recv_payload(int fd, void *buf, uint32_t len)
__CPROVER_requires(len == 0 || VMD_WBUF(buf, len))
__CPROVER_assigns(len > 0: __CPROVER_object_upto(buf, len); G.io)
__CPROVER_ensures(__CPROVER_return_value ==> G.io.rd_total == __CPROVER_old(G.io.rd_total) + len)
__CPROVER_ensures(!__CPROVER_return_value ==> G.io.rd_total - __CPROVER_old(G.io.rd_total) < len);

/* reads payload[0..payload_len) only; success => header + payload went out completely; writes no memory */
bool vmd_msg_send(int fd, VmdMsgType type, const void *payload, uint32_t payload_len)
__CPROVER_requires(payload == NULL || payload_len == 0 || VMD_SEND_RBUF(payload, payload_len))
__CPROVER_assigns(G.io)
__CPROVER_ensures(__CPROVER_return_value ==> G.io.wr_total == __CPROVER_old(G.io.wr_total) + VMD_HEADER_SIZE +
                                             ((payload != NULL) ? payload_len : 0));

bool vmd_msg_send_simple(int fd, VmdMsgType type)
__CPROVER_requires(1)
__CPROVER_assigns(G.io)
__CPROVER_ensures(__CPROVER_return_value ==> G.io.wr_total == __CPROVER_old(G.io.wr_total) + VMD_HEADER_SIZE);

bool vmd_msg_send_output(int fd, const char *text, uint32_t len)
__CPROVER_requires(text == NULL || len == 0 || VMD_RBUF(text, len))
__CPROVER_assigns(G.io)
__CPROVER_ensures(__CPROVER_return_value ==> G.io.wr_total == __CPROVER_old(G.io.wr_total) + VMD_HEADER_SIZE + ((text != NULL) ? len : 0));

bool vmd_msg_send_exit(int fd, int32_t code)
__CPROVER_requires(1)
__CPROVER_assigns(G.io)
__CPROVER_ensures(__CPROVER_return_value ==> G.io.wr_total == __CPROVER_old(G.io.wr_total) + VMD_HEADER_SIZE + 4);

/* msg: NULL or a string whose NUL lies inside its object (VMD_ERRMSG_MAX stands for "any size": the callers pass
 * literals and a 512-byte buffer) */
#ifndef VMD_ERRMSG_MAX
#define VMD_ERRMSG_MAX 4096
#endif
extern uint32_t __verif_vmd_msgsz;      /* ghost input: size of the message object, never assigned */
bool vmd_msg_send_error(int fd, const char *msg)
__CPROVER_requires(msg == NULL || (1 <= __verif_vmd_msgsz && __verif_vmd_msgsz <= VMD_ERRMSG_MAX && VMD_RBUF(msg, __verif_vmd_msgsz)))
__CPROVER_assigns(G.io)
__CPROVER_ensures(__CPROVER_return_value ==> G.io.wr_total - __CPROVER_old(G.io.wr_total) >= VMD_HEADER_SIZE)
__CPROVER_ensures(__CPROVER_return_value ==> G.io.wr_total - __CPROVER_old(G.io.wr_total) < VMD_HEADER_SIZE + (uint64_t)VMD_ERRMSG_MAX);

#endif /* VMD_VIEW_PROTO */

/* =====================================================================
 * the adversarial OS below vmd_protocol.c: read() / write() (assumed contracts, as stub bodies).
 * Used by the protocol layer, and by the session layer when the REAL vmd_protocol.c is linked under
 * client_thread (-DVMD_REAL_PROTO, obligation C18.session.os).
 * ===================================================================== */
#if defined(VMD_VIEW_PROTO) || defined(VMD_REAL_PROTO)
#ifdef VMD_VIEW_SESSION
/* precondition of every system call on the connection: the client's descriptor, still open */
#define VMD_OS_IO_REQUIRE(fd) do { \
    __CPROVER_assert((fd) == G.client_fd, "C18.session: socket I/O only on the client descriptor"); \
    __CPROVER_assert(G.closed == 0, "C18.session: no socket I/O after close(fd)"); } while (0)
#else
#define VMD_OS_IO_REQUIRE(fd) ((void)(fd))
#endif
ssize_t read(int fd, void *buf, size_t count)
{
    VMD_OS_IO_REQUIRE(fd);
    __CPROVER_assert(count == 0 || __CPROVER_w_ok(buf, count), "OS: read destination valid for count bytes");
    G.io.rd_calls++;
    ssize_t r = nondet_ssize();
    __CPROVER_assume(r >= -1 && (r < 0 || (size_t)r <= count));
    if (r < 0) {
        int e = nondet_int();
        /* an OS answering EINTR for ever keeps read_all spinning: finitely many, any number */
        if (e == EINTR) { __CPROVER_assume(G.io.eintr_budget > 0); G.io.eintr_budget--; }
        G.io.os_errno = e;
    } else if (r > 0) {
        /* whatever the client sent: an arbitrary byte at an ARBITRARY index below r (ghost-index form of "havoc
         * buf[0..r)": every index is written on some path, so bounds and frame are checked for all of them).  The byte
         * VALUES the callers see come from the havoc of read_all's own contract. */
        size_t k = nondet_size();
        __CPROVER_assume(k < (size_t)r);
        ((uint8_t *)buf)[k] = nondet_u8();
        G.io.rd_total += (uint64_t)r;
    }
    return r;
}

ssize_t write(int fd, const void *buf, size_t count)
{
    VMD_OS_IO_REQUIRE(fd);
    __CPROVER_assert(count == 0 || __CPROVER_r_ok(buf, count), "OS: write source valid for count bytes");
    G.io.wr_calls++;
    ssize_t r = nondet_ssize();
    __CPROVER_assume(r >= -1 && (r < 0 || (size_t)r <= count));
    if (r < 0) {
        int e = nondet_int();
        if (e == EINTR) { __CPROVER_assume(G.io.eintr_budget > 0); G.io.eintr_budget--; }
        G.io.os_errno = e;
    } else {
        G.io.wr_total += (uint64_t)r;
    }
    return r;
}

uid_t getuid(void) { return (uid_t)nondet_u32(); }
#endif

/* ---- libc used by both layers ---- */
/* strlen: the index of A NUL inside the object (the first one in reality: any one here, an over-approximation);
 * ASSUMES the argument is NUL-terminated inside its object */
size_t strlen(const char *s)
{
    __CPROVER_assert(__CPROVER_r_ok(s, 1), "libc: strlen argument readable");
    size_t r = nondet_size();
    __CPROVER_assume(r < __CPROVER_OBJECT_SIZE(s) - __CPROVER_POINTER_OFFSET(s));
    __CPROVER_assume(s[r] == 0);
    return r;
}
int snprintf(char *s, size_t n, const char *fmt, ...) { (void)s; (void)n; (void)fmt; return nondet_int(); }

/* =====================================================================
 * session layer: stub bodies = assumed contracts of client_thread's callees
 * ===================================================================== */
#ifdef VMD_VIEW_SESSION
#include <signal.h>
#include <pthread.h>
#include "nanoisa/nvm_format.h"
#include "nanoisa/verifier.h"
#include "nanovm/vm.h"
#include "nanovm/vm_ffi.h"

#define VMD_BIT() ((nondet_u8() & 1) != 0)      /* canonical nondeterministic bool */

/* precondition of every protocol call: on the client's descriptor, which is still open */
#define VMD_IO_REQUIRE(fd) do { \
    __CPROVER_assert((fd) == G.client_fd, "C18.session: protocol I/O only on the client descriptor"); \
    __CPROVER_assert(G.closed == 0, "C18.session: no protocol I/O after close(fd)"); } while (0)

/* ---- vmd_protocol.c as client_thread sees it: renderings of the contracts enforced by C18.proto.* ---- */
#ifndef VMD_REAL_PROTO
/* any eight bytes, or fewer and a failure; accepted => VMD_HDR_ACCEPTED (C18.proto.recv_header) */
bool vmd_msg_recv_header(int fd, VmdMsgHeader *hdr)
{
    VMD_IO_REQUIRE(fd);
    __CPROVER_assert(__CPROVER_w_ok(hdr, sizeof(*hdr)), "C18.session: header destination valid");
    G.hdr_calls++;
    VmdMsgHeader h;                 /* whatever the client sent (arbitrary) */
    *hdr = h;
    bool ok = VMD_BIT();
    if (ok) {
        __CPROVER_assume(VMD_HDR_ACCEPTED(hdr));
        G.hdr_ok = 1; G.hdr_type = hdr->msg_type; G.hdr_len = hdr->payload_len;
    }
    return ok;
}
/* writes buf[0..len) only (C18.proto.recv_payload); fails whenever the client likes (disconnect, short payload) */
bool vmd_msg_recv_payload(int fd, void *buf, uint32_t len)
{
    VMD_IO_REQUIRE(fd);
    __CPROVER_assert(len == 0 || __CPROVER_w_ok(buf, len), "C18.session: payload destination valid for len bytes");
    G.pay_calls++; G.pay_len = len; G.pay_buf = buf;
    if (len > 0) {                  /* ghost-index form of "havoc buf[0..len)" */
        size_t k = nondet_size(); __CPROVER_assume(k < len);
        ((uint8_t *)buf)[k] = nondet_u8();
    }
    bool ok = VMD_BIT();
    if (ok) G.pay_ok = 1; else G.pay_fail = 1;
    return ok;
}
/* reads payload[0..payload_len) only, writes no memory (C18.proto.send); fails whenever the client likes */
static bool vmd_stub_send(int fd, int type, const void *payload, uint32_t payload_len)
{
    VMD_IO_REQUIRE(fd);
    __CPROVER_assert(payload == NULL || payload_len == 0 || __CPROVER_r_ok(payload, payload_len),
                     "C18.session: frame payload valid for payload_len bytes");
    if (type == VMD_MSG_OUTPUT) G.out_frames++;
    else {
        G.frames++;
        if (type == VMD_MSG_ERROR) G.err_frames++;
        if (type == VMD_MSG_EXIT_CODE) G.exit_frames++;
    }
    bool ok = VMD_BIT();
    if (!ok) G.send_failed = 1;
    return ok;
}
bool vmd_msg_send(int fd, VmdMsgType type, const void *payload, uint32_t payload_len) { return vmd_stub_send(fd, (int)type, payload, payload_len); }
bool vmd_msg_send_simple(int fd, VmdMsgType type) { return vmd_stub_send(fd, (int)type, NULL, 0); }
bool vmd_msg_send_output(int fd, const char *text, uint32_t len) { return vmd_stub_send(fd, VMD_MSG_OUTPUT, text, len); }
bool vmd_msg_send_exit(int fd, int32_t code) { (void)code; return vmd_stub_send(fd, VMD_MSG_EXIT_CODE, NULL, 0); }
bool vmd_msg_send_error(int fd, const char *msg)
{
    __CPROVER_assert(msg == NULL || __CPROVER_r_ok(msg, 1), "C18.session: error text readable");
    return vmd_stub_send(fd, VMD_MSG_ERROR, NULL, 0);
}
void vmd_socket_path(char *buf, size_t size) { __CPROVER_assert(size > 0 && __CPROVER_w_ok(buf, size), "path buffer valid"); buf[size - 1] = 0; }
void vmd_pid_path(char *buf, size_t size) { __CPROVER_assert(size > 0 && __CPROVER_w_ok(buf, size), "path buffer valid"); buf[size - 1] = 0; }

#endif /* !VMD_REAL_PROTO */

/* ---- loader / verifier / VM ---- */
/* NULL (not a module) or a module object with arbitrary content (possibly hostile: nothing is promised about it) */
NvmModule *nvm_deserialize(const uint8_t *data, uint32_t size)
{
    __CPROVER_assert(size > 0 && __CPROVER_r_ok(data, size), "C18.session: nvm_deserialize input valid for size bytes");
#ifndef VMD_REAL_PROTO
    __CPROVER_assert(G.pay_ok && (const void *)data == G.pay_buf && size == G.pay_len,
                     "C18.noexec: nvm_deserialize only on a completely received payload");
#endif
    G.deser_calls++; G.deser_len = size;
    NvmModule *m = VMD_BIT() ? (NvmModule *)malloc(sizeof(NvmModule)) : NULL;
    if (m == NULL) { G.deser_null = 1; return NULL; }
    G.module = m; G.modules_made++;
    return m;
}
void nvm_module_free(NvmModule *mod)
{
    __CPROVER_assert(mod != NULL && (const void *)mod == G.module && G.modules_freed < G.modules_made,
                     "C18.session: nvm_module_free on the live module, once");
    G.modules_freed++;
    free(mod);
}
NvmVerifyResult nvm_verify(const NvmModule *mod)
{
    NvmVerifyResult r;              /* arbitrary verdict */
    G.verify_calls++;
    if (r.ok) G.verified_module = mod; else G.verify_rejected = 1;
    return r;
}
/* leaves *vm arbitrary (over-approximates the real memset + defaults) except for the module pointer */
void vm_init(VmState *vm, const NvmModule *module)
{
    __CPROVER_assert(__CPROVER_w_ok(vm, sizeof(*vm)), "C18.session: vm_init destination valid");
    __CPROVER_assert(module != NULL && (const void *)module == G.module, "C18.session: vm_init on the module just loaded");
    G.vm_inits++;
    vm->module = module;
}
void vm_destroy(VmState *vm)
{
    (void)vm;
    __CPROVER_assert(G.vm_destroys < G.vm_inits, "C18.session: vm_destroy on an initialised VM, once");
    G.vm_destroys++;
}
void vm_ffi_cop_stop(VmState *vm) { (void)vm; G.cop_stops++; }
const char *vm_error_string(VmResult result) { (void)result; static const char s[] = "error"; return s; }

/* ---- OS / libc ---- */
int close(int fd) { if (fd == G.client_fd) { G.closed++; G.fd_outstanding = 0; } else G.closed_other++; return nondet_int(); }
/* the process ends: THE thing C18 forbids.  The check is the assertion (the path ends here, so a postcondition
 * would never see the flag). */
#define VMD_PROCESS_ENDS(what) do { G.exited = 1; \
    __CPROVER_assert(0, "C18.session: " what " reached - the daemon process ends"); __CPROVER_assume(0); } while (0)
void exit(int status) { (void)status; VMD_PROCESS_ENDS("exit()"); }
void _exit(int status) { (void)status; VMD_PROCESS_ENDS("_exit()"); }
void _Exit(int status) { (void)status; VMD_PROCESS_ENDS("_Exit()"); }
void abort(void) { VMD_PROCESS_ENDS("abort()"); }
void __assert_fail(const char *a, const char *f, unsigned int l, const char *fn) { (void)a; (void)f; (void)l; (void)fn; VMD_PROCESS_ENDS("assert failure"); }
/* message text is not part of the property: variadic stubs write nothing (DFCC restriction) */
int fprintf(FILE *f, const char *fmt, ...) { (void)f; (void)fmt; return nondet_int(); }
void perror(const char *s) { (void)s; }
int setvbuf(FILE *f, char *buf, int mode, size_t size) { (void)f; (void)buf; (void)mode; (void)size; return nondet_int(); }
/* signal dispositions */
int sigemptyset(sigset_t *set) { __CPROVER_assert(__CPROVER_w_ok(set, sizeof(*set)), "OS: sigemptyset argument valid"); return 0; }
int sigaction(int sig, const struct sigaction *act, struct sigaction *old)
{
    (void)old;
    if (act != NULL) {
        __CPROVER_assert(__CPROVER_r_ok(act, sizeof(*act)), "OS: sigaction argument valid");
        if (sig == SIGPIPE) G.sigpipe_ignored = (act->sa_handler == SIG_IGN);
        if (sig == SIGTERM) G.sigterm_handled = (act->sa_handler != SIG_DFL && act->sa_handler != SIG_IGN);
        if (sig == SIGINT)  G.sigint_handled  = (act->sa_handler != SIG_DFL && act->sa_handler != SIG_IGN);
    }
    return 0;       /* valid signal numbers: succeeds */
}
__sighandler_t signal(int sig, __sighandler_t h)
{
    if (sig == SIGPIPE) G.sigpipe_ignored = (h == SIG_IGN);
    if (sig == SIGTERM) G.sigterm_handled = (h != SIG_DFL && h != SIG_IGN);
    if (sig == SIGINT)  G.sigint_handled  = (h != SIG_DFL && h != SIG_IGN);
    return SIG_DFL;
}

/* ---- accept loop (C18.accept): the OS around vmd_server_run ---- */
#ifdef VMD_OBL_ACCEPT
#include <poll.h>
#include <sys/socket.h>
#include <sys/stat.h>
int socket(int d, int t, int p) { (void)d; (void)t; (void)p; int r = nondet_int(); __CPROVER_assume(r >= -1); if (r >= 0) G.server_fd = r; return r; }
int bind(int s, const struct sockaddr *a, socklen_t l) { (void)s; (void)a; (void)l; return VMD_BIT() ? 0 : -1; }
int listen(int s, int n) { (void)n; if (VMD_BIT()) return -1; if (s == G.server_fd) G.listening = 1; return 0; }
int chmod(const char *p, mode_t m) { (void)p; (void)m; return nondet_int(); }
int unlink(const char *p) { (void)p; return nondet_int(); }
pid_t getpid(void) { return (pid_t)nondet_int(); }
char *strncpy(char *d, const char *s_, size_t n) { (void)s_; __CPROVER_assert(n == 0 || __CPROVER_w_ok(d, n), "libc: strncpy destination valid for n bytes"); return d; }
/* any answer: error (any errno incl. EINTR), timeout, ready */
int poll(struct pollfd *fds, nfds_t n, int timeout)
{
    (void)timeout;
    __CPROVER_assert(n == 1 && __CPROVER_rw_ok(fds, sizeof(*fds)) && fds->fd == G.server_fd, "C18.accept: poll on the listening socket");
    G.polls++;
    int r = nondet_int(); __CPROVER_assume(r >= -1 && r <= 1);
    if (r < 0) { G.io.os_errno = nondet_int(); G.last_poll_errno = G.io.os_errno; }
    fds->revents = (short)nondet_int();
    G.last_poll = r;
    return r;
}
/* fails whenever it likes (ECONNABORTED, EMFILE, EINTR, ..) or hands out a NEW descriptor */
int accept(int s, struct sockaddr *a, socklen_t *l)
{
    (void)a; (void)l;
    __CPROVER_assert(s == G.server_fd && G.closed_other == 0, "C18.accept: accept on the (still open) listening socket");
    if (!G.sigpipe_ignored) G.accept_unignored = 1;
    if (G.fd_outstanding) G.leaked_fd = 1;
    int r = nondet_int(); __CPROVER_assume(r >= -1 && r != G.server_fd);
    if (r < 0) { G.io.os_errno = nondet_int(); G.accept_failed++; return -1; }
    G.accepts++; G.client_fd = r; G.closed = 0; G.fd_outstanding = 1;
    return r;
}
int pthread_detach(pthread_t t) { (void)t; return 0; }
/* allocator as the accept loop sees it (DFCC loop contracts refuse the built-in malloc/free inside a loop body):
 * malloc fails whenever it likes or hands out THE one slot; the loop invariant says the loop owns no block at the
 * loop head (G.ctx_live == 0), so one slot is an exact model of "a fresh block" for sequential code that never
 * compares addresses of different blocks.  free releases the slot. */
_Alignas(16) char __verif_vmd_ctxpool[64];
void *malloc(size_t n)
{
    __CPROVER_assert(n <= sizeof(__verif_vmd_ctxpool) && G.ctx_live == 0, "C18.accept: allocator model: one context block at a time");
    if (VMD_BIT()) return NULL;
    G.ctx_live++;
    return __verif_vmd_ctxpool;
}
void free(void *p)
{
    if (p == NULL) return;
    __CPROVER_assert(p == (void *)__verif_vmd_ctxpool && G.ctx_live == 1, "C18.accept: free of the live context block, once");
    G.ctx_live--;
}
#endif
#endif /* VMD_VIEW_SESSION */

#endif
