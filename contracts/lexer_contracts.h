/* Contracts for src/lexer.c (C09.lex.*).
 *
 * tokenize() is enforced against the contract below for EVERY NUL-terminated buffer of length
 * __verif_len <= LEX_MAX_LEN (ghost length, arbitrary).  Nothing is known about the buffer except
 * source[__verif_len] == 0: the bytes before it may be anything, including 0.
 *
 * CBMC 6.11 refuses real malloc/realloc/free inside a loop that is under a loop contract.  Probed: a call that
 * is REPLACED BY A CONTRACT whose ensures clause says __CPROVER_is_fresh is accepted there, and the block it
 * returns is bounds-checked.  So malloc is replaced by the contract below; the non-allocating libc functions
 * get stub bodies that assert what the caller owes.  All of these are assumed contracts on dependencies and are
 * listed in obligations/c09.py.
 *
 * In witness mode (-DVERIF_WITNESS: bounded search for a concrete failing input after a refutation, no DFCC) the
 * libc stubs are left out and CBMC's own models of malloc/realloc/free/str* are used on the real code.
 */
#ifndef LEXER_CONTRACTS_H
#define LEXER_CONTRACTS_H
#include "verif_common.h"
#include "nanolang.h"

/* the driver's limit: src/nanovirt/main.c read_file() refuses len > 10 MB */
#ifndef LEX_MAX_LEN
#define LEX_MAX_LEN (10u * 1024u * 1024u)
#endif

/* ---- ghost state of the unit: ONE struct, one assigns target ---- */
struct lex_ghost {
    size_t tok_bytes;      /* bytes most recently requested for it from malloc/realloc */
    size_t slen;           /* index of a NUL in the string most recently terminated by the lexer / snprintf */
    const void *last_freed;/* argument of the most recent free() */
    const void *tok_at_fail;/* value of `tokens` at a `return NULL` (ghost statement) */
    int cls;               /* written by the case-split ghost statement at the top of the main loop body; never read */
};
extern struct lex_ghost __verif_lx;
/* the token array's block: result of the first malloc (realloc grows it in place); NULL until then.  Set by
 * the ghost statement `__verif_tok = tokens;` right after that malloc.  Kept OUTSIDE __verif_lx: it is assigned
 * once, before the main loop, and is not a loop assigns target (so it is not havocked at the loop head and the
 * invariant `tokens == __verif_tok` pins the havocked pointer to a known block). */
extern const void *__verif_tok;
extern size_t __verif_len;     /* ghost: length of the source buffer; never assigned */
extern size_t __verif_S;       /* ghost: usable size of the token array's block; never assigned (see below) */
#ifndef LEX_SRC_OBJ
#define LEX_SRC_OBJ (__verif_len + 1)
#endif
#define LEX_ARENA_MAX (sizeof(Token) * ((size_t)1 << 26))

#ifndef VERIF_WITNESS
/* ---- assumed contracts on libc allocation functions (replaced calls) ----
 *
 * Allocator model for the token array.  tokenize holds exactly one pointer to the array's block and
 * overwrites it with the result of realloc, so whether realloc moves the block or grows it in place cannot
 * be observed by the function; the model grows in place (realloc returns its argument).  CBMC objects cannot
 * grow, so the first malloc returns a block of usable size __verif_S, an ARBITRARY ghost constant; a run in
 * which a later request exceeds __verif_S is cut in that world (ensures n <= __verif_S = assumption).  Hence
 *  - in the world __verif_S == LEX_ARENA_MAX no run is cut (every request is checked to be <= LEX_ARENA_MAX
 *    by realloc's precondition): termination, invariants and the postcondition are decided for all runs;
 *  - every store into the array is bounds-checked by CBMC itself against EXACTLY the size last requested,
 *    namely in the world __verif_S == that size (reached uncut: requests only ever ask for <= that size
 *    before the store).
 * All other malloc calls (text buffers) return a fresh block of exactly n bytes. */
void *malloc(size_t n)
__CPROVER_requires(n > 0)
__CPROVER_assigns(__verif_tok == NULL: __verif_lx.tok_bytes)
__CPROVER_ensures(__CPROVER_is_fresh(__CPROVER_return_value, __verif_tok == NULL ? __verif_S : n))
__CPROVER_ensures(__verif_tok == NULL ==> (__verif_lx.tok_bytes == n && n <= __verif_S));

/* ---- assumed contracts on non-allocating libc functions, given as stub BODIES (cheaper than replacement:
 * no write sets are built per call).  Each asserts what the caller owes. ---- */

/* realloc (allocator model above: grows the token array's block in place) */
void *realloc(void *p, size_t n)
{
    __CPROVER_assert(p != NULL && p == __verif_tok, "libc: realloc argument is the token array's block (the only block tokenize reallocates)");
    __CPROVER_assert(n > 0 && n <= LEX_ARENA_MAX, "libc: realloc request within the modelled maximum");
    __CPROVER_assume(n <= __verif_S);           /* this world's block is large enough, else the run is cut here */
    __verif_lx.tok_bytes = n;
    return (void *)__verif_tok;     /* == p (asserted above) */
}

/* strdup: the argument holds a NUL at ghost index slen inside its object (slen is set by a ghost statement
 * right after the lexer's own `x[len] = '\0'`, or after snprintf).  The result is an arbitrary pointer:
 * tokenize only stores it (a dereference of it would be flagged as invalid). */
char *strdup(const char *s)
{
    __CPROVER_assert(__CPROVER_r_ok(s, __verif_lx.slen + 1) && s[__verif_lx.slen] == 0, "libc: strdup argument is NUL-terminated inside its object");
    return (char *)nondet_ptr();
}

/* free: p is NULL or the start of a live block; records the
 * argument (for "NULL is returned after freeing").  Deallocation itself is not modelled (see c09.py
 * assumptions: tokenize never touches a pointer again after passing it to free: the `free(x)` of text
 * buffers are followed by `continue` / `i++; continue`, the `free(tokens)` by `return NULL`). */
void free(void *p)
{
    __CPROVER_assert(p == NULL || (__CPROVER_r_ok(p, 1) && __CPROVER_POINTER_OFFSET(p) == 0),
                     "libc: free argument is NULL or the start of a live block");
    __verif_lx.last_freed = p;
}

/* strncpy: writes exactly n bytes to dst, reads at most n bytes from src; content unconstrained-as-is */
char *strncpy(char *dst, const char *src, size_t n)
{
    __CPROVER_assert(n == 0 || __CPROVER_w_ok(dst, n), "libc: strncpy destination valid for n bytes");
    __CPROVER_assert(n == 0 || __CPROVER_r_ok(src, n), "libc: strncpy source readable for n bytes");
    return dst;
}

/* strcmp: first argument NUL-terminated at ghost index slen, second readable */
int strcmp(const char *a, const char *b)
{
    __CPROVER_assert(__CPROVER_r_ok(a, __verif_lx.slen + 1) && a[__verif_lx.slen] == 0, "libc: strcmp first argument is NUL-terminated inside its object");
    __CPROVER_assert(__CPROVER_r_ok(b, 1), "libc: strcmp second argument readable");
    return nondet_int();
}

#else
/* witness mode: keyword matching is irrelevant to memory safety/termination of tokenize; CBMC's strcmp model would
 * need 10 unwindings per call */
int strcmp(const char *a, const char *b) { (void)a; (void)b; return nondet_int(); }
/* the array is never grown for the <= LEX_WIT_MAX-byte inputs of the witness search (first growth at 63 tokens);
 * CBMC's realloc model (symbolic-size copy) exhausts memory here */
void *realloc(void *p, size_t n) { (void)p; (void)n; __CPROVER_assume(0); return NULL; }
#endif /* !VERIF_WITNESS */

/* ---- contract of the unit's own function ---- */

/* The two input objects are allocated by the harness itself (exact sizes, arbitrary content) and the
 * precondition only says they are valid for those sizes.  Reason (measured): when __CPROVER_is_fresh builds
 * them, CBMC's value set for `source` has two candidates, every source[i] is read through its own
 * `derefd_pointer` let-binding, no two reads share an index expression, and the ~800 reads of the unbounded
 * array cost 315 000 Ackermann constraints (38 M clauses).  With a harness-allocated buffer the reads are
 * dynamic_object[i] and equal indices are shared. */
#define LEX_PTR(p, n) __CPROVER_r_ok(p, n)
#define LEX_PRE(source, token_count) ( \
    __verif_len <= LEX_MAX_LEN && \
    LEX_PTR(source, LEX_SRC_OBJ) && __verif_len < LEX_SRC_OBJ && (source)[__verif_len] == 0 && \
    LEX_PTR(token_count, sizeof(int)))

Token *tokenize(const char *source, int *token_count)
__CPROVER_requires(LEX_PRE(source, token_count))
__CPROVER_requires(__verif_lx.last_freed == NULL && __verif_lx.tok_at_fail == NULL && __verif_tok == NULL)
__CPROVER_requires(__verif_S <= LEX_ARENA_MAX)
__CPROVER_assigns(*token_count, __verif_lx, __verif_tok)
/* NULL only after the token array was handed to free() */
__CPROVER_ensures(__CPROVER_return_value == NULL ==>
                  (__verif_lx.tok_at_fail != NULL && __verif_lx.last_freed == __verif_lx.tok_at_fail))
/* otherwise: 1..len+1 tokens, array readable for that many, the last one is EOF */
__CPROVER_ensures(__CPROVER_return_value != NULL ==>
                  (*token_count >= 1 && (size_t)*token_count <= __verif_len + 1 &&
                   __CPROVER_r_ok(__CPROVER_return_value, sizeof(Token) * (size_t)*token_count) &&
                   __CPROVER_return_value[*token_count - 1].token_type == TOKEN_EOF &&
                   __CPROVER_return_value[*token_count - 1].value == NULL));

/* ---- glibc <ctype.h>: isspace()/isalpha()/... expand to (*__ctype_b_loc())[(int)(c)] & mask ----
 * Stub body: pointer into the middle of a 384-entry table (valid indices -128..255, as in glibc).
 * The table content is arbitrary (set up by lex_ctype_init in the harness) except for the three facts the
 * lexer's termination and bounds actually rest on (true in every glibc locale):
 *   isdigit(0) == isalpha(0) == isalnum(0) == 0,  and  isalpha(c) => isalnum(c). */
#ifdef LEX_CTAB_CONCRETE    /* witness mode only: glibc's "C" locale table (contracts/ctab_c_locale.inc, generated by
                             * printing (*__ctype_b_loc())[-128..255]) so that a found input replays natively */
static const unsigned short __verif_ctab[384] = {
#include "ctab_c_locale.inc"
};
#else
static unsigned short __verif_ctab[384];
#endif
static const unsigned short *__verif_ctab_mid;    /* = &__verif_ctab[128], set by lex_ctype_init */
const unsigned short **__ctype_b_loc(void) { return &__verif_ctab_mid; }

static void lex_ctype_init(void)
{
    __verif_ctab_mid = &__verif_ctab[128];
#ifndef LEX_CTAB_CONCRETE
    __CPROVER_havoc_object(__verif_ctab);
    /* constant-range quantifier: expanded by CBMC into 384 conjuncts over ONE array version (a 384-iteration
     * initialisation loop gives 384 array versions and a 38 M clause formula - measured) */
    __CPROVER_assume(__CPROVER_forall { int k; (0 <= k && k < 384) ==>
                     (!(__verif_ctab[k] & _ISalpha) || (__verif_ctab[k] & _ISalnum)) });
    __CPROVER_assume((__verif_ctab[128] & (_ISalpha | _ISalnum | _ISdigit)) == 0);
#endif
}

/* ---- case split of the main loop body (strength X) ----
 * One iteration of the main loop is checked per class of its first byte c = source[i] (the loop guard has
 * already established c != 0).  The ghost statement at the top of the loop body calls lex_case(c), which
 * assumes the class predicate selected by -DLEX_CASE=k.  Class 4 is by definition the complement of classes
 * 0..3, so the five classes cover every byte whatever the ctype table says (also checked: h_cases).  The
 * classes may overlap; that only means some iterations are checked twice.  Without -DLEX_CASE nothing is
 * assumed (unsplit: the same proof in one query, measured 8 minutes; kept as the thorough-tier obligation). */
#define LEX_P0(c) (isspace(c) || (c) == '#' || (c) == '/')                 /* blanks, comments (and '/') */
#define LEX_P1(c) ((c) == '\'' || (c) == '"')                              /* character / string literal */
#define LEX_P2(c) (isdigit(c) || (c) == '-')                               /* number (and '-', '->') */
#define LEX_P3(c) (isalpha(c) || (c) == '_')                               /* identifier / keyword */
#define LEX_P4(c) (!(LEX_P0(c) || LEX_P1(c) || LEX_P2(c) || LEX_P3(c)))    /* the rest: operators, unknown bytes */
#define LEX_PASTE2(a, b) a##b
#define LEX_PASTE(a, b) LEX_PASTE2(a, b)
static int lex_case(char c)
{
#ifdef LEX_CASE
    __CPROVER_assume(LEX_PASTE(LEX_P, LEX_CASE)(c));
#endif
    (void)c;
    return 0;
}

/* ---- output functions: message text is not part of the property ---- */
int fprintf(FILE *f, const char *fmt, ...) { (void)f; (void)fmt; return nondet_int(); }
/* snprintf: destination valid for n bytes.  (No writes in this stub: DFCC 6.11 hands a variadic function a
 * wrong write set - "s[k] is assignable" fails for a local array of the caller - measured.)  The fact the
 * lexer relies on, C99 7.19.6.5: for n > 0 the output is NUL-terminated within the n bytes, is attached at
 * the call site by a ghost statement calling lex_nul_index (an assumption on libc, listed in c09.py). */
int snprintf(char *s, size_t n, const char *fmt, ...)
{
    (void)fmt;
    __CPROVER_assert(n == 0 || __CPROVER_w_ok(s, n), "libc: snprintf destination valid for n bytes");
#ifdef VERIF_WITNESS
    if (n > 1) { s[0] = '0'; s[1] = 0; } else if (n == 1) s[0] = 0;
#endif
    return nondet_int();
}
static size_t lex_nul_index(const char *s, size_t n)
{
    size_t k = nondet_size();
    __CPROVER_assume(k < n && s[k] == 0);
    return k;
}
#endif
