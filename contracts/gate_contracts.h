/* Contracts for the control-flow GATES of the compiler drivers (C05, C06) and the
 * exit-status paths (C10.exit.*).
 *
 * The functions under proof (virt_main = main of nano_virt, compile_file,
 * run_shadow_tests, run_standalone, the generated wrapper main) carry real
 * function contracts, enforced by goto-instrument --dfcc.
 *
 * Every CALLEE of a driver is cut off at its interface.  Its assumed contract is
 * written as a STUB BODY (the libc_stubs.h convention): nondeterministic result,
 * effect recorded in ONE ghost struct __verif_gate, and - for OS writers and
 * executors - the precondition GATE_OPEN ("no phase has failed so far") as an
 * assertion named "GATE ..." that is checked at every call.  A stub body
 *     T f(args) { GATE_REQUIRE(..); G.x = 1; return nondet; }
 * is exactly the contract  requires(GATE_OPEN) assigns(G.x) ensures(G.x == 1)
 * under --replace-call-with-contract; it is used instead because DFCC builds and
 * tears down a write set (2^object_bits map) per replaced call, and the drivers
 * make 50-150 such calls (measured: 985 s with 24 callees contract-replaced in
 * nano_virt main).  Static helpers of the driver files that must not be inlined
 * (llm_emit_diags_*) are contract-replaced.
 *
 * Included BEFORE the real driver .c is #included verbatim by the harness. */
#ifndef GATE_CONTRACTS_H
#define GATE_CONTRACTS_H
#include "verif_common.h"
#include <stdio.h>
#include <stdlib.h>
#include <string.h>
#include <unistd.h>

struct verif_gate {
    /* phase outcomes (sticky: set to 1 by the stub of the phase function when it reports failure) */
    int lex_failed, parse_failed, import_failed, tc_failed, cg_failed;
    int modules_failed, shadow_failed, transpile_failed, ser_failed, load_failed, verify_failed, init_failed;
    /* how often the gate functions ran */
    int tc_calls, shadow_calls;
    /* effects */
    int artifact_written;   /* fopen(.., "w"/"a"/"+"), fwrite, wrapper_generate*, emit_module_reflection */
    int cc_invoked;         /* system() */
    int transpiled;         /* transpile_to_c / codegen_compile reached */
    int modules_built;      /* compile_modules (cc on imported C modules; runs before the shadow gate by design) */
    int executed;           /* vm_execute / vm_call_function */
    int main_executed;      /* vm_execute specifically (count) */
    int init_runs;          /* how often the module's __init__ (global initialisers) is run: vm_execute runs it itself (vm.c), a direct vm_call_function by a launcher runs it again (C10.init.once) */
    int diag_written;       /* llm_emit_diags_*: diagnostics file, not an artifact */
    /* run_shadow_tests bookkeeping (C06.loop): set by the ghost statements of contracts/loops/eval.c.shadow.loops */
    int sh_any_failed;        /* some evaluated shadow body left the failure counter > 0 */
    int sh_reset_violated;    /* a shadow body was evaluated with a non-zero failure counter */
    int sh_skipped_evaluated; /* the body of a test classified "uses extern" was evaluated */
    int sh_bodies;            /* number of shadow bodies evaluated */
    /* nanoc main -> compile_file (C05.exit.nanoc, caller view) */
    int cf_calls, cf_ret;
    /* path end */
    int exited, exit_status;
};
extern struct verif_gate __verif_gate;
#define G __verif_gate

/* "some phase has failed" */
#define GATE_FAILED (G.lex_failed || G.parse_failed || G.import_failed || G.tc_failed || G.cg_failed || \
                     G.modules_failed || G.shadow_failed || G.transpile_failed || G.ser_failed || G.load_failed || \
                     G.verify_failed || G.init_failed)
#define GATE_OPEN (!GATE_FAILED)
#define GATE_NO_EFFECT (!G.artifact_written && !G.cc_invoked && !G.executed && !G.transpiled)
/* initial ghost state of an enforced driver function */
#define GATE_INIT (GATE_OPEN && GATE_NO_EFFECT && !G.modules_built && !G.main_executed && !G.init_runs && !G.diag_written && \
                   !G.exited && G.tc_calls == 0 && G.shadow_calls == 0 && G.cf_calls == 0)
/* precondition of every writer / executor, checked at the call */
#define GATE_REQUIRE(what) __CPROVER_assert(GATE_OPEN, "GATE " what " is reached only if no phase has failed")

/* ---- exit status spec (C10.exit): taken from the property's reference `nano_virt --run`
 * (src/nanovirt/main.c: error => 1; OK and top of stack is INT => (int)value; else 0).
 * The VM outcome is a ghost INPUT (never assigned, arbitrary): vm_execute returns __verif_vm_r,
 * vm_get_result returns tag / i64 = __verif_top_tag / __verif_top_i64. */
extern int __verif_vm_r;
extern uint8_t __verif_top_tag;
extern int64_t __verif_top_i64;
#define SPEC_EXIT(r, tag, v) ((r) != 0 /*VM_OK*/ ? 1 : ((tag) == 0x01 /*TAG_INT*/ ? (int)(v) : 0))

/* ---- libc / OS boundary (assumed contracts on dependencies) ---- */
#define MODE_WRITES(m) ((m)[0] != 'r' || (m)[1] == '+' || ((m)[1] != 0 && (m)[2] == '+'))

FILE *fopen(const char *path, const char *mode)
{
    (void)path;
    if (MODE_WRITES(mode)) { GATE_REQUIRE("fopen for writing"); G.artifact_written = 1; }
    return (FILE *)nondet_ptr();
}
size_t fwrite(const void *p, size_t sz, size_t n, FILE *f)
{
    (void)p; (void)sz; (void)n;
    if (f != stdout && f != stderr) { GATE_REQUIRE("fwrite to a file"); G.artifact_written = 1; }
    return nondet_size();
}
/* buffer content stays what malloc gave (arbitrary); at most n items are reported */
size_t fread(void *p, size_t sz, size_t n, FILE *f) { (void)p; (void)sz; (void)f; size_t r = nondet_size(); __CPROVER_assume(r <= n); return r; }
int fseek(FILE *f, long off, int wh) { (void)f; (void)off; (void)wh; return nondet_int(); }
/* ASSUMPTION VERIF_FTELL_MIN: nanoc's compile_file does not test ftell's result; "the size of the file just opened
 * is obtained" (>= 0) is assumed there; nano_virt / nano_vm test it and get the full range */
#ifndef VERIF_FTELL_MIN
#define VERIF_FTELL_MIN (-1L)
#endif
long nondet_long(void);
long ftell(FILE *f) { (void)f; long r = nondet_long(); __CPROVER_assume(r >= VERIF_FTELL_MIN && r <= (1L << 40)); return r; }
int fclose(FILE *f) { (void)f; return nondet_int(); }
int remove(const char *p) { (void)p; return nondet_int(); }
int system(const char *cmd) { (void)cmd; GATE_REQUIRE("system()"); G.cc_invoked = 1; return nondet_int(); }
int strcmp(const char *a, const char *b) { (void)a; (void)b; return nondet_int(); }
int strncmp(const char *a, const char *b, size_t n) { (void)a; (void)b; (void)n; return nondet_int(); }
size_t strlen(const char *a) { (void)a; return nondet_size(); }
void exit(int status) { G.exited = 1; G.exit_status = status; __CPROVER_assume(0); }
/* message output: text is not part of any gate property; no effect on the ghost state.
 * (own copies: this unit does not include libc_stubs.h; CBMC's built-in fprintf/printf models cost
 *  ~30 s of symbolic execution PER CALL here, the drivers print on every path) */
#include <stdarg.h>
/* NOTE: a variadic stub must not WRITE anything (not even a ghost): DFCC appends its write-set parameter after the
 * named parameters, where the variable arguments of the call sit, so the stub would check its write against a garbage
 * write set.  "A diagnostic is reported" can therefore not be observed through fprintf; it is not claimed. */
int fprintf(FILE *f, const char *fmt, ...) { (void)f; (void)fmt; return nondet_int(); }
int printf(const char *fmt, ...) { (void)fmt; return nondet_int(); }
int snprintf(char *s, size_t n, const char *fmt, ...) { (void)s; (void)n; (void)fmt; return nondet_int(); }
int fputs(const char *s, FILE *f) { (void)s; (void)f; return nondet_int(); }
int fputc(int c, FILE *f) { (void)c; (void)f; return nondet_int(); }
int fflush(FILE *f) { (void)f; return nondet_int(); }

/* =====================================================================
 * front end shared by both drivers (src/nanolang.h)
 * ===================================================================== */
#if defined(GATE_VIRT) || defined(GATE_NANOC)
#include "nanolang.h"

Token *tokenize(const char *source, int *token_count)
{
    (void)source; *token_count = nondet_int();
    Token *r = (Token *)nondet_ptr(); if (r == NULL) G.lex_failed = 1; return r;
}
ASTNode *parse_program(Token *tokens, int token_count)
{
    (void)tokens; (void)token_count;
    if (nondet_bool()) { G.parse_failed = 1; return NULL; }
    return (ASTNode *)malloc(sizeof(ASTNode));       /* arbitrary content */
}
bool process_imports(ASTNode *program, Environment *env, ModuleList *modules, const char *current_file)
{
    (void)program; (void)env; (void)modules; (void)current_file;
    bool r = nondet_bool(); if (!r) G.import_failed = 1; return r;
}
bool type_check(ASTNode *program, Environment *env)
{
    (void)program; (void)env; G.tc_calls++;
    bool r = nondet_bool(); if (!r) G.tc_failed = 1; return r;
}
bool type_check_module(ASTNode *program, Environment *env)
{
    (void)program; (void)env; G.tc_calls++;
    bool r = nondet_bool(); if (!r) G.tc_failed = 1; return r;
}
Environment *create_environment(void) { return (Environment *)malloc(sizeof(Environment)); }
ModuleList *create_module_list(void) { return (ModuleList *)malloc(sizeof(ModuleList)); }
void clear_module_cache(void) { }
void typecheck_set_current_file(const char *path) { (void)path; }
void free_ast(ASTNode *node) { (void)node; }
void free_tokens(Token *tokens, int count) { (void)tokens; (void)count; }
void free_environment(Environment *env) { (void)env; }
void free_module_list(ModuleList *list) { (void)list; }
#endif

/* =====================================================================
 * VM / NVM API used by nano_virt main, nano_vm run_standalone and the generated wrapper main
 * ===================================================================== */
#if defined(GATE_VIRT) || defined(GATE_VM)
#include "nanoisa/nvm_format.h"
#include "nanoisa/verifier.h"
#include "nanovm/vm.h"
#include "nanovm/vm_ffi.h"
#include "nanovm/value.h"

NvmVerifyResult nvm_verify(const NvmModule *mod) { (void)mod; NvmVerifyResult r; if (!r.ok) G.verify_failed = 1; return r; }
void vm_init(VmState *vm, const NvmModule *module) { (void)vm; (void)module; }   /* vm stays arbitrary */
void vm_destroy(VmState *vm) { (void)vm; }
const char *vm_error_string(VmResult result) { (void)result; return (const char *)nondet_ptr(); }

/* runs the program: result is the ghost input __verif_vm_r (arbitrary) */
VmResult vm_execute(VmState *vm)
{
    (void)vm; GATE_REQUIRE("vm_execute"); G.executed = 1; G.main_executed++; G.init_runs++;
    return (VmResult)__verif_vm_r;
}
/* runs one function of the program (__init__ in the wrapper) */
VmResult vm_call_function(VmState *vm, uint32_t fn_idx, NanoValue *args, uint16_t arg_count)
{
    (void)vm; (void)fn_idx; (void)args; (void)arg_count; GATE_REQUIRE("vm_call_function"); G.executed = 1; G.init_runs++;
    VmResult r = (VmResult)nondet_int(); if (r != VM_OK) G.init_failed = 1; return r;
}
/* top of the VM stack: ghost input (arbitrary, never assigned) */
NanoValue vm_get_result(VmState *vm)
{
    (void)vm; NanoValue v; v.tag = __verif_top_tag; v.as.i64 = __verif_top_i64; return v;
}
void vm_ffi_init(void) { }
void vm_ffi_shutdown(void) { }
bool vm_ffi_load_module(const char *module_name) { (void)module_name; return nondet_bool(); }
void vm_ffi_cop_stop(VmState *vm) { (void)vm; }
const char *nvm_get_string(const NvmModule *mod, uint32_t index) { (void)mod; (void)index; return (const char *)nondet_ptr(); }
void nvm_module_free(NvmModule *mod) { (void)mod; }
NvmModule *nvm_deserialize(const uint8_t *data, uint32_t size)
{
    (void)data; (void)size;
    if (nondet_bool()) { G.load_failed = 1; return NULL; }
    return (NvmModule *)malloc(sizeof(NvmModule));   /* arbitrary content */
}
#endif

/* =====================================================================
 * nano_virt only (src/nanovirt/main.c)
 * ===================================================================== */
#ifdef GATE_VIRT
#include "nanovirt/codegen.h"
#include "nanovirt/wrapper_gen.h"

CodegenResult codegen_compile(ASTNode *program, Environment *env, ModuleList *modules, const char *input_file)
{
    (void)program; (void)env; (void)modules; (void)input_file;
    GATE_REQUIRE("codegen_compile");
    __CPROVER_assert(G.tc_calls == 1, "GATE codegen_compile only after the type checker has run (and passed)");
    G.transpiled = 1;
    CodegenResult r;
    if (!r.ok) G.cg_failed = 1; else r.module = (NvmModule *)malloc(sizeof(NvmModule));
    return r;
}
uint8_t *nvm_serialize(const NvmModule *mod, uint32_t *out_size)
{
    (void)mod; GATE_REQUIRE("nvm_serialize"); *out_size = nondet_u32();
    if (nondet_bool()) { G.ser_failed = 1; return NULL; }
    return (uint8_t *)malloc(1);
}
bool wrapper_generate(const NvmModule *module, const uint8_t *blob, uint32_t blob_size, const char *output_path,
                      const char *source_path, const ASTNode *program, bool verbose)
{
    (void)module; (void)blob; (void)blob_size; (void)output_path; (void)source_path; (void)program; (void)verbose;
    GATE_REQUIRE("wrapper_generate"); G.artifact_written = 1; G.cc_invoked = 1; return nondet_bool();
}
bool wrapper_generate_daemon(const uint8_t *blob, uint32_t blob_size, const char *output_path, bool verbose)
{
    (void)blob; (void)blob_size; (void)output_path; (void)verbose;
    GATE_REQUIRE("wrapper_generate_daemon"); G.artifact_written = 1; G.cc_invoked = 1; return nondet_bool();
}
void vm_ffi_set_env(Environment *env) { (void)env; }

/* the function under proof: main of nano_virt (renamed virt_main by the harness: a name, not code).
 * C05.gate.virt: a failed lexer / parser / import / type-check / codegen phase implies
 * non-zero status, nothing written, nothing executed, no C compiler run. */
int virt_main(int argc, char **argv)
__CPROVER_requires(argc >= 1 && argc <= 4096 && __CPROVER_is_fresh(argv, ((size_t)argc + 1) * sizeof(char *)))
__CPROVER_requires(GATE_INIT)
__CPROVER_assigns(G)
__CPROVER_ensures((G.lex_failed || G.parse_failed || G.import_failed || G.tc_failed || G.cg_failed) ==>
                  (__CPROVER_return_value != 0 && !G.artifact_written && !G.executed && !G.cc_invoked))
/* and the type checker really is consulted on every path that writes or runs something */
__CPROVER_ensures((G.artifact_written || G.executed || G.cc_invoked) ==> (G.tc_calls == 1 && !G.tc_failed))
/* C10.exit.virt (reference): the status after --run */
__CPROVER_ensures(G.main_executed ==> __CPROVER_return_value == SPEC_EXIT(__verif_vm_r, __verif_top_tag, __verif_top_i64));
#endif

/* =====================================================================
 * nanoc only (src/main.c, compile_file)
 * ===================================================================== */
#ifdef GATE_NANOC
#include "module_builder.h"
#include "interpreter_ffi.h"
#include "reflection.h"
#include "runtime/list_CompilerDiagnostic.h"
#include "toon_output.h"
#include "nanocore_subset.h"
#include "nanocore_export.h"

List_CompilerDiagnostic *nl_list_CompilerDiagnostic_new(void) { return (List_CompilerDiagnostic *)nondet_ptr(); }
void nl_list_CompilerDiagnostic_push(List_CompilerDiagnostic *list, struct nl_CompilerDiagnostic value) { (void)list; (void)value; }
void nl_list_CompilerDiagnostic_free(List_CompilerDiagnostic *list) { (void)list; }
void free(void *p) { (void)p; }                      /* release is not part of the gate property; nothing is reused */
char *getenv(const char *n) { (void)n; return (char *)nondet_ptr(); }
int setenv(const char *n, const char *v, int o) { (void)n; (void)v; (void)o; return nondet_int(); }
int unsetenv(const char *n) { (void)n; return nondet_int(); }
char *realpath(const char *p, char *r) { (void)p; (void)r; return (char *)nondet_ptr(); }
char *getcwd(char *b, size_t n) { (void)b; (void)n; return (char *)nondet_ptr(); }
char *strcpy(char *d, const char *s_) { (void)s_; return d; }                /* destination content: left as is */
char *strncpy(char *d, const char *s_, size_t n) { (void)s_; (void)n; return d; }
void toon_diagnostics_enable(void) { }
/* result lies inside the object s points into (the drivers write a NUL through it) */
char *strrchr(const char *s, int c)
{
    (void)c; if (nondet_bool()) return NULL;
    size_t o = nondet_size(); __CPROVER_assume(o < __CPROVER_OBJECT_SIZE(s) - __CPROVER_POINTER_OFFSET(s));
    return (char *)s + o;
}
/* strdup is contract-replaced (is_fresh; a malloc inside a loop body is refused by DFCC loop contracts):
 * a writable object; 64 bytes stand for "strlen+1", only writability matters to the callers */
char *strdup(const char *s)
__CPROVER_requires(1) __CPROVER_assigns()
__CPROVER_ensures(__CPROVER_is_fresh(__CPROVER_return_value, 64));

TrustReport *nanocore_trust_report(ASTNode *program, Environment *env) { (void)program; (void)env; return (TrustReport *)nondet_ptr(); }
void nanocore_print_trust_report(TrustReport *report, const char *filename) { (void)report; (void)filename; }
void nanocore_free_trust_report(TrustReport *report) { (void)report; }
TrustLevel nanocore_function_trust(ASTNode *func, Environment *env) { (void)func; (void)env; return (TrustLevel)nondet_int(); }
char *nanocore_export_sexpr(ASTNode *node, Environment *env) { (void)node; (void)env; return (char *)nondet_ptr(); }
char *nanocore_reference_eval(const char *sexpr, const char *compiler_path) { (void)sexpr; (void)compiler_path; return (char *)nondet_ptr(); }

/* writes the reflection JSON: a file written by the tool */
bool emit_module_reflection(const char *output_path, ASTNode *program, Environment *env, const char *module_name)
{
    (void)output_path; (void)program; (void)env; (void)module_name;
    GATE_REQUIRE("emit_module_reflection"); G.artifact_written = 1; return nondet_bool();
}
/* builds the imported C modules (cc, objects in the module directories) - before the shadow gate by design */
bool compile_modules(ModuleList *modules, Environment *env, char *module_objs_buffer, size_t buffer_size,
                     char *compile_flags_buffer, size_t compile_flags_buffer_size, bool verbose)
{
    (void)modules; (void)env; (void)module_objs_buffer; (void)buffer_size; (void)compile_flags_buffer; (void)compile_flags_buffer_size; (void)verbose;
    GATE_REQUIRE("compile_modules"); G.modules_built = 1;
    bool r = nondet_bool(); if (!r) G.modules_failed = 1; return r;
}
bool ffi_init(bool verbose) { (void)verbose; return nondet_bool(); }
void ffi_cleanup(void) { }
bool ffi_load_module(const char *module_name, const char *module_path, Environment *env, bool verbose)
{ (void)module_name; (void)module_path; (void)env; (void)verbose; return nondet_bool(); }
ModuleBuildMetadata *module_load_metadata(const char *module_dir) { (void)module_dir; return (ModuleBuildMetadata *)nondet_ptr(); }
void module_metadata_free(ModuleBuildMetadata *meta) { (void)meta; }
ASTNode *load_module(const char *module_path, Environment *env) { (void)module_path; (void)env; return (ASTNode *)nondet_ptr(); }

/* the interpreter runs the shadow bodies: program code is executed */
bool run_shadow_tests(ASTNode *program, Environment *env, bool verbose)
{
    (void)program; (void)env; (void)verbose;
    GATE_REQUIRE("run_shadow_tests"); G.executed = 1; G.shadow_calls++;
    bool r = nondet_bool(); if (!r) G.shadow_failed = 1; return r;
}
/* C generation.  With GATE_CUT_AT_TRANSPILE the path ENDS here: the obligation then covers compile_file from its
 * entry up to and including this call; everything behind it (temp .c file, cc command, system()) is reachable only
 * through this call (compile_file has no goto/label; checked textually by the registry), where GATE_OPEN is asserted. */
char *transpile_to_c(ASTNode *program, Environment *env, const char *input_file)
{
    (void)program; (void)env; (void)input_file;
    GATE_REQUIRE("transpile_to_c");
    __CPROVER_assert(G.tc_calls == 1 && G.shadow_calls == 1, "GATE transpile_to_c only after the type checker and the shadow tests have run (and passed)");
    G.transpiled = 1;
#ifdef GATE_CUT_AT_TRANSPILE
    __CPROVER_assume(0);
#endif
    char *r = (char *)nondet_ptr(); if (r == NULL) G.transpile_failed = 1; return r;
}
#endif

/* =====================================================================
 * run_shadow_tests (src/eval.c)
 * ===================================================================== */
#ifdef GATE_SHADOW
#include "nanolang.h"
#include <fcntl.h>
/* allocator model for the `failures` report array, which lives across loop iterations (an object allocated inside
 * a loop cannot be carried by a DFCC loop invariant): realloc grows IN PLACE inside one fixed pool and fails (NULL)
 * beyond VERIF_POOL_BYTES or whenever it likes.  ASSUMPTION: behaviours in which more than VERIF_POOL_BYTES of
 * failure records are obtained are not explored; the array only feeds the JSON report, never the result. */
#ifndef VERIF_POOL_BYTES
#define VERIF_POOL_BYTES 512
#endif
extern char __verif_pool[VERIF_POOL_BYTES];
#ifdef VERIF_REALLOC_FAILS
/* quick-tier variant: "the report array cannot be allocated" (a legal allocator behaviour; run_shadow_tests then simply
 * records no failure entries).  The complete allocator model below is the thorough-tier obligation C06.loop.report. */
void *realloc(void *p, size_t n) { (void)p; (void)n; return NULL; }
#else
void *realloc(void *p, size_t n) { (void)p; if (nondet_bool() || n > VERIF_POOL_BYTES) return NULL; return __verif_pool; }
#endif
void free(void *p) { (void)p; }
char *getenv(const char *n) { (void)n; return (char *)nondet_ptr(); }
Function *env_get_function(Environment *env, const char *name) { (void)env; (void)name; return (Function *)nondet_ptr(); }
int dup(int fd) { (void)fd; return nondet_int(); }
int dup2(int a, int b) { (void)a; (void)b; return nondet_int(); }
int close(int fd) { (void)fd; return nondet_int(); }
int open(const char *p, int fl, ...) { (void)p; (void)fl; return nondet_int(); }

#define SH_INIT (!G.sh_any_failed && !G.sh_reset_violated && !G.sh_skipped_evaluated && G.sh_bodies == 0)
#define PROGRAM_OK(p) ((p) != NULL && (p)->type == AST_PROGRAM)
#endif

#endif
