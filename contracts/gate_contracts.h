/* Contracts for the control-flow GATES of the compiler drivers (C05, C06) and the
 * exit-status paths (C10.exit.*).
 *
 * Every callee of the drivers is replaced by the contract given here on a forward
 * declaration: result nondeterministic, effects recorded in ONE ghost struct
 * __verif_gate.  Phase functions (lexer, parser, imports, type checker, shadow
 * tests, code generators) record a failed result in a sticky *_failed flag; OS
 * writers / executors (fopen in a write mode, fwrite, system, wrapper_generate*,
 * vm_execute, ...) set an effect flag AND carry the precondition GATE_OPEN
 * ("no phase has failed so far"), which DFCC checks at every call site.
 *
 * Included BEFORE the real driver .c is #included verbatim by the harness. */
#ifndef GATE_CONTRACTS_H
#define GATE_CONTRACTS_H
#include "verif_common.h"
#include <stdio.h>
#include <stdlib.h>
#include <string.h>
#include <unistd.h>

struct verif_gate {
    /* phase outcomes (sticky: set to 1 by the contract of the phase function when it reports failure) */
    int lex_failed, parse_failed, import_failed, tc_failed, cg_failed;
    int modules_failed, shadow_failed, transpile_failed, ser_failed, load_failed, verify_failed, init_failed;
    /* how often the gate functions ran */
    int tc_calls, shadow_calls;
    /* effects */
    int artifact_written;   /* fopen(.., "w"/"a"/"+"), fwrite to a non-std stream, wrapper_generate*, emit_module_reflection */
    int cc_invoked;         /* system() */
    int transpiled;         /* transpile_to_c / codegen reached */
    int modules_built;      /* compile_modules (cc on imported C modules; runs before the shadow gate by design) */
    int executed;           /* vm_execute / vm_call_function / vmd_execute */
    int main_executed;      /* vm_execute specifically */
    int diag_written;       /* llm_emit_diags_*: diagnostics file, not an artifact */
    /* path end */
    int exited, exit_status;
};
extern struct verif_gate __verif_gate;
#define G __verif_gate

/* "some phase of the front end has failed" */
#define GATE_FAILED (G.lex_failed || G.parse_failed || G.import_failed || G.tc_failed || G.cg_failed || \
                     G.modules_failed || G.shadow_failed || G.transpile_failed || G.ser_failed || G.load_failed || \
                     G.verify_failed || G.init_failed)
#define GATE_OPEN (!GATE_FAILED)
#define GATE_NO_EFFECT (!G.artifact_written && !G.cc_invoked && !G.executed && !G.transpiled)
/* initial ghost state of an enforced driver function */
#define GATE_INIT (GATE_OPEN && GATE_NO_EFFECT && !G.modules_built && !G.main_executed && !G.diag_written && \
                   !G.exited && G.tc_calls == 0 && G.shadow_calls == 0)

/* sticky failure flag: set on failure, untouched otherwise */
#define STICKY(flag, failed) ((failed) ? G.flag == 1 : G.flag == __CPROVER_old(G.flag))

/* ---- exit status spec (C10.exit): taken from the property's reference `nano_virt --run`
 * (src/nanovirt/main.c: error => 1; OK and top of stack is INT => (int)value; else 0).
 * The VM outcome is a ghost INPUT (never assigned): vm_execute returns __verif_vm_r,
 * vm_get_result returns tag/i64 = __verif_top_tag/__verif_top_i64. */
extern int __verif_vm_r;
extern uint8_t __verif_top_tag;
extern int64_t __verif_top_i64;
#define SPEC_EXIT(r, tag, v) ((r) != 0 /*VM_OK*/ ? 1 : ((tag) == 0x01 /*TAG_INT*/ ? (int)(v) : 0))

/* ---- libc / OS boundary (assumed contracts on dependencies) ---- */
#define MODE_WRITES(m) ((m)[0] != 'r' || (m)[1] == '+' || ((m)[1] != 0 && (m)[2] == '+'))

FILE *fopen(const char *path, const char *mode)
__CPROVER_requires(MODE_WRITES(mode) ==> GATE_OPEN)
__CPROVER_assigns(G.artifact_written)
__CPROVER_ensures(MODE_WRITES(mode) ? G.artifact_written == 1 : G.artifact_written == __CPROVER_old(G.artifact_written));

size_t fwrite(const void *p, size_t sz, size_t n, FILE *f)
__CPROVER_requires(GATE_OPEN)
__CPROVER_assigns(G.artifact_written)
__CPROVER_ensures(G.artifact_written == 1);

size_t fread(void *p, size_t sz, size_t n, FILE *f)
__CPROVER_requires(1)
__CPROVER_assigns()      /* buffer content stays what malloc gave: arbitrary */
__CPROVER_ensures(__CPROVER_return_value <= n);

#ifndef VERIF_FTELL_MIN
#define VERIF_FTELL_MIN (-1L)
#endif
int fseek(FILE *f, long off, int wh) __CPROVER_requires(1) __CPROVER_assigns() __CPROVER_ensures(1);
/* ASSUMPTION: the size of a file that was just opened for reading is obtained (0 <= size, and small enough for size+1) */
long ftell(FILE *f) __CPROVER_requires(1) __CPROVER_assigns()
__CPROVER_ensures(__CPROVER_return_value >= VERIF_FTELL_MIN && __CPROVER_return_value <= (1L << 40));
int fclose(FILE *f) __CPROVER_requires(1) __CPROVER_assigns() __CPROVER_ensures(1);

int system(const char *cmd)
__CPROVER_requires(GATE_OPEN)
__CPROVER_assigns(G.cc_invoked)
__CPROVER_ensures(G.cc_invoked == 1);

int strcmp(const char *a, const char *b) __CPROVER_requires(1) __CPROVER_assigns() __CPROVER_ensures(1);
int strncmp(const char *a, const char *b, size_t n) __CPROVER_requires(1) __CPROVER_assigns() __CPROVER_ensures(1);
size_t strlen(const char *a) __CPROVER_requires(1) __CPROVER_assigns() __CPROVER_ensures(1);


/* =====================================================================
 * front end shared by both drivers (src/nanolang.h)
 * ===================================================================== */
#if defined(GATE_VIRT) || defined(GATE_NANOC)
#include "nanolang.h"

Token *tokenize(const char *source, int *token_count)
__CPROVER_requires(1)
__CPROVER_assigns(G.lex_failed, *token_count)
__CPROVER_ensures(STICKY(lex_failed, __CPROVER_return_value == NULL));

ASTNode *parse_program(Token *tokens, int token_count)
__CPROVER_requires(1)
__CPROVER_assigns(G.parse_failed)
__CPROVER_ensures(STICKY(parse_failed, __CPROVER_return_value == NULL))
__CPROVER_ensures(__CPROVER_return_value == NULL || __CPROVER_is_fresh(__CPROVER_return_value, sizeof(ASTNode)));

bool process_imports(ASTNode *program, Environment *env, ModuleList *modules, const char *current_file)
__CPROVER_requires(1)
__CPROVER_assigns(G.import_failed)
__CPROVER_ensures(STICKY(import_failed, !__CPROVER_return_value));

bool type_check(ASTNode *program, Environment *env)
__CPROVER_requires(1)
__CPROVER_assigns(G.tc_failed, G.tc_calls)
__CPROVER_ensures(STICKY(tc_failed, !__CPROVER_return_value))
__CPROVER_ensures(G.tc_calls == __CPROVER_old(G.tc_calls) + 1);

bool type_check_module(ASTNode *program, Environment *env)
__CPROVER_requires(1)
__CPROVER_assigns(G.tc_failed, G.tc_calls)
__CPROVER_ensures(STICKY(tc_failed, !__CPROVER_return_value))
__CPROVER_ensures(G.tc_calls == __CPROVER_old(G.tc_calls) + 1);

Environment *create_environment(void)
__CPROVER_requires(1) __CPROVER_assigns()
__CPROVER_ensures(__CPROVER_is_fresh(__CPROVER_return_value, sizeof(Environment)));

ModuleList *create_module_list(void)
__CPROVER_requires(1) __CPROVER_assigns()
__CPROVER_ensures(__CPROVER_is_fresh(__CPROVER_return_value, sizeof(ModuleList)));

void clear_module_cache(void) __CPROVER_requires(1) __CPROVER_assigns() __CPROVER_ensures(1);
void typecheck_set_current_file(const char *path) __CPROVER_requires(1) __CPROVER_assigns() __CPROVER_ensures(1);
void free_ast(ASTNode *node) __CPROVER_requires(1) __CPROVER_assigns() __CPROVER_ensures(1);
void free_tokens(Token *tokens, int count) __CPROVER_requires(1) __CPROVER_assigns() __CPROVER_ensures(1);
void free_environment(Environment *env) __CPROVER_requires(1) __CPROVER_assigns() __CPROVER_ensures(1);
void free_module_list(ModuleList *list) __CPROVER_requires(1) __CPROVER_assigns() __CPROVER_ensures(1);
#endif

/* =====================================================================
 * VM / NVM API used by nano_virt main, nano_vm run_standalone and the generated wrapper main
 * ===================================================================== */
#if defined(GATE_VIRT) || defined(GATE_VM)
#include "nanoisa/nvm_format.h"
#include "nanoisa/verifier.h"
#include "nanovm/vm.h"
#include "nanovm/vm_ffi.h"
#include "nanovm/value.h"

NvmVerifyResult nvm_verify(const NvmModule *mod)
__CPROVER_requires(1)
__CPROVER_assigns(G.verify_failed)
__CPROVER_ensures(STICKY(verify_failed, !__CPROVER_return_value.ok));

void vm_init(VmState *vm, const NvmModule *module) __CPROVER_requires(1) __CPROVER_assigns() __CPROVER_ensures(1);
void vm_destroy(VmState *vm) __CPROVER_requires(1) __CPROVER_assigns() __CPROVER_ensures(1);
const char *vm_error_string(VmResult result) __CPROVER_requires(1) __CPROVER_assigns() __CPROVER_ensures(1);

/* runs the program: result is the ghost input __verif_vm_r (arbitrary) */
VmResult vm_execute(VmState *vm)
__CPROVER_requires(GATE_OPEN)
__CPROVER_assigns(G.executed, G.main_executed)
__CPROVER_ensures(G.executed == 1 && G.main_executed == __CPROVER_old(G.main_executed) + 1)
__CPROVER_ensures((int)__CPROVER_return_value == __verif_vm_r);

/* runs one function of the program (__init__ in the wrapper) */
VmResult vm_call_function(VmState *vm, uint32_t fn_idx, NanoValue *args, uint16_t arg_count)
__CPROVER_requires(GATE_OPEN)
__CPROVER_assigns(G.executed, G.init_failed)
__CPROVER_ensures(G.executed == 1)
__CPROVER_ensures(STICKY(init_failed, __CPROVER_return_value != VM_OK));

/* top of the VM stack: ghost input (arbitrary, never assigned) */
NanoValue vm_get_result(VmState *vm)
__CPROVER_requires(1)
__CPROVER_assigns()
__CPROVER_ensures(__CPROVER_return_value.tag == __verif_top_tag && __CPROVER_return_value.as.i64 == __verif_top_i64);

void vm_ffi_init(void) __CPROVER_requires(1) __CPROVER_assigns() __CPROVER_ensures(1);
void vm_ffi_shutdown(void) __CPROVER_requires(1) __CPROVER_assigns() __CPROVER_ensures(1);
bool vm_ffi_load_module(const char *module_name) __CPROVER_requires(1) __CPROVER_assigns() __CPROVER_ensures(1);
void vm_ffi_cop_stop(VmState *vm) __CPROVER_requires(1) __CPROVER_assigns() __CPROVER_ensures(1);
const char *nvm_get_string(const NvmModule *mod, uint32_t index) __CPROVER_requires(1) __CPROVER_assigns() __CPROVER_ensures(1);
void nvm_module_free(NvmModule *mod) __CPROVER_requires(1) __CPROVER_assigns() __CPROVER_ensures(1);

NvmModule *nvm_deserialize(const uint8_t *data, uint32_t size)
__CPROVER_requires(1)
__CPROVER_assigns(G.load_failed)
__CPROVER_ensures(STICKY(load_failed, __CPROVER_return_value == NULL))
__CPROVER_ensures(__CPROVER_return_value == NULL || __CPROVER_is_fresh(__CPROVER_return_value, sizeof(NvmModule)));
#endif

/* =====================================================================
 * nano_virt only (src/nanovirt/main.c)
 * ===================================================================== */
#ifdef GATE_VIRT
#include "nanovirt/codegen.h"
#include "nanovirt/wrapper_gen.h"

CodegenResult codegen_compile(ASTNode *program, Environment *env, ModuleList *modules, const char *input_file)
__CPROVER_requires(GATE_OPEN)
__CPROVER_assigns(G.cg_failed, G.transpiled)
__CPROVER_ensures(STICKY(cg_failed, !__CPROVER_return_value.ok) && G.transpiled == 1)
__CPROVER_ensures(__CPROVER_return_value.ok ==> __CPROVER_is_fresh(__CPROVER_return_value.module, sizeof(NvmModule)));

uint8_t *nvm_serialize(const NvmModule *mod, uint32_t *out_size)
__CPROVER_requires(GATE_OPEN)
__CPROVER_assigns(G.ser_failed, *out_size)
__CPROVER_ensures(STICKY(ser_failed, __CPROVER_return_value == NULL));

bool wrapper_generate(const NvmModule *module, const uint8_t *blob, uint32_t blob_size, const char *output_path,
                      const char *source_path, const ASTNode *program, bool verbose)
__CPROVER_requires(GATE_OPEN)
__CPROVER_assigns(G.artifact_written, G.cc_invoked)
__CPROVER_ensures(G.artifact_written == 1 && G.cc_invoked == 1);

bool wrapper_generate_daemon(const uint8_t *blob, uint32_t blob_size, const char *output_path, bool verbose)
__CPROVER_requires(GATE_OPEN)
__CPROVER_assigns(G.artifact_written, G.cc_invoked)
__CPROVER_ensures(G.artifact_written == 1 && G.cc_invoked == 1);

void vm_ffi_set_env(Environment *env) __CPROVER_requires(1) __CPROVER_assigns() __CPROVER_ensures(1);

/* the function under proof: main of nano_virt (renamed virt_main by the harness: a name, not code).
 * C05.gate.virt: a failed lexer / parser / import / type-check / codegen phase implies
 * non-zero status, nothing written, nothing executed, no C compiler run. */
int virt_main(int argc, char **argv)
__CPROVER_requires(argc >= 1 && argc <= 4096 && __CPROVER_is_fresh(argv, ((size_t)argc + 1) * sizeof(char *)))
__CPROVER_requires(GATE_INIT)
__CPROVER_assigns(G)
__CPROVER_ensures((G.lex_failed || G.parse_failed || G.import_failed || G.tc_failed || G.cg_failed) ==>
                  (__CPROVER_return_value != 0 && !G.artifact_written && !G.executed && !G.cc_invoked))
/* and the type checker really is consulted on every path that writes or runs something */
__CPROVER_ensures((G.artifact_written || G.executed || G.cc_invoked) ==> (G.tc_calls == 1 && !G.tc_failed))
/* C10.exit.virt (reference): the status after --run */
__CPROVER_ensures(G.main_executed ==> __CPROVER_return_value == SPEC_EXIT(__verif_vm_r, __verif_top_tag, __verif_top_i64));
#endif

#endif
