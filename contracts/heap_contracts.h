/* Contracts for the NanoVM reference-counted heap, src/nanovm/heap.c (C14.heap.*, DESIGN 4.2).
 *
 * Value well-formedness (VAL_WF of DESIGN 4.1) as used here: a value whose tag is a heap tag is NULL or points to a
 * live object whose header.obj_type equals the tag.  TAG_FUNCTION values are closures (the VM never builds a bare
 * function-index value: codegen emits CLOSURE_NEW with zero captures for a function reference); hash maps are left out
 * of this unit (see obligations/c14.py META).
 *
 * vm_release is recursive over the object graph.  CBMC has no recursive predicates, so ONE level of the graph is
 * materialised: the object under proof, its element store and the HEADER of the child at the ghost index __verif_hk
 * (never assigned: arbitrary, i.e. every child).  The recursion is cut at the release_* helper (see the section on
 * vm_release below): the recursive calls inside a helper's loop are replaced by the CHILD VIEW of vm_release's contract,
 * whose clauses are the header-level clauses proved for the call under proof (same macro text: induction hypothesis on
 * depth).  The ghost flag __verif_h.lvl, set by a ghost statement in front of the recursive call (sidecar
 * contracts/loops/heap.c.loops), tells the child view whether the argument is the materialised child
 * (iteration i == __verif_hk: lvl 1, header known, precondition checked, effect specified) or another child (lvl 0:
 * nothing known, nothing claimed, nothing assigned) - the ghost-index reading of contracts/verifier_contracts.h FN_PRE.
 * What is NOT machine-checked (glue, listed in META): that a child's own children are well-formed (VAL_WF holds of the
 * whole heap), and that releasing the children at indices != __verif_hk does not free the child at __verif_hk (that is
 * the census invariant ref_count >= indeg of C14.step.*).
 *
 * Kind of the object under proof: -DVERIF_HKIND=<tag> (case split, strength X); 0 = scalar.
 */
#ifndef HEAP_CONTRACTS_H
#define HEAP_CONTRACTS_H
#include "verif_common.h"
#include "nanovm/value.h"
#include "nanovm/heap.h"

#define IS_RC_TAG(t) ((t) == TAG_STRING || (t) == TAG_ARRAY || (t) == TAG_STRUCT || (t) == TAG_UNION || \
                      (t) == TAG_TUPLE || (t) == TAG_HASHMAP || (t) == TAG_FUNCTION)
#define IS_RC(v) (IS_RC_TAG((v).tag) && (v).as.obj != NULL)
#define HDR(v) ((VmHeapHeader *)(v).as.obj)

/* ---- the ONE ghost struct of this unit (one assigns target) ---- */
struct verif_heap_ghost {
    int lvl;                 /* child view: 1 = the argument is the child at the ghost index, 0 = some other child */
    unsigned kid_calls;      /* vm_release calls delivered to the child at the ghost index (lvl 1 calls) */
    unsigned helper_calls;   /* times the kind's release_* helper ran on the object under proof */
};
extern struct verif_heap_ghost __verif_h;
/* ghosts that are never assigned: arbitrary (forall-generalisation), or bound by a requires clause */
extern uint32_t __verif_hk;     /* index of the child of interest */
extern uint32_t __verif_hn;     /* element count of the tuple / closure under proof (fixes the object size) */
extern int      __verif_hkidrc;  /* bound at lvl 2: the child at the ghost index exists and is a heap-tagged non-NULL value */
extern void    *__verif_hstore;  /* bound at lvl 2: the element store of the object under proof */
extern uint32_t __verif_hstn;    /* bound at lvl 2: the number of entries of that store */
extern uint32_t __verif_krc0;    /* bound at lvl 2: entry value of the reference count of that child */
extern uint32_t __verif_rc0;    /* entry value of the reference count of the object under consideration
                                   (__CPROVER_old() snapshots are taken unconditionally, i.e. also when v is a scalar
                                   and the pointer is junk: the entry value is bound by a requires clause instead) */

#ifndef VERIF_HKIND
#define VERIF_HKIND 0
#endif

/* resource bounds (assumptions, META): element counts for which  count * sizeof(NanoValue)  and the doubling in
 * array_grow stay far away from uint32 wrap */
#define HEAP_MAX_ELEMS (1u << 20)

/* =====================================================================================================
 * vm_retain: only the reference count of a heap-tagged non-NULL value, +1; nothing for scalars / NULL
 * ===================================================================================================== */
void vm_retain(NanoValue v)
__CPROVER_requires(!IS_RC_TAG(v.tag) || v.as.obj == NULL || VERIF_FRESH(v.as.obj, sizeof(VmHeapHeader)))
__CPROVER_requires(IS_RC(v) ==> HDR(v)->ref_count == __verif_rc0)
__CPROVER_assigns(IS_RC(v): HDR(v)->ref_count)
__CPROVER_ensures(IS_RC(v) ==> HDR(v)->ref_count == __verif_rc0 + 1u);

/* =====================================================================================================
 * vm_release and its release_* helpers
 * =====================================================================================================
 * Proof structure (per kind K of the object under proof; CBMC 6.11 refuses to check AND replace one function, and a
 * replaced call with two frees targets makes its symbolic execution hang, so the recursion is cut at the helper):
 *   C14.heap.release.K    vm_release against REL_TOP, the call of release_K replaced by the helper's contract;
 *   C14.heap.helper.K     release_K against its contract, the recursive vm_release calls in its loop replaced by the
 *                         CHILD VIEW of vm_release's contract (header-level clauses, literally the same macro text),
 *                         loop contract from the sidecar.
 * Which view the forward declaration of vm_release carries is a compile-time choice (-DHEAP_VIEW_CHILD), as in
 * contracts/verifier_contracts.h. */
/* O_* : the object under proof through a typed pointer p */
#if VERIF_HKIND == 7        /* TAG_ARRAY */
#define REL_T VmArray
#define REL_FN release_array
#define REL_PN a
#define REL_OBJ_SIZE sizeof(VmArray)
#define O_COUNT(p) ((p)->length)
#define O_STORE(p) ((p)->elements)
#define O_STORE_N(p) ((p)->capacity)
#define O_SHAPE(p) ((p)->capacity >= 1 && (p)->capacity <= HEAP_MAX_ELEMS && (p)->length <= (p)->capacity)
#define REL_HAS_STORE 1
#elif VERIF_HKIND == 8      /* TAG_STRUCT */
#define REL_T VmStruct
#define REL_FN release_struct
#define REL_PN s
#define REL_OBJ_SIZE sizeof(VmStruct)
#define O_COUNT(p) ((p)->field_count)
#define O_STORE(p) ((p)->fields)
#define O_STORE_N(p) ((p)->field_count)
#define O_SHAPE(p) ((p)->field_count <= HEAP_MAX_ELEMS && (p)->field_names == NULL)    /* nothing in the VM ever sets field_names */
#define REL_HAS_STORE 1
#elif VERIF_HKIND == 10     /* TAG_UNION */
#define REL_T VmUnion
#define REL_FN release_union
#define REL_PN u
#define REL_OBJ_SIZE sizeof(VmUnion)
#define O_COUNT(p) ((uint32_t)(p)->field_count)
#define O_STORE(p) ((p)->fields)
#define O_STORE_N(p) ((uint32_t)(p)->field_count)
#define O_SHAPE(p) 1
#define REL_HAS_STORE 1
#elif VERIF_HKIND == 12     /* TAG_TUPLE */
#define REL_T VmTuple
#define REL_FN release_tuple
#define REL_PN t
#define REL_OBJ_SIZE (sizeof(VmTuple) + (size_t)__verif_hn * sizeof(NanoValue))
#define O_COUNT(p) ((p)->count)
#define O_STORE(p) ((p)->elements)
#define O_SHAPE(p) ((p)->count == __verif_hn && __verif_hn <= HEAP_MAX_ELEMS)
#define REL_HAS_STORE 0
#elif VERIF_HKIND == 11     /* TAG_FUNCTION: closure */
#define REL_T VmClosure
#define REL_FN release_closure
#define REL_PN c
#define REL_OBJ_SIZE (sizeof(VmClosure) + (size_t)__verif_hn * sizeof(NanoValue))
#define O_COUNT(p) ((uint32_t)(p)->capture_count)
#define O_STORE(p) ((p)->captures)
#define O_SHAPE(p) ((p)->capture_count == __verif_hn)
#define REL_HAS_STORE 0
#elif VERIF_HKIND == 5      /* TAG_STRING */
#define REL_OBJ_SIZE (sizeof(VmString) + 1)
#define REL_HAS_STORE 0
#else                       /* scalar */
#define REL_OBJ_SIZE sizeof(VmHeapHeader)
#define REL_HAS_STORE 0
#endif
#if VERIF_HKIND == 7 || VERIF_HKIND == 8 || VERIF_HKIND == 10 || VERIF_HKIND == 12 || VERIF_HKIND == 11
#define REL_CONTAINER 1
#define REL_P(v) ((REL_T *)(v).as.obj)
#define O_KID(p) (O_STORE(p)[__verif_hk])
#define O_HAS_KID(p) (__verif_hk < O_COUNT(p))
#define O_KID_RC(p) (O_HAS_KID(p) && IS_RC(O_KID(p)))
#else
#define REL_CONTAINER 0
#endif

/* loop invariants of release_*: until the loop reaches the ghost index, the child there is as it was on entry
 * (releases of the OTHER children are lvl-0 calls: they assign nothing in this proof; in the real heap that they do not
 * free this child is the census invariant ref_count >= indeg - glue, see the header comment) */
#define HEAP_KID_UNTOUCHED(kid) (__CPROVER_rw_ok((kid).as.obj, sizeof(VmHeapHeader)) && HDR(kid)->obj_type == (kid).tag && \
                                 HDR(kid)->ref_count == __verif_krc0)

/* the heap descriptor as ONE assigns target: the VmHeap bytes (stats, intern_table, intern_count, intern_capacity) - not
 * the whole object, because in a VmState the descriptor is embedded (vm->heap) and the rest of the VmState is not touched */
#define HEAP_DESC(h) __CPROVER_object_upto((char *)(h), sizeof(VmHeap))
/* the heap descriptor: intern table valid for intern_capacity entries (vm_release of a string walks it) */
#define HEAP_INTERN_MAX 1024u
#define HEAP_OK(h) ((h)->intern_capacity >= 1 && (h)->intern_capacity <= HEAP_INTERN_MAX && (h)->intern_count <= (h)->intern_capacity)
#define REL_PRE_HEAP \
__CPROVER_requires(VERIF_FRESH(heap, sizeof(VmHeap)) && HEAP_OK(heap)) \
__CPROVER_requires(VERIF_FRESH(heap->intern_table, (size_t)heap->intern_capacity * sizeof(VmString *)))
#define REL_POST_HEAP \
__CPROVER_ensures(heap->intern_table == __CPROVER_old(heap->intern_table) && heap->intern_capacity == __CPROVER_old(heap->intern_capacity)) \
__CPROVER_ensures(heap->intern_count <= __CPROVER_old(heap->intern_count))

/* ---- header-level clauses of vm_release: the SAME text in both views; `on` = "the argument's header is materialised" ---- */
/* VAL_WF of the argument (the contract text of the step harnesses' stub, VM_RELEASE_REQUIRES): live header, type matches tag */
#define REL_PRE_HDR(on, sz, rc0) \
__CPROVER_requires(!(on) || v.tag != TAG_HASHMAP)                 /* hash maps: not in this unit */ \
__CPROVER_requires(!(on) || !IS_RC_TAG(v.tag) || v.as.obj == NULL || VERIF_FRESH(v.as.obj, sz)) \
__CPROVER_requires(((on) && IS_RC(v)) ==> (HDR(v)->obj_type == v.tag && HDR(v)->ref_count == (rc0)))
/* count >= 2: exactly -1; count == 0: no effect; the heap descriptor stays well-formed and is untouched unless an object dies */
#define REL_POST_HDR(on, rc0) \
__CPROVER_ensures(((on) && IS_RC(v) && (rc0) >= 2) ==> (HDR(v)->ref_count == (rc0) - 1u && HDR(v)->obj_type == v.tag)) \
__CPROVER_ensures(((on) && IS_RC(v) && (rc0) == 0) ==> (HDR(v)->ref_count == 0 && HDR(v)->obj_type == v.tag)) \
REL_POST_HEAP \
__CPROVER_ensures(((on) && (!IS_RC(v) || (rc0) != 1)) ==> (heap->intern_count == __CPROVER_old(heap->intern_count) && \
                   heap->stats.freed == __CPROVER_old(heap->stats.freed) && heap->stats.num_objects == __CPROVER_old(heap->stats.num_objects) && \
                   heap->stats.allocated == __CPROVER_old(heap->stats.allocated)))

#ifndef HEAP_VIEW_CHILD
/* ---- vm_release, the call under proof (C14.heap.release.K) ---- */
void vm_release(VmHeap *heap, NanoValue v)
REL_PRE_HEAP
__CPROVER_requires(!IS_RC_TAG(v.tag) || v.tag == VERIF_HKIND)                       /* case split over the kind */
REL_PRE_HDR(1, REL_OBJ_SIZE, __verif_rc0)
#if REL_CONTAINER
/* the object under proof: its shape, its element store, the header of the child at the ghost index */
__CPROVER_requires(IS_RC(v) ==> O_SHAPE(REL_P(v)))
#if REL_HAS_STORE
__CPROVER_requires(!IS_RC(v) || ((O_STORE_N(REL_P(v)) == 0 && O_STORE(REL_P(v)) == NULL) ||
                                 (O_STORE_N(REL_P(v)) != 0 && VERIF_FRESH(O_STORE(REL_P(v)), (size_t)O_STORE_N(REL_P(v)) * sizeof(NanoValue)))))
__CPROVER_requires(IS_RC(v) ==> (__verif_hstore == (void *)O_STORE(REL_P(v)) && __verif_hstn == O_STORE_N(REL_P(v))))
#endif
__CPROVER_requires((IS_RC(v) && O_HAS_KID(REL_P(v))) ==> O_KID(REL_P(v)).tag != TAG_HASHMAP)
__CPROVER_requires(!(IS_RC(v) && O_KID_RC(REL_P(v))) || (VERIF_FRESH(O_KID(REL_P(v)).as.obj, sizeof(VmHeapHeader)) &&
                                                          HDR(O_KID(REL_P(v)))->obj_type == O_KID(REL_P(v)).tag &&
                                                          HDR(O_KID(REL_P(v)))->ref_count == __verif_krc0))
__CPROVER_requires(IS_RC(v) ==> __verif_hkidrc == (O_KID_RC(REL_P(v)) ? 1 : 0))
#endif
__CPROVER_assigns(__verif_h;
                  IS_RC(v): HDR(v)->ref_count, HEAP_DESC(heap), __CPROVER_object_whole(heap->intern_table)
#if REL_CONTAINER
                  ; IS_RC(v) && O_KID_RC(REL_P(v)): HDR(O_KID(REL_P(v)))->ref_count
#endif
                  )
__CPROVER_frees(IS_RC(v): v.as.obj
#if REL_HAS_STORE
                ; IS_RC(v): O_STORE(REL_P(v))
#endif
                )
REL_POST_HDR(1, __verif_rc0)
/* count == 1: the object is freed - directly (string), or by ONE run of the kind's release_* helper on it, whose contract
 * (C14.heap.helper.K) says that the object and its element store are deallocated; otherwise nothing is freed */
#if !REL_CONTAINER
__CPROVER_ensures(!(IS_RC(v) && __verif_rc0 == 1) || __CPROVER_was_freed(v.as.obj))
__CPROVER_ensures(__verif_h.helper_calls == __CPROVER_old(__verif_h.helper_calls))
#else
__CPROVER_ensures(__verif_h.helper_calls == __CPROVER_old(__verif_h.helper_calls) + ((IS_RC(v) && __verif_rc0 == 1) ? 1u : 0u))
#endif
__CPROVER_ensures(!(IS_RC(v) && __verif_rc0 != 1) || !__CPROVER_was_freed(v.as.obj))
#if REL_HAS_STORE
__CPROVER_ensures(!(IS_RC(v) && __verif_rc0 != 1 && __verif_hstn != 0) || !__CPROVER_was_freed(__verif_hstore))
#endif
/* count == 1: every contained value is released once: the value at the (arbitrary) ghost index got exactly one release */
#if REL_CONTAINER
__CPROVER_ensures(IS_RC(v) ==> __verif_h.kid_calls == __CPROVER_old(__verif_h.kid_calls) + ((__verif_rc0 == 1 && __verif_hkidrc) ? 1u : 0u))
__CPROVER_ensures(!IS_RC(v) ==> __verif_h.kid_calls == __CPROVER_old(__verif_h.kid_calls))
#else
__CPROVER_ensures(__verif_h.kid_calls == __CPROVER_old(__verif_h.kid_calls))
#endif
;
#else
/* ---- vm_release, child view (replaces the recursive calls inside release_K, C14.heap.helper.K): the argument is the
 * child at the ghost index when the level flag is 1 (header materialised), any other child when it is 0 (nothing known,
 * nothing claimed, nothing assigned).  The clauses are the header-level clauses above, with the entry count bound to
 * __verif_krc0.  The deallocation of the child at count 1 is NOT modelled (a loop contract has no frees clause in CBMC
 * 6.11): its count is left unspecified in that case and the caller never looks at the child again. ---- */
#define REL_ON (__verif_h.lvl == 1)
void vm_release(VmHeap *heap, NanoValue v)
REL_PRE_HEAP
__CPROVER_requires(__verif_h.lvl == 0 || __verif_h.lvl == 1)
REL_PRE_HDR(REL_ON, sizeof(VmHeapHeader), __verif_krc0)
__CPROVER_assigns(__verif_h;
                  REL_ON && IS_RC(v): HDR(v)->ref_count, HEAP_DESC(heap), __CPROVER_object_whole(heap->intern_table))
__CPROVER_ensures(__verif_h.lvl == __CPROVER_old(__verif_h.lvl))
REL_POST_HDR(REL_ON, __verif_krc0)
/* ghost bookkeeping: a release delivered to the child of interest is counted */
__CPROVER_ensures(__verif_h.lvl == 1 ==> __verif_h.kid_calls == __CPROVER_old(__verif_h.kid_calls) + (IS_RC(v) ? 1u : 0u))
__CPROVER_ensures(__verif_h.lvl == 0 ==> __verif_h.kid_calls == __CPROVER_old(__verif_h.kid_calls))
;
#endif

#if REL_CONTAINER
/* ---- release_K(heap, p): called by vm_release when the count of p reached 0: releases every contained value once,
 * frees the element store and the object ---- */
static void REL_FN(VmHeap *heap, REL_T *REL_PN)
REL_PRE_HEAP
__CPROVER_requires(VERIF_FRESH(REL_PN, REL_OBJ_SIZE) && O_SHAPE(REL_PN))
#if REL_HAS_STORE
__CPROVER_requires((O_STORE_N(REL_PN) == 0 && O_STORE(REL_PN) == NULL) || (O_STORE_N(REL_PN) != 0 && VERIF_FRESH(O_STORE(REL_PN), (size_t)O_STORE_N(REL_PN) * sizeof(NanoValue))))
__CPROVER_requires(__verif_hstore == (void *)O_STORE(REL_PN) && __verif_hstn == O_STORE_N(REL_PN))
#endif
__CPROVER_requires(O_HAS_KID(REL_PN) ==> O_KID(REL_PN).tag != TAG_HASHMAP)
__CPROVER_requires(!O_KID_RC(REL_PN) || (VERIF_FRESH(O_KID(REL_PN).as.obj, sizeof(VmHeapHeader)) && HDR(O_KID(REL_PN))->obj_type == O_KID(REL_PN).tag &&
                                    HDR(O_KID(REL_PN))->ref_count == __verif_krc0))
__CPROVER_requires(__verif_hkidrc == (O_KID_RC(REL_PN) ? 1 : 0))
__CPROVER_assigns(__verif_h, HEAP_DESC(heap), __CPROVER_object_whole(heap->intern_table); O_KID_RC(REL_PN): HDR(O_KID(REL_PN))->ref_count)
__CPROVER_frees(REL_PN
#if REL_HAS_STORE
                , O_STORE(REL_PN)
#endif
                )
#ifdef HEAP_VIEW_CHILD
/* enforced (C14.heap.helper.K): the object and its element store are deallocated */
__CPROVER_ensures(__CPROVER_was_freed(REL_PN))
#if REL_HAS_STORE
__CPROVER_ensures(__verif_hstn == 0 || __CPROVER_was_freed(__verif_hstore))
#endif
#else
/* assumed at the call site in vm_release (C14.heap.release.K): the frees clause lets the object be deallocated (any
 * later use by the caller is then a pointer failure), the two was_freed facts are left out: CBMC 6.11 rejects an ASSUMED
 * __CPROVER_was_freed here ("ptr to always exist in the contract's frees clause" although it does); that the helper ran
 * is recorded in the ghost counter instead */
__CPROVER_ensures(__verif_h.helper_calls == __CPROVER_old(__verif_h.helper_calls) + 1u)
#endif
REL_POST_HEAP
__CPROVER_ensures(__verif_h.kid_calls == __CPROVER_old(__verif_h.kid_calls) + (__verif_hkidrc ? 1u : 0u));
#endif

/* =====================================================================================================
 * containers: constructors and accessors (C14.heap.arr.*, C14.heap.new.*)
 * =====================================================================================================
 * The contracts say what the CODE does with contents and counts ("get/set/remove do not touch counts, pop hands the
 * element over without touching its count, push retains"); which of these are ownership defects in a caller is decided by
 * the opcode obligations C14.step.*.  Sequence view with the ghost index __verif_hk (never assigned: for all k). */
#define VAL_SAME(x, y) ((x).tag == (y).tag && (x).as.i64 == (y).as.i64)
#define ARR_SHAPE(a) ((a)->header.obj_type == TAG_ARRAY && (a)->capacity >= 1 && (a)->capacity <= HEAP_MAX_ELEMS && (a)->length <= (a)->capacity)
#define ARR_WF_PRE(a) (VERIF_FRESH(a, sizeof(VmArray)) && ARR_SHAPE(a) && VERIF_FRESH((a)->elements, (size_t)(a)->capacity * sizeof(NanoValue)))
#define ARR_WF_POST(a) (ARR_SHAPE(a) && __CPROVER_rw_ok((a)->elements, (size_t)(a)->capacity * sizeof(NanoValue)))
#define ARR_SAME_HDR(a) ((a)->header.ref_count == __CPROVER_old((a)->header.ref_count) && (a)->capacity == __CPROVER_old((a)->capacity) && \
                         (a)->elements == __CPROVER_old((a)->elements) && (a)->elem_type == __CPROVER_old((a)->elem_type))
/* __CPROVER_old() snapshots are pointer-checked: the index is clamped to slot 0 (capacity >= 1); uses are guarded */
#define HK_CL(a) (__verif_hk < (a)->length ? __verif_hk : 0u)
#define HK1_CL(a) (__verif_hk + 1u < (a)->length ? __verif_hk + 1u : 0u)
#define ARR_OLD_SAME(a, e) ((e).tag == __CPROVER_old((a)->elements[HK_CL(a)].tag) && (e).as.i64 == __CPROVER_old((a)->elements[HK_CL(a)].as.i64))
#define ARR_OLD1_SAME(a, e) ((e).tag == __CPROVER_old((a)->elements[HK1_CL(a)].tag) && (e).as.i64 == __CPROVER_old((a)->elements[HK1_CL(a)].as.i64))

NanoValue vm_array_get(VmArray *a, uint32_t index)
__CPROVER_requires(ARR_WF_PRE(a))
__CPROVER_assigns()                                                       /* no count is touched */
__CPROVER_ensures(index < a->length ==> VAL_SAME(__CPROVER_return_value, a->elements[index]))
__CPROVER_ensures(index >= a->length ==> __CPROVER_return_value.tag == TAG_VOID);

void vm_array_set(VmArray *a, uint32_t index, NanoValue v)
__CPROVER_requires(ARR_WF_PRE(a))
__CPROVER_assigns(index < a->length: a->elements[index])                  /* the old element's count and v's count are not touched */
__CPROVER_ensures(index < a->length ==> VAL_SAME(a->elements[index], v))
__CPROVER_ensures((__verif_hk < a->length && __verif_hk != index) ==> ARR_OLD_SAME(a, a->elements[__verif_hk]))
__CPROVER_ensures(ARR_SAME_HDR(a) && a->length == __CPROVER_old(a->length));

NanoValue vm_array_pop(VmArray *a)
__CPROVER_requires(ARR_WF_PRE(a))
__CPROVER_assigns(a->length)                                              /* ownership moves to the caller: no count is touched */
__CPROVER_ensures(__CPROVER_old(a->length) == 0 ==> (a->length == 0 && __CPROVER_return_value.tag == TAG_VOID))
__CPROVER_ensures(__CPROVER_old(a->length) > 0 ==> (a->length == __CPROVER_old(a->length) - 1 && VAL_SAME(__CPROVER_return_value, a->elements[a->length])))
__CPROVER_ensures(ARR_SAME_HDR(a));

/* remove: sequence' = sequence without element `index`; the removed element's count is NOT touched (the reference is
 * simply overwritten: C14.step.ARR_REMOVE names the leak) */
void vm_array_remove(VmArray *a, uint32_t index)
__CPROVER_requires(ARR_WF_PRE(a))
__CPROVER_assigns(a->length, __CPROVER_object_whole(a->elements))
__CPROVER_ensures(ARR_SAME_HDR(a))
__CPROVER_ensures(index >= __CPROVER_old(a->length) ==> (a->length == __CPROVER_old(a->length) && (__verif_hk < a->length ==> ARR_OLD_SAME(a, a->elements[__verif_hk]))))
__CPROVER_ensures(index < __CPROVER_old(a->length) ==> a->length == __CPROVER_old(a->length) - 1)
__CPROVER_ensures((index < __CPROVER_old(a->length) && __verif_hk < index) ==> ARR_OLD_SAME(a, a->elements[__verif_hk]))
__CPROVER_ensures((index < __CPROVER_old(a->length) && __verif_hk >= index && __verif_hk < a->length) ==> ARR_OLD1_SAME(a, a->elements[__verif_hk]));

/* push: sequence' = sequence ++ [v]; the store may move (realloc); v is RETAINED (+1) */
void vm_array_push(VmArray *a, NanoValue v)
__CPROVER_requires(ARR_WF_PRE(a))
__CPROVER_requires(a->length < a->capacity || a->capacity <= HEAP_MAX_ELEMS / 2)
__CPROVER_requires(!IS_RC_TAG(v.tag) || v.as.obj == NULL || VERIF_FRESH(v.as.obj, sizeof(VmHeapHeader)))     /* v is not the array itself */
__CPROVER_requires(IS_RC(v) ==> HDR(v)->ref_count == __verif_rc0)
__CPROVER_assigns(__CPROVER_object_whole(a), __CPROVER_object_whole(a->elements); IS_RC(v): HDR(v)->ref_count)
__CPROVER_frees(a->elements)
__CPROVER_ensures(ARR_WF_POST(a) && a->length == __CPROVER_old(a->length) + 1)
__CPROVER_ensures(a->header.ref_count == __CPROVER_old(a->header.ref_count) && a->elem_type == __CPROVER_old(a->elem_type))
__CPROVER_ensures(__CPROVER_old(a->length) < __CPROVER_old(a->capacity)
                  ? (a->capacity == __CPROVER_old(a->capacity) && a->elements == __CPROVER_old(a->elements))
                  : a->capacity == 2 * __CPROVER_old(a->capacity))
__CPROVER_ensures(VAL_SAME(a->elements[a->length - 1], v))
__CPROVER_ensures(__verif_hk < a->length - 1 ==> ARR_OLD_SAME(a, a->elements[__verif_hk]))
__CPROVER_ensures(IS_RC(v) ==> HDR(v)->ref_count == __verif_rc0 + 1u);

/* constructors: a fresh object with count 1 and the right type tag, all slots zero (TAG_VOID) */
#define HEAP_STATS_NEW(heap) (heap->stats.num_objects == __CPROVER_old(heap->stats.num_objects) + 1 && heap->stats.freed == __CPROVER_old(heap->stats.freed))
VmArray *vm_array_new(VmHeap *heap, uint8_t elem_type, uint32_t initial_capacity)
__CPROVER_requires(VERIF_FRESH(heap, sizeof(VmHeap)) && initial_capacity <= HEAP_MAX_ELEMS)
__CPROVER_assigns(heap->stats)
__CPROVER_ensures(__CPROVER_is_fresh(__CPROVER_return_value, sizeof(VmArray)))
__CPROVER_ensures(__CPROVER_return_value->header.ref_count == 1 && ARR_SHAPE(__CPROVER_return_value) && __CPROVER_return_value->length == 0 &&
                  __CPROVER_return_value->elem_type == elem_type && __CPROVER_return_value->capacity == (initial_capacity < 8 ? 8 : initial_capacity))
__CPROVER_ensures(__CPROVER_is_fresh(__CPROVER_return_value->elements, (size_t)__CPROVER_return_value->capacity * sizeof(NanoValue)))
__CPROVER_ensures(__verif_hk < __CPROVER_return_value->capacity ==> (__CPROVER_return_value->elements[__verif_hk].tag == TAG_VOID && __CPROVER_return_value->elements[__verif_hk].as.i64 == 0))
__CPROVER_ensures(HEAP_STATS_NEW(heap));

VmStruct *vm_struct_new(VmHeap *heap, uint32_t def_idx, uint32_t field_count)
__CPROVER_requires(VERIF_FRESH(heap, sizeof(VmHeap)) && field_count <= HEAP_MAX_ELEMS)
__CPROVER_assigns(heap->stats)
__CPROVER_ensures(__CPROVER_is_fresh(__CPROVER_return_value, sizeof(VmStruct)))
__CPROVER_ensures(__CPROVER_return_value->header.ref_count == 1 && __CPROVER_return_value->header.obj_type == TAG_STRUCT &&
                  __CPROVER_return_value->def_idx == def_idx && __CPROVER_return_value->field_count == field_count && __CPROVER_return_value->field_names == NULL)
__CPROVER_ensures(field_count == 0 || __CPROVER_rw_ok(__CPROVER_return_value->fields, (size_t)field_count * sizeof(NanoValue)))
__CPROVER_ensures(__verif_hk < field_count ==> (__CPROVER_return_value->fields[__verif_hk].tag == TAG_VOID && __CPROVER_return_value->fields[__verif_hk].as.i64 == 0))
__CPROVER_ensures(HEAP_STATS_NEW(heap));

VmUnion *vm_union_new(VmHeap *heap, uint32_t def_idx, uint16_t variant, uint16_t field_count)
__CPROVER_requires(VERIF_FRESH(heap, sizeof(VmHeap)))
__CPROVER_assigns(heap->stats)
__CPROVER_ensures(__CPROVER_is_fresh(__CPROVER_return_value, sizeof(VmUnion)))
__CPROVER_ensures(__CPROVER_return_value->header.ref_count == 1 && __CPROVER_return_value->header.obj_type == TAG_UNION &&
                  __CPROVER_return_value->def_idx == def_idx && __CPROVER_return_value->variant == variant && __CPROVER_return_value->field_count == field_count)
__CPROVER_ensures(field_count == 0 || __CPROVER_rw_ok(__CPROVER_return_value->fields, (size_t)field_count * sizeof(NanoValue)))
__CPROVER_ensures(__verif_hk < field_count ==> (__CPROVER_return_value->fields[__verif_hk].tag == TAG_VOID && __CPROVER_return_value->fields[__verif_hk].as.i64 == 0))
__CPROVER_ensures(HEAP_STATS_NEW(heap));

VmTuple *vm_tuple_new(VmHeap *heap, uint32_t count)
__CPROVER_requires(VERIF_FRESH(heap, sizeof(VmHeap)) && count <= HEAP_MAX_ELEMS)
__CPROVER_assigns(heap->stats)
__CPROVER_ensures(__CPROVER_is_fresh(__CPROVER_return_value, sizeof(VmTuple) + (size_t)count * sizeof(NanoValue)))
__CPROVER_ensures(__CPROVER_return_value->header.ref_count == 1 && __CPROVER_return_value->header.obj_type == TAG_TUPLE && __CPROVER_return_value->count == count)
__CPROVER_ensures(__verif_hk < count ==> (__CPROVER_return_value->elements[__verif_hk].tag == TAG_VOID && __CPROVER_return_value->elements[__verif_hk].as.i64 == 0))
__CPROVER_ensures(HEAP_STATS_NEW(heap));

VmClosure *vm_closure_new(VmHeap *heap, uint32_t fn_idx, uint16_t capture_count)
__CPROVER_requires(VERIF_FRESH(heap, sizeof(VmHeap)))
__CPROVER_assigns(heap->stats)
__CPROVER_ensures(__CPROVER_is_fresh(__CPROVER_return_value, sizeof(VmClosure) + (size_t)capture_count * sizeof(NanoValue)))
__CPROVER_ensures(__CPROVER_return_value->header.ref_count == 1 && __CPROVER_return_value->header.obj_type == TAG_FUNCTION &&
                  __CPROVER_return_value->fn_idx == fn_idx && __CPROVER_return_value->capture_count == capture_count)
__CPROVER_ensures(__verif_hk < capture_count ==> (__CPROVER_return_value->captures[__verif_hk].tag == TAG_VOID && __CPROVER_return_value->captures[__verif_hk].as.i64 == 0))
__CPROVER_ensures(HEAP_STATS_NEW(heap));

#endif
