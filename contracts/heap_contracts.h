/* Contracts for the NanoVM reference-counted heap, src/nanovm/heap.c (C14.heap.*, DESIGN 4.2).
 *
 * Value well-formedness (VAL_WF of DESIGN 4.1) as used here: a value whose tag is a heap tag is NULL or points to a
 * live object whose header.obj_type equals the tag.  TAG_FUNCTION values are closures (the VM never builds a bare
 * function-index value: codegen emits CLOSURE_NEW with zero captures for a function reference); hash maps are left out
 * of this unit (see obligations/c14.py META).
 *
 * vm_release is recursive over the object graph.  CBMC has no recursive predicates, so ONE level of the graph is
 * materialised and the ghost flag __verif_h.lvl says how much of the ARGUMENT of a call is materialised:
 *     2  the call under proof: the object, its element store and the HEADER of the child at the ghost index __verif_hk
 *     1  a recursive call on that child (release_* loop iteration i == __verif_hk): its header only
 *     0  a recursive call on any other child: nothing is known, nothing is claimed, nothing is assigned
 * The harness sets lvl = 2; ghost statements inserted in front of the recursive calls (contracts/loops/heap.c.loops)
 * set lvl = (i == __verif_hk).  With --enforce-contract-rec the recursive calls are replaced by THIS contract, whose
 * clauses at lvl 1 are literally the header-level clauses proved at lvl 2 (induction hypothesis on depth).  What is
 * NOT machine-checked (glue, listed in META): that a child's own children are well-formed (VAL_WF holds of the whole
 * heap), and that releasing the children at indices != __verif_hk does not free the child at __verif_hk (that is the
 * census invariant ref_count >= indeg of C14.step.*).
 *
 * Kind of the object under proof at lvl 2: -DVERIF_HKIND=<tag> (case split, strength X); 0 = scalar / NULL.
 */
#ifndef HEAP_CONTRACTS_H
#define HEAP_CONTRACTS_H
#include "verif_common.h"
#include "nanovm/value.h"
#include "nanovm/heap.h"

#define IS_RC_TAG(t) ((t) == TAG_STRING || (t) == TAG_ARRAY || (t) == TAG_STRUCT || (t) == TAG_UNION || \
                      (t) == TAG_TUPLE || (t) == TAG_HASHMAP || (t) == TAG_FUNCTION)
#define IS_RC(v) (IS_RC_TAG((v).tag) && (v).as.obj != NULL)
#define HDR(v) ((VmHeapHeader *)(v).as.obj)

/* ---- the ONE ghost struct of this unit (one assigns target) ---- */
struct verif_heap_ghost {
    int lvl;                 /* see above */
    unsigned kid_calls;      /* vm_release calls delivered to the child at the ghost index (lvl 1 calls) */
};
extern struct verif_heap_ghost __verif_h;
/* ghosts that are never assigned: arbitrary (forall-generalisation), or bound by a requires clause */
extern uint32_t __verif_hk;     /* index of the child of interest */
extern uint32_t __verif_hn;     /* element count of the tuple / closure under proof (fixes the object size) */
extern int      __verif_hkidrc;  /* bound at lvl 2: the child at the ghost index exists and is a heap-tagged non-NULL value */
extern void    *__verif_hstore;  /* bound at lvl 2: the element store of the object under proof */
extern uint32_t __verif_hstn;    /* bound at lvl 2: the number of entries of that store */
extern uint32_t __verif_krc0;    /* bound at lvl 2: entry value of the reference count of that child */
extern uint32_t __verif_rc0;    /* entry value of the reference count of the object under consideration
                                   (__CPROVER_old() snapshots are taken unconditionally, i.e. also when v is a scalar
                                   and the pointer is junk: the entry value is bound by a requires clause instead) */

#ifndef VERIF_HKIND
#define VERIF_HKIND 0
#endif

/* resource bounds (assumptions, META): element counts for which  count * sizeof(NanoValue)  and the doubling in
 * array_grow stay far away from uint32 wrap */
#define HEAP_MAX_ELEMS (1u << 20)

/* =====================================================================================================
 * vm_retain: only the reference count of a heap-tagged non-NULL value, +1; nothing for scalars / NULL
 * ===================================================================================================== */
void vm_retain(NanoValue v)
__CPROVER_requires(!IS_RC_TAG(v.tag) || v.as.obj == NULL || VERIF_FRESH(v.as.obj, sizeof(VmHeapHeader)))
__CPROVER_requires(IS_RC(v) ==> HDR(v)->ref_count == __verif_rc0)
__CPROVER_assigns(IS_RC(v): HDR(v)->ref_count)
__CPROVER_ensures(IS_RC(v) ==> HDR(v)->ref_count == __verif_rc0 + 1u);

/* =====================================================================================================
 * vm_release
 * ===================================================================================================== */
/* the element store / element count / child of the object under proof, per kind */
#if VERIF_HKIND == 7        /* TAG_ARRAY */
#define REL_OBJ_SIZE sizeof(VmArray)
#define REL_COUNT(v) ((v).as.array->length)
#define REL_STORE(v) ((v).as.array->elements)
#define REL_STORE_N(v) ((v).as.array->capacity)
#define REL_SHAPE(v) ((v).as.array->capacity >= 1 && (v).as.array->capacity <= HEAP_MAX_ELEMS && (v).as.array->length <= (v).as.array->capacity)
#define REL_HAS_STORE 1
#elif VERIF_HKIND == 8      /* TAG_STRUCT */
#define REL_OBJ_SIZE sizeof(VmStruct)
#define REL_COUNT(v) ((v).as.sval->field_count)
#define REL_STORE(v) ((v).as.sval->fields)
#define REL_STORE_N(v) ((v).as.sval->field_count)
#define REL_SHAPE(v) ((v).as.sval->field_count <= HEAP_MAX_ELEMS && (v).as.sval->field_names == NULL)
#define REL_HAS_STORE 1
#elif VERIF_HKIND == 10     /* TAG_UNION */
#define REL_OBJ_SIZE sizeof(VmUnion)
#define REL_COUNT(v) ((uint32_t)(v).as.uval->field_count)
#define REL_STORE(v) ((v).as.uval->fields)
#define REL_STORE_N(v) ((uint32_t)(v).as.uval->field_count)
#define REL_SHAPE(v) 1
#define REL_HAS_STORE 1
#elif VERIF_HKIND == 12     /* TAG_TUPLE */
#define REL_OBJ_SIZE (sizeof(VmTuple) + (size_t)__verif_hn * sizeof(NanoValue))
#define REL_COUNT(v) ((v).as.tuple->count)
#define REL_STORE(v) ((v).as.tuple->elements)
#define REL_SHAPE(v) ((v).as.tuple->count == __verif_hn && __verif_hn <= HEAP_MAX_ELEMS)
#define REL_HAS_STORE 0
#elif VERIF_HKIND == 11     /* TAG_FUNCTION: closure */
#define REL_OBJ_SIZE (sizeof(VmClosure) + (size_t)__verif_hn * sizeof(NanoValue))
#define REL_COUNT(v) ((uint32_t)(v).as.closure->capture_count)
#define REL_STORE(v) ((v).as.closure->captures)
#define REL_SHAPE(v) ((v).as.closure->capture_count == __verif_hn)
#define REL_HAS_STORE 0
#elif VERIF_HKIND == 5      /* TAG_STRING */
#define REL_OBJ_SIZE (sizeof(VmString) + 1)
#define REL_SHAPE(v) 1
#define REL_HAS_STORE 0
#else                       /* scalar / NULL */
#define REL_OBJ_SIZE sizeof(VmHeapHeader)
#define REL_SHAPE(v) 1
#define REL_HAS_STORE 0
#endif
#if VERIF_HKIND == 7 || VERIF_HKIND == 8 || VERIF_HKIND == 10 || VERIF_HKIND == 12 || VERIF_HKIND == 11
#define REL_CONTAINER 1
#else
#define REL_CONTAINER 0
#endif

#define REL_L1(v) (__verif_h.lvl >= 1 && IS_RC(v))          /* header materialised */
#define REL_L2(v) (__verif_h.lvl == 2 && IS_RC(v))          /* the object under proof */
#define REL_RC0 ((__verif_h.lvl == 2) ? __verif_rc0 : __verif_krc0)      /* entry count of the argument's object */
#define REL_SIZE ((__verif_h.lvl == 2) ? (size_t)(REL_OBJ_SIZE) : sizeof(VmHeapHeader))
#if REL_CONTAINER
#define REL_KID(v) (REL_STORE(v)[__verif_hk])
#define REL_HAS_KID(v) (REL_L2(v) && __verif_hk < REL_COUNT(v))
#define REL_KID_RC(v) (REL_HAS_KID(v) && IS_RC(REL_KID(v)))
#endif

/* loop invariants of release_*: until the loop reaches the ghost index, the child there is as it was on entry
 * (releases of the OTHER children are lvl-0 calls: they assign nothing in this proof; in the real heap that they do not
 * free this child is the census invariant ref_count >= indeg - glue, see the header comment) */
#define HEAP_KID_UNTOUCHED(kid) (__CPROVER_rw_ok((kid).as.obj, sizeof(VmHeapHeader)) && HDR(kid)->obj_type == (kid).tag && \
                                 HDR(kid)->ref_count == __verif_krc0)

/* the heap descriptor: intern table valid for intern_capacity entries (vm_release of a string walks it) */
#define HEAP_INTERN_MAX 1024u
#define HEAP_OK(h) ((h)->intern_capacity >= 1 && (h)->intern_capacity <= HEAP_INTERN_MAX && (h)->intern_count <= (h)->intern_capacity)

void vm_release(VmHeap *heap, NanoValue v)
/* --- preconditions --- */
__CPROVER_requires(VERIF_FRESH(heap, sizeof(VmHeap)) && HEAP_OK(heap))
__CPROVER_requires(VERIF_FRESH(heap->intern_table, (size_t)heap->intern_capacity * sizeof(VmString *)))
__CPROVER_requires(__verif_h.lvl >= 0 && __verif_h.lvl <= 2)
__CPROVER_requires(__verif_h.lvl < 1 || v.tag != TAG_HASHMAP)                 /* hash maps: not in this unit */
__CPROVER_requires(__verif_h.lvl != 2 || !IS_RC_TAG(v.tag) || v.tag == VERIF_HKIND)      /* case split, call under proof only */
/* VAL_WF of the argument (the contract text of the step harnesses' stub, VM_RELEASE_REQUIRES): live header, type matches tag */
__CPROVER_requires(__verif_h.lvl < 1 || !IS_RC_TAG(v.tag) || v.as.obj == NULL || VERIF_FRESH(v.as.obj, REL_SIZE))
__CPROVER_requires(REL_L1(v) ==> (HDR(v)->obj_type == v.tag && HDR(v)->ref_count == REL_RC0))
/* the object under proof: its shape, its element store, the header of the child at the ghost index */
__CPROVER_requires(REL_L2(v) ==> REL_SHAPE(v))
#if REL_HAS_STORE
__CPROVER_requires(REL_L2(v) ==> ((REL_STORE_N(v) == 0 && REL_STORE(v) == NULL) ||
                                  (REL_STORE_N(v) != 0 && VERIF_FRESH(REL_STORE(v), (size_t)REL_STORE_N(v) * sizeof(NanoValue)))))
#endif
#if REL_HAS_STORE
__CPROVER_requires(REL_L2(v) ==> (__verif_hstore == (void *)REL_STORE(v) && __verif_hstn == REL_STORE_N(v)))
#endif
#if REL_CONTAINER
__CPROVER_requires(REL_HAS_KID(v) ==> REL_KID(v).tag != TAG_HASHMAP)
__CPROVER_requires(REL_KID_RC(v) ==> (VERIF_FRESH(REL_KID(v).as.obj, sizeof(VmHeapHeader)) && HDR(REL_KID(v))->obj_type == REL_KID(v).tag))
__CPROVER_requires(REL_L2(v) ==> __verif_hkidrc == (REL_KID_RC(v) ? 1 : 0))
__CPROVER_requires(REL_KID_RC(v) ==> HDR(REL_KID(v))->ref_count == __verif_krc0)
#endif
/* --- frame --- */
__CPROVER_assigns(__verif_h;
                  REL_L1(v): HDR(v)->ref_count, __CPROVER_object_whole(heap), __CPROVER_object_whole(heap->intern_table)
#if REL_CONTAINER
                  ; REL_KID_RC(v): HDR(REL_KID(v))->ref_count
#endif
                  )
__CPROVER_frees(REL_L1(v): v.as.obj
#if REL_HAS_STORE
                ; REL_L2(v): REL_STORE(v)
#endif
#if REL_CONTAINER
                ; REL_KID_RC(v): REL_KID(v).as.obj
#endif
                )
/* --- postconditions: header level (proved at lvl 2 for every kind, used at lvl 1 as induction hypothesis) --- */
__CPROVER_ensures(__verif_h.lvl == __CPROVER_old(__verif_h.lvl))                /* the level flag is the caller's again */
__CPROVER_ensures((REL_L1(v) && REL_RC0 >= 2) ==> (HDR(v)->ref_count == REL_RC0 - 1u && HDR(v)->obj_type == v.tag))   /* exactly -1, not freed */
__CPROVER_ensures((REL_L1(v) && REL_RC0 == 0) ==> HDR(v)->ref_count == 0)                                         /* no effect */
__CPROVER_ensures((REL_L1(v) && REL_RC0 == 1) ==> __CPROVER_was_freed(v.as.obj))                                  /* freed */
/* the heap descriptor stays well-formed; untouched unless an object dies */
__CPROVER_ensures(heap->intern_table == __CPROVER_old(heap->intern_table) && heap->intern_capacity == __CPROVER_old(heap->intern_capacity))
__CPROVER_ensures(heap->intern_count <= __CPROVER_old(heap->intern_count))
__CPROVER_ensures((__verif_h.lvl >= 1 && (!IS_RC(v) || REL_RC0 != 1)) ==> (heap->intern_count == __CPROVER_old(heap->intern_count) &&
                   heap->stats.freed == __CPROVER_old(heap->stats.freed) && heap->stats.num_objects == __CPROVER_old(heap->stats.num_objects) &&
                   heap->stats.allocated == __CPROVER_old(heap->stats.allocated)))
/* ghost bookkeeping: a release delivered to the child of interest is counted */
__CPROVER_ensures(__CPROVER_old(__verif_h.lvl) == 1 ==> __verif_h.kid_calls == __CPROVER_old(__verif_h.kid_calls) + (IS_RC(v) ? 1u : 0u))
__CPROVER_ensures(__CPROVER_old(__verif_h.lvl) == 0 ==> __verif_h.kid_calls == __CPROVER_old(__verif_h.kid_calls))
/* --- postconditions: the object under proof --- */
#if REL_CONTAINER
/* count == 1: every contained value is released once: the value at the (arbitrary) ghost index got exactly one release */
__CPROVER_ensures((__CPROVER_old(__verif_h.lvl) == 2 && IS_RC(v)) ==>
                  __verif_h.kid_calls == __CPROVER_old(__verif_h.kid_calls) + ((__verif_rc0 == 1 && __verif_hkidrc) ? 1u : 0u))
#else
__CPROVER_ensures(__CPROVER_old(__verif_h.lvl) == 2 ==> __verif_h.kid_calls == __CPROVER_old(__verif_h.kid_calls))
#endif
#if REL_HAS_STORE
__CPROVER_ensures((REL_L2(v) && __verif_rc0 == 1 && __verif_hstn != 0) ==> __CPROVER_was_freed(__verif_hstore))
#endif
;

#endif
