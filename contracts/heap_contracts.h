/* Contracts for the NanoVM reference-counted heap, src/nanovm/heap.c (C14.heap.*).
 * (first step: vm_retain only)
 */
#ifndef HEAP_CONTRACTS_H
#define HEAP_CONTRACTS_H
#include "verif_common.h"
#include "nanovm/value.h"
#include "nanovm/heap.h"

#define IS_RC_TAG(t) ((t) == TAG_STRING || (t) == TAG_ARRAY || (t) == TAG_STRUCT || (t) == TAG_UNION || \
                      (t) == TAG_TUPLE || (t) == TAG_HASHMAP || (t) == TAG_FUNCTION)
#define IS_RC(v) (IS_RC_TAG((v).tag) && (v).as.obj != NULL)
#define HDR(v) ((VmHeapHeader *)(v).as.obj)

/* entry value of the reference count of the object under consideration: an unassigned ghost BOUND by a requires
 * clause (__CPROVER_old() snapshots are taken unconditionally, i.e. also when v is a scalar and the pointer is junk) */
extern uint32_t __verif_rc0;

void vm_retain(NanoValue v)
__CPROVER_requires(!IS_RC_TAG(v.tag) || v.as.obj == NULL || VERIF_FRESH(v.as.obj, sizeof(VmHeapHeader)))
__CPROVER_requires(IS_RC(v) ==> HDR(v)->ref_count == __verif_rc0)
__CPROVER_assigns(IS_RC(v): HDR(v)->ref_count)
__CPROVER_ensures(IS_RC(v) ==> HDR(v)->ref_count == __verif_rc0 + 1u);

#endif
