/* Spec functions for NanoISA instruction encoding (property C11).
 * Written from the property statement + isa.h's documented format:
 *   instruction = 1 opcode byte, then each operand in table order,
 *   little-endian, width fixed by its operand type.
 * These are pure, loop trip counts are compile-time constants (<= 4 operands,
 * <= 8 bytes), so const-unwinding them is complete.
 */
#ifndef SPEC_ISA_H
#define SPEC_ISA_H
#include <stdint.h>
#include <stddef.h>
#include "nanoisa/isa.h"

static inline uint32_t spec_opsize(OperandType t)
{
    return t == OPERAND_U8 ? 1u
         : t == OPERAND_U16 ? 2u
         : (t == OPERAND_U32 || t == OPERAND_I32) ? 4u
         : (t == OPERAND_I64 || t == OPERAND_F64) ? 8u
         : 0u;
}

/* Row of the real table; the table is static in isa.c and visible because
 * isa.c is #included verbatim by the harness TU. */
#define SPEC_ROW(k_) (instruction_table[(uint8_t)(k_)])
#define SPEC_DEFINED(k_) (SPEC_ROW(k_).name != NULL)

static inline uint32_t spec_len(uint8_t op)
{
    uint32_t n = 1;
    for (int i = 0; i < MAX_OPERANDS; i++)
        if (i < SPEC_ROW(op).operand_count)
            n += spec_opsize(SPEC_ROW(op).operands[i]);
    return n;
}

static inline uint32_t spec_off(uint8_t op, int idx)
{
    uint32_t n = 1;
    for (int i = 0; i < MAX_OPERANDS; i++)
        if (i < idx && i < SPEC_ROW(op).operand_count)
            n += spec_opsize(SPEC_ROW(op).operands[i]);
    return n;
}

/* operand i of a DecodedInstruction as a 64-bit pattern, seen through the
 * union member its type names (floats by their bit image, so NaN payloads,
 * -0.0 and inf are compared as bits) */
static inline uint64_t spec_bits(const DecodedInstruction *d, int i, OperandType t)
{
    switch (t) {
    case OPERAND_U8:  return d->operands[i].u8;
    case OPERAND_U16: return d->operands[i].u16;
    case OPERAND_U32: return d->operands[i].u32;
    case OPERAND_I32: return (uint32_t)d->operands[i].i32;
    case OPERAND_I64: return (uint64_t)d->operands[i].i64;
    case OPERAND_F64: return *(const uint64_t *)&d->operands[i].f64;
    default: return 0;
    }
}

/* little-endian value of n (<= 8) bytes */
static inline uint64_t spec_le(const uint8_t *p, uint32_t n)
{
    uint64_t v = 0;
    for (uint32_t j = 0; j < 8; j++)
        if (j < n) v |= ((uint64_t)p[j]) << (8 * j);
    return v;
}

/* buf[0..spec_len(op)) is exactly the encoding of d (opcode K) */
static inline _Bool spec_image_ok(const DecodedInstruction *d, const uint8_t *buf, uint8_t op)
{
    if (buf[0] != op) return 0;
    for (int i = 0; i < MAX_OPERANDS; i++) {
        if (i < SPEC_ROW(op).operand_count) {
            OperandType t = SPEC_ROW(op).operands[i];
            uint32_t sz = spec_opsize(t);
            if (sz != 0 && spec_le(buf + spec_off(op, i), sz) != spec_bits(d, i, t)) return 0;
        }
    }
    return 1;
}

/* d is exactly the decoding of buf (opcode K): every field isa_decode defines */
static inline _Bool spec_decoded_ok(const DecodedInstruction *d, const uint8_t *buf, uint8_t op)
{
    if (d->opcode != op) return 0;
    if (d->operand_count != SPEC_ROW(op).operand_count) return 0;
    if (d->byte_length != spec_len(op)) return 0;
    for (int i = 0; i < MAX_OPERANDS; i++) {
        if (i < SPEC_ROW(op).operand_count) {
            OperandType t = SPEC_ROW(op).operands[i];
            uint32_t sz = spec_opsize(t);
            if (d->operand_types[i] != t) return 0;
            if (sz != 0 && spec_le(buf + spec_off(op, i), sz) != spec_bits(d, i, t)) return 0;
        }
    }
    return 1;
}
#endif
