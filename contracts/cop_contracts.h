/* Contracts for the FFI co-process protocol (src/nanovm/cop_protocol.c) - C15, C16.
 *
 * The codec is recursive (arrays) and its value domain is a tagged union, so one
 * contract text per TAG CLASS is used, selected at compile time (the contract sits on
 * the forward declaration, so it is fixed per translation unit):
 *
 *   -DCOP_VIEW_SCALAR -DVERIF_TAG=k   k in {VOID,INT,FLOAT,BOOL,OPAQUE}: exact codec contract
 *                                     (C15.ser.k / C15.dec.k enforced, C15.codec.k lemma)
 *   -DCOP_VIEW_STRING [-DCOP_STR_ANY] TAG_STRING: exact codec contract, any content, ghost length + ghost index
 *   -DCOP_VIEW_OTHER                  tags outside the transferable set (what the code does with them)
 *   -DCOP_VIEW_SAFE -DCOP_SAFE_CLASS=c   C16: arbitrary bytes, c = 0 scalars+other, 1 string, 2 array
 *        [-DCOP_ALLOC_BOUND]          allocation assumption only for requests <= COP_MAX_PAYLOAD elements
 *   -DCOP_VIEW_IO                     read_all / write_all / cop_recv_* / cop_send under the adversarial OS stubs
 *   -DCOP_VIEW_CALLER                 caller-view (r_ok/w_ok) contracts used to REPLACE calls in vm_ffi.c proofs
 *
 * Buffers are made EXACTLY as long as the image (min(buf_size, image length)) when a
 * contract is enforced, so that any access beyond the image is out of bounds for CBMC.
 * Recursive calls (array arm) are replaced by the contract itself (--enforce-contract-rec).
 */
#ifndef COP_CONTRACTS_H
#define COP_CONTRACTS_H
#include "verif_common.h"
#include <sys/types.h>
#include "nanovm/value.h"
#include "nanovm/heap.h"
#include "nanovm/cop_protocol.h"
#include "spec_cop.h"

/* C16.deser.depth: bound on the decoder's recursion depth that the contract demands (the code's own limit may be lower) */
#ifndef COP_DEPTH_LIMIT
#define COP_DEPTH_LIMIT 1024u
#endif

#ifndef MINSZ
#define MINSZ(a, b) ((a) < (b) ? (a) : (b))
#endif

/* ---- the ONE ghost struct of this unit (one assigns target) ---- */
struct verif_cop_ghost {
    int      os_errno;       /* errno as set by the OS stubs (__errno_location returns &os_errno) */
    uint32_t eintr_budget;   /* how many more times the OS may answer EINTR (arbitrary finite number) */
    uint64_t rd_total;       /* bytes delivered by read() so far */
    uint64_t wr_total;       /* bytes accepted by write() so far */
    unsigned rd_calls, wr_calls;
    int      exited;         /* exit()/abort()/__assert_fail reached */
    int      cop_stopped;    /* vm_ffi_cop_stop reached (C16.call) */
    int      waited;         /* waitpid(pid, .., 0 or WNOHANG) reached for the co-process pid */
    int      killed;
    int      closed_in, closed_out;
    int      inproc_called;  /* fell back to in-process vm_ffi_call */
    uint32_t depth;          /* active recursive frames of deserialize_value_at (C16.deser.depth, ghost statements) */
    /* caller view (C16.call, C15.reqbuf) */
    unsigned req_sent;       /* cop_send(COP_MSG_FFI_REQ) calls */
    int      req_fail;       /* the FFI_REQ send failed */
    int      hdr_fail;       /* a response header receive failed / was rejected */
    int      pay_fail;       /* a payload receive failed */
    uint32_t req_len;        /* payload_len of the last FFI_REQ */
    uint32_t req_idx;        /* payload byte 0 of the last FFI_REQ = low byte of the import index */
    uint16_t req_argc;       /* payload byte 4 of the last FFI_REQ = low byte of the argument count */
    int      started;        /* vm_ffi_cop_start reached */
    int      bad_kill;       /* kill() with a target that is not a single positive pid */
};
extern struct verif_cop_ghost __verif_cop;
/* ghost indices: arbitrary, never assigned (forall-generalisation) */
extern uint32_t __verif_cop_k;      /* byte index into a string */
extern uint32_t __verif_cop_slen;   /* length of the string argument */
/* the peer's scripted reply (caller view): arbitrary, NEVER assigned.  Fixing the reply before the call lets a
 * postcondition say what the caller must do WITH a well-formed reply even on paths where it never asks for the
 * payload (C15.reply.accept): cop_recv_header hands out (type, len), cop_recv_payload succeeds iff pay_ok,
 * cop_deserialize_value decodes iff deser_ok and then yields the value (val_tag, val_bits). */
struct verif_cop_peer {
    uint8_t  type;       /* msg_type of the response header */
    uint32_t len;        /* payload_len of the response header */
    _Bool    pay_ok;     /* the announced payload arrives completely */
    _Bool    deser_ok;   /* the payload bytes decode to a value */
    uint8_t  val_tag;    /* that value */
    uint64_t val_bits;
};
extern struct verif_cop_peer __verif_cop_peer;
#define COP_VAL_BITS(v) (*(const uint64_t *)&(v)->as)

#ifndef VERIF_TAG
#define VERIF_TAG 0
#endif
#define COP_KK ((uint8_t)(VERIF_TAG))

/* =====================================================================
 * heap layer as the codec sees it (ASSUMED here; the heap unit owns them)
 * ===================================================================== */
/* the data range handed to vm_string_new must be readable: THE point of C16.deser.safe.string */
VmString *vm_string_new(VmHeap *heap, const char *data, uint32_t length)
__CPROVER_requires(__CPROVER_rw_ok(heap, sizeof(*heap)))
__CPROVER_requires(length == 0 || __CPROVER_r_ok(data, length))
__CPROVER_assigns(__CPROVER_object_whole(heap))
__CPROVER_ensures(__CPROVER_is_fresh(__CPROVER_return_value, sizeof(VmString) + (size_t)length + 1))
__CPROVER_ensures(__CPROVER_return_value->length == length)
__CPROVER_ensures(__CPROVER_return_value->header.obj_type == TAG_STRING && __CPROVER_return_value->header.ref_count >= 1)
__CPROVER_ensures(__verif_cop_k < length ==> __CPROVER_return_value->data[__verif_cop_k] == data[__verif_cop_k])
__CPROVER_ensures(__CPROVER_return_value->data[length] == '\0');

/* "allocation succeeds" is the framework's standing assumption.  With -DCOP_ALLOC_BOUND it is granted only for
 * requests the input can pay for: at most one element per byte of the largest message (COP_MAX_PAYLOAD elements,
 * 256 MiB); a caller asking for more on the word of the peer is refused by the contract (C16.deser.alloc.array). */
#ifdef COP_ALLOC_BOUND
#define COP_ALLOC_REQ(n) ((n) <= COP_MAX_PAYLOAD)
#else
#define COP_ALLOC_REQ(n) 1
#endif
VmArray *vm_array_new(VmHeap *heap, uint8_t elem_type, uint32_t initial_capacity)
__CPROVER_requires(__CPROVER_rw_ok(heap, sizeof(*heap)))
__CPROVER_requires(COP_ALLOC_REQ(initial_capacity))
__CPROVER_assigns(__CPROVER_object_whole(heap))
__CPROVER_ensures(__CPROVER_is_fresh(__CPROVER_return_value, sizeof(VmArray)))
__CPROVER_ensures(__CPROVER_return_value->length == 0 && __CPROVER_return_value->elem_type == elem_type)
__CPROVER_ensures(__CPROVER_return_value->header.obj_type == TAG_ARRAY && __CPROVER_return_value->header.ref_count == 1);

/* push as the deserialiser sees it: needs a valid array; length grows by one; the element store is private */
void vm_array_push(VmArray *a, NanoValue v)
__CPROVER_requires(__CPROVER_rw_ok(a, sizeof(*a)))
__CPROVER_assigns(__CPROVER_object_whole(a))
__CPROVER_ensures(a->length == __CPROVER_old(a->length) + 1)
__CPROVER_ensures(a->elem_type == __CPROVER_old(a->elem_type))
__CPROVER_ensures(a->header.obj_type == __CPROVER_old(a->header.obj_type) && a->header.ref_count == __CPROVER_old(a->header.ref_count));

/* =====================================================================
 * value codec
 * ===================================================================== */
#if defined(COP_VIEW_SCALAR)
/* ---- exact contract for scalar tag COP_KK ---- */
#define COP_IMG (1u + SPEC_COP_PAYLEN_M(COP_KK))

uint32_t cop_serialize_value(const NanoValue *val, uint8_t *buf, uint32_t buf_size)
__CPROVER_requires(VERIF_FRESH(val, sizeof(*val)))
__CPROVER_requires(val->tag == COP_KK)
__CPROVER_requires(VERIF_FRESH(buf, MINSZ(buf_size, COP_IMG)))
__CPROVER_assigns(__CPROVER_object_whole(buf))
/* returns 0 iff the buffer is too small, else the image length */
__CPROVER_ensures((__CPROVER_return_value == 0) == (buf_size < COP_IMG))
__CPROVER_ensures(__CPROVER_return_value != 0 ==>
                  (__CPROVER_return_value == COP_IMG && spec_cop_scalar_image_ok(val, buf, COP_KK)));

uint32_t cop_deserialize_value(const uint8_t *buf, uint32_t buf_size, NanoValue *out, VmHeap *heap)
__CPROVER_requires(VERIF_FRESH(buf, MINSZ(buf_size, COP_IMG)))
__CPROVER_requires(buf_size == 0 || buf[0] == COP_KK)
__CPROVER_requires(VERIF_FRESH(out, sizeof(*out)))
__CPROVER_assigns(__CPROVER_object_whole(out))
__CPROVER_ensures((__CPROVER_return_value == 0) == (buf_size < COP_IMG))
__CPROVER_ensures(__CPROVER_return_value != 0 ==>
                  (__CPROVER_return_value == COP_IMG && out->tag == COP_KK &&
                   spec_cop_bits(out, COP_KK) == spec_cop_wire_bits(buf + (COP_IMG > 1 ? 1 : 0), COP_KK)));
/* the decoder body is the static helper (depth = array nesting level of this value); same clauses, enforced there */
static uint32_t deserialize_value_at(const uint8_t *buf, uint32_t buf_size, NanoValue *out, VmHeap *heap, uint32_t depth)
/* C16.deser.depth: recursion depth (= C stack use) is bounded whatever the peer sends */
__CPROVER_requires(depth <= COP_DEPTH_LIMIT)
__CPROVER_requires(VERIF_FRESH(buf, MINSZ(buf_size, COP_IMG)))
__CPROVER_requires(buf_size == 0 || buf[0] == COP_KK)
__CPROVER_requires(VERIF_FRESH(out, sizeof(*out)))
__CPROVER_assigns(__CPROVER_object_whole(out))
__CPROVER_ensures((__CPROVER_return_value == 0) == (buf_size < COP_IMG))
__CPROVER_ensures(__CPROVER_return_value != 0 ==>
                  (__CPROVER_return_value == COP_IMG && out->tag == COP_KK &&
                   spec_cop_bits(out, COP_KK) == spec_cop_wire_bits(buf + (COP_IMG > 1 ? 1 : 0), COP_KK)));
#endif

#if defined(COP_VIEW_STRING)
/* ---- exact contract for TAG_STRING, any content, length = ghost __verif_cop_slen ----
 * COP_STR_MAXLEN: the image 5+len must be expressible in the uint32 return value, i.e.
 * len <= 2^32-6.  With -DCOP_STR_ANY the length is unrestricted (then "returns 0 iff the
 * buffer is too small" demands 0 for every 32-bit buf_size). */
#ifdef COP_STR_ANY
#define COP_STR_MAXLEN 0xFFFFFFFFu
#else
#define COP_STR_MAXLEN 0xFFFFFFFAu
#endif
#define COP_SIMG (5u + (uint64_t)__verif_cop_slen)
#define COP_K __verif_cop_k
/* a NULL string pointer is serialised as the empty string (observable difference: comes back non-NULL, length 0).
 * The string object is sizeof(VmString)+len bytes: not even the terminating NUL may be read. */
#define COP_STR_ARG_OK(s) ((s) == NULL ? __verif_cop_slen == 0 : \
        (VERIF_FRESH(s, sizeof(VmString) + (size_t)__verif_cop_slen) && (s)->length == __verif_cop_slen))

uint32_t cop_serialize_value(const NanoValue *val, uint8_t *buf, uint32_t buf_size)
__CPROVER_requires(VERIF_FRESH(val, sizeof(*val)))
__CPROVER_requires(val->tag == TAG_STRING)
__CPROVER_requires(__verif_cop_slen <= COP_STR_MAXLEN)
__CPROVER_requires(COP_STR_ARG_OK(val->as.string))
__CPROVER_requires(VERIF_FRESH(buf, MINSZ((uint64_t)buf_size, COP_SIMG)))
__CPROVER_assigns(__CPROVER_object_whole(buf))
__CPROVER_ensures((__CPROVER_return_value == 0) == ((uint64_t)buf_size < COP_SIMG))
__CPROVER_ensures(__CPROVER_return_value != 0 ==>
                  (__CPROVER_return_value == COP_SIMG && buf[0] == TAG_STRING && COP_LE32(buf + 1) == __verif_cop_slen))
__CPROVER_ensures((__CPROVER_return_value != 0 && COP_K < __verif_cop_slen) ==>
                  buf[5 + (size_t)COP_K] == (uint8_t)val->as.string->data[COP_K]);

/* the buffer object is min(buf_size, 5+len) bytes: bytes after the string are out of bounds */
uint32_t cop_deserialize_value(const uint8_t *buf, uint32_t buf_size, NanoValue *out, VmHeap *heap)
__CPROVER_requires(__verif_cop_slen <= COP_STR_MAXLEN)
__CPROVER_requires(VERIF_FRESH(buf, MINSZ((uint64_t)buf_size, COP_SIMG)))
__CPROVER_requires(buf_size == 0 || buf[0] == TAG_STRING)
__CPROVER_requires(buf_size < 5 || COP_LE32(buf + 1) == __verif_cop_slen)
__CPROVER_requires(VERIF_FRESH(out, sizeof(*out)))
__CPROVER_requires(VERIF_FRESH(heap, sizeof(*heap)))
__CPROVER_assigns(__CPROVER_object_whole(out), __CPROVER_object_whole(heap))
__CPROVER_ensures((__CPROVER_return_value == 0) == ((uint64_t)buf_size < COP_SIMG))
__CPROVER_ensures(__CPROVER_return_value != 0 ==>
                  (__CPROVER_return_value == COP_SIMG && out->tag == TAG_STRING &&
                   __CPROVER_is_fresh(out->as.string, sizeof(VmString) + (size_t)__verif_cop_slen + 1) &&
                   out->as.string->length == __verif_cop_slen && out->as.string->data[__verif_cop_slen] == '\0'))
__CPROVER_ensures((__CPROVER_return_value != 0 && COP_K < __verif_cop_slen) ==>
                  (uint8_t)out->as.string->data[COP_K] == buf[5 + (size_t)COP_K]);
/* the decoder body is the static helper (depth = array nesting level of this value); same clauses, enforced there */
static uint32_t deserialize_value_at(const uint8_t *buf, uint32_t buf_size, NanoValue *out, VmHeap *heap, uint32_t depth)
/* C16.deser.depth: recursion depth (= C stack use) is bounded whatever the peer sends */
__CPROVER_requires(depth <= COP_DEPTH_LIMIT)
__CPROVER_requires(__verif_cop_slen <= COP_STR_MAXLEN)
__CPROVER_requires(VERIF_FRESH(buf, MINSZ((uint64_t)buf_size, COP_SIMG)))
__CPROVER_requires(buf_size == 0 || buf[0] == TAG_STRING)
__CPROVER_requires(buf_size < 5 || COP_LE32(buf + 1) == __verif_cop_slen)
__CPROVER_requires(VERIF_FRESH(out, sizeof(*out)))
__CPROVER_requires(VERIF_FRESH(heap, sizeof(*heap)))
__CPROVER_assigns(__CPROVER_object_whole(out), __CPROVER_object_whole(heap))
__CPROVER_ensures((__CPROVER_return_value == 0) == ((uint64_t)buf_size < COP_SIMG))
__CPROVER_ensures(__CPROVER_return_value != 0 ==>
                  (__CPROVER_return_value == COP_SIMG && out->tag == TAG_STRING &&
                   __CPROVER_is_fresh(out->as.string, sizeof(VmString) + (size_t)__verif_cop_slen + 1) &&
                   out->as.string->length == __verif_cop_slen && out->as.string->data[__verif_cop_slen] == '\0'))
__CPROVER_ensures((__CPROVER_return_value != 0 && COP_K < __verif_cop_slen) ==>
                  (uint8_t)out->as.string->data[COP_K] == buf[5 + (size_t)COP_K]);
#endif

#if defined(COP_VIEW_SAFE)
/* ---- C16: arbitrary bytes (whatever the peer sent) ----
 * One contract for every tag, used both for the call under proof and (as induction hypothesis,
 * --enforce-contract-rec) for the recursive calls of the array arm.  The case split over the tag
 * class applies to the message that starts at offset 0 of the receive buffer only (recursive calls
 * pass buf+pos, pos >= 6, and get the unrestricted contract):
 *   COP_SAFE_CLASS 0: every tag byte except STRING and ARRAY   1: TAG_STRING   2: TAG_ARRAY
 * buf is an object of exactly buf_size bytes: any read at or beyond buf_size is out of bounds. */
#ifndef COP_SAFE_CLASS
#define COP_SAFE_CLASS 0
#endif
/* CBMC 6.11 tool note: after `*out = val_array(arr)` a dereference of out->as.array in a contract clause is
 * resolved against a stale value set (spurious FAILURE), while the same pointer read through the union's first
 * pointer member is resolved correctly (all pointer members share the 8 bytes).  Only the way the clause READS
 * the pointer is affected, not what is claimed. */
#define COP_OUT_ARRAY(o) ((VmArray *)(void *)(o)->as.string)
#define COP_TAG_CLASS(t) ((t) == TAG_STRING ? 1 : (t) == TAG_ARRAY ? 2 : 0)
uint32_t cop_deserialize_value(const uint8_t *buf, uint32_t buf_size, NanoValue *out, VmHeap *heap)
__CPROVER_requires(VERIF_FRESH(buf, buf_size))
#ifdef COP_ALLOC_BOUND
/* every caller hands a received payload: cop_recv_header has checked payload_len <= COP_MAX_PAYLOAD (C16.recv.header) */
__CPROVER_requires(buf_size <= COP_MAX_PAYLOAD)
#endif
__CPROVER_requires(__CPROVER_POINTER_OFFSET(buf) != 0 || buf_size == 0 || COP_TAG_CLASS(buf[0]) == COP_SAFE_CLASS)
__CPROVER_requires(VERIF_FRESH(out, sizeof(*out)))
__CPROVER_requires(VERIF_FRESH(heap, sizeof(*heap)))
__CPROVER_assigns(__CPROVER_object_whole(out), __CPROVER_object_whole(heap))
/* 0 (rejected) or a consumed count within the buffer */
__CPROVER_ensures(__CPROVER_return_value <= buf_size)
__CPROVER_ensures(__CPROVER_return_value != 0 ==> (__CPROVER_return_value >= 1 && COP_IS_TRANSFERABLE(out->tag)))
__CPROVER_ensures(__CPROVER_return_value != 0 ==> (COP_IS_SCALAR(buf[0]) || buf[0] == TAG_STRING || buf[0] == TAG_ARRAY || out->tag == TAG_VOID))
/* well-formed result: heap values point to live objects of the right kind */
__CPROVER_ensures((__CPROVER_return_value != 0 && out->tag == TAG_STRING) ==>
                  (__CPROVER_is_fresh(out->as.string, sizeof(VmString) + 1) && out->as.string->header.obj_type == TAG_STRING))
__CPROVER_ensures((__CPROVER_return_value != 0 && out->tag == TAG_ARRAY) ==>
                  (__CPROVER_is_fresh(out->as.array, sizeof(VmArray)) && COP_OUT_ARRAY(out)->header.obj_type == TAG_ARRAY));
/* the decoder body is the static helper (depth = array nesting level of this value); same clauses, enforced there */
static uint32_t deserialize_value_at(const uint8_t *buf, uint32_t buf_size, NanoValue *out, VmHeap *heap, uint32_t depth)
/* C16.deser.depth: recursion depth (= C stack use) is bounded whatever the peer sends */
__CPROVER_requires(depth <= COP_DEPTH_LIMIT)
#ifdef COP_DEPTH_GHOST
/* ... and the code's depth parameter really is the number of active frames (ghost counter maintained by two inserted
   ghost statements around the recursive call): a recursive call that does not pass depth + 1 fails this precondition */
__CPROVER_requires(__verif_cop.depth == depth)
__CPROVER_ensures(__verif_cop.depth == __CPROVER_old(__verif_cop.depth))
#endif
/* completeness corner (C15: values transfer): an EMPTY array - tag, element type, count 0 - is accepted and consumes exactly its
   6 bytes, also when it is the last thing in the payload (no bytes after it) */
__CPROVER_ensures((depth == 0 && buf_size >= 6 && buf[0] == TAG_ARRAY && buf[2] == 0 && buf[3] == 0 && buf[4] == 0 && buf[5] == 0) ==>
                  __CPROVER_return_value == 6)
__CPROVER_requires(VERIF_FRESH(buf, buf_size))
#ifdef COP_ALLOC_BOUND
/* every caller hands a received payload: cop_recv_header has checked payload_len <= COP_MAX_PAYLOAD (C16.recv.header) */
__CPROVER_requires(buf_size <= COP_MAX_PAYLOAD)
#endif
__CPROVER_requires(__CPROVER_POINTER_OFFSET(buf) != 0 || buf_size == 0 || COP_TAG_CLASS(buf[0]) == COP_SAFE_CLASS)
__CPROVER_requires(VERIF_FRESH(out, sizeof(*out)))
__CPROVER_requires(VERIF_FRESH(heap, sizeof(*heap)))
#ifdef COP_DEPTH_GHOST
__CPROVER_assigns(__CPROVER_object_whole(out), __CPROVER_object_whole(heap), __verif_cop)
#else
__CPROVER_assigns(__CPROVER_object_whole(out), __CPROVER_object_whole(heap))
#endif
/* 0 (rejected) or a consumed count within the buffer */
__CPROVER_ensures(__CPROVER_return_value <= buf_size)
__CPROVER_ensures(__CPROVER_return_value != 0 ==> (__CPROVER_return_value >= 1 && COP_IS_TRANSFERABLE(out->tag)))
__CPROVER_ensures(__CPROVER_return_value != 0 ==> (COP_IS_SCALAR(buf[0]) || buf[0] == TAG_STRING || buf[0] == TAG_ARRAY || out->tag == TAG_VOID))
/* well-formed result: heap values point to live objects of the right kind */
__CPROVER_ensures((__CPROVER_return_value != 0 && out->tag == TAG_STRING) ==>
                  (__CPROVER_is_fresh(out->as.string, sizeof(VmString) + 1) && out->as.string->header.obj_type == TAG_STRING))
__CPROVER_ensures((__CPROVER_return_value != 0 && out->tag == TAG_ARRAY) ==>
                  (__CPROVER_is_fresh(out->as.array, sizeof(VmArray)) && COP_OUT_ARRAY(out)->header.obj_type == TAG_ARRAY));
#endif

#if defined(COP_VIEW_IO)
/* ---- C16: pipe I/O under an adversarial OS ----
 * read()/write() are stub BODIES in harness/cop_h.c (assumed contracts on the OS): any return value in
 * -1..count, arbitrary delivered bytes, arbitrary errno; EINTR at most __verif_cop.eintr_budget more times
 * (an arbitrary 32-bit number: termination is claimed only for finitely many EINTRs). */
/* every caller passes COP_HEADER_SIZE or a uint32_t length */
static bool read_all(int fd, void *buf, size_t len)
__CPROVER_requires(len <= 0xFFFFFFFFu)
__CPROVER_requires(len == 0 || VERIF_FRESH(buf, len))
__CPROVER_assigns(len > 0: __CPROVER_object_upto(buf, len); __verif_cop)
/* success means exactly len bytes were delivered by the OS into buf[0..len) */
__CPROVER_ensures(__CPROVER_return_value ==> __verif_cop.rd_total == __CPROVER_old(__verif_cop.rd_total) + len)
__CPROVER_ensures(!__CPROVER_return_value ==> __verif_cop.rd_total - __CPROVER_old(__verif_cop.rd_total) < len);

static bool write_all(int fd, const void *buf, size_t len)
__CPROVER_requires(len <= 0xFFFFFFFFu)
__CPROVER_requires(len == 0 || VERIF_FRESH(buf, len))
__CPROVER_assigns(__verif_cop)
__CPROVER_ensures(__CPROVER_return_value ==> __verif_cop.wr_total == __CPROVER_old(__verif_cop.wr_total) + len)
__CPROVER_ensures(!__CPROVER_return_value ==> __verif_cop.wr_total - __CPROVER_old(__verif_cop.wr_total) < len);

/* accepted header => version 1 and a payload length the receiver is prepared to allocate */
bool cop_recv_header(int fd, CopMsgHeader *hdr)
__CPROVER_requires(VERIF_FRESH(hdr, sizeof(*hdr)))
__CPROVER_assigns(__CPROVER_object_whole(hdr), __verif_cop)
__CPROVER_ensures(__CPROVER_return_value ==> (hdr->version == COP_PROTO_VERSION && hdr->payload_len <= COP_MAX_PAYLOAD))
__CPROVER_ensures(__CPROVER_return_value ==> __verif_cop.rd_total == __CPROVER_old(__verif_cop.rd_total) + COP_HEADER_SIZE);

bool cop_recv_payload(int fd, void *buf, uint32_t len)
__CPROVER_requires(len == 0 || VERIF_FRESH(buf, len))
__CPROVER_assigns(len > 0: __CPROVER_object_upto(buf, len); __verif_cop)
__CPROVER_ensures(__CPROVER_return_value ==> __verif_cop.rd_total == __CPROVER_old(__verif_cop.rd_total) + len);

/* reads only payload[0..payload_len); on success header + payload went out completely */
bool cop_send(int fd, CopMsgType type, const void *payload, uint32_t payload_len)
__CPROVER_requires(payload == NULL || payload_len == 0 || VERIF_FRESH(payload, payload_len))
__CPROVER_assigns(__verif_cop)
__CPROVER_ensures(__CPROVER_return_value ==> __verif_cop.wr_total == __CPROVER_old(__verif_cop.wr_total) + COP_HEADER_SIZE +
                                             ((payload != NULL) ? payload_len : 0));
#endif

#if defined(COP_VIEW_CALLER)
/* ---- caller view: what vm_ffi_call_cop / vm_ffi_cop_stop may rely on (used to REPLACE calls only) ----
 * cop_serialize_value : conjunction of C15.ser.<scalar> and C15.ser.string (r_ok/w_ok instead of fresh objects)
 * cop_deserialize_value: the C16.deser.safe contract (enforced per tag class; the string class held only after repo
 *                        fix 8d9b21a) + the peer script: whether the bytes decode and to what is __verif_cop_peer
 * cop_send / cop_recv_*: C16.send.cop_send, C16.recv.header, C16.recv.payload + ghost bookkeeping of failures */
#define COP_SLEN(v) ((v)->as.string ? (uint64_t)(v)->as.string->length : (uint64_t)0)
uint32_t cop_serialize_value(const NanoValue *val, uint8_t *buf, uint32_t buf_size)
__CPROVER_requires(__CPROVER_r_ok(val, sizeof(*val)))
__CPROVER_requires(val->tag != TAG_STRING || val->as.string == NULL || __CPROVER_r_ok(val->as.string, sizeof(VmString)))
__CPROVER_requires(buf_size == 0 || __CPROVER_w_ok(buf, buf_size))
__CPROVER_assigns(buf_size > 0: __CPROVER_object_upto(buf, buf_size))
__CPROVER_ensures(__CPROVER_return_value <= buf_size)
__CPROVER_ensures(COP_IS_SCALAR(val->tag) ==> ((__CPROVER_return_value == 0) == (buf_size < 1u + SPEC_COP_PAYLEN_M(val->tag))))
__CPROVER_ensures((COP_IS_SCALAR(val->tag) && __CPROVER_return_value != 0) ==> __CPROVER_return_value == 1u + SPEC_COP_PAYLEN_M(val->tag))
__CPROVER_ensures((val->tag == TAG_STRING && COP_SLEN(val) <= 0xFFFFFFFAu) ==>
                  ((__CPROVER_return_value == 0) == ((uint64_t)buf_size < 5u + COP_SLEN(val))))
__CPROVER_ensures((val->tag == TAG_STRING && COP_SLEN(val) <= 0xFFFFFFFAu && __CPROVER_return_value != 0) ==>
                  __CPROVER_return_value == 5u + COP_SLEN(val));

uint32_t cop_deserialize_value(const uint8_t *buf, uint32_t buf_size, NanoValue *out, VmHeap *heap)
__CPROVER_requires(buf_size == 0 || __CPROVER_r_ok(buf, buf_size))
__CPROVER_requires(__CPROVER_w_ok(out, sizeof(*out)))
__CPROVER_requires(__CPROVER_rw_ok(heap, sizeof(*heap)))
__CPROVER_assigns(__CPROVER_object_upto(out, sizeof(*out)), __CPROVER_object_whole(heap))
__CPROVER_ensures(__CPROVER_return_value <= buf_size)
__CPROVER_ensures(__CPROVER_return_value != 0 ==> COP_IS_TRANSFERABLE(out->tag))
/* the peer's script decides whether the bytes decode, and to what */
__CPROVER_ensures(__CPROVER_return_value != 0 ==> (__verif_cop_peer.deser_ok && out->tag == __verif_cop_peer.val_tag &&
                                                   COP_VAL_BITS(out) == __verif_cop_peer.val_bits))
__CPROVER_ensures((__verif_cop_peer.deser_ok && buf_size > 0 && COP_IS_TRANSFERABLE(__verif_cop_peer.val_tag)) ==> __CPROVER_return_value != 0);

bool cop_send(int fd, CopMsgType type, const void *payload, uint32_t payload_len)
__CPROVER_requires(payload == NULL || payload_len == 0 || __CPROVER_r_ok(payload, payload_len))
__CPROVER_assigns(__verif_cop)
__CPROVER_ensures(type == COP_MSG_FFI_REQ ==> (__verif_cop.req_sent == __CPROVER_old(__verif_cop.req_sent) + 1 &&
                                               __verif_cop.req_len == payload_len &&
                                               __verif_cop.req_fail == !__CPROVER_return_value))
__CPROVER_ensures(type != COP_MSG_FFI_REQ ==> (__verif_cop.req_sent == __CPROVER_old(__verif_cop.req_sent) &&
                                               __verif_cop.req_len == __CPROVER_old(__verif_cop.req_len) &&
                                               __verif_cop.req_fail == __CPROVER_old(__verif_cop.req_fail)))
__CPROVER_ensures(__verif_cop.hdr_fail == __CPROVER_old(__verif_cop.hdr_fail) && __verif_cop.pay_fail == __CPROVER_old(__verif_cop.pay_fail) &&
                  __verif_cop.bad_kill == __CPROVER_old(__verif_cop.bad_kill) && __verif_cop.waited == __CPROVER_old(__verif_cop.waited) &&
                  __verif_cop.started == __CPROVER_old(__verif_cop.started) && __verif_cop.inproc_called == __CPROVER_old(__verif_cop.inproc_called));

bool cop_recv_header(int fd, CopMsgHeader *hdr)
__CPROVER_requires(__CPROVER_w_ok(hdr, sizeof(*hdr)))
__CPROVER_assigns(__CPROVER_object_upto(hdr, sizeof(*hdr)), __verif_cop)
__CPROVER_ensures(__CPROVER_return_value ==> (hdr->version == COP_PROTO_VERSION && hdr->payload_len <= COP_MAX_PAYLOAD))
__CPROVER_ensures(__CPROVER_return_value ==> (hdr->msg_type == __verif_cop_peer.type && hdr->payload_len == __verif_cop_peer.len))
__CPROVER_ensures(__verif_cop.hdr_fail == (__CPROVER_old(__verif_cop.hdr_fail) || !__CPROVER_return_value))
__CPROVER_ensures(__verif_cop.req_sent == __CPROVER_old(__verif_cop.req_sent) && __verif_cop.req_len == __CPROVER_old(__verif_cop.req_len) &&
                  __verif_cop.req_fail == __CPROVER_old(__verif_cop.req_fail) && __verif_cop.pay_fail == __CPROVER_old(__verif_cop.pay_fail) &&
                  __verif_cop.bad_kill == __CPROVER_old(__verif_cop.bad_kill) && __verif_cop.waited == __CPROVER_old(__verif_cop.waited) &&
                  __verif_cop.started == __CPROVER_old(__verif_cop.started) && __verif_cop.inproc_called == __CPROVER_old(__verif_cop.inproc_called));

bool cop_recv_payload(int fd, void *buf, uint32_t len)
__CPROVER_requires(len == 0 || __CPROVER_w_ok(buf, len))
__CPROVER_assigns(len > 0: __CPROVER_object_upto(buf, len); __verif_cop)
__CPROVER_ensures(__CPROVER_return_value == __verif_cop_peer.pay_ok)
__CPROVER_ensures(__verif_cop.pay_fail == (__CPROVER_old(__verif_cop.pay_fail) || !__CPROVER_return_value))
__CPROVER_ensures(__verif_cop.req_sent == __CPROVER_old(__verif_cop.req_sent) && __verif_cop.req_len == __CPROVER_old(__verif_cop.req_len) &&
                  __verif_cop.req_fail == __CPROVER_old(__verif_cop.req_fail) && __verif_cop.hdr_fail == __CPROVER_old(__verif_cop.hdr_fail) &&
                  __verif_cop.bad_kill == __CPROVER_old(__verif_cop.bad_kill) && __verif_cop.waited == __CPROVER_old(__verif_cop.waited) &&
                  __verif_cop.started == __CPROVER_old(__verif_cop.started) && __verif_cop.inproc_called == __CPROVER_old(__verif_cop.inproc_called));
#endif

#if defined(COP_VIEW_OTHER)
/* ---- tags OUTSIDE the transferable set of C15 (U8, BSTRING, STRUCT, ENUM, UNION, FUNCTION, TUPLE, HASHMAP, >= 0x0F):
 * what the code does with them, recorded (not part of the property): the tag byte alone goes out, and any such
 * tag byte comes back as void: the value is silently lost. */
uint32_t cop_serialize_value(const NanoValue *val, uint8_t *buf, uint32_t buf_size)
__CPROVER_requires(VERIF_FRESH(val, sizeof(*val)))
__CPROVER_requires(!COP_IS_TRANSFERABLE(val->tag))
__CPROVER_requires(VERIF_FRESH(buf, MINSZ(buf_size, 1u)))
__CPROVER_assigns(__CPROVER_object_whole(buf))
__CPROVER_ensures((__CPROVER_return_value == 0) == (buf_size < 1))
__CPROVER_ensures(__CPROVER_return_value != 0 ==> (__CPROVER_return_value == 1 && buf[0] == val->tag));

uint32_t cop_deserialize_value(const uint8_t *buf, uint32_t buf_size, NanoValue *out, VmHeap *heap)
__CPROVER_requires(VERIF_FRESH(buf, MINSZ(buf_size, 1u)))
__CPROVER_requires(buf_size == 0 || !COP_IS_TRANSFERABLE(buf[0]))
__CPROVER_requires(VERIF_FRESH(out, sizeof(*out)))
__CPROVER_assigns(__CPROVER_object_whole(out))
__CPROVER_ensures((__CPROVER_return_value == 0) == (buf_size < 1))
__CPROVER_ensures(__CPROVER_return_value != 0 ==> (__CPROVER_return_value == 1 && out->tag == TAG_VOID));
/* the decoder body is the static helper (depth = array nesting level of this value); same clauses, enforced there */
static uint32_t deserialize_value_at(const uint8_t *buf, uint32_t buf_size, NanoValue *out, VmHeap *heap, uint32_t depth)
/* C16.deser.depth: recursion depth (= C stack use) is bounded whatever the peer sends */
__CPROVER_requires(depth <= COP_DEPTH_LIMIT)
__CPROVER_requires(VERIF_FRESH(buf, MINSZ(buf_size, 1u)))
__CPROVER_requires(buf_size == 0 || !COP_IS_TRANSFERABLE(buf[0]))
__CPROVER_requires(VERIF_FRESH(out, sizeof(*out)))
__CPROVER_assigns(__CPROVER_object_whole(out))
__CPROVER_ensures((__CPROVER_return_value == 0) == (buf_size < 1))
__CPROVER_ensures(__CPROVER_return_value != 0 ==> (__CPROVER_return_value == 1 && out->tag == TAG_VOID));
#endif

#endif
