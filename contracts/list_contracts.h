/* Contracts for src/runtime/list_int.c (C20.list.int.*, C08.nat.list_int.*): List_int as the sequence data[0..length).
 * exit(1) is a path end (harness body sets __verif_dyn.exited and assumes false): ensures(P) = "if the call returns, P".
 * Ghost indices: __verif_k (element index), __verif_kb (byte offset, for the memmove contract of dyn_contracts.h). */
#ifndef LIST_CONTRACTS_H
#define LIST_CONTRACTS_H
#include "dyn_contracts.h"      /* ghost struct, ghost indices, memmove contract */
#include "runtime/list_int.h"

#define LIST_CAP_MAX (1 << 28)   /* resource bound (2 GiB of int64): keeps length+1 and capacity*2 inside int; assumption */

#define LIST_SHAPE_OK(l) (0 <= (l)->length && (l)->length <= (l)->capacity && (l)->capacity <= LIST_CAP_MAX)
#define LIST_BYTES(l) (sizeof(int64_t) * (l)->capacity)            /* the expression the code allocates with */
#define LIST_WF_PRE(l) (VERIF_FRESH(l, sizeof(List_int)) && LIST_SHAPE_OK(l) && VERIF_FRESH((l)->data, LIST_BYTES(l)))
#define LIST_WF_POST(l) (0 <= (l)->length && (l)->length <= (l)->capacity && \
                         __CPROVER_rw_ok((l)->data, LIST_BYTES(l)) && __CPROVER_POINTER_OFFSET((l)->data) == 0 && \
                         __CPROVER_OBJECT_SIZE((l)->data) == LIST_BYTES(l) && !__CPROVER_same_object((l)->data, (l)))
#define LIST_SAME_STORE(l) ((l)->capacity == __CPROVER_old((l)->capacity) && (l)->data == __CPROVER_old((l)->data))
#define LIST_OLD_AT(l, k) __CPROVER_old((l)->data[DYN_CLAMP(k, (l)->length)])
#define LIST_OLD_AT_DOWN(l, k) __CPROVER_old((l)->data[DYN_CLAMP((k) - 1, (l)->length)])
#define LIST_OLD_AT_UP(l, k) __CPROVER_old((l)->data[DYN_CLAMP((k) + 1, (l)->length)])
#define LK __verif_k

List_int *list_int_with_capacity(int capacity)
__CPROVER_requires(0 <= capacity && capacity <= LIST_CAP_MAX)
__CPROVER_requires(__verif_dyn.exited == 0)
__CPROVER_assigns(__verif_dyn)
__CPROVER_ensures(__CPROVER_return_value != NULL && LIST_WF_POST(__CPROVER_return_value) &&
                  __CPROVER_return_value->length == 0 && __CPROVER_return_value->capacity == capacity)
__CPROVER_ensures(__verif_dyn.exited == 0);

List_int *list_int_new(void)
__CPROVER_requires(__verif_dyn.exited == 0)
__CPROVER_assigns(__verif_dyn)
__CPROVER_ensures(__CPROVER_return_value != NULL && LIST_WF_POST(__CPROVER_return_value) &&
                  __CPROVER_return_value->length == 0 && __CPROVER_return_value->capacity == 8)
__CPROVER_ensures(__verif_dyn.exited == 0);

int64_t list_int_get(List_int *list, int index)
__CPROVER_requires(LIST_WF_PRE(list))
__CPROVER_requires(__verif_dyn.exited == 0)
__CPROVER_assigns(__verif_dyn)
__CPROVER_ensures(0 <= index && index < list->length)
__CPROVER_ensures(__CPROVER_return_value == list->data[index])
__CPROVER_ensures(__verif_dyn.exited == 0);

void list_int_set(List_int *list, int index, int64_t value)
__CPROVER_requires(LIST_WF_PRE(list))
__CPROVER_requires(__verif_dyn.exited == 0)
__CPROVER_assigns(__verif_dyn; 0 <= index && index < list->length: list->data[index])
__CPROVER_ensures(0 <= index && index < list->length)
__CPROVER_ensures(list->data[index] == value)
__CPROVER_ensures((0 <= LK && LK < list->length && LK != index) ==> list->data[LK] == LIST_OLD_AT(list, LK))
__CPROVER_ensures(__verif_dyn.exited == 0);

int64_t list_int_pop(List_int *list)
__CPROVER_requires(LIST_WF_PRE(list))
__CPROVER_requires(__verif_dyn.exited == 0)
__CPROVER_assigns(__verif_dyn; list->length)
__CPROVER_ensures(__CPROVER_old(list->length) > 0)
__CPROVER_ensures(list->length == __CPROVER_old(list->length) - 1 && LIST_SAME_STORE(list))
__CPROVER_ensures(__CPROVER_return_value == list->data[list->length])
__CPROVER_ensures(__verif_dyn.exited == 0);

void list_int_push(List_int *list, int64_t value)
__CPROVER_requires(LIST_WF_PRE(list))
__CPROVER_requires(__verif_dyn.exited == 0)
__CPROVER_assigns(__verif_dyn; __CPROVER_object_whole(list); __CPROVER_object_whole(list->data))
__CPROVER_frees(list->data)
__CPROVER_ensures(LIST_WF_POST(list))
__CPROVER_ensures(list->length == __CPROVER_old(list->length) + 1)
__CPROVER_ensures(__CPROVER_old(list->length) < __CPROVER_old(list->capacity) ==> LIST_SAME_STORE(list))
__CPROVER_ensures(list->data[list->length - 1] == value)
__CPROVER_ensures((0 <= LK && LK < list->length - 1) ==> list->data[LK] == LIST_OLD_AT(list, LK))
__CPROVER_ensures(__verif_dyn.exited == 0);

/* insert: if it returns, 0 <= index <= length held; sequence' = prefix ++ [value] ++ suffix */
/* case split on whether the store must grow (-DVERIF_LIST_GROW=0|1); together the two cases are all of LIST_WF */
#if defined(VERIF_LIST_GROW) && VERIF_LIST_GROW == 1
#define LIST_GROW_CASE(l) ((l)->length == (l)->capacity)
#elif defined(VERIF_LIST_GROW)
#define LIST_GROW_CASE(l) ((l)->length < (l)->capacity)
#else
#define LIST_GROW_CASE(l) 1
#endif
#ifdef VERIF_LIST_NO_SUFFIX
#define LIST_SUFFIX_ENSURES(c)
#else
#define LIST_SUFFIX_ENSURES(c) __CPROVER_ensures(c)
#endif
void list_int_insert(List_int *list, int index, int64_t value)
__CPROVER_requires(LIST_WF_PRE(list) && LIST_GROW_CASE(list))
__CPROVER_requires(__verif_dyn.exited == 0)
__CPROVER_assigns(__verif_dyn; __CPROVER_object_whole(list); __CPROVER_object_whole(list->data))
__CPROVER_frees(list->data)
__CPROVER_ensures(0 <= index && index <= __CPROVER_old(list->length))
__CPROVER_ensures(LIST_WF_POST(list))
__CPROVER_ensures(list->length == __CPROVER_old(list->length) + 1)
__CPROVER_ensures(list->data[index] == value)
__CPROVER_ensures((0 <= LK && LK < index) ==> list->data[LK] == LIST_OLD_AT(list, LK))
/* suffix, bytewise (the ghost byte of the memmove contract): byte kb of the new store beyond element index is byte kb-8 of the old */
LIST_SUFFIX_ENSURES((8 * ((uint64_t)index + 1) <= __verif_kb && __verif_kb < 8 * (uint64_t)list->length) ==>
                  ((uint8_t *)list->data)[__verif_kb] ==
                  __CPROVER_old(((uint8_t *)list->data)[DYN_UCLAMP(__verif_kb - 8, 8 * (uint64_t)list->length)]))
__CPROVER_ensures(__verif_dyn.exited == 0);

/* remove: if it returns, the index was in range; returns the element; sequence' = sequence without it */
int64_t list_int_remove(List_int *list, int index)
__CPROVER_requires(LIST_WF_PRE(list))
__CPROVER_requires(__verif_dyn.exited == 0)
__CPROVER_assigns(__verif_dyn; list->length; __CPROVER_object_whole(list->data))
__CPROVER_ensures(0 <= index && index < __CPROVER_old(list->length))
__CPROVER_ensures(list->length == __CPROVER_old(list->length) - 1 && LIST_SAME_STORE(list))
__CPROVER_ensures(__CPROVER_return_value == LIST_OLD_AT(list, index))
__CPROVER_ensures((0 <= LK && LK < index) ==> list->data[LK] == LIST_OLD_AT(list, LK))
__CPROVER_ensures((8 * (uint64_t)index <= __verif_kb && __verif_kb < 8 * (uint64_t)list->length) ==>
                  ((uint8_t *)list->data)[__verif_kb] ==
                  __CPROVER_old(((uint8_t *)list->data)[DYN_UCLAMP(__verif_kb + 8, 8 * (uint64_t)list->length)]))
__CPROVER_ensures(__verif_dyn.exited == 0);

void list_int_clear(List_int *list)
__CPROVER_requires(LIST_WF_PRE(list))
__CPROVER_assigns(list->length)
__CPROVER_ensures(list->length == 0 && LIST_SAME_STORE(list));

int list_int_length(List_int *list)
__CPROVER_requires(LIST_WF_PRE(list))
__CPROVER_assigns()
__CPROVER_ensures(__CPROVER_return_value == list->length);

int list_int_capacity(List_int *list)
__CPROVER_requires(LIST_WF_PRE(list))
__CPROVER_assigns()
__CPROVER_ensures(__CPROVER_return_value == list->capacity);

bool list_int_is_empty(List_int *list)
__CPROVER_requires(LIST_WF_PRE(list))
__CPROVER_assigns()
__CPROVER_ensures(__CPROVER_return_value == (list->length == 0));

#ifdef VERIF_LIST_NULL      /* free(NULL list) is a no-op */
void list_int_free(List_int *list)
__CPROVER_requires(list == NULL)
__CPROVER_assigns()
__CPROVER_ensures(1);
#else
void list_int_free(List_int *list)
__CPROVER_requires(LIST_WF_PRE(list))
__CPROVER_assigns()
__CPROVER_frees(list; list->data)
__CPROVER_ensures(__CPROVER_was_freed(list) && __CPROVER_was_freed(__CPROVER_old(list->data)));
#endif
#endif
