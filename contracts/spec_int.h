/* Spec functions for the integer / boolean operators (C02, C01, C03), written from
 * the property statement: 64-bit two's-complement wrapping add/sub/mul/neg; division
 * and remainder truncate toward zero (C99), INT64_MIN / -1 wraps to INT64_MIN with
 * remainder 0; division by zero: the VM is total and yields 0 (isa.h: "div by zero = 0"),
 * the native engine faults (documented). */
#ifndef SPEC_INT_H
#define SPEC_INT_H
#include <stdint.h>
static inline int64_t spec_add(int64_t a, int64_t b) { return (int64_t)((uint64_t)a + (uint64_t)b); }
static inline int64_t spec_sub(int64_t a, int64_t b) { return (int64_t)((uint64_t)a - (uint64_t)b); }
static inline int64_t spec_mul(int64_t a, int64_t b) { return (int64_t)((uint64_t)a * (uint64_t)b); }
static inline int64_t spec_neg(int64_t a) { return (int64_t)(0u - (uint64_t)a); }
static inline int64_t spec_div_vm(int64_t a, int64_t b)
{ return b == 0 ? 0 : (a == INT64_MIN && b == -1) ? INT64_MIN : a / b; }
static inline int64_t spec_mod_vm(int64_t a, int64_t b)
{ return b == 0 ? 0 : (a == INT64_MIN && b == -1) ? 0 : a % b; }
#endif
