/* Contracts for the native runtime container src/runtime/dyn_array.c (C20.dyn.*, C08.nat.dyn.*).
 *
 * Element kinds are a case split: -DVERIF_KIND=<ElementType value> pins arr->elem_type in the
 * precondition (strength X over kinds); lengths, capacities, indices, values and store contents are
 * full-domain symbolic (strength U).  The element size of STRUCT arrays is a further, incomplete case split
 * (-DVERIF_ESZ / -DVERIF_SSZ, see DYN_ESZ_OK): those obligations are labelled bounded.  Typed operations (push/pop/get/set) exist for the kinds
 * int, u8, float, bool, string, array; kind-generic operations (remove_at, clear, reserve, clone,
 * new, new_with_capacity, *_struct) are instantiated for all 8 kinds.
 *
 * Abstract sequence view: the array denotes the sequence  data[0..length)  of elements of
 * elem_size bytes.  Updates are stated with ghost indices that are never assigned (arbitrary):
 *   __verif_k   element index (typed operations)
 *   __verif_kb  byte index into the backing store (kind-generic operations: remove_at, clone, ...)
 * "forall k" is the standard reading of a postcondition over an unassigned ghost.
 *
 * Path ends: assert()/exit()/abort() are given bodies by the harness that set a flag in
 * __verif_dyn and assume(false); hence  ensures(P)  reads "if the call returns then P".
 */
#ifndef DYN_CONTRACTS_H
#define DYN_CONTRACTS_H
#include "verif_common.h"
#include "runtime/dyn_array.h"

struct dyn_ghost {
    int exited;        /* exit()/abort()/__assert_fail reached: the run ended */
    int exit_status;
    int asserted;      /* ... through a failed assert() */
    int aborted;       /* ... through abort() */
};
extern struct dyn_ghost __verif_dyn;
extern int64_t __verif_k;
extern uint64_t __verif_kb;   /* unsigned: offset arithmetic on it wraps instead of overflowing */

/* Resource bound under which "capacity * elem_size" (int64 arithmetic in the code) cannot overflow;
 * recorded as an assumption in META. */
#define DYN_CAP_MAX ((int64_t)1 << 40)
#define DYN_INITIAL_CAPACITY 8      /* what dyn_array_new really gives */

#ifndef VERIF_KIND
#define VERIF_KIND 1
#endif
#define DYN_KIND ((ElementType)VERIF_KIND)

/* spec: size of one element of a kind (written from the element types of the API, not from get_element_size) */
#define DYN_ESZ_OF(t) (((t) == ELEM_U8 || (t) == ELEM_BOOL) ? 1 : 8)

/* ---- per-kind names and types of the typed operations ---- */
#if VERIF_KIND == 1
#define DYN_TYPED 1
#define DYN_F_PUSH dyn_array_push_int
#define DYN_F_POP dyn_array_pop_int
#define DYN_F_GET dyn_array_get_int
#define DYN_F_SET dyn_array_set_int
#define DYN_PUSH_T int64_t
#define DYN_POP_T int64_t
#define DYN_GET_T int64_t
#define DYN_VT int64_t
#define DYN_BITS(x) (x)
#elif VERIF_KIND == 8
#define DYN_TYPED 1
#define DYN_F_PUSH dyn_array_push_u8
#define DYN_F_POP dyn_array_pop_u8
#define DYN_F_GET dyn_array_get_u8
#define DYN_F_SET dyn_array_set_u8
#define DYN_PUSH_T uint8_t
#define DYN_POP_T uint8_t
#define DYN_GET_T uint8_t
#define DYN_VT uint8_t
#define DYN_BITS(x) (x)
#elif VERIF_KIND == 2
#define DYN_TYPED 1
#define DYN_F_PUSH dyn_array_push_float
#define DYN_F_POP dyn_array_pop_float
#define DYN_F_GET dyn_array_get_float
#define DYN_F_SET dyn_array_set_float
#define DYN_PUSH_T double
#define DYN_POP_T double
#define DYN_GET_T double
#define DYN_VT uint64_t               /* bit pattern: NaN payloads must survive too */
#define DYN_BITS(x) (*(uint64_t *)&(x))
#elif VERIF_KIND == 3
#define DYN_TYPED 1
#define DYN_F_PUSH dyn_array_push_string
#define DYN_F_POP dyn_array_pop_string
#define DYN_F_GET dyn_array_get_string
#define DYN_F_SET dyn_array_set_string
#define DYN_PUSH_T const char *
#define DYN_POP_T const char *
#define DYN_GET_T char *
#define DYN_VT const char *
#define DYN_BITS(x) ((const char *)(x))
#elif VERIF_KIND == 4
#define DYN_TYPED 1
#define DYN_F_PUSH dyn_array_push_bool
#define DYN_F_POP dyn_array_pop_bool
#define DYN_F_GET dyn_array_get_bool
#define DYN_F_SET dyn_array_set_bool
#define DYN_PUSH_T bool
#define DYN_POP_T bool
#define DYN_GET_T bool
#define DYN_VT bool
#define DYN_BITS(x) (x)
#elif VERIF_KIND == 5
#define DYN_TYPED 1
#define DYN_F_PUSH dyn_array_push_array
#define DYN_F_POP dyn_array_pop_array
#define DYN_F_GET dyn_array_get_array
#define DYN_F_SET dyn_array_set_array
#define DYN_PUSH_T DynArray *
#define DYN_POP_T DynArray *
#define DYN_GET_T DynArray *
#define DYN_VT DynArray *
#define DYN_BITS(x) (x)
#else
#define DYN_TYPED 0
#endif

/* ---- representation invariant ---- */
/* element size agrees with the kind.  A struct array carries the size of its struct (1..255, elem_size is a uint8_t)
 * or is still in the "fresh" shape dyn_array_new leaves: elem_size 0, data NULL, nothing stored.
 * The element size of a struct array is a further case split (-DVERIF_ESZ=0..255): with a symbolic size every bounds
 * proof needs monotonicity of  index*elem_size <= capacity*elem_size, which no back end bit-blasts in useful time
 * (measured: even dyn_array_get_struct > 150 s on minisat/cadical/kissat/z3/cvc5; 0.3 s per constant size). */
#if VERIF_KIND == 6
#ifdef VERIF_ESZ
#define DYN_ESZ_OK(a) ((a)->elem_size == (VERIF_ESZ) && ((VERIF_ESZ) != 0 || (a)->length == 0))
#else
#define DYN_ESZ_OK(a) ((a)->elem_size != 0 || (a)->length == 0)
#endif
#define DYN_KIND_OK(a) ((a)->elem_type == ELEM_STRUCT)
#elif VERIF_KIND == 0     /* any kind but struct (used where the kind only matters through its size: push_struct promotion) */
#define DYN_KIND_OK(a) ((a)->elem_type == ELEM_INT || (a)->elem_type == ELEM_U8 || (a)->elem_type == ELEM_FLOAT || \
                        (a)->elem_type == ELEM_STRING || (a)->elem_type == ELEM_BOOL || (a)->elem_type == ELEM_ARRAY || \
                        (a)->elem_type == ELEM_POINTER)
#define DYN_ESZ_OK(a) ((a)->elem_size == DYN_ESZ_OF((a)->elem_type))
#else
#define DYN_KIND_OK(a) ((a)->elem_type == DYN_KIND)
#define DYN_ESZ_OK(a) ((a)->elem_size == DYN_ESZ_OF(DYN_KIND))
#endif
#define DYN_BYTES(a) ((size_t)((a)->capacity * (a)->elem_size))       /* the very expression the code allocates with */
#define DYN_SHAPE_OK_(a, kind, eszok) ((a)->elem_type == (kind) && 0 <= (a)->length && (a)->length <= (a)->capacity && \
                                      1 <= (a)->capacity && (eszok))
#define DYN_SHAPE_OK(a) (DYN_KIND_OK(a) && DYN_SHAPE_OK_(a, (a)->elem_type, DYN_ESZ_OK(a)))

/* as a precondition: header and backing store are separate objects of exactly the stated sizes, so that any access
 * outside data[0 .. capacity*elem_size) is an out-of-bounds access for CBMC */
#define DYN_WF_PRE(a) (VERIF_FRESH(a, sizeof(DynArray)) && DYN_SHAPE_OK(a) && (a)->capacity <= DYN_CAP_MAX && \
                       (((a)->elem_size == 0 && (a)->data == NULL) || VERIF_FRESH((a)->data, DYN_BYTES(a))))
/* as a postcondition: same facts about the (possibly reallocated) store */
#define DYN_STORE_OK(a) (((a)->elem_size == 0 && (a)->data == NULL) || \
                         (__CPROVER_rw_ok((a)->data, DYN_BYTES(a)) && __CPROVER_POINTER_OFFSET((a)->data) == 0 && \
                          __CPROVER_OBJECT_SIZE((a)->data) == DYN_BYTES(a) && !__CPROVER_same_object((a)->data, (a))))
#define DYN_WF_POST(a) (DYN_SHAPE_OK(a) && DYN_STORE_OK(a))

/* header fields against their values on entry */
#define DYN_SAME_STORE(a) ((a)->capacity == __CPROVER_old((a)->capacity) && (a)->data == __CPROVER_old((a)->data) && \
                           (a)->elem_size == __CPROVER_old((a)->elem_size) && (a)->elem_type == __CPROVER_old((a)->elem_type))
#define DYN_SAME_HDR(a) (DYN_SAME_STORE(a) && (a)->length == __CPROVER_old((a)->length))

/* typed element view and byte view */
#define DYN_AT(a, k) (((DYN_VT *)(a)->data)[k])
/* __CPROVER_old() takes no conditional expression: the index is clamped to slot 0 (which exists: capacity >= 1)
 * when k is outside [0, length); every use is guarded by k being inside */
#define DYN_CLAMP(k, n) ((k) * (int64_t)(0 <= (k) && (k) < (n)))
#define DYN_UCLAMP(j, n) ((uint64_t)(j) * (uint64_t)((uint64_t)(j) < (uint64_t)(n)))
#define DYN_OLD_AT(a, k) __CPROVER_old(((DYN_VT *)(a)->data)[DYN_CLAMP(k, (a)->length)])
#define DYN_BYTE(a, j) (((uint8_t *)(a)->data)[j])
#define DYN_LEN_BYTES(a) ((uint64_t)((a)->length * (a)->elem_size))
#define DYN_OLD_BYTE(a, j) __CPROVER_old(((uint8_t *)(a)->data)[DYN_UCLAMP(j, DYN_LEN_BYTES(a))])

#define DYN_K __verif_k
#define DYN_KB __verif_kb

/* C08 clauses that the unchanged tree is not expected to meet are only part of the C08 obligations */
#ifdef VERIF_C08
#define DYN_C08_ENSURES(c) __CPROVER_ensures(c)
/* pop_* report an empty array through *success (that is their API); every caller in the tree passes a flag
 * (transpiler templates, stdlib_runtime).  What C08 demands of the runtime function: an empty array is never
 * popped silently - the caller is told.  That the generated expression then stops the program (commit f888f75)
 * is template text, outside this unit (undecided_part). */
#define DYN_C08_POP __CPROVER_requires(success != NULL) __CPROVER_ensures(__CPROVER_old(arr->length) > 0 || *success == false)
#else
#define DYN_C08_ENSURES(c)
#define DYN_C08_POP
#endif

/* ===================== typed operations ===================== */
#if DYN_TYPED

/* get: if it returns, the index was in range and the value is the element; nothing but the ghost is written */
DYN_GET_T DYN_F_GET(DynArray *arr, int64_t index)
__CPROVER_requires(DYN_WF_PRE(arr))
__CPROVER_requires(__verif_dyn.exited == 0)
__CPROVER_assigns(__verif_dyn)
__CPROVER_ensures(0 <= index && index < arr->length)
__CPROVER_ensures(DYN_BITS(__CPROVER_return_value) == DYN_AT(arr, index))
__CPROVER_ensures(__verif_dyn.exited == 0);

/* set: if it returns, the index was in range, element index is the value, every other element is as before */
void DYN_F_SET(DynArray *arr, int64_t index, DYN_PUSH_T value)
__CPROVER_requires(DYN_WF_PRE(arr))
__CPROVER_requires(__verif_dyn.exited == 0)
__CPROVER_assigns(__verif_dyn; 0 <= index && index < arr->length: DYN_AT(arr, index))
__CPROVER_ensures(0 <= index && index < arr->length)
__CPROVER_ensures(DYN_AT(arr, index) == DYN_BITS(value))
__CPROVER_ensures((0 <= DYN_K && DYN_K < arr->length && DYN_K != index) ==> DYN_AT(arr, DYN_K) == DYN_OLD_AT(arr, DYN_K))
__CPROVER_ensures(__verif_dyn.exited == 0);

/* push: sequence' = sequence ++ [value]; the store may move (realloc) */
DynArray *DYN_F_PUSH(DynArray *arr, DYN_PUSH_T value)
__CPROVER_requires(DYN_WF_PRE(arr))
__CPROVER_requires(arr->length < arr->capacity || arr->capacity <= DYN_CAP_MAX / 2)
__CPROVER_requires(__verif_dyn.exited == 0)
__CPROVER_assigns(__verif_dyn; __CPROVER_object_whole(arr); arr->data != NULL: __CPROVER_object_whole(arr->data))
__CPROVER_frees(arr->data)
__CPROVER_ensures(__CPROVER_return_value == arr)
__CPROVER_ensures(DYN_WF_POST(arr))
__CPROVER_ensures(arr->length == __CPROVER_old(arr->length) + 1)
__CPROVER_ensures(arr->elem_size == __CPROVER_old(arr->elem_size))
__CPROVER_ensures(__CPROVER_old(arr->length) < __CPROVER_old(arr->capacity)
                  ? (arr->capacity == __CPROVER_old(arr->capacity) && arr->data == __CPROVER_old(arr->data))
                  : arr->capacity == 2 * __CPROVER_old(arr->capacity))
__CPROVER_ensures(DYN_AT(arr, arr->length - 1) == DYN_BITS(value))
__CPROVER_ensures((0 <= DYN_K && DYN_K < arr->length - 1) ==> DYN_AT(arr, DYN_K) == DYN_OLD_AT(arr, DYN_K))
__CPROVER_ensures(__verif_dyn.exited == 0);

/* pop: C20 view = the total behaviour of the code (empty: no change, *success = false, zero value);
 * C08 view adds what the property demands: reaching the return means the array was not empty */
DYN_POP_T DYN_F_POP(DynArray *arr, bool *success)
__CPROVER_requires(DYN_WF_PRE(arr))
__CPROVER_requires(success == NULL || VERIF_FRESH(success, sizeof(bool)))
__CPROVER_requires(__verif_dyn.exited == 0)
__CPROVER_assigns(__verif_dyn; arr->length; success != NULL: *success)
DYN_C08_POP
__CPROVER_ensures(DYN_SAME_STORE(arr))
__CPROVER_ensures(__CPROVER_old(arr->length) > 0 ==>
                  (arr->length == __CPROVER_old(arr->length) - 1 && (success == NULL || *success == true) &&
                   DYN_BITS(__CPROVER_return_value) == DYN_AT(arr, arr->length)))
__CPROVER_ensures(__CPROVER_old(arr->length) == 0 ==>
                  (arr->length == 0 && (success == NULL || *success == false) && DYN_BITS(__CPROVER_return_value) == (DYN_VT)0))
__CPROVER_ensures(__verif_dyn.exited == 0);
#endif /* DYN_TYPED */

/* the fresh struct shape (-DVERIF_KIND=6 -DVERIF_ESZ=0) has no store: byte-view clauses would dereference NULL in
 * their __CPROVER_old() snapshots and have nothing to say (length is 0) */
#if VERIF_KIND == 6 && defined(VERIF_ESZ) && VERIF_ESZ == 0
#define DYN_HAS_STORE 0
#define DYN_BYTE_ENSURES(c)
#else
#define DYN_HAS_STORE 1
#define DYN_BYTE_ENSURES(c) __CPROVER_ensures(c)
#endif
/* push_struct: "what was stored before is still there" only applies to a struct array that already has elements */
#if VERIF_KIND == 6 && DYN_HAS_STORE
#define DYN_PREFIX_ENSURES(c) __CPROVER_ensures(c)
#else
#define DYN_PREFIX_ENSURES(c)
#endif

/* ===================== libc block copies ===================== */
/* CBMC's built-in memmove/memcpy models (array_copy + array_replace with a symbolic length) cannot be bit-blasted
 * for a symbolic length (measured: > 10 min on every back end inside a DFCC query), so the operations that shift or
 * copy elements are verified against these CONTRACTS of memmove/memcpy (C11 7.24.2.1/2 byte for byte, one ghost byte):
 *   the ghost __verif_kb is read as a byte offset into the object dest points into;
 *   if it lies inside [dest, dest+n) that byte now holds what the corresponding source byte held on entry;
 *   nothing outside [dest, dest+n) is written (frame).
 * The caller owes validity of both regions (that IS the memory-safety obligation of the call).
 * These two contracts are ASSUMED (trusted base: libc block copies behave as C11 specifies).  An attempt to check them
 * against CBMC's built-in models (plain harness, z3) did not terminate in 240 s either. */
#include <string.h>
#define LIBC_J(dest) (__verif_kb - (uint64_t)__CPROVER_POINTER_OFFSET(dest))      /* wraps to a huge value when kb lies below dest */
#define LIBC_J_IN(dest, n) (LIBC_J(dest) < (uint64_t)(n))
#define LIBC_COPY_REQ(dest, src, n) ((n) == 0 || (__CPROVER_w_ok(dest, n) && __CPROVER_r_ok(src, n)))

void *memmove(void *dest, const void *src, size_t n)
__CPROVER_requires(LIBC_COPY_REQ(dest, src, n))
__CPROVER_assigns(n != 0: __CPROVER_object_upto(dest, n))
__CPROVER_ensures(__CPROVER_return_value == dest)
__CPROVER_ensures(LIBC_J_IN(dest, n) ==>
                  ((const uint8_t *)dest)[LIBC_J(dest)] == __CPROVER_old(((const uint8_t *)src)[DYN_UCLAMP(LIBC_J(dest), n)]));

void *memcpy(void *dest, const void *src, size_t n)
__CPROVER_requires(LIBC_COPY_REQ(dest, src, n))
__CPROVER_requires(n == 0 || !__CPROVER_same_object(dest, src) ||
                   (const char *)dest + n <= (const char *)src || (const char *)src + n <= (const char *)dest)   /* no overlap */
__CPROVER_assigns(n != 0: __CPROVER_object_upto(dest, n))
__CPROVER_ensures(__CPROVER_return_value == dest)
__CPROVER_ensures(LIBC_J_IN(dest, n) ==>
                  ((const uint8_t *)dest)[LIBC_J(dest)] == __CPROVER_old(((const uint8_t *)src)[DYN_UCLAMP(LIBC_J(dest), n)]));

/* ===================== kind-generic operations (byte view) ===================== */
#define DYN_OLD_BYTE_UP(a, j) __CPROVER_old(((uint8_t *)(a)->data)[DYN_UCLAMP((j) + (uint64_t)(a)->elem_size, DYN_LEN_BYTES(a))])
#define DYN_OLD_LEN_BYTES(a) ((uint64_t)(__CPROVER_old((a)->length) * __CPROVER_old((a)->elem_size)))
#define DYN_OFF(a, k) ((uint64_t)((k) * (a)->elem_size))          /* byte offset of element k, computed as the code does */

/* remove_at: if it returns the index was in range; sequence' = sequence without element index
 * (bytes below index*elem_size as before, bytes from there on are the old bytes one element further up) */
DynArray *dyn_array_remove_at(DynArray *arr, int64_t index)
__CPROVER_requires(DYN_WF_PRE(arr))
__CPROVER_requires(__verif_dyn.exited == 0)
__CPROVER_assigns(__verif_dyn; arr->length; arr->data != NULL: __CPROVER_object_whole(arr->data))
__CPROVER_ensures(0 <= index && index < __CPROVER_old(arr->length))
__CPROVER_ensures(__CPROVER_return_value == arr)
__CPROVER_ensures(DYN_SAME_STORE(arr))
__CPROVER_ensures(arr->length == __CPROVER_old(arr->length) - 1)
DYN_BYTE_ENSURES(DYN_KB < DYN_OFF(arr, index) ==> DYN_BYTE(arr, DYN_KB) == DYN_OLD_BYTE(arr, DYN_KB))
DYN_BYTE_ENSURES((DYN_OFF(arr, index) <= DYN_KB && DYN_KB < DYN_LEN_BYTES(arr)) ==>
                  DYN_BYTE(arr, DYN_KB) == DYN_OLD_BYTE_UP(arr, DYN_KB))
__CPROVER_ensures(__verif_dyn.exited == 0);

void dyn_array_clear(DynArray *arr)
__CPROVER_requires(DYN_WF_PRE(arr))
__CPROVER_requires(__verif_dyn.exited == 0)
__CPROVER_assigns(__verif_dyn; arr->length)
__CPROVER_ensures(arr->length == 0 && DYN_SAME_STORE(arr))
__CPROVER_ensures(__verif_dyn.exited == 0);

int64_t dyn_array_length(DynArray *arr)
__CPROVER_requires(DYN_WF_PRE(arr))
__CPROVER_assigns(__verif_dyn)
__CPROVER_ensures(__CPROVER_return_value == arr->length);

int64_t dyn_array_capacity(DynArray *arr)
__CPROVER_requires(DYN_WF_PRE(arr))
__CPROVER_assigns(__verif_dyn)
__CPROVER_ensures(__CPROVER_return_value == arr->capacity);

ElementType dyn_array_get_elem_type(DynArray *arr)
__CPROVER_requires(DYN_WF_PRE(arr))
__CPROVER_assigns(__verif_dyn)
__CPROVER_ensures(__CPROVER_return_value == arr->elem_type);

/* reserve: same sequence, capacity' = max(capacity, new_capacity) */
void dyn_array_reserve(DynArray *arr, int64_t new_capacity)
__CPROVER_requires(DYN_WF_PRE(arr))
__CPROVER_requires(new_capacity <= DYN_CAP_MAX)
__CPROVER_requires(__verif_dyn.exited == 0)
__CPROVER_assigns(__verif_dyn; __CPROVER_object_whole(arr); arr->data != NULL: __CPROVER_object_whole(arr->data))
__CPROVER_frees(arr->data)
__CPROVER_ensures(DYN_WF_POST(arr))
__CPROVER_ensures(arr->length == __CPROVER_old(arr->length) && arr->elem_size == __CPROVER_old(arr->elem_size))
__CPROVER_ensures(new_capacity <= __CPROVER_old(arr->capacity)
                  ? (arr->capacity == __CPROVER_old(arr->capacity) && arr->data == __CPROVER_old(arr->data))
                  : arr->capacity == new_capacity)
DYN_BYTE_ENSURES(DYN_KB < DYN_LEN_BYTES(arr) ==> DYN_BYTE(arr, DYN_KB) == DYN_OLD_BYTE(arr, DYN_KB))
__CPROVER_ensures(__verif_dyn.exited == 0);

/* GC allocator boundary (src/runtime/gc.c is not part of this unit): assumed contracts */
void *gc_alloc(size_t size, GCObjectType type)
__CPROVER_requires(1)
__CPROVER_assigns()
__CPROVER_ensures(__CPROVER_return_value == NULL || __CPROVER_is_fresh(__CPROVER_return_value, size));

void gc_release(void *ptr)
__CPROVER_requires(ptr == NULL || __CPROVER_r_ok(ptr, 1))
__CPROVER_assigns()
__CPROVER_ensures(1);

/* new: the empty sequence */
DynArray *dyn_array_new(ElementType elem_type)
__CPROVER_requires(elem_type == DYN_KIND)
__CPROVER_requires(__verif_dyn.exited == 0)
__CPROVER_assigns(__verif_dyn)
__CPROVER_ensures(__CPROVER_return_value == NULL ||
                  (DYN_WF_POST(__CPROVER_return_value) && __CPROVER_return_value->length == 0 &&
                   __CPROVER_return_value->capacity == DYN_INITIAL_CAPACITY))
__CPROVER_ensures(__verif_dyn.exited == 0);

DynArray *dyn_array_new_with_capacity(ElementType elem_type, int64_t initial_capacity)
__CPROVER_requires(elem_type == DYN_KIND)
__CPROVER_requires(initial_capacity <= DYN_CAP_MAX)
__CPROVER_requires(__verif_dyn.exited == 0)
__CPROVER_assigns(__verif_dyn)
__CPROVER_ensures(__CPROVER_return_value == NULL ||
                  (DYN_WF_POST(__CPROVER_return_value) && __CPROVER_return_value->length == 0 &&
                   __CPROVER_return_value->capacity ==
                       (initial_capacity < DYN_INITIAL_CAPACITY ? DYN_INITIAL_CAPACITY : initial_capacity)))
__CPROVER_ensures(__verif_dyn.exited == 0);

/* clone: a new array denoting the same sequence; the source is untouched (frame) */
DynArray *dyn_array_clone(DynArray *arr)
__CPROVER_requires(DYN_WF_PRE(arr))
__CPROVER_requires(__verif_dyn.exited == 0)
__CPROVER_assigns(__verif_dyn)
__CPROVER_ensures(__CPROVER_return_value == NULL ||
                  (!__CPROVER_same_object(__CPROVER_return_value, arr) && DYN_WF_POST(__CPROVER_return_value) &&
                   __CPROVER_return_value->length == arr->length && __CPROVER_return_value->elem_size == arr->elem_size))
__CPROVER_ensures((__CPROVER_return_value != NULL && DYN_KB < DYN_LEN_BYTES(arr)) ==>
                  (!__CPROVER_same_object(__CPROVER_return_value->data, arr->data) &&
                   DYN_BYTE(__CPROVER_return_value, DYN_KB) == DYN_BYTE(arr, DYN_KB)))
__CPROVER_ensures(__verif_dyn.exited == 0);

/* ---- struct variants ---- */
/* struct_size of push_struct: pinned by the code's own assert when the array already has an element size; for a
 * fresh / promoted array it becomes the element size, hence the same case split (-DVERIF_SSZ=1..255, or
 * -DVERIF_SSZ_BIG: > 255, where the call must not return because elem_size is a uint8_t) */
/* a struct has at least one byte; sizes above 255 never get past the code's "elem_size == struct_size" assert, the
 * upper limit only keeps the object a size CBMC can allocate */
#define DYN_SSZ_RANGE(n) ((n) >= 1 && (n) <= ((size_t)1 << 20))
#if defined(VERIF_SSZ)
#define DYN_SSZ_REQ(n) ((n) == (VERIF_SSZ))
#elif defined(VERIF_SSZ_BIG)
#define DYN_SSZ_REQ(n) ((n) > 255)
#else
#define DYN_SSZ_REQ(n) 1
#endif
#define DYN_SBYTE(p, j) (((const uint8_t *)(p))[j])

/* push_struct: any kind on entry (an EMPTY array of another kind is promoted to a struct array);
 * if it returns: struct array with elem_size == struct_size, sequence' = sequence ++ [*struct_ptr] */
DynArray *dyn_array_push_struct(DynArray *arr, const void *struct_ptr, size_t struct_size)
__CPROVER_requires(DYN_WF_PRE(arr))
__CPROVER_requires(arr->length < arr->capacity || arr->capacity <= DYN_CAP_MAX / 2)
__CPROVER_requires(DYN_SSZ_RANGE(struct_size) && DYN_SSZ_REQ(struct_size) && VERIF_FRESH(struct_ptr, struct_size))
__CPROVER_requires(__verif_dyn.exited == 0)
__CPROVER_assigns(__verif_dyn; __CPROVER_object_whole(arr); arr->data != NULL: __CPROVER_object_whole(arr->data))
__CPROVER_frees(arr->data)
__CPROVER_ensures(__CPROVER_return_value == arr)
__CPROVER_ensures(__CPROVER_old(arr->elem_type) == ELEM_STRUCT || __CPROVER_old(arr->length) == 0)
__CPROVER_ensures(DYN_SHAPE_OK_(arr, ELEM_STRUCT, arr->elem_size == struct_size) && DYN_STORE_OK(arr))
__CPROVER_ensures(arr->length == __CPROVER_old(arr->length) + 1)
__CPROVER_ensures((DYN_OFF(arr, arr->length - 1) <= DYN_KB && DYN_KB < DYN_LEN_BYTES(arr)) ==>
                  DYN_BYTE(arr, DYN_KB) == DYN_SBYTE(struct_ptr, DYN_KB - DYN_OFF(arr, arr->length - 1)))
DYN_PREFIX_ENSURES(DYN_KB < DYN_OLD_LEN_BYTES(arr) ==> DYN_BYTE(arr, DYN_KB) == DYN_OLD_BYTE(arr, DYN_KB))
__CPROVER_ensures(__verif_dyn.exited == 0);

#if VERIF_KIND == 6
/* get_struct: C20 view = what the code does (pointer to element index, NULL when out of range);
 * C08 view adds: reaching the return means the index was in range */
void *dyn_array_get_struct(DynArray *arr, int64_t index)
__CPROVER_requires(DYN_WF_PRE(arr))
__CPROVER_requires(__verif_dyn.exited == 0)
__CPROVER_assigns(__verif_dyn)
DYN_C08_ENSURES(0 <= index && index < arr->length)
__CPROVER_ensures((0 <= index && index < arr->length)
                  ? __CPROVER_return_value == (uint8_t *)arr->data + DYN_OFF(arr, index)
                  : __CPROVER_return_value == NULL)
__CPROVER_ensures(__verif_dyn.exited == 0);

void dyn_array_set_struct(DynArray *arr, int64_t index, const void *struct_ptr, size_t struct_size)
__CPROVER_requires(DYN_WF_PRE(arr))
__CPROVER_requires(DYN_SSZ_RANGE(struct_size) && VERIF_FRESH(struct_ptr, struct_size))
__CPROVER_requires(__verif_dyn.exited == 0)
__CPROVER_assigns(__verif_dyn; arr->data != NULL: __CPROVER_object_whole(arr->data))
DYN_C08_ENSURES(0 <= index && index < arr->length)
__CPROVER_ensures(arr->elem_size == struct_size)
#define DYN_IN_ELEM(a, i, j) (0 <= (i) && (i) < (a)->length && DYN_OFF(a, i) <= (j) && (j) < DYN_OFF(a, i) + (a)->elem_size)
DYN_BYTE_ENSURES(DYN_IN_ELEM(arr, index, DYN_KB) ==> DYN_BYTE(arr, DYN_KB) == DYN_SBYTE(struct_ptr, DYN_KB - DYN_OFF(arr, index)))
DYN_BYTE_ENSURES((DYN_KB < DYN_LEN_BYTES(arr) && !DYN_IN_ELEM(arr, index, DYN_KB)) ==> DYN_BYTE(arr, DYN_KB) == DYN_OLD_BYTE(arr, DYN_KB))
__CPROVER_ensures(__verif_dyn.exited == 0);

/* pop_struct: the ghost struct is NOT written in this obligation's harness (-DVERIF_GHOST_OFF) so that the
 * frame stays at three targets */
void dyn_array_pop_struct(DynArray *arr, void *out_struct, size_t struct_size, bool *success)
__CPROVER_requires(DYN_WF_PRE(arr))
__CPROVER_requires(DYN_SSZ_RANGE(struct_size) && VERIF_FRESH(out_struct, struct_size))
__CPROVER_requires(success == NULL || VERIF_FRESH(success, sizeof(bool)))
__CPROVER_assigns(arr->length; __CPROVER_object_whole(out_struct); success != NULL: *success)
DYN_C08_POP
__CPROVER_ensures(DYN_SAME_STORE(arr) && arr->elem_size == struct_size)
__CPROVER_ensures(__CPROVER_old(arr->length) > 0 ==>
                  (arr->length == __CPROVER_old(arr->length) - 1 && (success == NULL || *success == true)))
DYN_BYTE_ENSURES((__CPROVER_old(arr->length) > 0 && DYN_KB < struct_size) ==>
                  DYN_SBYTE(out_struct, DYN_KB) == DYN_BYTE(arr, DYN_OFF(arr, arr->length) + DYN_KB))
__CPROVER_ensures(__CPROVER_old(arr->length) == 0 ==> (arr->length == 0 && (success == NULL || *success == false)));
#endif

#endif
