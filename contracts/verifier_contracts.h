/* Contracts for src/nanoisa/verifier.c (C13.verify.*).  MOD_WF of DESIGN 4.3 as
 * macros over ghost indices (no quantifiers, no calls: usable in loop invariants). */
#ifndef VERIFIER_CONTRACTS_H
#define VERIFIER_CONTRACTS_H
#include "verif_common.h"
#include "nanoisa/nvm_format.h"
#include "nanoisa/verifier.h"
#include "isa_contracts.h"

#include "modwf.h"

extern uint32_t __verif_gf, __verif_gi;      /* ghost function / import index */
extern uint32_t __verif_gpos;                /* ghost instruction offset */

/* Precondition "function fn_idx passed verify_structure".  When verify_function itself is
 * enforced it is required outright.  In the caller's proof (nvm_verify) verify_structure's
 * postcondition is available for the ghost index gf only, so the caller is checked at the call
 * where fn_idx == gf; gf is arbitrary and never assigned, hence every call satisfies it
 * (forall-generalisation over the ghost, the standard reading of a ghost index). */
#ifdef VERIF_VIEW_CALLER
#define FN_PRE(mod, f) ((f) != __verif_gf || FN_OK(mod, f))
#define VERIF_HIT_PRE 1
#else
#define FN_PRE(mod, f) FN_OK(mod, f)
#define VERIF_HIT_PRE (__verif_g.hit == 0 && __verif_g.walk_end == 0)
#endif

static NvmVerifyResult verify_structure(const NvmModule *mod)
__CPROVER_requires(MODV_PRE(mod))
__CPROVER_assigns()
__CPROVER_ensures(__CPROVER_return_value.ok ==> ENTRY_OK(mod))
__CPROVER_ensures((__CPROVER_return_value.ok && __verif_gf < mod->function_count) ==> FN_OK(mod, __verif_gf))
__CPROVER_ensures((__CPROVER_return_value.ok && __verif_gi < mod->import_count) ==> IMP_OK(mod, __verif_gi));

/* ghost-bound copies of verify_function's view of the function under verification (bound by a requires clause;
 * the module is const for the verifier, so they stay equal to code + code_offset / code_length) */
extern const uint8_t *__verif_c;
extern uint32_t __verif_end;

static NvmVerifyResult verify_function(const NvmModule *mod, uint32_t fn_idx)
__CPROVER_requires(MODV_PRE(mod))
__CPROVER_requires(fn_idx < mod->function_count && FN_PRE(mod, fn_idx))
__CPROVER_requires(VERIF_HIT_PRE)
__CPROVER_assigns(__verif_g)
__CPROVER_ensures(fn_idx == __verif_gf ==> __verif_g.fnv == 1)
__CPROVER_ensures(fn_idx != __verif_gf ==> __verif_g.fnv == __CPROVER_old(__verif_g.fnv))
__CPROVER_ensures(__verif_g.verified_module == __CPROVER_old(__verif_g.verified_module))
/* __verif_g.iok is assigned by an inserted ghost statement just before `return ok_result()`:
 *   iok = !hit || INSTR_OK over the function's own locals code (= mod->code + code_offset) and code_end (= code_length) */
__CPROVER_ensures(__CPROVER_return_value.ok ==> __verif_g.iok)
/* the walk covers the function exactly: it ends at code_length, never beyond */
__CPROVER_ensures(__CPROVER_return_value.ok ==> __verif_g.walk_end == mod->functions[fn_idx].code_length);

NvmVerifyResult nvm_verify(const NvmModule *mod)
__CPROVER_requires(MODV_PRE(mod))
__CPROVER_requires(__verif_g.fnv == 0)
__CPROVER_assigns(__verif_g)
/* accepted => structure holds and every function went through verify_function */
__CPROVER_ensures(__CPROVER_return_value.ok ==> ENTRY_OK(mod))
__CPROVER_ensures((__CPROVER_return_value.ok && __verif_gf < mod->function_count) ==> (FN_OK(mod, __verif_gf) && __verif_g.fnv == 1))
__CPROVER_ensures((__CPROVER_return_value.ok && __verif_gi < mod->import_count) ==> IMP_OK(mod, __verif_gi))
__CPROVER_ensures(__CPROVER_return_value.ok ==> __verif_g.verified_module == mod);

#endif
