/* Contracts for src/nanoisa/verifier.c (C13.verify.*).  MOD_WF of DESIGN 4.3 as
 * macros over ghost indices (no quantifiers, no calls: usable in loop invariants). */
#ifndef VERIFIER_CONTRACTS_H
#define VERIFIER_CONTRACTS_H
#include "verif_common.h"
#include "nanoisa/nvm_format.h"
#include "nanoisa/verifier.h"
#include "isa_contracts.h"

#define NVM_MAX_FILE (100u * 1024u * 1024u)
#ifndef LE32
#define LE16(p) ((uint16_t)((uint16_t)(p)[0] | ((uint16_t)(p)[1] << 8)))
#define LE32(p) ((uint32_t)(p)[0] | ((uint32_t)(p)[1] << 8) | ((uint32_t)(p)[2] << 16) | ((uint32_t)(p)[3] << 24))
#endif

/* what the loader hands to the verifier: counts within the file-size bound, arrays valid for `count` entries */
#define MODV_PRE(mod) ( \
    VERIF_FRESH(mod, sizeof(NvmModule)) && \
    (mod)->function_count <= NVM_MAX_FILE && (mod)->import_count <= NVM_MAX_FILE && (mod)->code_size <= 16u * NVM_MAX_FILE && \
    VERIF_FRESH((mod)->functions, (size_t)(mod)->function_count * sizeof(NvmFunctionEntry)) && \
    VERIF_FRESH((mod)->imports, (size_t)(mod)->import_count * sizeof(NvmImportEntry)) && \
    VERIF_FRESH((mod)->code, (mod)->code_size))

/* spec: instruction length from the table row, as an expression (slots beyond operand_count are NONE by C11.table.k) */
#define OPSZ_M(t) ((t) == OPERAND_U8 ? 1u : (t) == OPERAND_U16 ? 2u : ((t) == OPERAND_U32 || (t) == OPERAND_I32) ? 4u : \
                   ((t) == OPERAND_I64 || (t) == OPERAND_F64) ? 8u : 0u)
#define ROW_M(k) (instruction_table[(uint8_t)(k)])
#define SPEC_LEN_M(k) (1u + OPSZ_M(ROW_M(k).operands[0]) + OPSZ_M(ROW_M(k).operands[1]) + OPSZ_M(ROW_M(k).operands[2]) + OPSZ_M(ROW_M(k).operands[3]))

#define FN_OK(mod, f) ((mod)->functions[f].code_offset <= (mod)->code_size && \
    (uint64_t)(mod)->functions[f].code_offset + (uint64_t)(mod)->functions[f].code_length <= (uint64_t)(mod)->code_size && \
    (mod)->functions[f].name_idx < (mod)->string_count)
#define IMP_OK(mod, i) ((mod)->imports[i].module_name_idx < (mod)->string_count && (mod)->imports[i].function_name_idx < (mod)->string_count)
#define ENTRY_OK(mod) (!((mod)->header.flags & NVM_FLAG_HAS_MAIN) || (mod)->header.entry_point < (mod)->function_count)

/* instruction at offset p of function f is well-formed (what the VM may rely on) */
#define FCODE(mod, f) ((mod)->code + (mod)->functions[f].code_offset)
#define FEND(mod, f) ((mod)->functions[f].code_length)
#define JTGT(mod, f, p, o) ((int64_t)(p) + (int64_t)(int32_t)LE32(FCODE(mod, f) + (p) + (o)))
#define OPC(mod, f, p) (FCODE(mod, f)[p])
#define IOK_DECODE(mod, f, p) ((p) < FEND(mod, f) && ROW_M(OPC(mod, f, p)).name != NULL && SPEC_LEN_M(OPC(mod, f, p)) <= FEND(mod, f) - (p))
#define IOK_JMP(mod, f, p) ((OPC(mod, f, p) != OP_JMP && OPC(mod, f, p) != OP_JMP_TRUE && OPC(mod, f, p) != OP_JMP_FALSE) || \
        (JTGT(mod, f, p, 1) >= 0 && JTGT(mod, f, p, 1) <= (int64_t)FEND(mod, f)))
#define IOK_MATCH(mod, f, p) (OPC(mod, f, p) != OP_MATCH_TAG || (JTGT(mod, f, p, 3) >= 0 && JTGT(mod, f, p, 3) <= (int64_t)FEND(mod, f)))
#define IOK_CALL(mod, f, p) ((OPC(mod, f, p) != OP_CALL && OPC(mod, f, p) != OP_CLOSURE_NEW) || LE32(FCODE(mod, f) + (p) + 1) < (mod)->function_count)
#define IOK_STR(mod, f, p) (OPC(mod, f, p) != OP_PUSH_STR || LE32(FCODE(mod, f) + (p) + 1) < (mod)->string_count)
#define IOK_EXTERN(mod, f, p) (OPC(mod, f, p) != OP_CALL_EXTERN || LE32(FCODE(mod, f) + (p) + 1) < (mod)->import_count)
#define IOK_LOCAL(mod, f, p) ((OPC(mod, f, p) != OP_LOAD_LOCAL && OPC(mod, f, p) != OP_STORE_LOCAL) || LE16(FCODE(mod, f) + (p) + 1) < (mod)->functions[f].local_count)
/* INSTR_OK = conjunction of the seven parts; each part is proved by its own obligation
 * (-DVERIF_IOK=<part>) because the conjunction makes symbolic execution of the contract itself too slow */
#ifndef VERIF_IOK
#define INSTR_OK(mod, f, p) 1
#else
#define INSTR_OK(mod, f, p) VERIF_IOK(mod, f, p)
#endif

extern uint32_t __verif_gf, __verif_gi;      /* ghost function / import index */
extern uint32_t __verif_gpos;                /* ghost instruction offset */

/* Precondition "function fn_idx passed verify_structure".  When verify_function itself is
 * enforced it is required outright.  In the caller's proof (nvm_verify) verify_structure's
 * postcondition is available for the ghost index gf only, so the caller is checked at the call
 * where fn_idx == gf; gf is arbitrary and never assigned, hence every call satisfies it
 * (forall-generalisation over the ghost, the standard reading of a ghost index). */
#ifdef VERIF_VIEW_CALLER
#define FN_PRE(mod, f) ((f) != __verif_gf || FN_OK(mod, f))
#define VERIF_HIT_PRE 1
#else
#define FN_PRE(mod, f) FN_OK(mod, f)
#define VERIF_HIT_PRE (__verif_g.hit == 0 && __verif_g.walk_end == 0)
#endif

static NvmVerifyResult verify_structure(const NvmModule *mod)
__CPROVER_requires(MODV_PRE(mod))
__CPROVER_assigns()
__CPROVER_ensures(__CPROVER_return_value.ok ==> ENTRY_OK(mod))
__CPROVER_ensures((__CPROVER_return_value.ok && __verif_gf < mod->function_count) ==> FN_OK(mod, __verif_gf))
__CPROVER_ensures((__CPROVER_return_value.ok && __verif_gi < mod->import_count) ==> IMP_OK(mod, __verif_gi));

static NvmVerifyResult verify_function(const NvmModule *mod, uint32_t fn_idx)
__CPROVER_requires(MODV_PRE(mod))
__CPROVER_requires(fn_idx < mod->function_count && FN_PRE(mod, fn_idx))
__CPROVER_requires(VERIF_HIT_PRE)
__CPROVER_assigns(__verif_g)
__CPROVER_ensures(fn_idx == __verif_gf ==> __verif_g.fnv == 1)
__CPROVER_ensures(fn_idx != __verif_gf ==> __verif_g.fnv == __CPROVER_old(__verif_g.fnv))
__CPROVER_ensures(__verif_g.verified_module == __CPROVER_old(__verif_g.verified_module))
__CPROVER_ensures((__CPROVER_return_value.ok && __verif_g.hit) ==> INSTR_OK(mod, fn_idx, __verif_gpos))
/* the walk covers the function exactly: it ends at code_length, never beyond */
__CPROVER_ensures(__CPROVER_return_value.ok ==> __verif_g.walk_end == mod->functions[fn_idx].code_length);

NvmVerifyResult nvm_verify(const NvmModule *mod)
__CPROVER_requires(MODV_PRE(mod))
__CPROVER_requires(__verif_g.fnv == 0)
__CPROVER_assigns(__verif_g)
/* accepted => structure holds and every function went through verify_function */
__CPROVER_ensures(__CPROVER_return_value.ok ==> ENTRY_OK(mod))
__CPROVER_ensures((__CPROVER_return_value.ok && __verif_gf < mod->function_count) ==> (FN_OK(mod, __verif_gf) && __verif_g.fnv == 1))
__CPROVER_ensures((__CPROVER_return_value.ok && __verif_gi < mod->import_count) ==> IMP_OK(mod, __verif_gi))
__CPROVER_ensures(__CPROVER_return_value.ok ==> __verif_g.verified_module == mod);

#endif
