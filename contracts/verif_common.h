/* Shared definitions for all /verif harness translation units. */
#ifndef VERIF_COMMON_H
#define VERIF_COMMON_H
#include <stdint.h>
#include <stddef.h>
#include <stdbool.h>

/* All ghost state lives in ONE struct so that it is one assigns target
 * (DESIGN 3.5: the DFCC library loops are unwound per assigns target). */
struct verif_ghost {
    /* path-end bookkeeping */
    int exited;            /* exit()/abort()/__assert_fail reached */
    int exit_status;
    int asserted;          /* __assert_fail reached */
    /* checksum bookkeeping (C12) */
    const uint8_t *crc_ptr; uint32_t crc_len; uint32_t crc_res; unsigned crc_seq;
    unsigned seq;          /* event counter */
    unsigned module_new_seq;
    int partial;           /* loader: some known section was not consumed to its end (C12.whole) */
    int unconsumed;        /* loader: an entry loop ended although a complete entry was still left (C10.load.complete) */
    /* execute / verify bookkeeping (C13, C18, C05) */
    const void *verified_module;
    int executed;
    int artifact_written;
    int sigpipe_ignored;
    /* verifier walk bookkeeping (C13.verify) */
    int hit;               /* the linear walk visited ghost offset __verif_gpos */
    uint32_t walk_end;     /* offset at which the walk stands */
    int fnv;               /* verify_function entered for ghost function __verif_gf */
    int iok;               /* at the accepting return of verify_function: !hit || INSTR_OK(ghost offset) */
    /* crc loop coverage (C12.crc.cover) */
    uint32_t seen, last;
    /* release bookkeeping (C14) */
    unsigned release_calls;
};
extern struct verif_ghost __verif_g;

uint8_t  nondet_u8(void);
uint16_t nondet_u16(void);
uint32_t nondet_u32(void);
uint64_t nondet_u64(void);
int32_t  nondet_i32(void);
int64_t  nondet_i64(void);
int      nondet_int(void);
size_t   nondet_size(void);
_Bool    nondet_bool(void);
double   nondet_double(void);
void    *nondet_ptr(void);


/* Reachability guard: an assertion that MUST FAIL.  tools/vc.py treats a
 * property whose description starts with "COVER" as discharged iff CBMC
 * reports FAILURE for it (the point is reachable with the condition true);
 * SUCCESS there means a vacuous harness and makes the run undecided. */
#ifdef VERIF_WITNESS
#define VERIF_COVER(c) ((void)0)
#else
#define VERIF_COVER(c) __CPROVER_assert(!(c), "COVER " #c)
#endif

/* Pointer precondition of an enforced contract: fresh exact-sized object in the
 * proof; in witness mode (counterexample search after a refutation) the harness
 * has allocated the object itself from named in_* globals. */
#ifdef VERIF_WITNESS
#define VERIF_FRESH(p, n) __CPROVER_r_ok(p, n)
#else
#define VERIF_FRESH(p, n) __CPROVER_is_fresh(p, n)
#endif

#endif
