/* Shared definitions for all /verif harness translation units. */
#ifndef VERIF_COMMON_H
#define VERIF_COMMON_H
#include <stdint.h>
#include <stddef.h>
#include <stdbool.h>

/* All ghost state lives in ONE struct so that it is one assigns target
 * (DESIGN 3.5: the DFCC library loops are unwound per assigns target). */
struct verif_ghost {
    /* path-end bookkeeping */
    int exited;            /* exit()/abort()/__assert_fail reached */
    int exit_status;
    int asserted;          /* __assert_fail reached */
    /* checksum bookkeeping (C12) */
    const uint8_t *crc_ptr; uint32_t crc_len; uint32_t crc_res; unsigned crc_seq;
    unsigned seq;          /* event counter */
    unsigned module_new_seq;
    /* execute / verify bookkeeping (C13, C18, C05) */
    const void *verified_module;
    int executed;
    int artifact_written;
    int sigpipe_ignored;
    /* release bookkeeping (C14) */
    unsigned release_calls;
};
extern struct verif_ghost __verif_g;

uint8_t  nondet_u8(void);
uint16_t nondet_u16(void);
uint32_t nondet_u32(void);
uint64_t nondet_u64(void);
int32_t  nondet_i32(void);
int64_t  nondet_i64(void);
int      nondet_int(void);
size_t   nondet_size(void);
_Bool    nondet_bool(void);
double   nondet_double(void);
void    *nondet_ptr(void);


/* Reachability guard: an assertion that MUST FAIL.  tools/vc.py treats a
 * property whose description starts with "COVER" as discharged iff CBMC
 * reports FAILURE for it (the point is reachable with the condition true);
 * SUCCESS there means a vacuous harness and makes the run undecided. */
#define VERIF_COVER(c) __CPROVER_assert(!(c), "COVER " #c)

#endif
