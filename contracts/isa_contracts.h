/* Contracts of the public NanoISA codec (src/nanoisa/isa.c).
 *
 * One contract text, two instantiations:
 *   per-opcode  (harness/isa_h.c, -DVERIF_K=k): ISA_KK_* is the constant k and the
 *               extra precondition pins the opcode byte; each is ENFORCED against
 *               the real function for every k in 0..255 (C11.enc.k / C11.dec.k).
 *   general     (default): ISA_KK_* is the opcode byte itself; used only to REPLACE
 *               calls in callers (verifier, VM).  It is the conjunction over k of the
 *               per-opcode contracts (case split over a finite key; the only
 *               difference is the pointer predicate: fresh exact-sized objects when
 *               enforced, "valid and not overlapping" when a caller is checked).
 */
#ifndef ISA_CONTRACTS_H
#define ISA_CONTRACTS_H
#include "verif_common.h"
#include "nanoisa/isa.h"
/* tentative definition; completed by the initialised definition in isa.c */
static const InstructionInfo instruction_table[256];
#include "spec_isa.h"

#ifndef MINSZ
#define MINSZ(a, b) ((a) < (b) ? (a) : (b))
#endif

#ifndef ISA_KK_ENC
#define ISA_KK_ENC (instr->opcode)
#define ISA_KK_DEC ((uint8_t)(buf_size ? buf[0] : 0))
#define ISA_REQ_ENC 1
#define ISA_REQ_DEC 1
#define ISA_PTR_R(p, n) ((n) == 0 || __CPROVER_r_ok(p, n))
#define ISA_PTR_W(p, n) ((n) == 0 || __CPROVER_w_ok(p, n))
#define ISA_PTR_R1(p, n) ISA_PTR_R(p, n)
#define ISA_SEP(p, q) (!__CPROVER_same_object(p, q))
/* general frame: len <= ISA_MAX_INSTRUCTION_SIZE by C11.table.k */
#define ISA_ASSIGNS_ENC buf_size >= ISA_MAX_INSTRUCTION_SIZE: __CPROVER_object_upto(buf, ISA_MAX_INSTRUCTION_SIZE); buf_size < ISA_MAX_INSTRUCTION_SIZE: __CPROVER_object_upto(buf, buf_size)
#endif

/* The buffer object is made exactly min(buf_size, spec_len(K)) bytes long when the
 * contract is enforced, so that any access at or beyond the instruction's length is
 * an out-of-bounds access for CBMC: "touches only buf[0..len)" is part of the
 * obligation. */
uint32_t isa_encode(const DecodedInstruction *instr, uint8_t *buf, size_t buf_size)
__CPROVER_requires(ISA_PTR_R(instr, sizeof(*instr)))
__CPROVER_requires(ISA_REQ_ENC)
__CPROVER_requires(ISA_PTR_W(buf, MINSZ(buf_size, (size_t)spec_len(ISA_KK_ENC))))
__CPROVER_requires(ISA_SEP(instr, buf))
__CPROVER_assigns(ISA_ASSIGNS_ENC)
__CPROVER_ensures((__CPROVER_return_value == 0) ==
                  (!SPEC_DEFINED(ISA_KK_ENC) || buf_size < spec_len(ISA_KK_ENC)))
__CPROVER_ensures(__CPROVER_return_value != 0 ==>
                  (__CPROVER_return_value == spec_len(ISA_KK_ENC) && spec_image_ok(instr, buf, ISA_KK_ENC)));

uint32_t isa_decode(const uint8_t *buf, size_t buf_size, DecodedInstruction *out)
__CPROVER_requires(ISA_PTR_R1(buf, MINSZ(buf_size, (size_t)1)))   /* general form reads buf[0] to know K */
__CPROVER_requires(ISA_PTR_R(buf, MINSZ(buf_size, (size_t)spec_len(ISA_KK_DEC))))
__CPROVER_requires(ISA_REQ_DEC)
__CPROVER_requires(ISA_PTR_W(out, sizeof(*out)))
__CPROVER_requires(ISA_SEP(buf, out))
__CPROVER_assigns(__CPROVER_object_upto(out, sizeof(*out)))
__CPROVER_ensures((__CPROVER_return_value == 0) ==
                  (buf_size == 0 || !SPEC_DEFINED(ISA_KK_DEC) || buf_size < spec_len(ISA_KK_DEC)))
__CPROVER_ensures(__CPROVER_return_value != 0 ==>
                  (__CPROVER_return_value == spec_len(ISA_KK_DEC) && spec_decoded_ok(out, buf, ISA_KK_DEC)));

const InstructionInfo *isa_get_info(uint8_t opcode)
__CPROVER_assigns()
__CPROVER_ensures((__CPROVER_return_value == NULL) == (instruction_table[opcode].name == NULL))
__CPROVER_ensures(__CPROVER_return_value == NULL ||
                  __CPROVER_return_value == &instruction_table[opcode]);

uint32_t isa_operand_size(OperandType type)
__CPROVER_assigns()
__CPROVER_ensures(__CPROVER_return_value == spec_opsize(type));
#endif
