/* Spec functions for the template-catalogue obligations on strings and floats (C01.agree.streq / strne, C0x.<op>f), written from
 * the property statement, not from the code:
 *   string == : true iff the two NUL-terminated strings have the same length and the same bytes (content equality);
 *   float ops : the C double operation applied to (a, b) in that order; arithmetic results are compared as BIT PATTERNS. */
#ifndef SPEC_STR_H
#define SPEC_STR_H
#include <stdint.h>
#include <stdbool.h>
#ifndef SPEC_STRMAX
#define SPEC_STRMAX 4          /* bound of the obligations: strings of length <= SPEC_STRMAX live in buffers of SPEC_STRMAX+1 bytes */
#endif
/* constant trip count; the buffers' last byte is NUL by precondition, so the walk always ends inside them */
static inline bool spec_streq(const char *a, const char *b)
{
    for (int k = 0; k <= SPEC_STRMAX; k++) {
        if (a[k] != b[k]) return false;      /* first difference (includes: one string ends, the other does not) */
        if (a[k] == 0) return true;          /* both end here: same length, same bytes */
    }
    return true;
}
static inline uint64_t spec_f64_bits(double d)
{
    union { double d; uint64_t u; } x;
    x.d = d;
    return x.u;
}
#endif
