/* Shared definitions for the one-step VM harnesses (DESIGN 4.1):
 * VM state invariant (scalar part), value well-formedness, and the contract by
 * which vm_release is REPLACED inside step harnesses (the real recursive
 * function is put under that same contract by C14.heap.release). */
#ifndef VM_CONTRACTS_H
#define VM_CONTRACTS_H
#include "verif_common.h"
#include "nanovm/vm.h"
#include "nanovm/heap.h"

#define IS_RC_TAG(t) ((t) == TAG_STRING || (t) == TAG_ARRAY || (t) == TAG_STRUCT || (t) == TAG_UNION || \
                      (t) == TAG_TUPLE || (t) == TAG_HASHMAP || (t) == TAG_FUNCTION)
#define IS_RC(v) (IS_RC_TAG((v).tag) && (v).as.obj != NULL)
#define HDR(v) ((VmHeapHeader *)(v).as.obj)

/* scalar part of VM_INV (DESIGN 4.1).  `m` is the module the harness built. */
#define VM_INV_SCALAR(vm, m) ( \
    (vm)->module == (m) && (vm)->stack != NULL && (vm)->stack_size <= (vm)->stack_capacity && \
    (vm)->stack_capacity >= 1 && (vm)->stack_capacity <= (1u << 26) && \
    (vm)->frame_count <= VM_MAX_FRAMES && \
    (vm)->current_fn < (m)->function_count && \
    (vm)->global_count <= VM_MAX_GLOBALS )

/* ip stays inside the current function (or at its end) */
#define VM_IP_OK(vm, m) ( \
    (vm)->ip >= (m)->functions[(vm)->current_fn].code_offset && \
    (uint64_t)(vm)->ip <= (uint64_t)(m)->functions[(vm)->current_fn].code_offset + (m)->functions[(vm)->current_fn].code_length )

/* vm_release as seen by one VM step (contract; the real recursive function is put under this
 * contract by C14.heap.release): needs a well-formed value; touches nothing but the object's
 * reference count (and the ghost release counter); the object is freed exactly when the count was 1;
 * count 0 = no effect.  The object's children are released recursively by the real function: in a
 * step harness they are leaves outside the step's footprint.
 *
 * --dfcc on a step harness instruments every assignment of vm_core_execute against the harness's
 * ~30 allocated objects (measured: 690 s and an internal unwinding failure), so the step harnesses
 * use the contract in EXECUTABLE form instead (assert requires; perform the specified effect): the
 * harness TU is compiled with -Dvm_release=vm_release_real, which renames the REAL definition in
 * heap.c (and its recursive calls) and leaves it intact; vm.c's calls (after #undef in the harness)
 * resolve to the contract stub below.  This is call replacement by contract done at link level. */
#define VM_RELEASE_REQUIRES(heap, v) ((heap) != NULL && (!IS_RC(v) || (__CPROVER_rw_ok(HDR(v), sizeof(VmHeapHeader)) && HDR(v)->obj_type == (v).tag)))

#ifdef VERIF_VM_RELEASE_STUB
#undef vm_release
void vm_release(VmHeap *heap, NanoValue v)
{
    __CPROVER_assert(heap != NULL, "vm_release.precondition heap valid");
    if (!IS_RC(v)) return;
    __CPROVER_assert(__CPROVER_rw_ok(HDR(v), sizeof(VmHeapHeader)), "vm_release.precondition value points to a live object header");
    __CPROVER_assert(HDR(v)->obj_type == v.tag, "vm_release.precondition object type matches the value tag");
    __verif_g.release_calls++;
    uint32_t rc = HDR(v)->ref_count;
    if (rc == 0) return;
    if (rc >= 2) { HDR(v)->ref_count = rc - 1; return; }
    HDR(v)->ref_count = 0;
#ifdef VERIF_RELEASE_CHILD
    /* the real function releases every contained value before freeing the container; in a step harness
       the only materialised child is the element at the index of interest (a leaf): release it too, so that
       a handler that still uses a child after dropping the last reference to its container is caught */
    {
        NanoValue child; child.tag = TAG_VOID; child.as.i64 = 0;
        if (v.tag == TAG_ARRAY && v.as.array->elements != NULL && VERIF_RELEASE_CHILD < v.as.array->length) child = v.as.array->elements[VERIF_RELEASE_CHILD];
        else if (v.tag == TAG_STRUCT && v.as.sval->fields != NULL && VERIF_RELEASE_CHILD < v.as.sval->field_count) child = v.as.sval->fields[VERIF_RELEASE_CHILD];
        else if (v.tag == TAG_UNION && v.as.uval->fields != NULL && VERIF_RELEASE_CHILD < v.as.uval->field_count) child = v.as.uval->fields[VERIF_RELEASE_CHILD];
        else if (v.tag == TAG_TUPLE && VERIF_RELEASE_CHILD < v.as.tuple->count) child = v.as.tuple->elements[VERIF_RELEASE_CHILD];
        else if (v.tag == TAG_FUNCTION && VERIF_RELEASE_CHILD < v.as.closure->capture_count) child = v.as.closure->captures[VERIF_RELEASE_CHILD];
        if (child.tag == TAG_STRING && child.as.obj != NULL) {      /* leaves are strings or scalars */
            __CPROVER_assert(__CPROVER_rw_ok(HDR(child), sizeof(VmHeapHeader)), "vm_release.precondition contained value points to a live object header");
            uint32_t crc = HDR(child)->ref_count;
            if (crc >= 2) HDR(child)->ref_count = crc - 1;
            else if (crc == 1) { HDR(child)->ref_count = 0; free(child.as.obj); }
        }
    }
#endif
    free(v.as.obj);
}
#endif

#endif
