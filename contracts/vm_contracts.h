/* Shared definitions for the one-step VM harnesses (DESIGN 4.1):
 * VM state invariant (scalar part), value well-formedness, and the contract by
 * which vm_release is REPLACED inside step harnesses (the real recursive
 * function is put under that same contract by C14.heap.release). */
#ifndef VM_CONTRACTS_H
#define VM_CONTRACTS_H
#include "verif_common.h"
#include "nanovm/vm.h"
#include "nanovm/heap.h"

#define IS_RC_TAG(t) ((t) == TAG_STRING || (t) == TAG_ARRAY || (t) == TAG_STRUCT || (t) == TAG_UNION || \
                      (t) == TAG_TUPLE || (t) == TAG_HASHMAP || (t) == TAG_FUNCTION)
#define IS_RC(v) (IS_RC_TAG((v).tag) && (v).as.obj != NULL)
#define HDR(v) ((VmHeapHeader *)(v).as.obj)

/* scalar part of VM_INV (DESIGN 4.1).  `m` is the module the harness built. */
#define VM_INV_SCALAR(vm, m) ( \
    (vm)->module == (m) && (vm)->stack != NULL && (vm)->stack_size <= (vm)->stack_capacity && \
    (vm)->stack_capacity >= 1 && (vm)->stack_capacity <= (1u << 26) && \
    (vm)->frame_count <= VM_MAX_FRAMES && \
    (vm)->current_fn < (m)->function_count && \
    (vm)->global_count <= VM_MAX_GLOBALS )

/* ip stays inside the current function (or at its end) */
#define VM_IP_OK(vm, m) ( \
    (vm)->ip >= (m)->functions[(vm)->current_fn].code_offset && \
    (uint64_t)(vm)->ip <= (uint64_t)(m)->functions[(vm)->current_fn].code_offset + (m)->functions[(vm)->current_fn].code_length )

/* vm_release as seen by one VM step: needs a well-formed value; touches nothing but the
 * object's reference count (and the ghost release counter); frees the object exactly when the
 * count was 1.  The object's children are released recursively by the real function: in a step
 * harness they are leaves outside the step's footprint. */
void vm_release(VmHeap *heap, NanoValue v)
__CPROVER_requires(heap != NULL)
__CPROVER_requires(!IS_RC(v) || (__CPROVER_rw_ok(HDR(v), sizeof(VmHeapHeader)) && HDR(v)->obj_type == v.tag))
__CPROVER_assigns(__verif_g; IS_RC(v): HDR(v)->ref_count)
__CPROVER_frees(IS_RC(v): v.as.obj)
__CPROVER_ensures(__verif_g.release_calls == __CPROVER_old(__verif_g.release_calls) + 1)
__CPROVER_ensures((IS_RC(v) && __CPROVER_old(HDR(v)->ref_count) >= 2) ==>
                  (!__CPROVER_was_freed(v.as.obj) && HDR(v)->ref_count == __CPROVER_old(HDR(v)->ref_count) - 1))
__CPROVER_ensures((IS_RC(v) && __CPROVER_old(HDR(v)->ref_count) == 1) ==> __CPROVER_was_freed(v.as.obj))
__CPROVER_ensures((IS_RC(v) && __CPROVER_old(HDR(v)->ref_count) == 0) ==>
                  (!__CPROVER_was_freed(v.as.obj) && HDR(v)->ref_count == 0));

#endif
