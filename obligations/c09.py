"""C09 - the front end is total (DESIGN 5/C09): lexer + depth guards."""
META = {"level": "proof", "trusted_base": [], "assumptions": [], "undecided_part": ""}
LEX = "harness/lexer_h.c"
LANN = [("src/lexer.c", "contracts/loops/lexer.c.loops")]
LREPL = ["malloc"]
CHECKS_NOPRIM = ["--bounds-check", "--pointer-check", "--div-by-zero-check", "--signed-overflow-check",
                 "--pointer-overflow-check", "--undefined-shift-check", "--conversion-check"]


def obligations(repo):
    obs = []
    obs.append(dict(id="C09.lex.tokenize", prop="C09", harness=LEX, entry="h_tokenize", annotate=LANN,
                    include_repo=["", "src"], enforce="tokenize", replace=LREPL, loops=True, unwind=12,
                    strength="U", functions=["tokenize"], timeout=240,
                    must_have=[r"tokenize\.postcondition", r"loop_invariant_step", r"decreases"], min_checks=200))
    DEP = "harness/depth_h.c"
    obs.append(dict(id="C09.depth.check_expression", prop="C09", harness=DEP, entry="h_check_expression", defines={"DEPTH_TYPECHECKER": 1},
                    enforce="check_expression", replace=["check_expression_impl"], unwind=6, strength="U", functions=["check_expression"],
                    must_have=[r"check_expression\.postcondition", r"check_expression_impl\.precondition", r"C09\.depth limit constant"], min_checks=10, timeout=300))
    obs.append(dict(id="C09.depth.check_statement", prop="C09", harness=DEP, entry="h_check_statement", defines={"DEPTH_TYPECHECKER": 1},
                    enforce="check_statement", replace=["check_statement_impl"], unwind=6, strength="U", functions=["check_statement"],
                    must_have=[r"check_statement\.postcondition", r"check_statement_impl\.precondition", r"C09\.depth limit constant"], min_checks=10, timeout=300))
    import copy, os
    if "CHK" in os.environ:
        obs[0]["checks"] = os.environ["CHK"].split()
    if os.environ.get("SC"):
        obs[0]["annotate"] = [("src/lexer.c", os.environ["SC"])]
    if "RP" in os.environ:
        obs[0]["replace"] = os.environ["RP"].split()
    if os.environ.get("GI"):
        obs[0]["gi_flags"] = os.environ["GI"].split()
    if os.environ.get("OB"):
        obs[0]["object_bits"] = int(os.environ["OB"])
    o2 = copy.deepcopy(obs[0]); o2["id"] = "C09.lex.dbg"; o2["defines"] = {"LEX_DEBUG_NOCOVER": 1}; obs.append(o2)
    return obs
