"""C09 - the front end is total (DESIGN 5/C09): lexer (tokenize) + depth guards."""
import os, re

META = {
    "level": "proof",
    "trusted_base": [
        "contracts/lexer_contracts.h (tokenize contract written from the property statement; assumed libc contracts)",
        "contracts/loops/lexer.c.loops (loop invariants/variants: checked, not trusted; ghost statements: trusted to be side-effect free on program state)",
    ],
    "assumptions": [],
    "undecided_part": "",
}

LEX = "harness/lexer_h.c"
LANN = [("src/lexer.c", "contracts/loops/lexer.c.loops")]
CASES = {0: "skip", 1: "quoted", 2: "number", 3: "ident", 4: "rest"}
NULL_CASES = (1,)       # classes in which tokenize can return NULL
# after a refutation: plain bounded search (no DFCC, CBMC's own libc models, C-locale ctype table) for a concrete
# input of <= 6 bytes that makes the real tokenize fail a built-in check / loop forever; replayed natively
WIT = {"replayer": "lex", "override": {"enforce": None, "replace": [], "loops": False, "annotate": [], "unwind": 12,
                                       "object_bits": None, "backends": ["minisat"], "timeout": 300, "must_have": [],
                                       "defines": {"LEX_WIT_MAX": 6, "LEX_CTAB_CONCRETE": 1}}}


def obligations(repo):
    obs = []
    # tokenize, main-loop iteration split over the class of its first byte (X); every loop under a loop contract,
    # length symbolic up to the driver's 10 MB limit
    for k, nm in CASES.items():
        d = {"LEX_CASE": k}
        if k in NULL_CASES:
            d["LEX_COVER_NULL"] = 1
        obs.append(dict(id="C09.lex.tokenize." + nm, prop="C09", harness=LEX, entry="h_tokenize", annotate=LANN,
                        include_repo=["", "src"], defines=d, enforce="tokenize", replace=["malloc"] + (os.environ.get("RPX", "").split()), loops=True,
                        unwind=12, object_bits=9, backends=["cadical"], strength="X", functions=["tokenize"], timeout=900,
                        weight=10, witness=WIT,
                        must_have=[r"tokenize\.postcondition", r"tokenize\.loop_invariant_step", r"tokenize\.loop_decreases",
                                   r"tokenize\.loop_invariant_base", r"libc: realloc", r"libc: strncpy"], min_checks=2000))
    obs.append(dict(id="C09.lex.cases", prop="C09", harness=LEX, entry="h_cases", include_repo=["", "src"],
                    strength="U", functions=["tokenize(case split)"], must_have=[r"case split is exhaustive"], min_checks=1))
    DEP = "harness/depth_h.c"
    obs.append(dict(id="C09.depth.check_expression", prop="C09", harness=DEP, entry="h_check_expression",
                    defines={"DEPTH_TYPECHECKER": 1}, enforce="check_expression", replace=["check_expression_impl"], unwind=6,
                    strength="U", functions=["check_expression"],
                    must_have=[r"check_expression\.postcondition", r"check_expression_impl\.precondition",
                               r"C09\.depth limit constant"], min_checks=10, timeout=300))
    obs.append(dict(id="C09.depth.check_statement", prop="C09", harness=DEP, entry="h_check_statement",
                    defines={"DEPTH_TYPECHECKER": 1}, enforce="check_statement", replace=["check_statement_impl"], unwind=6,
                    strength="U", functions=["check_statement"],
                    must_have=[r"check_statement\.postcondition", r"check_statement_impl\.precondition",
                               r"C09\.depth limit constant"], min_checks=10, timeout=300))
    # experimentation hooks (not used by any tier)
    for o in obs:
        if o["id"].startswith("C09.lex.tokenize"):
            if "OB" in os.environ:
                o["object_bits"] = int(os.environ["OB"])
            if "SC" in os.environ:
                o["annotate"] = [("src/lexer.c", os.environ["SC"])]
            if "DEF" in os.environ:
                for kv in os.environ["DEF"].split():
                    k, v = kv.split("=")
                    o["defines"][k] = v
    return obs
