"""C09 - the front end is total (DESIGN 5/C09): lexer (tokenize) + depth guards of type checker and parser."""
import os, re

META = {
    "level": "proof",
    "trusted_base": [
        "contracts/lexer_contracts.h: tokenize contract written from the property statement (every NUL-terminated buffer of length <= 10 MB; "
        "result NULL after free(tokens), or an array of 1..len+1 tokens ending in EOF) and the assumed libc contracts listed under assumptions",
        "contracts/loops/lexer.c.loops: loop invariants/variants are CHECKED (base, step, decreases), not trusted; the ghost statements it inserts "
        "only assign __verif_ ghosts (two of them call lex_case / lex_nul_index, whose __CPROVER_assume is listed under assumptions)",
        "harness/depth_h.c: contracts of check_expression / check_statement / parse_block and of the callees they are proved against",
    ],
    "assumptions": [
        # --- lexer ---
        "LENGTH: source length <= 10 MB = the limit of src/nanovirt/main.c read_file(); src/main.c compile_file() and src/module.c have NO size "
        "limit before tokenize(): for a file >= 2 GB tokenize's `int i/line/count` overflow (not covered; observation, see report)",
        "CASE SPLIT (X): one main-loop iteration is checked per class of its first byte (5 classes, class 4 = complement of the others, "
        "exhaustiveness also checked by C09.lex.cases); implemented by __CPROVER_assume(class(source[i])) in lex_case(), called from a ghost statement "
        "at the top of the loop body. C09.lex.tokenize.unsplit (thorough tier) is the same proof without the split",
        "CTYPE: isspace/isalpha/isalnum/isdigit are glibc table lookups (*__ctype_b_loc())[c]; the table is a 384-entry array (indices -128..255) with "
        "ARBITRARY content except: isdigit(0)=isalpha(0)=isalnum(0)=0 and isalpha(c)=>isalnum(c) (what the lexer's termination/bounds rest on). "
        "tokenize passes plain `char` (negative for bytes >= 0x80) to these macros without an unsigned-char cast: indices -128..-1, inside glibc's "
        "table (no out-of-bounds read: proved against the 384-entry table) but undefined behaviour by ISO C 7.4p1 on other libcs (portability observation)",
        "ALLOCATION SUCCEEDS: malloc/realloc never return NULL (framework-wide; tokenize does not check either result)",
        "ALLOCATOR MODEL (token array): realloc grows the block in place (returns its argument); sound for tokenize because it holds exactly one "
        "pointer to the block and overwrites it with realloc's result (checked: realloc's argument is the block returned by the first malloc). The block has "
        "an ARBITRARY ghost usable size __verif_S; a run whose request exceeds __verif_S is cut (assume) in that world. World S = max: no run is cut "
        "(every request checked <= max). World S = size last requested: every token store is bounds-checked by CBMC against exactly the requested size",
        "malloc (text buffers): assumed contract `returns a fresh block of exactly n bytes` (replaced call, __CPROVER_is_fresh in ensures)",
        "free: asserts `NULL or start of a live block`, records the argument; deallocation itself is NOT modelled, so use-after-free/double free inside "
        "tokenize would go unnoticed (by reading: each free(x) is followed by `continue`, `i++; continue` or `return NULL`)",
        "strdup: asserts its argument is NUL-terminated inside its object (ghost index set right after the lexer's own `x[len] = 0`), returns an "
        "arbitrary pointer (tokenize only stores it); strncpy: asserts dst writable and src readable for n bytes; strcmp: asserts first argument "
        "NUL-terminated; fprintf: no effect; snprintf: destination valid for n bytes and (C99 7.19.6.5) NUL-terminated within n bytes "
        "(lex_nul_index: __CPROVER_assume(k < n && s[k] == 0))",
        "INPUT OBJECTS are allocated by the harness (exact sizes, arbitrary content, terminator at len) instead of __CPROVER_is_fresh in the "
        "precondition: same generality, 13x smaller formula (shared index expressions)",
        "memory leaks are not part of C09: on its four error paths tokenize frees the token array but not the strdup'ed token texts (observation)",
        # --- depth guards ---
        "DEPTH (type checker): check_expression_impl / check_statement_impl are replaced by `precondition: counter in 1..2000; the counter is not "
        "changed on return` (they change it only through nested check_expression/check_statement calls, each of which restores it by the proved "
        "contract: induction over the call depth, GLUE not machine-checked; the registry checks syntactically that the two counters occur only "
        "inside the two wrappers)",
        "DEPTH (parser): parse_block is a BOUNDED stand-in (block of <= 2 statements, loop unwound 4 times), all 7 callees by assumed contracts "
        "(parse_statement: entered with counter in 1..1000, returns with it restored); parser_error's frame is given as empty because DFCC 6.11 "
        "mis-handles the write set of replaced variadic functions",
    ],
    "undecided_part": "parser memory safety and termination as a whole (39 functions; the error-recovery loops of parse_block/parse_program/"
                      "parse_statement; C09.parse.progress not built); parse_expression's depth balance (4 loops, 3 nested, with realloc/strdup, 17 callees "
                      "incl. itself: a bounded DFCC stand-in with 13 replaced callees did not finish symbolic execution in 600 s; by reading, three of its "
                      "return paths - parser.c lines 2349, 2354, 2422 - return without `p->recursion_depth--`; 8 native inputs did not reach them); parse_block only as bounded stand-in; process_imports (file system); type checker "
                      "termination and memory safety beyond the two depth wrappers; whether every TYPE_UNKNOWN produced at the depth limit ends in a non-zero "
                      "exit status (one native run with a 2500-term infix chain: exit 1 with diagnostics); sources > 10 MB through nanoc/module loader",
}

LEX = "harness/lexer_h.c"
LANN = [("src/lexer.c", "contracts/loops/lexer.c.loops")]
CASES = {0: "skip", 1: "quoted", 2: "number", 3: "ident", 4: "rest"}
NULL_CASES = (1,)       # classes in which tokenize can return NULL
# after a refutation: plain bounded search (no DFCC, CBMC's own libc models, C-locale ctype table) for a concrete
# input of <= 3 bytes that makes the real tokenize fail a built-in check / loop forever; replayed natively
WIT = {"replayer": "lex", "override": {"enforce": None, "replace": [], "loops": False, "annotate": [], "unwind": 4,
                                       "object_bits": None, "backends": ["minisat"], "timeout": 300, "must_have": [],
                                       "defines": {"LEX_WIT_MAX": 3, "LEX_CTAB_CONCRETE": 1}}}
# when the sidecar no longer fits the code (loop count / ghost anchors changed): tools/vc.py runs this bounded search on
# the real function instead; only a definite counterexample counts (REFUTED), anything else stays undecided
FALLBACK = dict(WIT["override"], defines={"LEX_WIT_MAX": 3, "LEX_CTAB_CONCRETE": 1, "VERIF_WITNESS": 1}, min_checks=1)
LEX_MUST = [r"tokenize\.postcondition", r"tokenize\.loop_invariant_step", r"tokenize\.loop_decreases",
            r"tokenize\.loop_invariant_base", r"libc: realloc", r"libc: strncpy", r"libc: strdup", r"libc: free"]


def _only_in_wrappers(repo):
    """the induction glue of C09.depth rests on the counters being touched by the wrappers only"""
    try:
        s = open(os.path.join(repo, "src/typechecker.c"), encoding="utf-8", errors="replace").read()
    except OSError:
        return False
    return len(re.findall(r"\bg_check_expr_depth\b", s)) == 5 and len(re.findall(r"\bg_check_stmt_depth\b", s)) == 5


def _parser_depth_frame(repo):
    """parse_block's depth contract is glued by: no parser function other than the ++/-- sites resets the counter
    (exactly one plain assignment: the initialisation in parse_program)"""
    try:
        s = open(os.path.join(repo, "src/parser.c"), encoding="utf-8", errors="replace").read()
    except OSError:
        return False
    s = re.sub(r"//[^\n]*", "", s)
    return len(re.findall(r"recursion_depth\s*(?:[-+*/|&^]?=)(?!=)", s)) == 1


def lexer_obligation(oid, defines, tier, weight):
    return dict(id=oid, prop="C09", harness=LEX, entry="h_tokenize", annotate=LANN, include_repo=["", "src"],
                defines=defines, enforce="tokenize", replace=["malloc"], loops=True,
                unwind=12,                 # 9 targets in the main loop's assigns clause + 3 (DFCC library loops)
                object_bits=9, backends=["cadical"], strength="X", functions=["tokenize"], timeout=1500, tier=tier,
                weight=weight, witness=WIT, fallback=FALLBACK, must_have=LEX_MUST, min_checks=2000)


def obligations(repo):
    obs = []
    # tokenize; every loop under a loop contract; length symbolic up to the driver's 10 MB limit;
    # main-loop iteration split over the class of its first byte (X)
    for k, nm in CASES.items():
        d = {"LEX_CASE": k}
        if k in NULL_CASES:
            d["LEX_COVER_NULL"] = 1
        obs.append(lexer_obligation("C09.lex.tokenize." + nm, d, "quick", 10))
    o = lexer_obligation("C09.lex.tokenize.unsplit", {"LEX_COVER_NULL": 1}, "thorough", 20)
    o["strength"] = "U"
    obs.append(o)
    obs.append(dict(id="C09.lex.cases", prop="C09", harness=LEX, entry="h_cases", include_repo=["", "src"],
                    strength="U", functions=["tokenize(case split)"], must_have=[r"case split is exhaustive"], min_checks=1))
    DEP = "harness/depth_h.c"
    guard = [] if _only_in_wrappers(repo) else [r"SYNTACTIC GUARD: g_check_(expr|stmt)_depth must occur only in the two wrappers"]
    obs.append(dict(id="C09.depth.check_expression", prop="C09", harness=DEP, entry="h_check_expression",
                    defines={"DEPTH_TYPECHECKER": 1}, enforce="check_expression", replace=["check_expression_impl"], unwind=6,
                    strength="U", functions=["check_expression"],
                    must_have=[r"check_expression\.postcondition", r"check_expression_impl\.precondition",
                               r"C09\.depth limit constant"] + guard, min_checks=10, timeout=300))
    obs.append(dict(id="C09.depth.check_statement", prop="C09", harness=DEP, entry="h_check_statement",
                    defines={"DEPTH_TYPECHECKER": 1}, enforce="check_statement", replace=["check_statement_impl"], unwind=6,
                    strength="U", functions=["check_statement"],
                    must_have=[r"check_statement\.postcondition", r"check_statement_impl\.precondition",
                               r"C09\.depth limit constant"] + guard, min_checks=10, timeout=300))
    PREPL = ["current_token", "parser_error", "advance", "match", "expect", "parse_statement", "create_node"]
    obs.append(dict(id="C09.depth.parse_block.bounded", prop="C09", harness=DEP, entry="h_parse_block",
                    defines={"DEPTH_PARSER": 1, "DEPTH_UNWIND": 4}, enforce="parse_block", replace=PREPL, unwind=9,
                    unwindset=["parse_block_wrapped_for_contract_checking.0:4"], object_bits=10,
                    strength="B(block of <= 2 statements: statement loop unwound 4 times; all callees by assumed contracts)",
                    functions=["parse_block"], timeout=600,
                    must_have=[r"parse_block\.postcondition", r"parse_statement\.precondition", r"C09\.depth limit constant"] +
                    ([] if _parser_depth_frame(repo) else [r"SYNTACTIC GUARD: recursion_depth must be assigned only by its initialisation and the ++/-- sites"]),
                    min_checks=10))
    return obs
