"""C08, native-runtime part (DESIGN 5/C08 "Native runtime"): src/runtime/dyn_array.c accessors.

Contract text is shared with C20 (contracts/dyn_contracts.h).  With assert()/abort()/exit() modelled as path ends
("the run ends here with an error"), every obligation reads:
    if the call RETURNS then  0 <= index < length  held on entry   (get / set / remove_at / get_struct / set_struct)
    if the call RETURNS then  length > 0           held on entry   (pop / pop_struct)
i.e. out of range => the path ended in __assert_fail (ghost __verif_dyn.asserted), no value was produced, and all
accesses stayed inside data[0 .. capacity*elem_size) (pointer checks against exactly-sized fresh objects).
-DVERIF_C08 adds the clauses the property demands of pop_*, get_struct, set_struct, pop_struct, which are NOT part of
the C20 view because the unchanged code does not meet them (it returns 0 / NULL / does nothing).

Imported by obligations/c08.py (VM part lives there).  ids: C08.nat.<op>.<kind>
"""
import importlib.util, os

_here = os.path.dirname(os.path.abspath(__file__))
_spec = importlib.util.spec_from_file_location("obl_c20_for_c08", os.path.join(_here, "c20.py"))
c20 = importlib.util.module_from_spec(_spec)
_spec.loader.exec_module(c20)

META_NATIVE = {
    "trusted_base": ["contracts/dyn_contracts.h (DYN_WF, accessor contracts; memmove/memcpy contracts checked against CBMC's models by C20.libc.*)"],
    "assumptions": [
        "native C08 is decided at the runtime accessors only: that generated code passes the user's index unmodified to these accessors (C08.nat.tmpl) and that cc gets no -DNDEBUG (C08.nat.flags) are NOT covered here",
        "assert()/abort()/exit() end the run with a non-zero status (modelled as path ends; SIGABRT => status 134)",
        "arrays satisfy DYN_WF on entry with capacity <= 2^40 (proved inductive per operation under C20.dyn.*)",
        "struct arrays: element size is a constant per query, only the sizes listed in the B(...) labels were run",
    ],
    "expected_failures_on_unchanged_tree": [
        "C08.nat.pop.<kind>: dyn_array_pop_<kind>(empty array, &ok) returns 0/NULL with *ok=false; generated code ignores the flag",
        "C08.nat.get_struct / set_struct / pop_struct: out-of-range index returns NULL / does nothing / leaves the output unwritten",
    ],
}


def native_obligations(prop="C08"):
    pfx = "%s.nat" % prop
    obs = c20.dyn_typed(prop, pfx, ["get", "set", "pop"], c08=True)
    obs += c20.dyn_generic(prop, pfx, with_all=False)        # remove_at, all kinds
    obs += c20.dyn_struct(prop, pfx, c08=True)
    obs += c20.list_int(prop, pfx + ".list_int", only=c20.LIST_C08)
    keep = []
    for o in obs:
        if "list_h" not in o["harness"]:
            o["defines"]["VERIF_C08"] = 1
        # the struct element size plays no role in the index test: a small sample of the C20 size split is enough here
        if "VERIF_ESZ" in o["defines"] and o["defines"]["VERIF_ESZ"] not in (0, 8, 24, 16):
            continue
        if o.get("tier") == "thorough":
            continue
        if ".set_struct." in o["id"] and o["defines"].get("VERIF_ESZ") != 0:
            o["defines"]["VERIF_EXIT_COVER"] = 1     # the out-of-range branch ends in exit(1): must be reachable
        keep.append(o)
    return keep


def obligations(repo):
    return native_obligations("C08")
