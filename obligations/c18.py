"""C18 - the daemon survives malformed and abandoned client sessions (DESIGN 5/C18).
SEQUENTIAL obligations only: everything here speaks about one thread of control (one session handler, or the accept
loop).  What needs two threads is listed in META["undecided_part"]."""
META = {
    "level": "proof",
    "trusted_base": [
        "contracts/vmd_contracts.h: the ghost struct __verif_vmd, the contracts of read_all / write_all / vmd_msg_recv_header / "
        "vmd_msg_recv_payload / vmd_msg_send*, the stub bodies (assumed contracts) of client_thread's callees; harness/vmd_h.c: "
        "the contracts of client_thread / setup_signals / vmd_server_run and the stubs that need the file's statics "
        "(pthread_mutex_lock/unlock, fopencookie/fflush/fclose, vm_execute, pthread_create) - written from the property statement",
        "tools/annotate.py inserting only loop-contract clauses (sidecars contracts/loops/vmd_protocol.loops, vmd_server.loops)",
        "replay/replay_vmd_verified.c + replay/replayers_vmd.py (native confirmation of C18.verified on the real daemon, loader, verifier and VM)",
    ],
    "assumptions": [
        "SEQUENTIAL: one thread of control per obligation.  pthread_mutex_lock/unlock are no-ops on a ghost lock bit (they check "
        "the discipline, they do not order anything); pthread_create does not run the new thread",
        "THE CLIENT is nondeterminism in the OS stubs (contracts/vmd_contracts.h): read returns -1 (any errno incl. EINTR), 0, or "
        "1..count with an arbitrary byte at an arbitrary index below the count (ghost-index form of havoc; the byte values the "
        "callers see come from the havoc of read_all's frame buf[0..len)); write returns -1 (any errno), 0 or a short count.  "
        "Strength U over client bytes and disconnect points",
        "TERMINATION of the read_all / write_all retry loops is not a property of the code alone: an OS answering EINTR for ever "
        "keeps them spinning.  Variant = (bytes left, EINTR answers left in the arbitrary 32-bit ghost eintr_budget): claimed for "
        "finitely many EINTRs only.  A read() that BLOCKS for ever (client connects and sends nothing) is not modelled: no "
        "session has a time-out, such a client holds its thread and keeps g_active_clients > 0 (idle shutdown never fires)",
        "C18.session / C18.noexec / C18.verified: client_thread's callees are cut at their interface by stub bodies = assumed "
        "contracts: vmd_msg_recv_header (any 8 bytes; accepted => version ok and payload_len <= VMD_MAX_PAYLOAD: enforced by "
        "C18.proto.recv_header), vmd_msg_recv_payload (writes buf[0..len) only, fails at will: C18.proto.recv_payload), "
        "vmd_msg_send / _simple / _output / _exit / _error (read payload[0..len) only, write no memory, fail at will: "
        "C18.proto.send*); that the stub bodies render those enforced contracts is by reading - C18.session.os removes that step "
        "for the session postcondition: there the REAL vmd_protocol.c runs under client_thread and only read_all / write_all are "
        "replaced by the contracts C18.proto.read_all / write_all enforce (r_ok/w_ok instead of fresh objects)",
        "cut callees (assumed to RETURN and to touch nothing but what is stated): nvm_deserialize (NULL or a module object with "
        "arbitrary content), nvm_verify (arbitrary verdict), nvm_module_free (frees that object), vm_init (leaves *vm arbitrary "
        "except .module), vm_execute (prints 0..2 chunks of <= 4096 bytes through the REAL socket_write_cookie while it runs, any "
        "result; a program that never terminates is outside: it keeps its thread), vm_destroy, vm_ffi_cop_stop, vm_error_string; "
        "stdio: fopencookie (NULL or a FILE object; asserts that the callbacks are socket_write_cookie/socket_close_cookie and the "
        "cookie carries the client descriptor), setvbuf, fflush / fclose (may flush one chunk through the real write callback; fclose "
        "calls the REAL socket_close_cookie), fprintf / snprintf (variadic: write nothing - message TEXT is not checked), strlen "
        "(ASSUMES the argument is NUL-terminated inside its object: true of literals and of snprintf(buf, n > 0, ..) output); "
        "close (counts), exit/_exit/abort/__assert_fail (assert false: 'the daemon process ends')",
        "REAL code in the session proofs: client_thread, socket_fopen, socket_write_cookie, socket_close_cookie (vmd_server.c verbatim); "
        "malloc/free are CBMC's models with allocation MAY FAIL (gi_malloc_default: the out-of-memory paths of client_thread and "
        "socket_fopen are covered) and --memory-leak-check (blob, cookie, module and FILE stand-ins); the ClientCtx block by "
        "__CPROVER_was_freed(arg)",
        "counter precondition: 0 <= g_active_clients < INT_MAX at session start (fewer than 2^31 simultaneous sessions)",
        "C18.verified is REFUTED on the unchanged tree (see known findings / report): vm_execute at vmd_server.c:232 is reached "
        "without any nvm_verify call.  All other session obligations are therefore statements about a daemon that still runs "
        "unverified modules: what a hostile module does INSIDE vm_execute is not covered by them (C13's VM obligations assume the "
        "verifier's postcondition)",
        "C18.accept: loop contract WITHOUT decreases clause (server loop: partial correctness).  socket/bind/listen/poll/accept/"
        "pthread_create/close are adversarial stubs (any failure, any errno incl. EINTR); check_pid_file / write_pid_file / "
        "remove_pid_file are replaced by empty contracts (pid-file management is outside C18); allocator model inside the loop: one "
        "64-byte slot, malloc fails at will (DFCC loop contracts refuse the built-in malloc/free in a loop body; the invariant "
        "ctx_live == 0 makes one slot exact for sequential code); g_shutdown is only ever read by this thread (the signal handler "
        "and SHUTDOWN sessions set it asynchronously: havocked by the loop contract)",
        "C18.accept precondition on OPERATOR input (not client input): cfg->idle_timeout_sec <= INT_MAX/1000; `--idle-timeout` values "
        "above 2147483 overflow `idle_timeout_sec * 1000` (signed overflow, reported as a side observation)",
        "C18.sigpipe: sigaction/sigemptyset/signal are stubs recording the disposition; 'before the accept loop' = loop invariant "
        "sigpipe_ignored == 1 of C18.accept + the accept()/pthread_create() stubs flag a call with SIGPIPE not ignored",
        "names changed: none; text dropped: none (vmd_protocol.c / vmd_server.c are #included verbatim)",
    ],
    "undecided_part": "Everything that needs two threads: interleavings of a bad session with well-formed ones ('clients that connect "
                      "concurrently are served correctly'), atomicity of g_active_clients / g_shutdown beyond 'every access of the counter "
                      "is inside a lock/unlock pair', sharing of stdio (stderr, the daemon's stdout when socket_fopen fails and vm.output "
                      "is NULL: the client's output then goes to the DAEMON's stdout), the crc32_initialized race in nvm_crc32's lazy "
                      "table build, races inside the FFI loader / co-process start, detached threads still running at shutdown "
                      "(vmd_server_run returns while sessions are active).  Liveness: sessions have no read time-out (a silent client "
                      "holds a thread for ever and blocks idle shutdown), a client program that does not terminate, resource limits "
                      "(100 MB blob per session, thread count).  What a hostile-but-loadable module does inside the real vm_execute "
                      "(C18.verified fails: the daemon does not call nvm_verify).  'Served correctly' (standalone-equivalent result of "
                      "well-formed clients) is C10/C17 territory and not decided here; reply TEXT is not checked.",
}
H = "harness/vmd_h.c"
PANN = [("src/nanovm/vmd_protocol.c", "contracts/loops/vmd_protocol.loops")]
SANN = [("src/nanovm/vmd_server.c", "contracts/loops/vmd_server.loops")]
PROTO = {"VMD_VIEW_PROTO": 1}
RW = {"VMD_VIEW_PROTO": 1, "VMD_REPLACE_RW": 1}        # read_all / write_all replaced by their contracts
SEND = {"VMD_VIEW_PROTO": 1, "VMD_REPLACE_SEND": 1}    # vmd_msg_send replaced by its contract
SESSION_FNS = ["client_thread", "socket_fopen", "socket_write_cookie", "socket_close_cookie"]


def obligations(repo):
    obs = []
    # ---- protocol layer (vmd_protocol.c) under the adversarial OS ----
    obs.append(dict(id="C18.proto.read_all", prop="C18", harness=H, entry="h_read_all", annotate=PANN, defines=PROTO,
                    enforce="read_all", loops=True, unwind="auto", strength="U", functions=["read_all (vmd_protocol.c)"],
                    must_have=[r"read_all\.postcondition", r"loop_invariant_step", r"decreases", r"OS: read destination", r"COVER"],
                    min_checks=30, weight=5))
    obs.append(dict(id="C18.proto.write_all", prop="C18", harness=H, entry="h_write_all", annotate=PANN, defines=PROTO,
                    enforce="write_all", loops=True, unwind="auto", strength="U", functions=["write_all (vmd_protocol.c)"],
                    must_have=[r"write_all\.postcondition", r"loop_invariant_step", r"decreases", r"OS: write source", r"COVER"],
                    min_checks=30, weight=4))
    obs.append(dict(id="C18.proto.recv_header", prop="C18", harness=H, entry="h_recv_header", defines=RW,
                    enforce="vmd_msg_recv_header", replace=["read_all"], unwind=6, strength="U",
                    functions=["vmd_msg_recv_header"],
                    must_have=[r"vmd_msg_recv_header\.postcondition", r"read_all\.precondition", r"COVER"], min_checks=20))
    obs.append(dict(id="C18.proto.recv_payload", prop="C18", harness=H, entry="h_recv_payload", defines=RW,
                    enforce="vmd_msg_recv_payload", replace=["read_all"], unwind=6, strength="U",
                    functions=["vmd_msg_recv_payload"],
                    must_have=[r"vmd_msg_recv_payload\.postcondition", r"read_all\.precondition", r"COVER"], min_checks=20))
    obs.append(dict(id="C18.proto.send", prop="C18", harness=H, entry="h_send", defines=RW,
                    enforce="vmd_msg_send", replace=["write_all"], unwind=6, strength="U", functions=["vmd_msg_send"],
                    must_have=[r"vmd_msg_send\.postcondition", r"write_all\.precondition", r"COVER"], min_checks=20))
    for fn in ("simple", "output", "exit", "error"):
        obs.append(dict(id="C18.proto.send_" + fn, prop="C18", harness=H, entry="h_send_" + fn, defines=SEND,
                        enforce="vmd_msg_send_" + fn, replace=["vmd_msg_send"], unwind=6, strength="U",
                        functions=["vmd_msg_send_" + fn],
                        must_have=[r"vmd_msg_send_%s\.postcondition" % fn, r"vmd_msg_send\.precondition", r"COVER"], min_checks=20))
    # ---- session layer: client_thread, every callee a stub body ----
    for nm, must in (("session", [r"no protocol I/O after close", r"nvm_module_free on the live module", r"memory-leak"]),
                     ("noexec", [r"nvm_deserialize only on a completely received payload"]),
                     ("verified", [])):
        d = {"VMD_VIEW_SESSION": 1, "_GNU_SOURCE": 1, "VMD_OBL_" + nm.upper(): 1}
        obs.append(dict(id="C18." + nm, prop="C18", harness=H, entry="h_client_thread", defines=d,
                        enforce="client_thread", unwind=8, strength="U", functions=SESSION_FNS, gi_malloc_default=True,
                        flags=["--memory-leak-check"] if nm == "session" else [],
                        witness={"replayer": "vmd_verified"} if nm == "verified" else None,
                        must_have=[r"client_thread\.postcondition", r"COVER"] + must, min_checks=50, timeout=600, weight=2))
    # the session contract again, with the REAL vmd_protocol.c under client_thread; read_all / write_all by the contracts
    # that C18.proto.read_all / write_all enforce against read()/write()
    d = {"VMD_VIEW_SESSION": 1, "_GNU_SOURCE": 1, "VMD_OBL_SESSION": 1, "VMD_REAL_PROTO": 1, "VMD_REPLACE_RW": 1}
    obs.append(dict(id="C18.session.os", prop="C18", harness=H, entry="h_client_thread_os", defines=d,
                    enforce="client_thread", replace=["read_all", "write_all"], unwind=8, strength="U", gi_malloc_default=True,
                    functions=SESSION_FNS + ["vmd_msg_recv_header", "vmd_msg_recv_payload", "vmd_msg_send", "vmd_msg_send_simple",
                                             "vmd_msg_send_output", "vmd_msg_send_exit", "vmd_msg_send_error"],
                    flags=["--memory-leak-check"],
                    must_have=[r"client_thread\.postcondition", r"read_all\.precondition", r"write_all\.precondition", r"memory-leak", r"COVER"],
                    min_checks=100, timeout=900, weight=10))
    # ---- process level ----
    sd = {"VMD_VIEW_SESSION": 1, "_GNU_SOURCE": 1}
    obs.append(dict(id="C18.sigpipe", prop="C18", harness=H, entry="h_setup_signals", defines=sd, enforce="setup_signals",
                    unwind=8, strength="U", functions=["setup_signals"],
                    must_have=[r"setup_signals\.postcondition", r"OS: sigaction argument valid", r"COVER"], min_checks=10))
    ad = {"VMD_VIEW_SESSION": 1, "_GNU_SOURCE": 1, "VMD_OBL_ACCEPT": 1}
    obs.append(dict(id="C18.accept", prop="C18", harness=H, entry="h_server_run", defines=ad, annotate=SANN,
                    enforce="vmd_server_run", replace=["check_pid_file", "write_pid_file", "remove_pid_file"],
                    loops=True, unwind=8, strength="U", note="partial correctness: server loop, loop contract without variant",
                    functions=["vmd_server_run", "setup_signals"],
                    must_have=[r"vmd_server_run\.postcondition", r"loop_invariant_step", r"C18.accept: accept on", r"COVER"],
                    min_checks=50, timeout=600, weight=2))
    return obs
