"""C20.fmt.* - the string builder of the emitted runtime (harness/fmt_sb_h.c)."""
import os, re, subprocess, sys
HERE = os.path.dirname(os.path.abspath(__file__))
VERIF = os.path.dirname(HERE)
sys.path.insert(0, os.path.join(VERIF, "tools"))
import extract, annotate

KEEP = ["int_to_string", "float_to_string", "nl_fmt_sb_ensure", "nl_fmt_sb_new", "nl_fmt_sb_append_cstr", "nl_fmt_sb_append_char"]


def _fmt_sb_rule(repo, work):
    """build the real stdlib_runtime.c natively, let the real generate_string_operations() print the runtime text, keep the
    nl_fmt_sb_t typedef and the four builder functions verbatim (each must be found exactly once), drop the rest"""
    gen = os.path.join(work, "gen")
    os.makedirs(gen, exist_ok=True)
    exe = os.path.join(gen, "stdlib_gen_driver")
    p = subprocess.run(["cc", "-O0", "-w", "-I" + os.path.join(repo, "src"), os.path.join(VERIF, "harness", "stdlib_gen_driver.c"), "-o", exe],
                       stdout=subprocess.PIPE, stderr=subprocess.STDOUT, text=True)
    if p.returncode != 0:
        raise extract.ExtractError("native build of stdlib_runtime.c failed: " + p.stdout[-600:])
    raw = os.path.join(gen, "string_ops.raw.c")
    p = subprocess.run([exe, raw], stdout=subprocess.PIPE, stderr=subprocess.STDOUT, text=True, timeout=60)
    if p.returncode != 0 or not os.path.exists(raw):
        raise extract.ExtractError("generate_string_operations failed: " + p.stdout[-300:])
    txt = open(raw).read()
    m = list(re.finditer(r"typedef struct \{[^}]*\} nl_fmt_sb_t;", txt))
    if len(m) != 1:
        raise extract.ExtractError("nl_fmt_sb_t typedef: expected exactly one, found %d" % len(m))
    parts = [m[0].group(0)]
    masked = annotate.mask(txt)
    for fn in KEEP:
        heads = [h for h in re.finditer(r"\bstatic[^;{}()]*\b%s\s*\(" % fn, masked)]
        if len(heads) != 1:
            raise extract.ExtractError("%s: expected exactly one definition, found %d" % (fn, len(heads)))
        try:
            lo, hi = annotate.find_function(masked, fn)
        except annotate.AnnotateError as e:
            raise extract.ExtractError(str(e))
        parts.append(txt[heads[0].start():hi + 1])
    out = "/* cut by obligations/c20_fmt.py out of what the real generate_string_operations() emits */\n" + "\n\n".join(parts) + "\n"
    open(os.path.join(gen, "fmt_sb.c"), "w").write(out)
    return {"rule": "fmt_sb", "generator": "real generate_string_operations() of src/stdlib_runtime.c, run natively", "kept": ["nl_fmt_sb_t"] + KEEP,
            "kept_bytes": len(out), "generated_bytes": len(txt), "drops": "every other function of the emitted runtime"}


extract.RULES.setdefault("fmt_sb", _fmt_sb_rule)


def fmt_obligations(prop="C20"):
    obs = []
    obs.append(dict(id=prop + ".fmt.append_char", prop=prop, harness="harness/fmt_sb_h.c", entry="h_append_char", extract=["fmt_sb"],
                    enforce="nl_fmt_sb_append_char", unwind=8, unwindset=["nl_fmt_sb_ensure.0:3"], strength="U",
                    functions=["nl_fmt_sb_append_char (emitted)", "nl_fmt_sb_ensure (emitted)"],
                    must_have=[r"nl_fmt_sb_append_char\.postcondition", r"C20\.fmt layout", r"COVER"], min_checks=20, timeout=600, witness=None))
    obs.append(dict(id=prop + ".fmt.append_cstr.bounded", prop=prop, harness="harness/fmt_sb_h.c", entry="h_append_cstr", extract=["fmt_sb"],
                    defines={"FMT_CSTR": 1, "FMT_STRMAX": 4}, enforce="nl_fmt_sb_append_cstr", unwind=8,
                    unwindset=["nl_fmt_sb_ensure.0:5", "strlen.0:6"], strength="B(appended text of <= 4 bytes; builder fill level and capacity arbitrary up to 2^20)",
                    functions=["nl_fmt_sb_append_cstr (emitted)", "nl_fmt_sb_ensure (emitted)"],
                    must_have=[r"nl_fmt_sb_append_cstr\.postcondition", r"COVER"], min_checks=20, timeout=600, witness=None))
    # number formatting of the emitted runtime: the snprintf bound fits the block gc_alloc_string returned, and the block holds the
    # longest text of the conversion (plain CBMC: snprintf / gc_alloc_string are stub bodies in the harness = assumed libc / GC contracts)
    obs.append(dict(id=prop + ".fmt.to_string", prop=prop, harness="harness/fmt_sb_h.c", entry="h_to_string", extract=["fmt_sb"],
                    defines={"FMT_TOSTRING": 1}, unwind=8, strength="U", functions=["int_to_string (emitted)", "float_to_string (emitted)"],
                    must_have=[r"C20\.fmt snprintf bound", r"C20\.fmt block holds", r"COVER"], min_checks=10, timeout=300, witness=None))
    return obs
