META = {"level": "proof"}
def obligations(repo):
    return [
        dict(id="P09.fresh", prop="P09", harness="harness/p09b_h.c", entry="h_p", enforce="f", defines={"P_INV": 1}, replace=["my_alloc", "my_realloc"], loops=True, unwind="auto", strength="U"),
        dict(id="P09.wok", prop="P09", harness="harness/p09b_h.c", entry="h_p", enforce="f", defines={"P_INV": 2}, replace=["my_alloc", "my_realloc"], loops=True, unwind="auto", strength="U"),
    ]
