META = {"level": "proof"}
def obligations(repo):
    return [
        dict(id="P09.inplace", prop="P09", harness="harness/p09b_h.c", entry="h_p", enforce="f", replace=["my_alloc", "my_realloc"], loops=True, unwind=9, strength="U", timeout=120),
    ]
