"""C20 - native runtime containers are memory-safe and behave as sequences (DESIGN 5/C20).

Unit: src/runtime/dyn_array.c (linked as an unmodified translation unit), contracts in contracts/dyn_contracts.h,
harness harness/dyn_h.c.  Element kinds are a case split (-DVERIF_KIND), struct element sizes a further one
(-DVERIF_ESZ / -DVERIF_SSZ); everything else (length, capacity, index, values, store contents) is symbolic.
"""
import os

META = {
    "level": "proof",
    "trusted_base": [
        "contracts/dyn_contracts.h, contracts/list_contracts.h (DYN_WF / LIST_WF and the per-operation contracts; element sizes DYN_ESZ_OF written from the API types)",
        "memmove/memcpy CONTRACTS in contracts/dyn_contracts.h (C11 7.24.2 byte for byte with one ghost byte) replace CBMC's built-in models in remove_at, push_struct, set_struct, pop_struct, list_int_remove/insert: ASSUMED, not checked against the models (symbolic-length array copies do not bit-blast; an SMT lemma did not terminate either).  push/reserve/clone use CBMC's built-in realloc/memcpy models",
        "gc_alloc / gc_release contracts (fresh object of the requested size or NULL; release touches nothing visible): ASSUMED, src/runtime/gc.c is not part of this unit",
        "assert()/abort()/exit() end the run (harness bodies set __verif_dyn and assume false)",
        "fprintf by contracts/libc_stubs.h",
    ],
    "assumptions": [
        "allocation succeeds (--no-malloc-may-fail for cbmc AND goto-instrument): the realloc-failure paths of dyn_array_grow / dyn_array_reserve (print a message, return, then the caller writes data[length] out of bounds) and the malloc-failure paths are NOT checked (DESIGN 3.3 lists them as an unchecked assumption)",
        "capacity <= 2^40 on entry of every dyn_array operation and capacity <= 2^39 when a push must grow (so that capacity*elem_size and capacity*2 stay inside int64); dyn_array_new_with_capacity / dyn_array_reserve: requested capacity <= 2^40 (larger requests overflow capacity*elem_size: not claimed safe); List_int: capacity <= 2^28",
        "DYN_WF as precondition uses exactly-sized fresh objects for header and store; as postcondition it states rw_ok + offset 0 + exact object size + store separate from header (what the next operation's precondition needs); capacity >= 1 (the code only ever produces >= 8)",
        "element kinds: X over the 8 ElementType values; an elem_type outside the enum is not considered",
        "struct arrays (ELEM_STRUCT): the element size is a CONSTANT per query and only the sizes named in the B(...) labels are run; remove_at only for power-of-two sizes.  A symbolic elem_size, and remove_at for other sizes, time out on every back end (multiplication monotonicity / distributivity).  push_struct: struct_size in [1, 2^20]; struct_size 0 is excluded",
        "ghost indices __verif_k (element) and __verif_kb (byte offset) are unconstrained extern objects: a postcondition over them reads 'for every index'",
        "pop_* / get_struct / set_struct / pop_struct: the C20 view is the code's total behaviour (empty or out of range => no change, NULL/0/false); what C08 demands of them is obligations/c08_native.py",
        "CBMC's nondet _Bool is canonicalised to 0/1 in the harness (a C bool object holds only 0 or 1)",
    ],
    "not_reached": [
        "dyn_array_insert_* (declared in dyn_array.h, defined nowhere), dyn_array_free / slice (do not exist)",
        "dyn_array_push_string_copy (strdup model loops over the string)",
        "list_int_insert: UNDECIDED (no answer in 20 min); list_string.c and the other generated list_*.c files not started",
        "gc.c histories (C20.gc.hist), generated-code templates (C20.tmpl.ub): other units",
    ],
    "undecided_part": "operation HISTORIES are covered only through inductiveness: every operation preserves DYN_WF/LIST_WF and updates the abstract sequence as specified, so any finite series does; the induction step post(op) => pre(next op) is by inspection of the two macro texts (DYN_WF_POST vs DYN_WF_PRE), not machine-checked.  Struct arrays only for the listed element sizes.  list_int_insert is OPEN (no obligation closes: > 20 min in propositional reduction).",
}

HARNESS = "harness/dyn_h.c"
DYN_SRC = ["src/runtime/dyn_array.c"]
KINDS = {1: "int", 8: "u8", 2: "float", 3: "string", 4: "bool", 5: "array", 6: "struct", 7: "pointer"}
NONSTRUCT = [1, 8, 2, 3, 4, 5, 7]
GI = ["--no-malloc-may-fail"]   # goto-instrument bakes the malloc model into the DFCC library
TYPED = [1, 8, 2, 3, 4, 5]
SFX = {1: "int", 8: "u8", 2: "float", 3: "string", 4: "bool", 5: "array"}
GC = ["gc_alloc", "gc_release"]
# Struct element sizes: a constant per query (see contracts/dyn_contracts.h: a symbolic size is out of reach).  Cost grows
# with the size and is far higher for sizes that are not powers of two, so the split is NOT complete in either tier and
# every struct-array obligation is labelled bounded: B(struct elem_size in {...}).
ESZ = {   # op class -> (quick sizes, additional thorough sizes)
    "cheap": ([0, 1, 8, 24], [2, 3, 4, 5, 6, 7, 12, 16, 32, 40, 48, 56, 64]),
    "set_struct": ([0, 1, 3, 8, 24], [2, 4, 5, 6, 7, 12, 16, 32, 40, 48, 56, 64]),
    "push_struct": ([8, 24], [1, 2, 3, 4, 16, 32, 40]),
    "push_struct_first": ([8], [1, 2, 3, 4, 16, 24, 32, 40]),
    "remove_at": ([0, 1, 8, 16], [2, 4, 32, 64, 128]),   # powers of two only: (index+1)*esz = index*esz+esz is out of reach otherwise
}


def esz_variants(cls):
    """yield (suffix, esz, tier, strength)"""
    q, t = ESZ[cls]
    lab = "B(struct elem_size in {%s}; quick tier {%s})" % (",".join(map(str, sorted(q + t))), ",".join(map(str, q)))
    for e in q:
        yield ("e%d" % e, e, "quick", lab)
    for e in t:
        yield ("e%d" % e, e, "thorough", lab)


def dyn_ob(prop, oid, k, entry, fn, defines=None, c08=False, **kw):
    d = {"VERIF_KIND": k}
    if c08:
        d["VERIF_C08"] = 1
    d.update(defines or {})
    o = dict(id=oid, prop=prop, harness=HARNESS, entry=entry, defines=d, sources=DYN_SRC, enforce=fn, gi_flags=GI,
             unwind="auto", strength="X", functions=[fn], must_have=[r"%s\.postcondition" % fn, r"COVER"],
             min_checks=10, timeout=240, witness={"replayer": "dyn"})
    o.update(kw)
    return o


ABORT = {"VERIF_EXPECT_ABORT": 1}


def dyn_typed(prop, pfx, ops, c08=False):
    obs = []
    for k in TYPED:
        for op in ops:
            fn = "dyn_array_%s_%s" % (op, SFX[k])
            obs.append(dyn_ob(prop, "%s.%s.%s" % (pfx, op, KINDS[k]), k, "h_" + op, fn, c08=c08,
                              defines=ABORT if op in ("get", "set") else None, weight=5 if op == "push" else 1))
    return obs


def generic_ops(with_all):
    """(op, entry, function, extra keys) of the kind-generic operations"""
    ops = [("remove_at", "h_remove_at", "dyn_array_remove_at", dict(defines=ABORT, replace=["memmove"], weight=6))]
    if with_all:
        ops += [
            ("clear", "h_clear", "dyn_array_clear", {}),
            ("length", "h_length", "dyn_array_length", {}),
            ("capacity", "h_capacity", "dyn_array_capacity", {}),
            ("elem_type", "h_elem_type", "dyn_array_get_elem_type", {}),
            ("reserve", "h_reserve", "dyn_array_reserve", dict(weight=3)),
            ("new", "h_new", "dyn_array_new", dict(replace=GC)),
            ("new_with_capacity", "h_new_cap", "dyn_array_new_with_capacity", dict(replace=GC)),
            ("clone", "h_clone", "dyn_array_clone", dict(replace=GC, weight=3)),
        ]
    return ops


def struct_ops(c08):
    return [
        ("get_struct", "h_get_struct", "dyn_array_get_struct", dict(defines={"VERIF_EXIT_COVER": 1})),   # out of range ends in exit(1) (ca10dd0): must be reachable
        ("set_struct", "h_set_struct", "dyn_array_set_struct", dict(defines=ABORT, replace=["memcpy"])),
        ("pop_struct", "h_pop_struct", "dyn_array_pop_struct",
         dict(defines={"VERIF_EXPECT_ABORT": 1, "VERIF_GHOST_OFF": 1}, replace=["memcpy"])),
    ]


def dyn_generic(prop, pfx, with_all=True):
    obs = []
    for op, entry, fn, kw in generic_ops(with_all):
        for k in NONSTRUCT:
            obs.append(dyn_ob(prop, "%s.%s.%s" % (pfx, op, KINDS[k]), k, entry, fn, **dict(kw)))
        if op in ("new", "new_with_capacity"):   # element size plays no role yet: the struct array is born with elem_size 0
            obs.append(dyn_ob(prop, "%s.%s.struct" % (pfx, op), 6, entry, fn, **dict(kw)))
            continue
        for sfx, e, tier, st in esz_variants("remove_at" if op == "remove_at" else "cheap"):
            kw2 = dict(kw)
            d = dict(kw2.pop("defines", None) or {})
            d["VERIF_ESZ"] = e
            obs.append(dyn_ob(prop, "%s.%s.struct.%s" % (pfx, op, sfx), 6, entry, fn, defines=d, tier=tier, strength=st, **kw2))
    return obs


def dyn_struct(prop, pfx, c08=False):
    obs = []
    for op, entry, fn, kw in struct_ops(c08):
        for sfx, e, tier, st in esz_variants("set_struct" if op == "set_struct" else "cheap"):
            kw2 = dict(kw)
            d = dict(kw2.pop("defines", None) or {})
            d["VERIF_ESZ"] = e
            obs.append(dyn_ob(prop, "%s.%s.%s" % (pfx, op, sfx), 6, entry, fn, defines=d, c08=c08, tier=tier, strength=st, **kw2))
    return obs


def dyn_push_struct(prop, pfx):
    """push_struct: (a) struct array that already has an element size E (struct_size symbolic, pinned by the code's own
    assert); (b) fresh struct array (elem_size 0) and (c) EMPTY array of any other kind (promotion): struct_size becomes
    the element size -> split over struct_size 1..255 plus the class > 255 (must not return)."""
    obs = []
    kw = dict(replace=["memcpy"], weight=8)
    fn = "dyn_array_push_struct"
    for sfx, e, tier, st in esz_variants("push_struct"):
        obs.append(dyn_ob(prop, "%s.push_struct.struct.%s" % (pfx, sfx), 6, "h_push_struct", fn,
                          defines={"VERIF_ESZ": e, "VERIF_EXPECT_ABORT": 1}, tier=tier, strength=st, **kw))
    for who, k, base in (("fresh", 6, {"VERIF_ESZ": 0}), ("promote", 0, {})):
        for sfx, e, tier, st in esz_variants("push_struct_first"):
            d = dict(base, VERIF_SSZ=e)
            if who == "promote":      # a non-empty array of another kind must end the run
                d["VERIF_EXPECT_ABORT"] = 1
            obs.append(dyn_ob(prop, "%s.push_struct.%s.s%s" % (pfx, who, sfx[1:]), k, "h_push_struct", fn, defines=d,
                              tier=tier, strength=st, **kw))
        d = dict(base, VERIF_SSZ_BIG=1, VERIF_EXPECT_ABORT=1)
        obs.append(dyn_ob(prop, "%s.push_struct.%s.big" % (pfx, who), k, "h_push_struct", fn, defines=d,
                          must_have=[r"COVER"], **kw))
    return obs


LIST_H = "harness/list_h.c"
LIST_ANN = [("src/runtime/list_int.c", "contracts/loops/list_int.c.loops")]
# (op, entry, function, reaches exit(1)?, grows (ensure_capacity loop + realloc)?, memmove?)
LIST_OPS = [("with_capacity", "h_with_capacity", "list_int_with_capacity", 0, 0, 0), ("new", "h_new", "list_int_new", 0, 0, 0),
            ("get", "h_get", "list_int_get", 1, 0, 0), ("set", "h_set", "list_int_set", 1, 0, 0), ("pop", "h_pop", "list_int_pop", 1, 0, 0),
            ("push", "h_push", "list_int_push", 0, 1, 0), ("insert.nogrow", "h_insert", "list_int_insert", 1, 0, 1),
            ("insert.grow", "h_insert", "list_int_insert", 1, 1, 1),
            ("remove", "h_remove", "list_int_remove", 1, 0, 1), ("clear", "h_clear", "list_int_clear", 0, 0, 0),
            ("length", "h_length", "list_int_length", 0, 0, 0), ("capacity", "h_capacity", "list_int_capacity", 0, 0, 0),
            ("is_empty", "h_is_empty", "list_int_is_empty", 0, 0, 0), ("free", "h_free", "list_int_free", 0, 0, 0),
            ("free_null", "h_free", "list_int_free", 0, 0, 0)]
LIST_C08 = ("get", "set", "pop", "insert.nogrow", "insert.grow", "remove")


def list_int(prop, pfx, only=None):
    obs = []
    for op, entry, fn, ab, grows, mm in LIST_OPS:
        if only and op not in only:
            continue
        if op.startswith("insert"):
            # OPEN (not registered): list_int_insert does not get past CBMC's propositional reduction in 20 min (memmove contract
            # havoc + a further symbolic write); a check that can only report "undecided" must not sit in a tier
            continue
        must = [r"%s\.postcondition" % fn, r"COVER"]
        if grows:
            must += [r"loop_invariant_step", r"decreases"]
        if ab:
            must += [r"C08: the run ends with a non-zero status"]
        obs.append(dict(id="%s.%s" % (pfx, op), prop=prop, harness=LIST_H, entry=entry, annotate=LIST_ANN,
                        sources=["src/runtime/list_int.c"],
                        defines=dict({"VERIF_EXPECT_ABORT": 1} if ab else ({"VERIF_LIST_NULL": 1} if op == "free_null" else {}),
                                     **({"VERIF_LIST_GROW": 1 if op.endswith(".grow") else 0} if op.startswith("insert") else {})),
                        enforce=fn, replace=["memmove"] if mm else [], loops=True, gi_flags=GI, unwind="auto",
                        strength="X" if op.startswith("insert") else "U",
                        functions=[fn] + (["ensure_capacity"] if grows else []), must_have=must, min_checks=10, timeout=240,
                        weight=10 if mm else (4 if grows else 1), witness={"replayer": "dyn"},
                        # insert: not reached - the query does not get past CBMC's propositional reduction in 20 min
                        # (memmove contract havoc + a further symbolic write); kept in the thorough tier as undecided
                        tier="thorough" if op.startswith("insert") else "quick"))
    return obs


def obligations(repo):
    obs = list_int("C20", "C20.list.int")
    obs += dyn_typed("C20", "C20.dyn", ["get", "set", "push", "pop"])
    obs += dyn_generic("C20", "C20.dyn")
    obs += dyn_struct("C20", "C20.dyn")
    obs += dyn_push_struct("C20", "C20.dyn")
    import os, sys
    sys.path.insert(0, os.path.dirname(os.path.abspath(__file__)))
    try:
        import c20_tmpl
        obs += c20_tmpl.tmpl_obligations("C20")
    except ImportError:
        pass
    import c20_fmt
    obs += c20_fmt.fmt_obligations("C20")
    # list_int_insert: the contract-enforced obligations are open (see list_int); whole-function bounded stand-in, plain CBMC
    for cap in range(1, 5):
        for ln in range(0, cap + 1):
            for ix in range(0, ln + 1):
                obs.append(dict(id="C20.list.int.insert.bounded.c%d.l%d.i%d" % (cap, ln, ix), prop="C20", harness="harness/list_insert_h.c",
                                entry="h_insert_bounded", defines={"LIST_C": cap, "LIST_L": ln, "LIST_I": ix}, include_repo=["src"], unwind=8,
                                object_bits=10, strength="B(list capacity <= 4: case split over capacity, fill level, index; contents arbitrary)",
                                functions=["list_int_insert", "ensure_capacity"], must_have=[r"C20\.list insert", r"COVER"], min_checks=20,
                                timeout=300, witness=None))
    return obs
