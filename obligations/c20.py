"""C20 - native runtime containers are memory-safe and behave as sequences (DESIGN 5/C20)."""
import os

HARNESS = "harness/dyn_h.c"
DYN_SRC = ["src/runtime/dyn_array.c"]
KINDS = {1: "int", 8: "u8", 2: "float", 3: "string", 4: "bool", 5: "array", 6: "struct", 7: "pointer"}
GI = ["--no-malloc-may-fail"]   # goto-instrument bakes the malloc model into the DFCC library
TYPED = [1, 8, 2, 3, 4, 5]
SFX = {1: "int", 8: "u8", 2: "float", 3: "string", 4: "bool", 5: "array"}


def dyn_typed(prop, pfx, ops, c08=False):
    obs = []
    for k in TYPED:
        nm = KINDS[k]
        for op in ops:
            fn = "dyn_array_%s_%s" % (op, SFX[k])
            d = {"VERIF_KIND": k}
            if c08:
                d["VERIF_C08"] = 1
            if op in ("get", "set"):
                d["VERIF_EXPECT_ABORT"] = 1
            obs.append(dict(id="%s.%s.%s" % (pfx, op, nm), prop=prop, harness=HARNESS, entry="h_" + op, defines=d,
                            sources=DYN_SRC, enforce=fn, gi_flags=GI, unwind="auto", strength="X", functions=[fn],
                            must_have=[r"%s\.postcondition" % fn, r"COVER"], min_checks=10,
                            witness=None))
    return obs


def dyn_ob(prop, pfx, op, k, entry, fn, c08=False, **kw):
    d = {"VERIF_KIND": k}
    if c08:
        d["VERIF_C08"] = 1
    d.update(kw.pop("defines", {}))
    o = dict(id="%s.%s.%s" % (pfx, op, KINDS[k]), prop=prop, harness=HARNESS, entry=entry, defines=d,
             sources=DYN_SRC, enforce=fn, gi_flags=GI, unwind="auto", strength="X", functions=[fn],
             must_have=[r"%s\.postcondition" % fn, r"COVER"], min_checks=10, witness=None)
    o.update(kw)
    return o


def dyn_generic(prop, pfx):
    obs = []
    for k in KINDS:
        obs.append(dyn_ob(prop, pfx, "remove_at", k, "h_remove_at", "dyn_array_remove_at", defines={"VERIF_EXPECT_ABORT": 1}))
        obs.append(dyn_ob(prop, pfx, "clear", k, "h_clear", "dyn_array_clear"))
        obs.append(dyn_ob(prop, pfx, "length", k, "h_length", "dyn_array_length"))
        obs.append(dyn_ob(prop, pfx, "capacity", k, "h_capacity", "dyn_array_capacity"))
        obs.append(dyn_ob(prop, pfx, "elem_type", k, "h_elem_type", "dyn_array_get_elem_type"))
        obs.append(dyn_ob(prop, pfx, "reserve", k, "h_reserve", "dyn_array_reserve"))
        obs.append(dyn_ob(prop, pfx, "new", k, "h_new", "dyn_array_new", replace=["gc_alloc", "gc_release"]))
        obs.append(dyn_ob(prop, pfx, "new_with_capacity", k, "h_new_cap", "dyn_array_new_with_capacity",
                          replace=["gc_alloc", "gc_release"]))
        obs.append(dyn_ob(prop, pfx, "clone", k, "h_clone", "dyn_array_clone", replace=["gc_alloc", "gc_release"]))
        obs.append(dyn_ob(prop, pfx, "push_struct", k, "h_push_struct", "dyn_array_push_struct",
                          defines={"VERIF_EXPECT_ABORT": 1}))
    return obs


def dyn_struct(prop, pfx, c08=False):
    return [
        dyn_ob(prop, pfx, "get_struct", 6, "h_get_struct", "dyn_array_get_struct", c08=c08),
        dyn_ob(prop, pfx, "set_struct", 6, "h_set_struct", "dyn_array_set_struct", c08=c08, defines={"VERIF_EXPECT_ABORT": 1}),
        dyn_ob(prop, pfx, "pop_struct", 6, "h_pop_struct", "dyn_array_pop_struct", c08=c08,
               defines={"VERIF_EXPECT_ABORT": 1, "VERIF_GHOST_OFF": 1}),
    ]


def obligations(repo):
    obs = dyn_typed("C20", "C20.dyn", ["get", "set", "push", "pop"])
    obs += dyn_generic("C20", "C20.dyn")
    obs += dyn_struct("C20", "C20.dyn")
    return obs
