"""C03 - compile-time shadow-test evaluation agrees with the compiled program: operator-level fragment (DESIGN 5/C03).

Unit: the tree-walking interpreter src/eval.c.  harness/eval_ops_h.c (PLAIN CBMC, no --dfcc) hands the REAL
eval_expression / eval_prefix_op / eval_statement a hand-built node  (op leaf0 leaf1)  resp.  assert <leaf>  whose
literal leaves carry arbitrary int64 / bool payloads and compares the result with the spec functions of
contracts/spec_int.h - the SAME functions the VM handlers are proved against (C02.vm.<OP>), so agreement of the two
engines on these operators follows by transitivity wherever both obligations hold.
ids: C03.int.<OP>[.value8|.zero|.minneg1]   C03.bool.<EQ|NE>   C03.sc.int.<AND|OR>   C03.assert[.nowrap]
     C03.float.<OP>[.m8|.m8e16|.m4e4|.zero]   C03.mixed.<if|fi>.<CMP>   C03.slice.<dyn|array>.int[.wrap]
"""
import os, sys
sys.path.insert(0, os.path.dirname(os.path.abspath(__file__)))

META = {
    "level": "proof",
    "trusted_base": [
        "contracts/spec_int.h (spec functions written from the property statement; shared with C02.vm.*) and the comparison / "
        "logic spec functions + result predicates of contracts/eval_contracts.h",
        "harness/eval_ops_h.c: the triples are stated as assertions around ONE call of the real function (plain CBMC, like harness/vm_step_h.c); "
        "the AST nodes are built by hand from the node layout in src/nanolang.h (AST_PREFIX_OP {op,args,arg_count}, AST_NUMBER, AST_BOOL, AST_ASSERT {condition})",
        "tools/annotate.py + contracts/loops/eval.c.ops.loops: seven ghost statements at the entry of eval_expression (per-node evaluation counters "
        "and sequence numbers in __verif_ev); nothing else is inserted, nothing is dropped",
    ],
    "assumptions": [
        "FRAGMENT: only the per-operator semantics of the interpreter on two (one) arbitrary int64 resp. bool operand VALUES, the evaluation "
        "count/order of the two operand nodes, and the bookkeeping of one `assert` statement are decided",
        "operands are produced by LITERAL leaves (AST_NUMBER / AST_BOOL, arbitrary payload) through the real eval_expression: every int / bool "
        "Value the interpreter's constructors create (create_int / create_bool: flags cleared) is of that form; Values carrying is_return / "
        "is_break / is_continue flags as operands are not explored",
        "and/or/not are decided on BOOL operands only (what the type checker admits); is_truthy on other operand types is not part of the fragment",
        "signed overflow of `left.as.int_val + right.as.int_val`, `-`, `*`, unary `-` on long long (src/eval.c eval_prefix_op int arm) is undefined "
        "behaviour in ISO C; nanoc is built at -O0 without -fwrapv where gcc wraps.  ADD/SUB/MUL/NEG run WITHOUT --signed-overflow-check and the wrap "
        "is an assumption (same treatment as C02.vm.*).  DIV/MOD run WITH all checks: the overflow of INT64_MIN / -1 is a hardware trap, not a wrap",
        "MUL/DIV/MOD: the generic 64-bit product/quotient against the spec needs two multipliers/dividers compared (does not finish on SAT, "
        "measured under C02): full domain = type + fault-freedom + algebraic corner cases; the value itself is a bounded obligation B(8-bit operands)",
        "C03.assert: fewer than INT_MAX failed assertions were counted before this one; the excluded case is its own obligation C03.assert.nowrap "
        "(the int counter's increment is a signed overflow there; at -O0 it wraps to INT_MIN and run_shadow_tests' `> 0` test reports the test as passed)",
        "C03.float.* / C03.mixed.*: the spec is the C double operation itself (what the generated C performs), computed in the harness on operand "
        "values obtained through the same literal-leaf path; arithmetic results compared as bit patterns; CBMC's IEEE-754 model with round-to-nearest "
        "on both sides.  Full-domain +,-,*,/ need two float circuits compared (ADD 216 s, SUB 167 s minisat; DIV 194 s z3; MUL > 300 s on both): "
        "thorough tier; quick tier = B(8 significant mantissa bits; for * additionally finite normal operands with exponent in [-16,16]; for / 4 bits and [-4,4]). "
        "Comparisons, ==, != and unary minus are full-domain (NaN, +-0, inf, subnormals).  Mixed int/float ARITHMETIC is rejected by the type checker and has no obligation",
        "C03.slice.*: spec = the documented (start, length) semantics, saturating (docs/STDLIB.md; the same formula is the VM's spec in C02.vm.ARR_SLICE and "
        "what the emitted nl_array_slice computes since fix 5597440); the .wrap obligations cover lengths reaching past INT64_MAX; int elements only; B(source capacity <= 5); gc_alloc is a stub = malloc; "
        "the result's elements are checked through one ghost index in_k",
        "exit/abort/__assert_fail are path ends (ghost flag + assume(false)); fprintf is CBMC's built-in model",
        "environment pointer: arbitrary, never dereferenced on the proved paths (pointer checks on)",
    ],
    "undecided_part": "Composition over programs is NOT decided: that every operator occurrence of every function body reaches eval_prefix_op with "
                      "operands evaluated as here, scoping / shadowing / dynamic name resolution (the property text names a known disagreement), "
                      "calls, control flow, array literals, strings, floats, structs/unions/tuples, and everything PRINTED (formats of print/println) "
                      "are outside this fragment.  The native side of the comparison is represented by the shared spec functions only "
                      "(C02.nat.* is not built), so 'interpreter == compiled program' holds per operator modulo the spec, not end to end.",
}

NO_SOVF = ["--no-signed-overflow-check", "--bounds-check", "--pointer-check", "--div-by-zero-check", "--pointer-overflow-check",
           "--pointer-primitive-check", "--undefined-shift-check"]
HARNESS = "harness/eval_ops_h.c"
ANN = [("src/eval.c", "contracts/loops/eval.c.ops.loops")]
SRCS = ["src/env.c", "src/runtime/dyn_array.c"]
EOP = {"ADD": 1, "SUB": 2, "MUL": 3, "DIV": 4, "MOD": 5, "NEG": 6, "EQ": 7, "NE": 8, "LT": 9, "LE": 10, "GT": 11, "GE": 12,
       "AND": 13, "OR": 14, "NOT": 15}
DOM = {"ALL": 0, "DEFINED": 1, "ZERO": 2, "MINNEG1": 3}


def base(prop, oid, entry, defines, **kw):
    d = dict(id=oid, prop=prop, harness=HARNESS, entry=entry, annotate=ANN, include_repo=["", "src"], sources=SRCS,
             defines=dict(defines), unwind=3, object_bits=9, strength="X", timeout=300, mem_gb=8,
             min_checks=5, must_have=[r"COVER"], weight=2, witness={"replayer": "evalops"})
    d.update(kw)
    return d


def op_obligations(prop="C03"):
    obs = []
    for op in ["ADD", "SUB", "MUL", "NEG", "DIV", "MOD", "EQ", "NE", "LT", "LE", "GT", "GE", "AND", "OR", "NOT"]:
        fns = ["eval_prefix_op[%s]" % op, "eval_expression[dispatch, literal leaves]"]
        d = {"VERIF_EOP": EOP[op]}
        if op in ("DIV", "MOD"):
            # case split of the operand plane: where C's / and % are defined | divisor 0 | (INT64_MIN, -1)
            d["VERIF_DOM"] = DOM["DEFINED"]
        o = base(prop, "%s.int.%s" % (prop, op), "h_op", d, functions=fns, must_have=[r"C03\.int %s" % op, r"COVER"])
        if op in ("ADD", "SUB", "MUL", "NEG"):
            o["checks"] = NO_SOVF
        obs.append(o)
        if op in ("MUL", "DIV", "MOD"):
            b = base(prop, "%s.int.%s.value8" % (prop, op), "h_op", dict(d, VERIF_SMALL=1), functions=fns,
                     must_have=[r"C03\.int %s" % op, r"COVER"],
                     strength="B(operands in [-128,127]: product/quotient/remainder value against the spec; the full-domain obligation covers type, fault-freedom and corner cases)")
            if op == "MUL":
                b["checks"] = NO_SOVF
            obs.append(b)
        if op in ("DIV", "MOD"):
            # divisor 0: the native engine's documented behaviour is a run-time fault (the run ends, no value);
            # the obligation demands the same of the interpreter: the evaluation does not return, exit status != 0
            obs.append(base(prop, "%s.int.%s.zero" % (prop, op), "h_op", {"VERIF_EOP": EOP[op], "VERIF_DOM": DOM["ZERO"], "VERIF_EXIT_COVER": 1},
                            functions=fns, must_have=[r"C03\.int %s by zero" % op]))
            # INT64_MIN / -1: spec_div_vm / spec_mod_vm say INT64_MIN resp. 0 and NO fault (CBMC's overflow check on the C `/`, `%`)
            obs.append(base(prop, "%s.int.%s.minneg1" % (prop, op), "h_op", {"VERIF_EOP": EOP[op], "VERIF_DOM": DOM["MINNEG1"]},
                            functions=fns, must_have=[r"C03\.int %s INT64_MIN" % op, r"COVER"]))
        if op in ("EQ", "NE"):
            obs.append(base(prop, "%s.bool.%s" % (prop, op), "h_op", {"VERIF_EOP": EOP[op], "VERIF_BOOL_OPERANDS": 1}, functions=fns,
                            must_have=[r"C03\.bool %s" % op, r"COVER"]))
        if op in ("AND", "OR"):
            obs.append(base(prop, "%s.sc.int.%s" % (prop, op), "h_op", {"VERIF_EOP": EOP[op], "VERIF_SC": 1}, functions=fns,
                            must_have=[r"C03\.sc\.int %s" % op, r"COVER"]))
    obs.append(base(prop, "%s.assert" % prop, "h_assert", {"VERIF_EXIT_COVER": 1}, functions=["eval_statement[AST_ASSERT]", "is_truthy"],
                    must_have=[r"C03\.assert false condition: failure counter", r"C03\.assert true condition", r"COVER"], strength="U"))
    # the counter value the precondition of C03.assert excludes: 2^31-1 failures already counted (reachable: a loop around a failing assert)
    obs.append(base(prop, "%s.assert.nowrap" % prop, "h_assert", {"VERIF_ASSERT_MAX": 1}, functions=["eval_statement[AST_ASSERT]"],
                    must_have=[r"C03\.assert\.nowrap", r"COVER"], strength="U"))
    return obs


ARITH_BACKENDS = {"ADD": ["minisat"], "SUB": ["minisat"], "MUL": ["minisat", "z3"], "DIV": ["z3"]}


def _no_witness(obs):
    # replay/replay_evalops.c has no float / slice mode: the findings of these obligations are documented by the programs in findings/
    for o in obs:
        o["witness"] = None
    return obs


def float_obligations(prop="C03"):
    """FLOAT x FLOAT operators and the mixed INT/FLOAT comparisons the type checker admits (with a diagnostic); mixed
    ARITHMETIC is rejected by the type checker ("Arithmetic expects numeric types ...": Type checking failed) and has no obligation."""
    obs = []
    fns = lambda op: ["eval_prefix_op[float %s]" % op, "eval_expression[dispatch, AST_FLOAT / AST_NUMBER leaves]"]
    for op in ["ADD", "SUB", "MUL", "DIV", "NEG", "EQ", "NE", "LT", "LE", "GT", "GE"]:
        d = {"VERIF_EOP": EOP[op], "VERIF_MIX": 0}
        if op == "DIV":
            d["VERIF_DOM"] = DOM["DEFINED"]          # every divisor except +-0.0
        o = base(prop, "%s.float.%s" % (prop, op), "h_fop", d, functions=fns(op), must_have=[r"C03\.float %s" % op, r"COVER"])
        if op in ARITH_BACKENDS:
            # two separately encoded IEEE adders / multipliers / dividers over the same operands (the interpreter's and the spec's):
            # measured ADD 216 s, SUB 167 s (minisat), DIV 194 s (z3), MUL > 300 s on both -> full domain = thorough tier;
            # quick tier = the same statement on operands with 8 significant mantissa bits (all exponents, signs, special values)
            o["backends"] = ARITH_BACKENDS[op]
            o["tier"] = "thorough"
            o["timeout"] = 1800
            b = base(prop, "%s.float.%s.m8" % (prop, op), "h_fop", dict(d, VERIF_FMASK=8), functions=fns(op), must_have=[r"C03\.float %s" % op, r"COVER"],
                     strength="B(both operands: any sign, any 11-bit exponent incl. zero/subnormal/inf/NaN, top 8 mantissa bits arbitrary, low 44 mantissa bits zero)")
            if op in ("MUL", "DIV"):
                b["id"] = "%s.float.%s.m8e16" % (prop, op)
                b["defines"]["VERIF_FEXP"] = 16
                b["strength"] = "B(both operands finite normal, unbiased exponent in [-16,16], top 8 mantissa bits arbitrary, low 44 zero)"
            if op == "DIV":
                # the divider does not close on SAT even at 8 mantissa bits (> 300 s): 4 bits, exponents in [-4,4]: 10 s
                b["id"] = "%s.float.DIV.m4e4" % prop
                b["defines"].update({"VERIF_FMASK": 4, "VERIF_FEXP": 4})
                b["strength"] = "B(both operands finite normal, unbiased exponent in [-4,4], top 4 mantissa bits arbitrary, low 48 zero)"
            obs.append(b)
        obs.append(o)
        if op == "DIV":
            # divisor +-0.0: C (and the compiled program) yields +-inf / NaN and goes on; no fault
            obs.append(base(prop, "%s.float.DIV.zero" % prop, "h_fop", dict(d, VERIF_DOM=DOM["ZERO"]), functions=fns(op),
                            must_have=[r"C03\.float DIV", r"COVER"]))
    for mix, tag in ((1, "if"), (2, "fi")):
        for op in ["EQ", "NE", "LT", "LE", "GT", "GE"]:
            obs.append(base(prop, "%s.mixed.%s.%s" % (prop, tag, op), "h_fop", {"VERIF_EOP": EOP[op], "VERIF_MIX": mix}, functions=fns(op),
                            must_have=[r"C03\.float %s" % op, r"COVER"]))
    return obs


def slice_obligations(prop="C03"):
    obs = []
    for kind, ak in (("dyn", 2), ("array", 1)):
        for dom, sl in (("", 1), (".wrap", 2)):
            o = base(prop, "%s.slice.%s.int%s" % (prop, kind, dom), "h_slice", {"VERIF_AK": ak, "VERIF_SL": sl, "VERIF_SLICE_CAP": 5},
                     functions=["builtin_array_slice[%s]" % ("VAL_DYN_ARRAY" if ak == 2 else "VAL_ARRAY")], unwind=8,
                     must_have=[r"C03\.slice result length", r"COVER"], witness=None,
                     strength="B(source capacity <= 5 elements; start, length: full int64%s)" % (", wrapping part of the plane" if sl == 2 else ", non-wrapping part of the plane"))
            obs.append(o)
    return obs


def obligations(repo):
    return op_obligations() + _no_witness(float_obligations()) + slice_obligations()
