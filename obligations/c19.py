"""C19 - outputs are reproducible: the fragment that is a property of one call (DESIGN 5/C19)."""
META = {
    "level": "proof",
    "trusted_base": ["contracts/spec_isa.h"],
    "assumptions": [
        "FRAGMENT: only the instruction encoder is decided (2-safety by self-composition of the real isa_encode, X over 256 opcode bytes): its output depends on the opcode and the operand fields the table row names and on nothing else in the DecodedInstruction (padding, unused slots, operand_types, byte_length)",
        "NOT decided: nvm_serialize noninterference (designed as a bounded self-composition, not built), traversal orders in codegen_compile, the transpiler, module loading order, diagnostics, dependence on cwd / environment / time (needs whole-program information flow)",
    ],
    "undecided_part": "everything upstream of the encoder: bytecode generator, serializer, transpiler, drivers",
}


def table_rows(repo):
    """opcode -> operand type codes, read mechanically from the real sources (isa.h enum values, isa.c INSTRn rows)"""
    import os, re
    h = open(os.path.join(repo, "src/nanoisa/isa.h")).read()
    c = open(os.path.join(repo, "src/nanoisa/isa.c")).read()
    opc = {m.group(1): int(m.group(2), 16) for m in re.finditer(r"\b(OP_\w+)\s*=\s*(0x[0-9A-Fa-f]+)", h)}
    tcode = {"OPERAND_NONE": 0, "OPERAND_U8": 1, "OPERAND_U16": 2, "OPERAND_U32": 3, "OPERAND_I32": 4, "OPERAND_I64": 5, "OPERAND_F64": 6}
    rows = {}
    for m in re.finditer(r"INSTR([0-3])\((OP_\w+)\s*,\s*\"\w+\"((?:\s*,\s*OPERAND_\w+)*)\)", c):
        n, op, rest = int(m.group(1)), m.group(2), m.group(3)
        ts = [tcode[t] for t in re.findall(r"OPERAND_\w+", rest)]
        if op in opc and len(ts) == n:
            rows[opc[op]] = ts
    return rows


def emit_obligations(repo):
    obs = []
    for K, ts in sorted(table_rows(repo).items()):
        d = {"VERIF_K": K, "VERIF_NARGS": len(ts)}
        for i, t in enumerate(ts):
            d["VERIF_T%d" % (i + 1)] = t
        obs.append(dict(id="C19.emit.%d" % K, prop="C19", harness="harness/emit_h.c", entry="h_emit", defines=d,
                        include_repo=["src"], unwind=9, unwindset=["code_ensure.0:4"], object_bits=10, strength="X",
                        functions=["emit_op", "code_ensure"], must_have=[r"C19\.emit", r"COVER"], min_checks=20, timeout=300))
    return obs


def obligations(repo):
    import os, sys
    sys.path.insert(0, os.path.dirname(os.path.abspath(__file__)))
    import c10
    return emit_obligations(repo) + c10.shape_obligations("C19") + [dict(id="C19.enc.%d" % K, prop="C19", harness="harness/isa_h.c", entry="h_det_enc", defines={"VERIF_K": K},
                 unwind=33, strength="X", functions=["isa_encode"], must_have=[r"C19\.enc", r"COVER"], min_checks=20)
            for K in range(256)]
