"""C19 - outputs are reproducible: the fragment that is a property of one call (DESIGN 5/C19)."""
META = {
    "level": "proof",
    "trusted_base": ["contracts/spec_isa.h"],
    "assumptions": [
        "FRAGMENT: only the instruction encoder is decided (2-safety by self-composition of the real isa_encode, X over 256 opcode bytes): its output depends on the opcode and the operand fields the table row names and on nothing else in the DecodedInstruction (padding, unused slots, operand_types, byte_length)",
        "NOT decided: nvm_serialize noninterference (designed as a bounded self-composition, not built), traversal orders in codegen_compile, the transpiler, module loading order, diagnostics, dependence on cwd / environment / time (needs whole-program information flow)",
    ],
    "undecided_part": "everything upstream of the encoder: bytecode generator, serializer, transpiler, drivers",
}


def obligations(repo):
    return [dict(id="C19.enc.%d" % K, prop="C19", harness="harness/isa_h.c", entry="h_det_enc", defines={"VERIF_K": K},
                 unwind=33, strength="X", functions=["isa_encode"], must_have=[r"C19\.enc", r"COVER"], min_checks=20)
            for K in range(256)]
