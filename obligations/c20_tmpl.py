"""C20.tmpl.ub (DESIGN 5/C20): each generated operator / accessor function of the template catalogue has no undefined behaviour for
ANY argument values of the language's defined domain, UNDER THE FLAGS THE DRIVER PASSES TO cc.

The obligation is CBMC's standard checks (signed overflow, division by zero, pointer, bounds, shift) on the generated text with a
postcondition `true`.  Which flags the driver passes is read at check time off the command line the real nanoc prints
("Compiling C code: ...", extract rule tmpl_<name> -> gen/cc_flags.h): only if -fwrapv is among them are + - * and unary - exempt
from the signed-overflow check (harness/tmpl_h.c, #pragma CPROVER check disable); division never is.

EXPECTED TO FAIL on a tree whose driver passes no -fwrapv:  C20.tmpl.ub.addi / subi / muli / negi  (arithmetic overflow on signed
+ - * unary-) and, with or without -fwrapv,  C20.tmpl.ub.divi / modi  (INT64_MIN / -1, INT64_MIN % -1: overflow on signed division).
These are NOT weakened and NOT listed in known_findings.txt by this file: the decision fix / finding is the project owner's.

Exposes tmpl_obligations(prop); obligations(repo) makes the file runnable on its own:  tools/vc.py c20_tmpl
"""
import os, sys
sys.path.insert(0, os.path.dirname(os.path.abspath(__file__)))
import tmpl_rules as T
import c02_native as N

META = {
    "level": "proof",
    "trusted_base": T.TMPL_TRUSTED + ["CBMC's standard checks as the definition of 'undefined integer / pointer / shift operation' (ISO C99 6.5p5, 6.5.5p5-6, 6.5.7)"],
    "assumptions": T.TMPL_ASSUMPTIONS + [
        "defined domain: a zero divisor is excluded (undefined partial operation of the language); every other operand value is included",
        "the driver's cc flags are those of the command line nanoc --verbose prints for the template (CC / NANO_CC unset => `cc`); "
        "-fwrapv on that line makes signed + - * unary- defined (wrapping) and switches CBMC's signed-overflow check off for exactly "
        "those four templates; -fno-strict-overflow is NOT accepted as a substitute; INT64_MIN / -1 stays undefined under -fwrapv",
        "accessor templates: the runtime accessors are stub bodies (their own safety is C20.dyn.* / C08.nat.*); what is checked is the "
        "generated text between the user's arguments and the runtime call",
    ],
    "expected_failures_on_unchanged_tree": [
        "C20.tmpl.ub.addi / subi / muli / negi: `(a + b)`, `(a - b)`, `(a * b)`, `(-a)` on int64_t, cc gets -std=c99 ... and no -fwrapv",
        "C20.tmpl.ub.divi / modi: `(a / b)`, `(a % b)` at (INT64_MIN, -1)",
    ],
    "undecided_part": "all-programs quantifier (ARC retain/release code per scope, strings, structs, loops); only the catalogue's functions are covered",
}


def tmpl_obligations(prop="C20"):
    obs = []
    for name in T.OPERATORS + T.ACCESSORS:
        arith = name in ("addi", "subi", "muli", "negi", "divi", "modi")
        o = N.tmpl_ob(prop, "%s.tmpl.ub.%s" % (prop, name), name, N.MODE_UB,
                      must_have=[r"nl_%s\.postcondition" % name, r"COVER"] + ([r"overflow"] if arith else []))
        if name.startswith("pop_"):
            o["defines"]["VERIF_EXIT_COVER"] = 1
        obs.append(o)
    return obs


def obligations(repo):
    return tmpl_obligations("C20")
