"""C08.nat.tmpl (DESIGN 5/C08 "Native runtime", last clause): the generated accessor functions of the template catalogue call the
runtime accessors that C08.nat.<op>.<kind> puts under contract -

    (at xs i)              nl_at_<k>      -> nl_array_at_<k>  -> dyn_array_get_<k>(xs, i)
    (array_set xs i v)     nl_set_<k>     -> nl_array_set_<k> -> dyn_array_set_<k>(xs, i, v)
    (array_pop xs)         nl_pop_<k>     -> dyn_array_pop_<k>(xs, &flag); flag false => exit(1)
    (array_length xs)      nl_len_int     -> dyn_array_length(xs)
    (array_remove_at xs i) nl_remove_int  -> dyn_array_remove_at(xs, i)

- exactly once, with the user's array, index and value UNMODIFIED (the index is compared as the callee's own int64_t parameter, so
any narrowing between the user's expression and the runtime's bounds test shows), and hand back the callee's result.  pop: reaching
the return implies a non-NULL flag was passed and the runtime did not report an empty array; the other branch ends in exit(status != 0),
which must be reachable.  The runtime accessors are stub bodies recording their arguments in the ghost struct __verif_t and returning
ghost inputs that are never assigned; the emitted wrappers nl_array_* are part of the text under proof (cut out with nl_<name>).

Exposes tmpl_obligations(prop); obligations(repo) makes the file runnable on its own:  tools/vc.py c08_tmpl
"""
import os, sys
sys.path.insert(0, os.path.dirname(os.path.abspath(__file__)))
import tmpl_rules as T
import c02_native as N

META = {
    "level": "proof",
    "trusted_base": T.TMPL_TRUSTED + ["src/runtime/dyn_array.h prototypes (the stubs are definitions of exactly these declarations)"],
    "assumptions": T.TMPL_ASSUMPTIONS + [
        "the runtime accessors are cut at their interface: stub bodies that record (array, index, value, flag) and return arbitrary ghost "
        "values; that the real ones stop the program on an out-of-range index / report an empty array is C08.nat.get/set/pop/remove_at.<kind>",
        "exit() ends the run with its status (modelled as a path end); fprintf is CBMC's built-in model",
        "double values: 'unmodified' is equality or both-NaN (NaN payloads are not compared)",
        "only int / float / string / bool element kinds of `at`, int / float / string of `array_set` and `array_pop`, int of length / "
        "remove_at are in the catalogue; struct arrays (dyn_array_get_struct through a cast and a dereference) are not",
    ],
    "undecided_part": "that every indexing construct of every program is lowered to one of these shapes (programs quantifier)",
}


def tmpl_obligations(prop="C08", part="nat.tmpl"):
    obs = []
    for name in T.ACCESSORS:
        o = N.tmpl_ob(prop, "%s.%s.%s" % (prop, part, name), name, N.MODE_PASS, min_checks=6)
        if name.startswith("pop_"):
            o["defines"]["VERIF_EXIT_COVER"] = 1
        obs.append(o)
    return obs


def obligations(repo):
    return tmpl_obligations("C08")
