"""Registers the template-catalogue extraction rules (tools/extract_tmpl.py, DESIGN 3.1 route 4) into extract.RULES at import
time, the way obligations/c10_exit.py registers its own: tools/extract.py itself is not edited.  One rule per template:
    tmpl_<name>  ->  <work>/gen/<name>.c  (nl_<name> + the generated helpers it calls, verbatim)  and  <work>/gen/cc_flags.h
Imported by obligations/c01.py, c02_native.py, c20_tmpl.py, c08_tmpl.py."""
import os, sys
VERIF = os.path.dirname(os.path.dirname(os.path.abspath(__file__)))
sys.path.insert(0, os.path.join(VERIF, "tools"))
import extract        # noqa: E402
import extract_tmpl   # noqa: E402

extract_tmpl.register()

HARNESS = "harness/tmpl_h.c"
OPERATORS = list(extract_tmpl.OPERATORS)
ACCESSORS = list(extract_tmpl.ACCESSORS)
STRING_OPS = list(extract_tmpl.STRING_OPS)     # separate lists: OPERATORS + ACCESSORS is what C20.tmpl.ub iterates over
FLOAT_OPS = list(extract_tmpl.FLOAT_OPS)
GI = ["--no-malloc-may-fail"]

# what every obligation built on the catalogue assumes / leaves out (merged into the META of the property registries)
TMPL_TRUSTED = [
    "tools/extract_tmpl.py (cuts nl_<name> and the generated helpers it calls out of the C the real bin/nanoc generated at check time; "
    "exactly-one-definition rule, brace matching on comment/string-masked text)",
    "contracts/spec_int.h (the same spec functions the VM handlers are proved against under C02.vm.*)",
]
TMPL_ASSUMPTIONS = [
    "FRAGMENT (DESIGN 3.1 item 4): the code under contract is what the real transpiler emits for the fixed catalogue templates/*.nano, "
    "one function per operator / accessor, operands being plain parameters of type int / bool / array<T>; what the extraction drops is "
    "everything the transpiler does for OTHER programs (operators nested in larger expressions, other type environments, constant folding, "
    "control flow, calls, printing): the all-programs quantifier is undecided",
    "bin/nanoc is rebuilt from the tree under check by `make -f Makefile.gnu bin/nanoc` (the C reference compiler nanoc_c; if a "
    "self-hosted nanoc_stage2 is installed as bin/nanoc that one is what runs); nanoc runs with CC / NANO_CC unset",
    "the C compiler proper (cc turning the generated text into machine code) is outside: CBMC's C semantics stand in for it",
]
