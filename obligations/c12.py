"""C12 - a damaged bytecode file is refused (DESIGN 5/C12)."""
META = {
    "level": "proof",
    "trusted_base": ["contracts/nvm_contracts.h (header spec, gate/dir postconditions written from the property statement)"],
    "assumptions": [
        "GLUE (not machine-checked): from L0-L3 + cover: two equal-length buffers whose difference is non-zero and confined to <= 32 consecutive bits have different nvm_crc32 (linearity induction over bytes); with C12.gate every such damage to the body of a file is refused; with C12.dir and the serializer tiling every proper truncation is refused",
        "appended tails and damage wider than 32 bits are detected only with probability 1-2^-32: not claimed",
    ],
    "undecided_part": "probabilistic part of the property (tails, wide damage); damage inside the 32-byte header other than magic/version/section_count",
}
CRC = "harness/crc_h.c"
import os, sys
sys.path.insert(0, os.path.dirname(os.path.abspath(__file__)))


def obligations(repo):
    import c13
    # C12.deser.<kind>: the loader under contract (gate: header + checksum over exactly the body, verified before
    # anything is built; dir: every directory entry of an accepted file lies inside the file) - same harness as C13.deser.*
    obs = c13.loader_obligations("C12")
    obs.append(dict(id="C12.hdr", prop="C12", harness="harness/nvm_loader_h.c", entry="h_hdr", enforce="nvm_validate_header",
                    unwind=6, strength="U", functions=["nvm_validate_header"], must_have=[r"nvm_validate_header\.postcondition"], min_checks=5))
    for e, strength, unw, extra in [("h_L0", "U", 257, {}), ("h_L1", "U", 257, {}), ("h_L2", "U", 257, {}), ("h_L3", "U", 257, {})]:
        obs.append(dict(id="C12.crc." + e[2:], prop="C12", harness=CRC, entry=e, extract=["crc_step"],
                        unwindset=["crc32_init.0:257", "crc32_init.1:257", "spec_shift8.0:9"], strength="U",
                        functions=["crc32_init", "nvm_crc32(loop body)"], must_have=[r"C12\.crc"], min_checks=2,
                        timeout=900, backends=["minisat", "kissat"] if e == "h_L3" else ["minisat"]))
    obs.append(dict(id="C12.crc.cover", prop="C12", harness=CRC, entry="h_cover", extract=["crc_step"],
                    annotate=[("src/nanoisa/nvm_format.c", "contracts/loops/nvm_format.c.crc.loops")],
                    enforce="nvm_crc32", loops=True, unwind=8,
                    strength="U", functions=["nvm_crc32"],
                    must_have=[r"nvm_crc32\.postcondition", r"loop_invariant_step", r"loop_decreases|decreases"], min_checks=20))
    # whole-function bounded stand-in, independent of the loop's shape (no extraction rule, no sidecar)
    obs.append(dict(id="C12.crc.fold.bounded", prop="C12", harness="harness/crc_fold_h.c", entry="h_fold", unwind=10,
                    unwindset=["crc32_init.0:257", "crc32_init.1:257"], strength="B(buffer size <= 6 bytes)", functions=["nvm_crc32", "crc32_init"],
                    must_have=[r"C12\.crc\.fold", r"COVER"], min_checks=5, timeout=900, backends=["minisat", "kissat"]))
    # extended tail on a file of one fixed shape (real serializer -> real loader, real CRC; harness/ser_rt_h.c): bounded stand-in for
    # the "appended tail" case of the property; no sidecar, so a rewritten loader prologue cannot make it unattachable
    obs.append(dict(id="C12.tail.shape", prop="C12", harness="harness/ser_rt_h.c", entry="h_ser_tail", defines={"SER_SHAPE": 8},
                    include_repo=["src"], unwind=12, unwindset=["crc32_init.0:257", "crc32_init.1:257", "nvm_crc32.0:260"], object_bits=10,
                    strength="B(one module shape: 1 debug entry; contents and the appended byte arbitrary)",
                    functions=["nvm_deserialize", "nvm_serialize", "nvm_crc32"], must_have=[r"C12\.tail", r"COVER"], min_checks=20,
                    timeout=2400, mem_gb=20, weight=60, backends=["minisat", "kissat"]))
    return obs
