"""C01 - native (C-transpiled) and NanoVM back ends are observationally equivalent: OPERATOR / ACCESSOR-LEVEL FRAGMENT (DESIGN 5).

    C01.agree.<op>            native result of the generated nl_<op> == spec function of contracts/spec_int.h, for all operand values
                              of the common domain (divisor != 0 for the native engine).  The VM half of the agreement is
                              C02.vm.<OP> (harness/vm_step_h.c h_c02): the handler pushes the value of the SAME spec function.
                              native == spec  and  VM == spec  =>  native == VM, per operator.          (.corner / .value8: see c02_native.py)
    C01.agree.streq / strne   string == / != : the emitted function (with the emitted helpers it calls) is true iff the two NUL-terminated
                              strings have the same length and bytes; B(strings of length <= 4, arbitrary bytes).  VM half: OP_STR_EQ (C13.step).
    C01.agree.<op>f           float operators: the emitted C applies the same C double operation to (a, b) in that order (bit patterns);
                              addf/subf and the six comparisons U, mulf/divf: .corner U + .frac8/.frac4 B (see c02_native.py).
    C01.agree.acc.<accessor>  the generated accessor hands the user's array / index / value unmodified to the runtime accessor and
                              returns its result (the native half of "same element or same stop"; the runtime's own bounds
                              behaviour is C08.nat.*, the VM half C08.vm.ARR_*).
The obligations are the ones of obligations/c02_native.py and c08_tmpl.py re-stated under this property's ids (same harness, same
generated text, own CBMC run).
"""
import os, sys
sys.path.insert(0, os.path.dirname(os.path.abspath(__file__)))
import tmpl_rules as T
import c02_native as N
import c08_tmpl as A

VM_HALF = {"addi": "ADD", "subi": "SUB", "muli": "MUL", "divi": "DIV", "modi": "MOD", "negi": "NEG", "eqi": "EQ", "nei": "NE",
           "lti": "LT", "lei": "LE", "gti": "GT", "gei": "GE", "andb": "AND", "orb": "OR", "notb": "NOT"}

META = {
    "level": "proof",
    "trusted_base": T.TMPL_TRUSTED + ["the VM half is not re-run here: C02.vm.<OP> (obligations/c02.py) must be discharged for the pairwise reading"],
    "assumptions": N.META["assumptions"] + A.META["assumptions"][len(T.TMPL_ASSUMPTIONS):] + [
        "FRAGMENT: per-operator agreement only.  C01.agree.<op> is 'native == spec'; 'VM == spec' is " +
        ", ".join("C02.vm.%s" % v for v in VM_HALF.values()) + " (same spec functions, contracts/spec_int.h); the conjunction is by inspection "
        "of the two obligation texts, not a machine-checked composition",
        "common domain: the VM is total on a zero divisor (yields 0), the native engine faults: divisor != 0 is outside the comparison; at "
        "(INT64_MIN, -1) the engines DISAGREE today (VM: INT64_MIN resp. 0 after fix 363884f; native: overflow, SIGFPE on x86-64) - the "
        "point is excluded here and carried by C20.tmpl.ub.divi / .modi, which fail on the unchanged tree",
        "observables: the comparison is on the VALUE an operator / accessor yields; stdout bytes and exit status of whole programs are not reached",
    ],
    "undecided_part": "the all-programs quantifier (every composition of operators, statements and calls), printing / stdout formats, control "
                      "flow (while/for/break/continue), scoping and shadowing, strings, structs, enums, unions, tuples, globals, recursion, "
                      "imports; C01's four listed discrepancies (continue-in-for, shadowing across blocks, enum printing, effectful "
                      "short-circuit) are outside any per-operator contract",
}


def obligations(repo):
    obs = N.native_obligations("C01", part="agree", strings=True)
    for o in obs:
        name = o["defines"]["VERIF_TMPL"]
        if name in VM_HALF:
            o["functions"] = o["functions"] + ["VM half: C02.vm.%s" % VM_HALF[name]]
    obs += A.tmpl_obligations("C01", part="agree.acc")
    return obs
