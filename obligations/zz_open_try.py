"""scratch registry (not a property): pinned-stack-depth variants of the STEP_OPEN opcodes"""
import os, sys, copy
sys.path.insert(0, os.path.dirname(os.path.abspath(__file__)))
import vmstep, c13
META = {"level": "proof", "trusted_base": [], "assumptions": [], "undecided_part": ""}


def obligations(repo):
    obs = []
    for op in sorted(c13.STEP_OPEN):
        o = vmstep.step("ZZ", "ZZ.step.%s.s5" % op, "h_step", op, must_have=[r"C13\.step", r"COVER"], timeout=600)
        cfg = c13.STEP_CFG.get(op, {})
        base = 1 | 2 | 4
        extra = {"CALL_INDIRECT": 64, "CLOSURE_CALL": 64, "POP": 8 | 16 | 32 | 64, "GC_RELEASE": 8 | 16 | 32 | 64}.get(op, 0)
        if op.startswith("HM_"):
            extra |= 512
        for k in ("VERIF_M0", "VERIF_M1", "VERIF_M2"):
            o["defines"][k] = base | extra
        o["defines"].update(cfg.get("defs", {}))
        o["defines"]["VERIF_STACK_SIZE"] = 5
        if cfg.get("checks"):
            o["flags"] = cfg["checks"]
        o["witness"] = None
        obs.append(o)
    return obs
