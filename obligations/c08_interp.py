"""C08, interpreter part (DESIGN 5/C08): the array accessors of the tree-walking interpreter src/eval.c.

harness/eval_ops_h.c h_acc (PLAIN CBMC, the real builtin_at / builtin_array_set / builtin_array_pop /
builtin_array_remove_at on a concretely built container with arbitrary length, capacity and int64 index).  With
exit()/abort()/__assert_fail modelled as path ends that set a ghost flag and require a non-zero status, every
obligation reads
    if the call RETURNS then  0 <= index < length  held on entry      (at / set / remove)
    if the call RETURNS then  length > 0           held on entry      (pop)
i.e. out of range => the run ended in exit(status != 0), no Value was produced; every memory access stayed inside
data[0 .. capacity*elem) (pointer checks against exactly-sized objects); the error path must be REACHABLE for
index < 0, index == length, index >= 2^32 and INT64_MIN (cover points in the exit stub).

Imported by obligations/c08.py:  obs += c08_interp.interp_obligations("C08").   ids: C08.int.<op>.<container>.<elem>
"""
import importlib.util, os

_here = os.path.dirname(os.path.abspath(__file__))
_spec = importlib.util.spec_from_file_location("obl_c03_for_c08", os.path.join(_here, "c03.py"))
c03 = importlib.util.module_from_spec(_spec)
_spec.loader.exec_module(c03)

META_INTERP = {
    "trusted_base": ["contracts/eval_contracts.h + harness/eval_ops_h.c h_acc (triples stated as assertions around one call of the real accessor)"],
    "assumptions": [
        "interpreter C08 is decided at the four builtins only: that every indexing construct of a shadow-test body reaches them with the "
        "user's index unmodified (call_builtin dispatch by name, argument evaluation) is NOT covered",
        "containers: Value of type VAL_ARRAY (Array header + store of capacity*elem bytes, 0 <= length <= capacity <= INT_MAX) and VAL_DYN_ARRAY "
        "(DynArray satisfying DYN_WF: 0 <= length <= capacity, 1 <= capacity <= 2^40; kept by the runtime per C20.dyn.*); element kinds int, "
        "float, bool (X over container x element kind); string / struct / nested-array elements are not run (the range test precedes the element switch)",
        "exit()/abort()/__assert_fail end the run (path ends; status asserted non-zero); fprintf is CBMC's built-in model; allocation succeeds",
        "memmove in dyn_array_remove_at (in-range branch only) is CBMC's built-in model",
    ],
    "expected_failures_on_unchanged_tree": [
        "C08.int.pop.dyn.*: builtin_array_pop on an empty array prints 'Error: array_pop() on empty array' and RETURNS a void Value",
        "C08.int.set.dyn.int / pop.array.int / remove.array.int: the builtin rejects the container kind with a message and RETURNS a void "
        "Value whatever the index (array_set on the result of array_push is ignored even in range)",
    ],
}
A = {"at": 1, "set": 2, "pop": 3, "remove": 4}
K = {"array": 1, "dyn": 2}
E = {"int": 1, "float": 2, "bool": 3}
FN = {"at": "builtin_at", "set": "builtin_array_set", "pop": "builtin_array_pop", "remove": "builtin_array_remove_at"}
# container kinds an accessor serves; the OTHER kind is rejected by a type test before any index is looked at (message on
# stderr, a void Value is returned): one obligation (int elements) per rejected kind, because the type checker admits the
# call and the compiled program performs it (array literals are VAL_ARRAY, results of array_push VAL_DYN_ARRAY)
SERVES = {"at": ["array", "dyn"], "set": ["array"], "pop": ["dyn"], "remove": ["dyn"]}
REJECTS = {"set": ["dyn"], "pop": ["array"], "remove": ["array"]}


def interp_obligations(prop="C08"):
    obs = []
    for acc in ["at", "set", "pop", "remove"]:
        for kind in SERVES[acc] + REJECTS.get(acc, []):
            for el in (["int", "float", "bool"] if kind in SERVES[acc] else ["int"]):
                d = {"VERIF_ACC": A[acc], "VERIF_AK": K[kind], "VERIF_ELEM": E[el], "VERIF_EXIT_COVER": 1}
                if acc != "pop":
                    d["VERIF_EXIT_COVER_IDX"] = 1
                o = c03.base(prop, "%s.int.%s.%s.%s" % (prop, acc, kind, el), "h_acc", d, functions=[FN[acc]],
                             must_have=[r"C08\.int an out-of-range", r"COVER"], strength="X", unwind=3)
                # counterexample search for the native replayer: same query with a capacity the replayer can allocate
                o["witness"] = {"replayer": "evalops", "override": {"defines": dict(d, VERIF_CAP_SMALL=16)}}
                if acc == "remove":
                    # the in-range branch shifts the tail with memmove (symbolic length does not finish): capacity capped for
                    # that branch; the out-of-range branch (the property) does not depend on the cap
                    o["defines"]["VERIF_CAP_MAX"] = 8
                    o["strength"] = "B(capacity <= 8 for the in-range branch; index full int64)"
                obs.append(o)
    return obs


def obligations(repo):
    return interp_obligations("C08")
