"""C06 - shadow tests gate compilation (DESIGN 5/C06): driver gate + the failure-counter loop of run_shadow_tests."""
import os, sys
sys.path.insert(0, os.path.dirname(os.path.abspath(__file__)))
META = {
    "level": "proof",
    "trusted_base": [
        "contracts/gate_contracts.h + the contracts compile_file (harness/gate_nanoc_h.c) and run_shadow_tests (harness/gate_shadow_h.c), "
        "written from the property statement",
        "tools/annotate.py: loop-contract clauses (contracts/loops/main.c.gate.loops, eval.c.shadow*.loops) and FOUR ghost statements "
        "around the one evaluation of a shadow body in run_shadow_tests (before: 'counter != 0 -> reset_violated', 'uses_extern -> "
        "skipped_evaluated', 'bodies++'; after: 'counter > 0 -> any_failed')",
    ],
    "assumptions": [
        "C06.gate.nanoc = the compile_file obligation of C05 (same harness, postcondition 3 + the assertion in the transpile_to_c stub): "
        "all assumptions of obligations/c05.py about cut callees, the path cut at transpile_to_c and --no-standard-checks apply",
        "compile_modules (cc on imported C modules, objects in the module directories) runs BEFORE the shadow gate by design; it is "
        "recorded as modules_built, not as the executable at the output path",
        "C06.loop: eval_statement (the interpreter) is contract-replaced by 'may change the per-test failure bookkeeping arbitrarily, "
        "nothing else that run_shadow_tests reads'; contains_extern_calls and shadow_write_json_file are contract-replaced by 'no effect'; "
        "env_get_function getenv dup dup2 open close fflush fprintf are stubs; all other function bodies of eval.c are removed from the "
        "goto binary before the dfcc pass (unreachable after the replacements; goto-instrument runs out of memory otherwise)",
        "C06.loop (quick): realloc of the failure-report array returns NULL (-DVERIF_REALLOC_FAILS: a legal allocator behaviour; no "
        "report entries are then recorded).  The complete allocator model (realloc may succeed, growing in place inside a 512-byte pool) "
        "is C06.loop.report, thorough tier (every write through the loop-havocked `failures` pointer costs ~60 s of symbolic execution: "
        "6.5-10 min wall); measured PROVED (613 s under load).  The report array feeds only the JSON report, never the result",
        "the ghost statements tie the specification to the ONE textual call eval_statement(item->as.shadow.body, env); a second "
        "evaluation of a shadow body elsewhere would not be seen",
    ],
    "undecided_part": "Direction 'all assertions hold and the program is otherwise valid => the executable IS produced' is not decided: "
                      "the part of compile_file behind transpile_to_c contains writes type_name[len] with len taken from scanned text "
                      "(src/main.c:791-792, 831-832) that cannot be framed without a memory-safety assumption, and the C compiler is "
                      "outside the model.  'Names the failing test' (fprintf text) is not observed.  That every false assertion bumps "
                      "the counter is C03.assert / the AST_ASSERT arm of eval_statement, not this unit.  The missing-shadow diagnostic "
                      "(C06.missing, typechecker.c) is not in this unit.",
}
NOCHK = ["--no-standard-checks"]
GI = ["--no-malloc-may-fail"]
SHADOW = "harness/gate_shadow_h.c"
SHADOW_ANN = [("src/eval.c", "contracts/loops/eval.c.shadow.loops")]
SHADOW_ANN_NR = [("src/eval.c", "contracts/loops/eval.c.shadow.nr.loops")]


def _defined_functions(path):
    """Names of all functions DEFINED at file scope in a C file (masked text, brace depth 0)."""
    sys.path.insert(0, os.path.join(os.path.dirname(os.path.dirname(os.path.abspath(__file__))), "tools"))
    import annotate, re
    src = open(path, encoding="utf-8", errors="surrogateescape").read()
    m = annotate.mask(src)
    names, depth, i, n = [], 0, 0, len(m)
    while i < n:
        c = m[i]
        if c == "{":
            if depth == 0:
                head = m[max(0, m.rfind(";", 0, i), m.rfind("}", 0, i)) + 1:i]
                mo = re.search(r"\b([A-Za-z_]\w*)\s*\([^()]*(\([^()]*\)[^()]*)*\)\s*$", head)
                if mo and mo.group(1) not in ("if", "for", "while", "switch"):
                    names.append(mo.group(1))
            depth += 1
        elif c == "}":
            depth -= 1
        i += 1
    return names


def obligations(repo):
    obs = []
    # eval.c is 4 900 lines of interpreter; goto-instrument --dfcc instruments every function body in the binary
    # (out of memory at 12 GB).  All bodies except run_shadow_tests are removed BEFORE the dfcc pass
    # (--remove-function-body, same goto-instrument call): the three callees are contract-replaced, the rest is
    # then unreachable.  A missing file / changed name shows up as UNDECIDED (must_have / annotate).
    try:
        drop = [f for f in _defined_functions(os.path.join(repo, "src/eval.c")) if f != "run_shadow_tests"]
    except OSError:
        drop = []
    rm = [x for f in sorted(set(drop)) for x in ("--remove-function-body", f)]
    obs.append(dict(id="C06.loop", prop="C06", harness=SHADOW, entry="h_run_shadow_tests", annotate=SHADOW_ANN_NR,
                    defines={"VERIF_REALLOC_FAILS": 1}, object_bits=9,
                    include_repo=[".", "src"], enforce="run_shadow_tests",
                    replace=["eval_statement", "contains_extern_calls", "shadow_write_json_file"], loops=True, unwind="auto",
                    checks=[], flags=NOCHK, gi_flags=GI + rm, strength="U", functions=["run_shadow_tests"], timeout=600,
                    must_have=[r"run_shadow_tests\.postcondition", r"loop_invariant_step", r"decreases"], min_checks=20))
    # complete allocator model (realloc may succeed: in-place pool): every write to the report array goes through
    # a loop-havocked pointer, which costs ~60 s of symbolic execution per write -> thorough tier
    obs.append(dict(id="C06.loop.report", prop="C06", harness=SHADOW, entry="h_run_shadow_tests", annotate=SHADOW_ANN,
                    include_repo=[".", "src"], enforce="run_shadow_tests", object_bits=9, tier="thorough",
                    replace=["eval_statement", "contains_extern_calls", "shadow_write_json_file"], loops=True, unwind="auto",
                    checks=[], flags=NOCHK, gi_flags=GI + rm, strength="U", functions=["run_shadow_tests"], timeout=1500,
                    must_have=[r"run_shadow_tests\.postcondition", r"loop_invariant_step", r"decreases"], min_checks=20))
    # the driver side: same harness and contract as C05.gate.nanoc (postcondition 3 is the C06 clause)
    import c05
    ok, why = c05.cut_is_structural(repo)
    obs.append(dict(id="C06.gate.nanoc", prop="C06", harness=c05.NANOC, entry="h_compile_file", annotate=c05.NANOC_ANN,
                    include_repo=[".", "src"], defines=({} if ok else {"VERIF_STRUCT_CHECK_FAILED": 1}), enforce="compile_file", replace=c05.NANOC_REPL, loops=True, unwind="auto",
                    checks=[], flags=NOCHK, gi_flags=GI, strength="U",
                    functions=["compile_file (prefix up to transpile_to_c)"], timeout=600,
                    must_have=[r"compile_file\.postcondition\.3", r"loop_invariant_step", r"decreases", r"GATE transpile_to_c"],
                    min_checks=20))
    return obs
