"""C02 - every engine implements the defined semantics: operator-level fragment (DESIGN 5/C02)."""
import os, sys
sys.path.insert(0, os.path.dirname(os.path.abspath(__file__)))
import vmstep

META = {
    "level": "proof",
    "trusted_base": ["contracts/spec_int.h (spec functions written from the property statement)", "contracts/vm_contracts.h"],
    "assumptions": [
        "FRAGMENT: only the per-operator semantics of the VM handlers (and, where built, generated C / interpreter) are decided; composition over programs (scoping, shadowing, evaluation order, printing) is NOT decided",
        "signed overflow in vm.c's `a.as.i64 + b.as.i64`, `-`, `*`, unary `-` is undefined behaviour in ISO C; the VM is built at -O0 without -fwrapv where gcc wraps. The ADD/SUB/MUL/NEG obligations run WITHOUT --signed-overflow-check and state the wrap as an assumption (sites: vm.c OP_ADD/OP_SUB/OP_MUL/OP_NEG int branches)",
    ],
    "undecided_part": "all-programs quantifier; Coq-model comparison; short-circuit lowering",
}
NO_SOVF = ["--no-signed-overflow-check", "--bounds-check", "--pointer-check", "--div-by-zero-check", "--pointer-overflow-check", "--pointer-primitive-check",
           "--undefined-shift-check"]
SC = 1
OPS = ["ADD", "SUB", "MUL", "NEG", "DIV", "MOD", "EQ", "NE", "LT", "LE", "GT", "GE", "AND", "OR", "NOT"]


def vm_obligations(prop="C02"):
    obs = []
    for op in OPS:
        o = vmstep.step(prop, "%s.vm.%s" % (prop, op), "h_c02", op, must_have=[r"C02\.vm", r"COVER"])
        m = 256 if op in ("AND", "OR", "NOT") else 128      # construction-time shape: BOOL resp. INT operands
        o["defines"].update({"VERIF_M0": m, "VERIF_M1": m, "VERIF_M2": SC, "VERIF_STACK_SIZE": 5})
        if op in ("ADD", "SUB", "MUL", "NEG"):
            o["checks"] = NO_SOVF
        obs.append(o)
        if op in ("MUL", "DIV", "MOD"):
            import copy
            b = copy.deepcopy(o)
            b["id"] += ".value8"
            b["defines"]["VERIF_SMALL"] = 1
            b["strength"] = "B(operands in [-128,127]: quotient/product value against the spec; full domain covers fault-freedom and corner cases)"
            obs.append(b)
    return obs


def vm_float_obligations(prop="C02"):
    obs = []
    for op in ("ADD", "SUB", "MUL", "DIV", "EQ", "NE", "LT", "LE", "GT", "GE"):
        o = vmstep.step(prop, "%s.vm.%sf" % (prop, op), "h_c02f", op, must_have=[r"C02\.vm", r"COVER"], timeout=600)
        o["defines"].update({"VERIF_M0": 1024, "VERIF_M1": 1024, "VERIF_M2": SC, "VERIF_STACK_SIZE": 5})
        if op in ("MUL", "DIV"):
            continue            # two IEEE multipliers / dividers compared: no result within 600 s (open)
        if op in ("ADD", "SUB"):
            o["tier"] = "thorough"   # ~190 s each
        obs.append(o)
    return obs


def vm_slice_obligation(prop="C02"):
    o = vmstep.step(prop, "%s.vm.ARR_SLICE" % prop, "h_c02_slice", "ARR_SLICE", must_have=[r"C02\.vm ARR_SLICE", r"COVER"], timeout=900,
                    witness=None)
    o["defines"].update({"VERIF_M0": 128, "VERIF_M1": 128, "VERIF_M2": 4, "VERIF_STACK_SIZE": 5, "VERIF_ARR_CAP": 3})
    o["unwind"] = 5
    o["strength"] = "B(source array capacity <= 3, int elements; start and length over the full int64 range)"
    q = vmstep.step(prop, "%s.vm.STR_SUBSTR" % prop, "h_c02_substr", "STR_SUBSTR", must_have=[r"C02\.vm STR_SUBSTR", r"COVER"], timeout=900, witness=None)
    q["defines"].update({"VERIF_M0": 128, "VERIF_M1": 128, "VERIF_M2": 2, "VERIF_STACK_SIZE": 5})
    q["unwind"] = 30
    q["strength"] = "B(source string length <= 3; start and length over the full int64 range)"
    obs = [o, q]
    for sfx, d in (("", {}), (".oob", {"VERIF_CHARAT_OOB": 1})):
        c = vmstep.step(prop, "%s.vm.STR_CHAR_AT%s" % (prop, sfx), "h_c02_charat", "STR_CHAR_AT", must_have=[r"C02\.vm STR_CHAR_AT", r"COVER"], timeout=900, witness=None)
        c["defines"].update({"VERIF_M0": 128, "VERIF_M1": 2, "VERIF_M2": 1, "VERIF_STACK_SIZE": 5})
        c["defines"].update(d)
        c["unwind"] = 30
        c["strength"] = "B(source string length <= 3, no NUL inside; index over the full int64 range%s)" % (", out of range" if sfx else ", in range")
        obs.append(c)
    for nm, op in (("STR_EQ", "STR_EQ"), ("EQs", "EQ"), ("NEs", "NE")):
        e = vmstep.step(prop, "%s.vm.%s" % (prop, nm), "h_c02_streq", op, must_have=[r"C02\.vm STR_EQ", r"COVER"], timeout=900, witness=None)
        e["defines"].update({"VERIF_M0": 2, "VERIF_M1": 2, "VERIF_M2": 1, "VERIF_STACK_SIZE": 5})
        e["unwind"] = 30
        e["strength"] = "B(strings of <= 3 bytes; cached hash abstracted to an arbitrary function of the content)"
        obs.append(e)
    return obs


def cg_obligations(prop="C02"):
    """the bytecode generator's side of operator semantics: and / or must not evaluate the right operand unconditionally"""
    obs = []
    for nm, tok in (("and", "TOKEN_AND"), ("or", "TOKEN_OR")):
        obs.append(dict(id="%s.cg.shortcircuit.%s" % (prop, nm), prop=prop, harness="harness/cg_logic_h.c", entry="h_shortcircuit",
                        defines={"VERIF_LOGIC_OP": tok}, include_repo=["src"], unwind=14, object_bits=10,
                        strength="X(operator) on literal operands (L: bool literal of arbitrary value, R: marker literal); code offset pinned",
                        functions=["compile_expr[AST_PREFIX_OP and/or]", "emit_op", "patch_jump"], must_have=[r"C02\.cg", r"COVER"],
                        min_checks=20, timeout=900, weight=30))
    BIN = {"add": ("TOKEN_PLUS", "OP_ADD"), "sub": ("TOKEN_MINUS", "OP_SUB"), "mul": ("TOKEN_STAR", "OP_MUL"), "div": ("TOKEN_SLASH", "OP_DIV"),
           "mod": ("TOKEN_PERCENT", "OP_MOD"), "eq": ("TOKEN_EQ", "OP_EQ"), "ne": ("TOKEN_NE", "OP_NE"), "lt": ("TOKEN_LT", "OP_LT"),
           "le": ("TOKEN_LE", "OP_LE"), "gt": ("TOKEN_GT", "OP_GT"), "ge": ("TOKEN_GE", "OP_GE")}
    for nm, (tok, opc) in BIN.items():
        obs.append(dict(id="%s.cg.order.%s" % (prop, nm), prop=prop, harness="harness/cg_logic_h.c", entry="h_order",
                        defines={"VERIF_BIN_TOKEN": tok, "VERIF_BIN_OPCODE": opc}, include_repo=["src"], unwind=14, object_bits=10,
                        strength="X(operator) on marker literal operands; code offset pinned",
                        functions=["compile_expr[AST_PREFIX_OP binary]", "emit_op"], must_have=[r"C02\.cg\.order", r"COVER"],
                        min_checks=20, timeout=900, weight=30))
    return obs


def obligations(repo):
    obs = vm_obligations() + vm_float_obligations() + vm_slice_obligation() + cg_obligations()
    try:
        import c02_native
        obs += c02_native.native_obligations("C02")
    except ImportError:
        pass
    return obs
