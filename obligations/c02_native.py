"""C02, native half (DESIGN 5 "C02 / C01 / C03", `C02.nat.<op>`): the C function the real transpiler emits for each operator
template equals the spec function of contracts/spec_int.h - the SAME functions the VM handlers are proved against (C02.vm.*).

    C02.nat.<op>           result == spec for ALL operand values of the native domain                (strength U)
    C02.nat.<op>.corner    mul/div/mod: algebraic corner cases + sign/magnitude facts, full domain   (strength U)
    C02.nat.<op>.value8    mul/div/mod: result == spec for operands in [-128,127]                    (B, never counted as proved)
(the split of obligations/c02.py: the generic product / quotient needs two 64-bit multipliers / dividers compared.  For the
native `a * b` the full-domain comparison does close - C02.nat.muli is U; for / and % it does not: > 200 s on minisat, cadical, kissat.)

Exposes native_obligations(prop, part="nat"); obligations(repo) makes the file runnable on its own:  tools/vc.py c02_native
"""
import copy, os, sys
sys.path.insert(0, os.path.dirname(os.path.abspath(__file__)))
import tmpl_rules as T

META = {
    "level": "proof",
    "trusted_base": T.TMPL_TRUSTED,
    "assumptions": T.TMPL_ASSUMPTIONS + [
        "native domain of / and %: divisor != 0 (a zero divisor is an undefined partial operation of the language; the native engine "
        "faults) and NOT (INT64_MIN, -1): there the spec and the VM say INT64_MIN resp. 0 while the generated `a / b`, `a % b` overflow "
        "(SIGFPE on x86-64) - that point is an obligation of its own, C20.tmpl.ub.divi / .modi, which FAILS on the unchanged tree",
        "+ - * and unary - : the value obligations run WITHOUT CBMC's signed-overflow check and compare against the wrapping spec "
        "(CBMC's bit-vector semantics = what gcc/clang emit at -O0 on x86-64/aarch64); that the overflow is undefined behaviour of the "
        "generated C under the driver's cc flags is the separate obligation C20.tmpl.ub.<op> (same treatment as C02.vm.ADD/SUB/MUL/NEG). "
        "MEASURED: while C20.tmpl.ub.addi fails (no -fwrapv on the cc line) this assumption is FALSE for gcc beyond the single operator: "
        "gcc 12.2 folds `(a + 1LL) > a` to 1 in its front end even at -O0 (findings/native_wrap_fold.nano: native prints true, VM false); "
        "the value obligations here speak about each operator's function alone, compiled the way CBMC reads it",
        "and / or: value only (both operands are side-effect free parameters); short-circuit EVALUATION is C02.sc.*, not decided here",
    ],
    "undecided_part": "all-programs quantifier: operators inside larger expressions, evaluation order, scoping, control flow, calls, printing",
}

NO_SOVF = ["--no-signed-overflow-check", "--bounds-check", "--pointer-check", "--div-by-zero-check", "--pointer-overflow-check",
           "--pointer-primitive-check", "--undefined-shift-check"]
WRAP = ("addi", "subi", "muli", "negi")
SPLIT = ("muli", "divi", "modi")
MODE_VALUE, MODE_CORNER, MODE_UB, MODE_PASS = 0, 1, 2, 3


def tmpl_ob(prop, oid, name, mode, **kw):
    fn = "nl_" + name
    o = dict(id=oid, prop=prop, harness=T.HARNESS, entry="h_tmpl", extract=["tmpl_" + name],
             defines={"VERIF_TMPL": name, "VERIF_MODE": mode}, enforce=fn, gi_flags=T.GI, unwind="auto", strength="U",
             functions=["%s (generated from templates/%s.nano)" % (fn, name)],
             must_have=[r"%s\.postcondition" % fn, r"COVER"], min_checks=4, timeout=300, tier="quick",
             witness={"replayer": "tmpl"})
    o.update(kw)
    return o


FLOAT_ARITH = ("addf", "subf", "mulf", "divf")
STRMAX = 4


def native_obligations(prop="C02", part="nat", strings=False):
    obs = []
    # float operators: the emitted C applies the same C double operation to (a, b) in that order; arithmetic results are compared
    # as bit patterns (contracts/spec_str.h spec_f64_bits), comparisons as the C comparison (NaN: unordered) - full domain
    # measured: + and - close on the full domain (cadical 15 s, kissat 17 s, minisat 170 s); * and / do not (two 53-bit multipliers /
    # dividers compared, > 300 s on every SAT back end; z3 / cvc5 give SPURIOUS counterexamples on the bit-pattern comparison and
    # are never used): full-domain corner facts (U) + the generic value on operands with few significant fraction bits (B).
    FBOUND = {"mulf": (44, "frac8"), "divf": (48, "frac4")}
    for name in T.FLOAT_OPS:
        base = "%s.%s.%s" % (prop, part, name)
        if name in FBOUND:
            k, sfx = FBOUND[name]
            obs.append(tmpl_ob(prop, base + ".corner", name, MODE_CORNER, backends=["cadical"]))
            b = tmpl_ob(prop, "%s.%s" % (base, sfx), name, MODE_VALUE, backends=["cadical", "kissat"], weight=5,
                        strength="B(operands with the %d low fraction bits zero = %d significant fraction bits; every sign, exponent, zero, "
                                 "subnormal, infinity, NaN; full domain: .corner)" % (k, 52 - k))
            b["defines"]["VERIF_FMASK"] = k
            obs.append(b)
        elif name in FLOAT_ARITH:
            obs.append(tmpl_ob(prop, base, name, MODE_VALUE, backends=["cadical", "kissat"], weight=5))
        else:
            obs.append(tmpl_ob(prop, base, name, MODE_VALUE))
    if strings:
        # string == / != by content; strcmp / strncmp / strnlen are CBMC's library models, unwound (--unwind 7 covers buffers of 5 bytes)
        for name in T.STRING_OPS:
            obs.append(tmpl_ob(prop, "%s.%s.%s" % (prop, part, name), name, MODE_VALUE, defines={"VERIF_TMPL": name, "VERIF_MODE": MODE_VALUE,
                                                                                           "SPEC_STRMAX": STRMAX},
                               unwind=STRMAX + 3, min_checks=10,
                               strength="B(strings of length <= %d, arbitrary bytes, two distinct buffers)" % STRMAX))
    for name in T.OPERATORS:
        base = "%s.%s.%s" % (prop, part, name)
        chk = NO_SOVF if name in WRAP else None
        if name in SPLIT:
            obs.append(tmpl_ob(prop, base + ".corner", name, MODE_CORNER, checks=chk))
            if name == "muli":
                # measured: the two 64-bit multipliers ARE proved equal here (generated `a * b` against spec_mul, no tagged values
                # in between): kissat 6 s, cadical 23 s, minisat > 100 s.  kissat alone is not relied upon: its CNF hand-over file
                # /tmp/external-sat* is removed by any other vc.py run that ends meanwhile.
                obs.append(tmpl_ob(prop, base, name, MODE_VALUE, checks=chk, backends=["cadical", "kissat"], weight=5))
            b = tmpl_ob(prop, base + ".value8", name, MODE_VALUE, checks=chk, backends=["cadical"] if name == "muli" else ["minisat"],
                        strength="B(operands in [-128,127]: product/quotient/remainder value against the spec; full domain covers "
                                 "fault-freedom on the native domain, corner cases and sign/magnitude)")
            b["defines"]["VERIF_SMALL"] = 1
            obs.append(b)
        else:
            obs.append(tmpl_ob(prop, base, name, MODE_VALUE, checks=chk))
    return obs


def obligations(repo):
    return native_obligations("C02")
