"""C16 - a failing FFI co-process is contained by the VM (DESIGN 5/C16)."""
META = {
    "level": "proof",
    "trusted_base": ["contracts/spec_cop.h", "contracts/cop_contracts.h (incl. the OS stubs read/write and the heap-layer contracts)"],
    "assumptions": [],
    "undecided_part": "",
}

HARNESS = "harness/cop_h.c"
HEAPREPL = ["vm_string_new", "vm_array_new", "vm_array_push"]
DECLOOP = "cop_deserialize_value_wrapped_for_contract_checking.0"
COPANN = [("src/nanovm/cop_protocol.c", "contracts/loops/cop_protocol.c.loops")]


def rec(fn):
    return ["--enforce-contract-rec", fn]


def obligations(repo):
    obs = []
    for c, nm in [(0, "scalar_other"), (1, "string")]:
        obs.append(dict(id="C16.deser.safe." + nm, prop="C16", harness=HARNESS, entry="h_safe",
                        defines={"COP_VIEW_SAFE": 1, "COP_SAFE_CLASS": c},
                        gi_flags=rec("cop_deserialize_value"), replace=HEAPREPL, unwind=6, unwindset=[DECLOOP + ":1"],
                        strength="X", functions=["cop_deserialize_value"],
                        must_have=[r"cop_deserialize_value\.postcondition", r"COVER"] + ([r"vm_string_new\.precondition"] if c == 1 else []),
                        min_checks=30, witness={"replayer": "cop"}))
    # array arm: loop contract (sidecar), recursion = induction hypothesis, heap layer by contract
    obs.append(dict(id="C16.deser.safe.array", prop="C16", harness=HARNESS, entry="h_safe", annotate=COPANN,
                    defines={"COP_VIEW_SAFE": 1, "COP_SAFE_CLASS": 2},
                    gi_flags=rec("cop_deserialize_value"), replace=HEAPREPL, loops=True, unwind="auto",
                    strength="X", functions=["cop_deserialize_value"], timeout=900,
                    must_have=[r"cop_deserialize_value\.postcondition", r"loop_invariant_step", r"decreases", r"COVER",
                               r"cop_deserialize_value\.precondition"],
                    min_checks=30, witness={"replayer": "cop", "override": {"loops": False, "annotate": [], "unwind": 6}}))
    return obs
