"""C16 - a failing FFI co-process is contained by the VM (DESIGN 5/C16)."""
META = {
    "level": "proof",
    "trusted_base": [
        "contracts/spec_cop.h, contracts/cop_contracts.h",
        "OS stub bodies read/write/__errno_location (harness/cop_h.c) and waitpid/close/kill/usleep (harness/cop_call_h.c): assumed contracts on the OS",
        "heap-layer contracts vm_string_new / vm_array_new / vm_array_push (assumed; not enforced by this unit)",
        "contracts/libc_stubs.h (snprintf: destination valid for n bytes, content unconstrained)",
    ],
    "assumptions": [
        "the peer is nondeterminism in the OS stubs: read returns -1 (any errno), 0, or 1..count with an arbitrary byte at an arbitrary index below the count (ghost-index form of havoc; __CPROVER_havoc_slice with a symbolic 64-bit size does not get through the SAT back end); write returns -1, 0 or a short count; waitpid returns -1, 0 (WNOHANG only) or pid",
        "TERMINATION of the read_all / write_all retry loops is NOT a property of the code alone: an OS answering EINTR (or, for write, 0) forever keeps them spinning.  The variant is the pair (bytes left, no-progress answers left in __verif_cop.eintr_budget), the budget being an arbitrary 32-bit ghost: termination is claimed only for finitely many no-progress answers; memory safety and the frame (only buf[0..len) written) are checked per iteration for every answer including EINTR",
        "write_all has no `n == 0` guard (read_all has): a write() that keeps returning 0 for count > 0 would spin; not possible on Linux pipes, covered by the budget assumption above",
        "C16.deser.safe.*: arbitrary bytes in a buffer object of exactly buf_size bytes (any buf_size up to 2^32-1); X over the tag class of the first byte {every tag but string/array, string, array}; recursive calls (array elements) get the SAME contract for any tag as induction hypothesis (--enforce-contract-rec); the array loop has a loop contract (sidecar) with variant count-i",
        "allocation succeeds (framework-wide); C16.deser.alloc.array restricts that assumption to requests of at most COP_MAX_PAYLOAD elements and is EXPECTED to be refuted: the element count comes from the peer and goes unchecked into calloc(count,16)",
        "stack exhaustion is invisible to CBMC; C16.deser.depth.array bounds the decoder's depth parameter (precondition depth <= COP_DEPTH_LIMIT = 1024 on every recursive call); the frame size itself is not measured",
        "C16.deser.safe.string is EXPECTED to be refuted: `pos + len > buf_size` wraps in uint32 for len >= 2^32-5, vm_string_new is then handed a range outside the buffer",
        "C16.call / C16.stop: protocol functions replaced by caller-view contracts (conjunction of what C15.ser.*, C16.deser.safe.*, C16.recv.*, C16.send.* enforce, r_ok/w_ok instead of fresh objects: that step is not machine-checked); hence C16.call is conditional on C16.deser.safe.string being repaired.  vm_ffi_cop_start and vm_ffi_call are replaced by stated contracts (fork/exec/dlopen are not modelled).  String arguments are NULL in C16.call.  error_msg_size in 1..4096 (the VM passes 256); the three co-process fields satisfy fd >= -1",
        "C16.call proves: memory safety and frame of vm_ffi_call_cop for every peer behaviour; success => transferable result tag; failed request send or failed/rejected response header => waitpid on the co-process pid was reached and cop_pid = cop_in_fd = cop_out_fd = -1; kill() only ever targets a positive pid.  NOT claimed: content / NUL-termination of error_msg (snprintf is a stub); recv_buf freed on every path (read, not proved); after a failed PAYLOAD receive or an FFI_ERROR longer than error_msg the co-process is kept although the stream is out of step (the next call fails on the header and relaunches)",
        "CBMC 6.11 tool note: a dereference of out->as.array in a contract clause after `*out = val_array(arr)` is resolved against a stale value set (spurious FAILURE); the clause reads the same 8 bytes through the union's first pointer member instead (COP_OUT_ARRAY)",
    ],
    "undecided_part": "the real process table (zombies, orphan co-process after the VM exits), the real kernel, timing (50 ms grace period); SIGPIPE disposition of nano_vm (C16.sigpipe is not built in this unit); cop_main.c (the co-process side) is not under contract; run_standalone calling vm_ffi_cop_stop at exit is not checked",
}

HARNESS = "harness/cop_h.c"
HEAPREPL = ["vm_string_new", "vm_array_new", "vm_array_push"]
DECLOOP = "deserialize_value_at_wrapped_for_contract_checking.0"
COPANN = [("src/nanovm/cop_protocol.c", "contracts/loops/cop_protocol.c.loops")]


def rec(fn):
    return ["--enforce-contract-rec", fn]


def obligations(repo):
    obs = []
    for c, nm in [(0, "scalar_other"), (1, "string")]:
        obs.append(dict(id="C16.deser.safe." + nm, prop="C16", harness=HARNESS, entry="h_safe",
                        defines={"COP_VIEW_SAFE": 1, "COP_SAFE_CLASS": c},
                        gi_flags=rec("deserialize_value_at"), replace=HEAPREPL, unwind=6, unwindset=[DECLOOP + ":1"],
                        strength="X", functions=["deserialize_value_at"],
                        must_have=[r"deserialize_value_at\.postcondition", r"COVER"] + ([r"vm_string_new\.precondition"] if c == 1 else []),
                        min_checks=30, witness={"replayer": "cop"}))
    # array arm: loop contract (sidecar), recursion = induction hypothesis, heap layer by contract
    obs.append(dict(id="C16.deser.safe.array", prop="C16", harness=HARNESS, entry="h_safe", annotate=COPANN,
                    defines={"COP_VIEW_SAFE": 1, "COP_SAFE_CLASS": 2},
                    gi_flags=rec("deserialize_value_at"), replace=HEAPREPL, loops=True, unwind="auto",
                    strength="X", functions=["deserialize_value_at"], timeout=900,
                    must_have=[r"deserialize_value_at\.postcondition", r"loop_invariant_step", r"decreases", r"COVER",
                               r"deserialize_value_at\.precondition"],
                    min_checks=30, witness={"replayer": "cop", "override": {"loops": False, "annotate": [], "unwind": 6, "unwindset": [DECLOOP + ":3"], "object_bits": 10}}))
    # the same, with the allocation assumption restricted to requests proportional to the message size:
    # the element count is taken from the peer (u32) and passed unchecked to vm_array_new -> calloc(count, 16)
    obs.append(dict(id="C16.deser.alloc.array", prop="C16", harness=HARNESS, entry="h_safe", annotate=COPANN,
                    defines={"COP_VIEW_SAFE": 1, "COP_SAFE_CLASS": 2, "COP_ALLOC_BOUND": 1},
                    gi_flags=rec("deserialize_value_at"), replace=HEAPREPL, loops=True, unwind="auto",
                    strength="X", functions=["deserialize_value_at"], timeout=900,
                    must_have=[r"vm_array_new\.precondition", r"loop_invariant_step", r"COVER"],
                    min_checks=30, witness={"replayer": "cop", "override": {"loops": False, "annotate": [], "unwind": 6,
                                            "unwindset": [DECLOOP + ":3"], "object_bits": 10}}))
    # recursion depth: the decoder carries its nesting depth as a parameter (since the repo fix); the contract demands
    # depth <= COP_DEPTH_LIMIT of every call AND depth == ghost count of active frames (two inserted ghost statements), so the
    # recursive call's precondition is the bound on the C stack and a call that does not pass depth + 1 fails it
    obs.append(dict(id="C16.deser.depth.array", prop="C16", harness=HARNESS, entry="h_safe",
                    annotate=[("src/nanovm/cop_protocol.c", "contracts/loops/cop_protocol.c.depth.loops")],
                    defines={"COP_VIEW_SAFE": 1, "COP_SAFE_CLASS": 2, "COP_DEPTH_GHOST": 1},
                    gi_flags=rec("deserialize_value_at"), replace=HEAPREPL, loops=True, unwind="auto",
                    strength="X", functions=["deserialize_value_at"], timeout=900,
                    must_have=[r"deserialize_value_at\.precondition", r"loop_invariant_step", r"COVER"],
                    min_checks=30, witness={"replayer": "cop", "override": {"loops": False, "annotate": [], "unwind": 6,
                                            "defines": {"COP_VIEW_SAFE": 1, "COP_SAFE_CLASS": 2},
                                            "unwindset": [DECLOOP + ":3"], "object_bits": 10}}))
    # the public entry point: starts the recursion at depth 0 (helper replaced by the contract proved above)
    for c, nm in [(0, "scalar"), (1, "string"), (2, "array")]:
        obs.append(dict(id="C16.deser.wrapper." + nm, prop="C16", harness=HARNESS, entry="h_wrapper",
                        defines={"COP_VIEW_SAFE": 1, "COP_SAFE_CLASS": c}, enforce="cop_deserialize_value",
                        replace=["deserialize_value_at"], unwind=6, strength="U", functions=["cop_deserialize_value"],
                        must_have=[r"cop_deserialize_value\.postcondition", r"deserialize_value_at\.precondition", r"COVER"], min_checks=10))
    # pipe I/O under an adversarial OS (read/write stub bodies in the harness)
    io = {"COP_VIEW_IO": 1}
    obs.append(dict(id="C16.recv.read_all", prop="C16", harness=HARNESS, entry="h_read_all", annotate=COPANN, defines=io,
                    enforce="read_all", loops=True, unwind="auto", strength="U", functions=["read_all"],
                    must_have=[r"read_all\.postcondition", r"loop_invariant_step", r"decreases", r"OS: read destination", r"COVER"],
                    min_checks=30))
    obs.append(dict(id="C16.send.write_all", prop="C16", harness=HARNESS, entry="h_write_all", annotate=COPANN, defines=io,
                    enforce="write_all", loops=True, unwind="auto", strength="U", functions=["write_all"],
                    must_have=[r"write_all\.postcondition", r"loop_invariant_step", r"decreases", r"OS: write source", r"COVER"],
                    min_checks=30))
    obs.append(dict(id="C16.recv.header", prop="C16", harness=HARNESS, entry="h_recv_header", defines=io,
                    enforce="cop_recv_header", replace=["read_all"], unwind=6, strength="U", functions=["cop_recv_header"],
                    must_have=[r"cop_recv_header\.postcondition", r"read_all\.precondition", r"COVER"], min_checks=20))
    obs.append(dict(id="C16.recv.payload", prop="C16", harness=HARNESS, entry="h_recv_payload", defines=io,
                    enforce="cop_recv_payload", replace=["read_all"], unwind=6, strength="U", functions=["cop_recv_payload"],
                    must_have=[r"cop_recv_payload\.postcondition", r"read_all\.precondition", r"COVER"], min_checks=20))
    obs.append(dict(id="C16.send.cop_send", prop="C16", harness=HARNESS, entry="h_send", defines=io,
                    enforce="cop_send", replace=["write_all"], unwind=6, strength="U", functions=["cop_send", "cop_send_simple"],
                    must_have=[r"cop_send\.postcondition", r"write_all\.precondition", r"COVER"], min_checks=20))
    # caller side: vm_ffi_call_cop / vm_ffi_cop_stop with the protocol functions replaced by their caller-view contracts
    CALLH = "harness/cop_call_h.c"
    CREPL = ["cop_serialize_value", "cop_deserialize_value", "cop_send", "cop_recv_header", "cop_recv_payload", "vm_ffi_call", "vm_ffi_cop_start"]
    obs.append(dict(id="C16.call", prop="C16", harness=CALLH, entry="h_call", enforce="vm_ffi_call_cop", replace=CREPL, sources=["src/nanovm/cop_protocol.c"],
                    defines={"VERIF_COP_MAX_SCALED": 32768},
                    unwind=18, strength="B(protocol constant COP_MAX_PAYLOAD scaled from 16 MiB to 32 KiB in the TU under proof)", functions=["vm_ffi_call_cop", "vm_ffi_cop_stop", "cop_ensure", "cop_is_alive"], timeout=900, 
                    must_have=[r"vm_ffi_call_cop\.postcondition", r"cop_deserialize_value\.precondition", r"cop_recv_payload\.precondition",
                               r"OS: waitpid", r"COVER"], min_checks=100, weight=20))
    obs.append(dict(id="C16.stop", prop="C16", harness=CALLH, entry="h_stop", enforce="vm_ffi_cop_stop", replace=["cop_send"], sources=["src/nanovm/cop_protocol.c"],
                    unwind=8, strength="U", functions=["vm_ffi_cop_stop", "cop_send_simple"],
                    must_have=[r"vm_ffi_cop_stop\.postcondition", r"OS: waitpid", r"COVER"], min_checks=30))
    # C16.sigpipe: nano_vm's main ignores SIGPIPE before run_standalone (harness of the exit unit, see harness/exit_h.c)
    import os, sys
    sys.path.insert(0, os.path.dirname(os.path.abspath(__file__)))
    import c10_exit
    obs.append(dict(id="C16.sigpipe", prop="C16", harness=c10_exit.EXIT, entry="h_vm_main", annotate=c10_exit.VM_ANN,
                    defines={"EXIT_UNIT_VM_MAIN": 1, "VERIF_SIGPIPE": 1}, enforce="vm_main", replace=["run_standalone", "run_daemon"],
                    loops=True, unwind="auto", checks=[], flags=c10_exit.NOCHK, gi_flags=c10_exit.GI, strength="U",
                    functions=["main (nano_vm)"], timeout=600, must_have=[r"run_standalone\.precondition", r"loop_invariant_step"], min_checks=10))
    return obs
