"""C13 - no bytecode input makes loader, verifier or VM misbehave (DESIGN 5/C13)."""
import os, sys
sys.path.insert(0, os.path.dirname(os.path.abspath(__file__)))
import vmstep
META = {
    "level": "proof",
    "trusted_base": ["contracts/nvm_contracts.h, contracts/verifier_contracts.h, contracts/isa_contracts.h"],
    "assumptions": [],
    "undecided_part": "",
}
VER = "harness/verifier_h.c"
VANN = [("src/nanoisa/verifier.c", "contracts/loops/verifier.c.loops")]


LOADER = "harness/nvm_loader_h.c"
LANN = [("src/nanoisa/nvm_format.c", "contracts/loops/nvm_format.c.loops")]
LREPL = ["nvm_crc32", "nvm_module_new", "nvm_module_free", "nvm_add_string", "nvm_append_code", "nvm_add_function", "nvm_add_debug_entry"]
KINDS = {1: "code", 2: "strings", 3: "functions", 9: "debug", 0: "other"}


def loader_obligations(prop):
    """nvm_deserialize under contract, X over the section kind (DESIGN 9 item 3).  Shared by C12 (gate, dir) and C13 (bounds, termination)."""
    obs = []
    for k, nm in KINDS.items():
        if nm == "strings":
            # OPEN (not registered): the strings arm needs --unwind 6 for the DFCC library loops and then exhausts 44 GB in the SAT
            # solver (measured twice); a check that can only say "undecided" must not sit in a tier.  What covers the string pool
            # instead: C10.rt.shape.strings (real serializer -> loader on a fixed shape with an empty last string, bounded) and the
            # memory-safety side through C13.deser.other's shared prologue (header, checksum gate, directory bounds).
            continue
        obs.append(dict(id="%s.deser.%s" % (prop, nm), prop=prop, harness=LOADER, entry="h_deser", annotate=LANN,
                        tier="thorough" if nm in ("functions", "strings") else "quick",   # functions: > 25 min; strings: needs --unwind 6 for the DFCC library loops and then > 10 GB
                        defines={"VERIF_KIND": k}, enforce="nvm_deserialize", replace=LREPL, loops=True, unwind=6 if nm == "strings" else 5,
                        object_bits=10, strength="X", timeout=1500 if nm not in ("functions", "strings") else 5400, mem_gb=10 if nm != "strings" else 44, weight=100,
                        functions=["nvm_deserialize", "le_read_u32", "le_read_u16", "nvm_validate_header"],
                        must_have=[r"nvm_deserialize\.postcondition", r"loop_invariant_step", r"decreases",
                                   r"nvm_crc32\.precondition"], min_checks=500,
                        witness={"replayer": "loader", "override": {"loops": False, "annotate": [], "unwind": 16,
                                 "object_bits": 10, "timeout": 600}},
                        fallback={"loops": False, "annotate": [], "unwind": 6, "object_bits": 12, "timeout": 900,
                                  "defines": {"VERIF_KIND": k, "VERIF_MAX_SIZE": 46}, "must_have": [r"nvm_deserialize\.postcondition"]}))
    # imports arm: realloc/malloc inside the loop -> CBMC 6.11 loop contracts refuse dynamic allocation in loops, so only a
    # bounded stand-in is possible.  It is OPEN (not registered) since the all-or-nothing repair of the loader (fix d0ffbc0): the
    # bounded run (file <= 84 bytes, and <= 70 bytes) exhausts 10 GB after > 100 min / does not finish in 35 min.  What covers the
    # imports section instead: C10.rt.shape.import and C19.ser.det.shape (real serializer -> real loader on a fixed shape, bounded).
    IMPORTS_BOUNDED_OPEN = dict(id="%s.deser.imports.bounded" % prop, prop=prop, harness=LOADER, entry="h_deser", tier="thorough",
                    defines={"VERIF_KIND": 8, "VERIF_MAX_SIZE": 70}, enforce="nvm_deserialize", replace=LREPL, unwind=8,
                    object_bits=10, strength="B(file size <= 70 bytes: <= 2 import records, <= 3 directory slots)", timeout=3600,
                    mem_gb=10, weight=50, functions=["nvm_deserialize"], must_have=[r"nvm_deserialize\.postcondition"],
                    min_checks=300, witness={"replayer": "loader", "override": {}})
    del IMPORTS_BOUNDED_OPEN
    return obs


NO_SOVF = ["--no-signed-overflow-check"]
STEP_CFG = {
    # arithmetic: int branches rely on -O0 wrap (assumption); the element-wise array branches loop over the arrays -> arrays capped
    "ADD": dict(checks=NO_SOVF, defs={"VERIF_ARR_CAP": 2}, bound="array operands: capacity <= 2"),
    "SUB": dict(checks=NO_SOVF, defs={"VERIF_ARR_CAP": 2}, bound="array operands: capacity <= 2"),
    "MUL": dict(checks=NO_SOVF, defs={"VERIF_ARR_CAP": 2}, bound="array operands: capacity <= 2"),
    "DIV": dict(defs={"VERIF_ARR_CAP": 2}, bound="array operands: capacity <= 2"),
    "NEG": dict(checks=NO_SOVF),
    "CAST_INT": dict(checks=NO_SOVF), "CAST_FLOAT": dict(checks=NO_SOVF),
    "ARR_REMOVE": dict(defs={"VERIF_ARR_CAP": 8}, bound="array capacity <= 8"),
    "ARR_SLICE": dict(defs={"VERIF_ARR_CAP": 8}, bound="array capacity <= 8"),
    "ARR_LITERAL": dict(defs={"VERIF_COUNT_MAX": 4}, bound="count operand <= 4"),
    "STRUCT_LITERAL": dict(defs={"VERIF_COUNT_MAX": 4}, bound="count operand <= 4"),
    "UNION_CONSTRUCT": dict(defs={"VERIF_COUNT_MAX": 4}, bound="count operand <= 4"),
    "TUPLE_NEW": dict(defs={"VERIF_COUNT_MAX": 4}, bound="count operand <= 4"),
    "CLOSURE_NEW": dict(defs={"VERIF_COUNT_MAX": 4}, bound="count operand <= 4"),
    "CALL": dict(defs={"VERIF_LOCALS_MAX": 4}, bound="callee pushes <= 4 fresh locals, arity <= 3"),
    "CALL_INDIRECT": dict(defs={"VERIF_LOCALS_MAX": 4}, bound="callee pushes <= 4 fresh locals, arity <= 3"),
    "CLOSURE_CALL": dict(defs={"VERIF_LOCALS_MAX": 4}, bound="callee pushes <= 4 fresh locals, arity <= 3"),
    "RET": dict(defs={"VERIF_FRAME_DEPTH_MAX": 3}, bound="returning frame holds <= 3 slots"),
    "HM_KEYS": dict(bound="hashmap: 2 buckets, chains <= 1"), "HM_VALUES": dict(bound="hashmap: 2 buckets, chains <= 1"),
    "HM_SET": dict(bound="hashmap: 2 buckets, chains <= 1"), "HM_GET": dict(bound="hashmap: 2 buckets, chains <= 1"),
    "HM_HAS": dict(bound="hashmap: 2 buckets, chains <= 1"), "HM_DELETE": dict(bound="hashmap: 2 buckets, chains <= 1"),
    "HM_LEN": dict(bound="hashmap: 2 buckets, chains <= 1"),
}
# opcodes whose step obligation does not close yet (listed in the evidence as not covered, never counted)
# opcodes whose step obligation is not closed (never counted): ARR_SLICE retains EVERY copied element (needs all elements
# materialised); the HM_* handlers walk bucket chains and call val_equal/hash on keys (time out at 600 s even with 2 buckets)
STEP_OPEN = {"ARR_SLICE", "HM_NEW", "HM_GET", "HM_SET", "HM_HAS", "HM_DELETE", "HM_KEYS", "HM_VALUES", "HM_LEN",
             # ADD/SUB/MUL/DIV: the element-wise array and float branches exhaust 10 GB in the SAT solver (the int/bool
             # semantics and fault-freedom of these four are C02.vm.*); calls/returns push or pop a symbolic number of
             # slots with realloc growth and time out at 600 s
             "ADD", "SUB", "MUL", "DIV", "CALL", "CALL_INDIRECT", "CLOSURE_CALL", "RET",
             # ARR_PUSH: realloc growth of a symbolic-capacity array exhausts 10 GB; POP / LOAD_GLOBAL / STORE_GLOBAL /
             # LOAD_UPVALUE / STORE_UPVALUE: time out at 420 s (release of an arbitrary value of 7 kinds, 4096-entry globals)
             "ARR_PUSH", "POP", "GC_RELEASE", "LOAD_GLOBAL", "STORE_GLOBAL", "LOAD_UPVALUE", "STORE_UPVALUE"}
STEP_THOROUGH = {"UNION_FIELD", "TUPLE_GET"}     # > 2 min each: thorough tier only
# conditional jumps / MATCH_TAG: only the "next instruction" target closes in time; the other sample targets are open
COND_TARGETS_OK = {"JMP": (3, 13, 20, 33), "JMP_TRUE": (13,), "JMP_FALSE": (13,), "MATCH_TAG": (15,)}


def step_obligations(prop="C13"):
    obs = []
    for op in vmstep.OPC:
        if op in ("CALL_EXTERN", "CALL_MODULE"):
            continue          # C13 is about import-free, single modules (the property excludes external imports)
        if op in STEP_OPEN:
            continue
        tier = "thorough" if op in STEP_THOROUGH else "quick"
        o = vmstep.step(prop, "%s.step.%s" % (prop, op), "h_step", op, must_have=[r"C13\.step", r"COVER"], timeout=420)
        o["tier"] = tier
        cfg = STEP_CFG.get(op, {})
        # slot kinds: scalar | string | array, plus the container kind this opcode operates on (the remaining kinds
        # only ever take the opcode's type-error path, exactly like an array does there) - keeps the formula in memory
        base = 1 | 2 | 4
        extra = {"STRUCT_GET": 8, "STRUCT_SET": 8, "UNION_TAG": 16, "UNION_FIELD": 16, "MATCH_TAG": 16, "TUPLE_GET": 32,
                 "CALL_INDIRECT": 64, "CLOSURE_CALL": 64, "DUP": 8 | 16 | 32 | 64, "POP": 8 | 16 | 32 | 64, "GC_RETAIN": 8 | 16 | 32 | 64,
                 "GC_RELEASE": 8 | 16 | 32 | 64, "EQ": 8, "NE": 8}.get(op, 0)
        for k in ("VERIF_M0", "VERIF_M1", "VERIF_M2"):
            o["defines"][k] = base | extra
        o["defines"].update(cfg.get("defs", {}))
        if cfg.get("checks"):
            o["flags"] = cfg["checks"]
        if cfg.get("bound"):
            o["strength"] = "B(%s)" % cfg["bound"]
        if op in ("STR_FROM_INT", "STR_FROM_FLOAT", "CAST_STRING", "STR_CONCAT", "PUSH_STR"):
            o["unwind"] = 30     # fnv1a / memcmp over strings of <= 24 characters
        if op in ("JMP", "JMP_TRUE", "JMP_FALSE", "MATCH_TAG"):
            # case split over sample targets (function start, next instruction, middle, function end)
            import copy
            nxt = 8 + {"JMP": 5, "JMP_TRUE": 5, "JMP_FALSE": 5, "MATCH_TAG": 7}[op]
            for t in (3, nxt, 20, 33):
                if t not in COND_TARGETS_OK[op]:
                    continue
                c = copy.deepcopy(o)
                c["id"] += ".t%d" % t
                c["defines"]["VERIF_TARGET"] = t
                if t == 33:      # landing on the function end runs the implicit return, which pops the whole frame
                    c["defines"]["VERIF_FRAME_DEPTH_MAX"] = 3
                c["strength"] = "B(jump target pinned to one of {3, next, 20, 33} of a function [3,33))"
                obs.append(c)
            continue
        if op == "RET":
            import copy
            for t in (3, 13, 33):
                c = copy.deepcopy(o)
                c["id"] += ".r%d" % t
                c["defines"]["VERIF_RETIP"] = t
                c["strength"] = "B(returning frame <= 3 slots; return_ip pinned to one of {3, 13, 33})"
                obs.append(c)
            continue
        obs.append(o)
    # Opcodes of STEP_OPEN that close once the stack depth is pinned (5 of capacity 8: no realloc growth of the stack inside
    # the step, slot indices concrete).  Bounded stand-ins, never counted as proved; the symbolic-depth obligation stays open.
    for op, tier in STEP_PINNED.items():
        o = vmstep.step(prop, "%s.step.%s.s5" % (prop, op), "h_step", op, must_have=[r"C13\.step", r"COVER"], timeout=900)
        cfg = STEP_CFG.get(op, {})
        base = 1 | 2 | 4
        extra = {"POP": 8 | 16 | 32 | 64, "GC_RELEASE": 8 | 16 | 32 | 64}.get(op, 0) | (512 if op.startswith("HM_") else 0)
        for k in ("VERIF_M0", "VERIF_M1", "VERIF_M2"):
            o["defines"][k] = base | extra
        o["defines"].update(cfg.get("defs", {}))
        o["defines"]["VERIF_STACK_SIZE"] = 5
        if cfg.get("checks"):
            o["flags"] = cfg["checks"]
        o["tier"] = tier
        o["strength"] = "B(stack depth pinned: 5 slots of capacity 8%s)" % ("; " + cfg["bound"] if cfg.get("bound") else "")
        obs.append(o)
    # SUB / MUL with the depth pinned AND the operand slots restricted to scalars and strings (the element-wise array arms exhaust
    # 10 GB; ADD with its string-concatenation arm and DIV do not close even so): 19 s / 26 s
    for op in ("SUB", "MUL"):
        o = vmstep.step(prop, "%s.step.%s.s5.scalar" % (prop, op), "h_step", op, must_have=[r"C13\.step", r"COVER"], timeout=900)
        cfg = STEP_CFG.get(op, {})
        for k in ("VERIF_M0", "VERIF_M1", "VERIF_M2"):
            o["defines"][k] = 1 | 2
        o["defines"].update(cfg.get("defs", {}))
        o["defines"]["VERIF_STACK_SIZE"] = 5
        if cfg.get("checks"):
            o["flags"] = cfg["checks"]
        o["strength"] = "B(stack depth pinned: 5 slots of capacity 8; operand slots hold scalars or strings, no arrays)"
        obs.append(o)
    # further STEP_OPEN opcodes with the depth pinned and every slot a scalar (int / float / bool / void): the fault paths and the
    # arithmetic arms of the handler, none of its heap arms.  Bounded stand-ins; registered only where they close (STEP_SCALAR).
    for op, tier in STEP_SCALAR.items():
        o = vmstep.step(prop, "%s.step.%s.s5.scalaronly" % (prop, op), "h_step", op, must_have=[r"C13\.step", r"COVER"], timeout=900)
        cfg = STEP_CFG.get(op, {})
        for k in ("VERIF_M0", "VERIF_M1", "VERIF_M2"):
            o["defines"][k] = 1
        o["defines"].update(cfg.get("defs", {}))
        o["defines"]["VERIF_STACK_SIZE"] = 5
        if cfg.get("checks"):
            o["flags"] = cfg["checks"]
        o["tier"] = tier
        o["strength"] = "B(stack depth pinned: 5 slots of capacity 8; every slot holds a scalar)"
        obs.append(o)
    return obs


# measured with the depth pinned (16-core box under load): ARR_PUSH 5 s, HM_NEW 4 s, HM_LEN 6 s, HM_HAS 37 s, HM_GET 46 s;
# POP 400 s, STORE_GLOBAL 443 s, LOAD_GLOBAL 456 s, GC_RELEASE 471 s.  Still open with the depth pinned: ADD SUB MUL DIV (memory),
# CALL* RET LOAD/STORE_UPVALUE HM_SET HM_DELETE HM_KEYS HM_VALUES (600 s), ARR_SLICE (needs every element materialised;
# its semantics and census are C02.vm.ARR_SLICE / C14.step.ARR_SLICE.bounded).
# measured: STORE_UPVALUE 542 s (8 queries in parallel); ADD runs out of 10 GB even so; DIV RET LOAD_UPVALUE HM_SET HM_DELETE CALL
# were not decided within 700 s and stay open
STEP_SCALAR = {"STORE_UPVALUE": "thorough"}
STEP_PINNED = {"ARR_PUSH": "quick", "HM_NEW": "quick", "HM_LEN": "quick", "HM_HAS": "quick", "HM_GET": "quick",
               "POP": "thorough", "STORE_GLOBAL": "thorough", "LOAD_GLOBAL": "thorough", "GC_RELEASE": "thorough"}


def obligations(repo):
    obs = loader_obligations("C13") + step_obligations()
    obs.append(dict(id="C13.verify.structure", prop="C13", harness=VER, entry="h_structure", annotate=VANN,
                    enforce="verify_structure", loops=True, unwind=5, strength="U", functions=["verify_structure"],
                    must_have=[r"verify_structure\.postcondition", r"loop_invariant_step", r"decreases"], min_checks=20))
    # only the decode part closes (~25 min); JMP, MATCH, CALL, STR, EXTERN, LOCAL exhaust 12-40 GB in propositional reduction: open
    for part in ["DECODE"]:
        obs.append(dict(id="C13.verify.function." + part.lower(), prop="C13", harness=VER, entry="h_function", annotate=VANN, tier="thorough",
                        defines={"VERIF_IOK": "IOK_" + part, "VERIF_IOKN": part},
                        enforce="verify_function", replace=["isa_decode", "isa_get_info"], loops=True, unwind=5, unwindset=["spec_le.0:9"], strength="U",
                        functions=["verify_function"], timeout=3600, weight=20, mem_gb=40,
                        must_have=[r"verify_function\.postcondition", r"loop_invariant_step", r"decreases"],
                        min_checks=20))
    obs.append(dict(id="C13.verify.top", prop="C13", harness=VER, entry="h_verify", annotate=VANN, defines={"VERIF_VIEW_CALLER": 1},
                    enforce="nvm_verify", replace=["verify_structure", "verify_function"], loops=True, unwind=5, strength="U",
                    functions=["nvm_verify"],
                    must_have=[r"nvm_verify\.postcondition", r"loop_invariant_step", r"verify_function\.precondition"], min_checks=20))
    return obs
