"""C11 - instruction encoding is a bijection (DESIGN 5/C11)."""
META = {
    "level": "proof",
    "trusted_base": ["contracts/spec_isa.h spec functions (format written from the property statement and isa.h's documented layout)"],
    "assumptions": [
        "opcode-ness of a byte is defined by the real table row (name != NULL); a consistent edit of one table row moves encoder, decoder and spec together and is not a C11 violation",
        "asm_assemble/disasm_module text round trip is NOT decided (sscanf/strtol/snprintf over unbounded text are outside CBMC's reach)",
    ],
    "undecided_part": "textual assembly form: assemble(disassemble(m)) = m is not covered by any obligation",
}

HARNESS = "harness/isa_h.c"
ENC = ["isa_encode", "isa_get_info", "isa_operand_size", "write_u16", "write_u32", "write_i32", "write_i64", "write_f64"]
DEC = ["isa_decode", "isa_get_info", "isa_operand_size", "read_u16", "read_u32", "read_i32", "read_i64", "read_f64"]


def obligations(repo):
    obs = []
    wit = {"replayer": "isa"}
    for K in range(256):
        d = {"VERIF_K": K}
        obs.append(dict(id="C11.table.%d" % K, prop="C11", harness=HARNESS, entry="h_table", defines=d, unwind=9,
                        strength="X", functions=["isa_get_info"], must_have=[r"C11\.table"], min_checks=3))
        obs.append(dict(id="C11.enc.%d" % K, prop="C11", harness=HARNESS, entry="h_enc", defines=d, enforce="isa_encode",
                        unwind=9, strength="X", functions=ENC, must_have=[r"isa_encode\.postcondition", r"COVER"],
                        min_checks=100, witness=wit))
        obs.append(dict(id="C11.dec.%d" % K, prop="C11", harness=HARNESS, entry="h_dec", defines=d, enforce="isa_decode",
                        unwind=9, strength="X", functions=DEC, must_have=[r"isa_decode\.postcondition", r"COVER"],
                        min_checks=100, weight=5, witness=wit))
        obs.append(dict(id="C11.rt.enc_dec.%d" % K, prop="C11", harness=HARNESS, entry="h_rt_enc_dec", defines=d,
                        replace=["isa_encode", "isa_decode"], unwind=9, strength="X", gi_malloc_default=True,
                        functions=["isa_encode", "isa_decode"], must_have=[r"precondition", r"COVER"], min_checks=50))
        obs.append(dict(id="C11.rt.dec_enc.%d" % K, prop="C11", harness=HARNESS, entry="h_rt_dec_enc", defines=d,
                        replace=["isa_encode", "isa_decode"], unwind=33, strength="X", gi_malloc_default=True,
                        functions=["isa_encode", "isa_decode"], must_have=[r"precondition", r"COVER"], min_checks=50))
        obs.append(dict(id="C11.name.%d" % K, prop="C11", harness=HARNESS, entry="h_name", defines=d,
                        unwindset=["isa_opcode_by_name.0:257", "strcmp.0:24"], strength="X",
                        functions=["isa_opcode_by_name"], min_checks=3))
    for e, f in [("h_le_w16", "write_u16"), ("h_le_w32", "write_u32"), ("h_le_wi32", "write_i32"),
                 ("h_le_wi64", "write_i64"), ("h_le_wf64", "write_f64"), ("h_le_r16", "read_u16"),
                 ("h_le_r32", "read_u32"), ("h_le_ri32", "read_i32"), ("h_le_ri64", "read_i64"),
                 ("h_le_rf64", "read_f64")]:
        obs.append(dict(id="C11.le.%s" % f, prop="C11", harness=HARNESS, entry=e, defines={"VERIF_K": 0}, enforce=f,
                        unwind=9, strength="U", functions=[f], must_have=[r"%s\.postcondition" % f], min_checks=10))
    return obs
