"""C08 - out-of-range operations stop the program (DESIGN 5/C08)."""
import os, sys
sys.path.insert(0, os.path.dirname(os.path.abspath(__file__)))
import vmstep

META = {
    "level": "proof",
    "trusted_base": ["contracts/vm_contracts.h (VM_INV, vm_release contract)", "contracts/modwf.h (MOD_WF assumed of the running module; proved by C13.verify.*)"],
    "assumptions": [
        "GLUE (not machine-checked): every VM run is a sequence of steps from a VM_INV state (DESIGN 4.1); the step triples are proved per opcode",
        "that every indexing construct of every program is lowered to one of these accessors is NOT decided (programs quantifier)",
    ],
    "undecided_part": "lowering of source-level indexing to these accessors; exit-status propagation is C10.exit",
}

VM_ACCESSORS = ["ARR_GET", "ARR_SET", "ARR_POP", "ARR_REMOVE", "STRUCT_GET", "STRUCT_SET", "UNION_FIELD", "TUPLE_GET"]


SC, ST, AR, SU, UN, TU, ANY = 1, 2, 4, 8, 16, 32, 3   # ANY here: scalar or string (slots the accessor only moves)
# shapes the accessor needs (top, top-1, top-2); the remaining slots are any well-formed value
SHAPES = {"ARR_GET": (SC, AR, ANY), "ARR_REMOVE": (SC, AR, ANY), "ARR_SET": (ANY, SC, AR), "ARR_POP": (AR, ANY, ANY),
          "STRUCT_GET": (SU, ANY, ANY), "UNION_FIELD": (UN, ANY, ANY), "TUPLE_GET": (TU, ANY, ANY), "STRUCT_SET": (ANY, SU, ANY)}


def vm_obligations(prop="C08"):
    obs = []
    for op in VM_ACCESSORS:
        m0, m1, m2 = SHAPES[op]
        o = vmstep.step(prop, "%s.vm.%s" % (prop, op), "h_c08", op, must_have=[r"C08\.vm", r"COVER"])
        o["defines"].update({"VERIF_M0": m0, "VERIF_M1": m1, "VERIF_M2": m2})
        if op == "ARR_REMOVE":
            # the in-range branch runs vm_array_remove's element-shifting loop: arrays capped at 8 elements for that branch;
            # the out-of-range branch (the property) never enters the loop and is covered for the same lengths
            o["defines"]["VERIF_ARR_CAP"] = 8
            o["strength"] = "B(array capacity <= 8; index full int64)"
        obs.append(o)
    return obs


def obligations(repo):
    obs = vm_obligations()
    try:
        import c08_native
        obs += c08_native.native_obligations("C08")
    except ImportError:
        pass
    try:
        import c08_tmpl
        obs += c08_tmpl.tmpl_obligations("C08")
    except ImportError:
        pass
    try:
        import c08_interp
        obs += c08_interp.interp_obligations("C08")
    except ImportError:
        pass
    return obs
