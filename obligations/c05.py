"""C05 - ill-formed programs are never turned into a runnable artifact (DESIGN 5/C05): driver gates."""
META = {
    "level": "proof",
    "trusted_base": ["contracts/gate_contracts.h"],
    "assumptions": [],
    "undecided_part": "",
}
VIRT = "harness/gate_virt_h.c"
VIRT_ANN = [("src/nanovirt/main.c", "contracts/loops/nanovirt_main.c.loops")]
VIRT_REPL = []
NOCHK = ["--no-standard-checks"]
GI = ["--no-malloc-may-fail"]   # under --dfcc the malloc model is linked by goto-instrument: the flag must be given there


NANOC = "harness/gate_nanoc_h.c"
NANOC_ANN = [("src/main.c", "contracts/loops/main.c.gate.loops")]
NANOC_REPL = ["llm_emit_diags_json", "llm_emit_diags_toon", "strdup"]


def cut_is_structural(repo):
    """Textual side condition of the path cut at transpile_to_c (harness/gate_nanoc_h.c): inside compile_file there is
    no goto / label / setjmp, exactly one call of transpile_to_c, at the top nesting level of the function body, and no
    system() / fopen() in a write mode textually before it.  Then every execution that reaches the code behind the
    call has executed the call, where GATE_OPEN and "type checker + shadow tests ran" are asserted."""
    import os, re, sys
    sys.path.insert(0, os.path.join(os.path.dirname(os.path.dirname(os.path.abspath(__file__))), "tools"))
    import annotate
    try:
        src = open(os.path.join(repo, "src/main.c"), encoding="utf-8", errors="surrogateescape").read()
        m = annotate.mask(src)
        lo, hi = annotate.find_function(m, "compile_file")
    except (OSError, annotate.AnnotateError) as e:
        return False, str(e)
    body = m[lo:hi + 1]
    if re.search(r"\b(goto|setjmp|longjmp|sigsetjmp)\b", body) or re.search(r"^\s*[A-Za-z_]\w*\s*:\s*$", body, re.M):
        return False, "goto/label/setjmp in compile_file"
    calls = [x.start() for x in re.finditer(r"\btranspile_to_c\s*\(", body)]
    if len(calls) != 1:
        return False, "%d calls of transpile_to_c" % len(calls)
    pre = body[:calls[0]]
    if pre.count("{") - pre.count("}") != 1:
        return False, "transpile_to_c is not called at the top nesting level of compile_file"
    if re.search(r"\bsystem\s*\(", pre):
        return False, "system() before transpile_to_c"
    for x in re.finditer(r"\bfopen\s*\(", pre):
        # mode is a string literal: look at the unmasked text of the call
        call = src[lo + x.start(): lo + annotate.match_close(body, x.end() - 1, "(", ")") + 1]
        if not re.search(r',\s*"r[b]?"\s*\)$', call):
            return False, "fopen in a write mode before transpile_to_c: " + call
    return True, ""


def obligations(repo):
    obs = []
    ok, why = cut_is_structural(repo)
    cut_def = {} if ok else {"VERIF_STRUCT_CHECK_FAILED": 1}   # -> #error in the harness -> UNDECIDED, never a proof
    obs.append(dict(id="C05.gate.virt", prop="C05", harness=VIRT, entry="h_virt_main", annotate=VIRT_ANN,
                    enforce="virt_main", replace=VIRT_REPL, loops=True, unwind="auto", checks=[], flags=NOCHK, gi_flags=GI,
                    strength="U", functions=["nano_virt main"], timeout=600,
                    must_have=[r"virt_main\.postcondition", r"loop_invariant_step", r"decreases", r"GATE fopen for writing"],
                    min_checks=20))
    obs.append(dict(id="C05.gate.nanoc", prop="C05", harness=NANOC, entry="h_compile_file", annotate=NANOC_ANN, include_repo=[".", "src"], defines=cut_def,
                    enforce="compile_file", replace=NANOC_REPL, loops=True, unwind="auto", checks=[], flags=NOCHK, gi_flags=GI,
                    strength="U", functions=["compile_file (prefix up to transpile_to_c)"], timeout=600,
                    must_have=[r"compile_file\.postcondition", r"loop_invariant_step", r"decreases", r"GATE transpile_to_c",
                               r"GATE run_shadow_tests"],
                    min_checks=20))
    mdef = dict(cut_def); mdef["GATE_VIEW_MAIN"] = 1
    obs.append(dict(id="C05.exit.nanoc", prop="C05", harness=NANOC, entry="h_nanoc_main", annotate=NANOC_ANN,
                    include_repo=[".", "src"], defines=mdef, enforce="nanoc_main", replace=["compile_file"], loops=True,
                    unwind="auto", checks=[], flags=NOCHK, gi_flags=GI, strength="U", functions=["nanoc main"], timeout=600,
                    must_have=[r"nanoc_main\.postcondition", r"loop_invariant_step", r"decreases"], min_checks=20))
    return obs
