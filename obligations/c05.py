"""C05 - ill-formed programs are never turned into a runnable artifact (DESIGN 5/C05): driver gates."""
META = {
    "level": "proof",
    "trusted_base": [
        "contracts/gate_contracts.h: the ghost struct __verif_gate, the GATE_OPEN precondition of every writer/executor and the "
        "contracts virt_main / compile_file / nanoc_main (harness/gate_virt_h.c, harness/gate_nanoc_h.c), written from the property statement",
        "tools/annotate.py inserting only loop-contract clauses (sidecars contracts/loops/nanovirt_main.c.loops, main.c.gate.loops)",
    ],
    "assumptions": [
        "STRENGTH: driver control flow only.  Every callee of nano_virt `main` and of nanoc `compile_file` is cut at its interface: "
        "nondeterministic result, effect recorded in __verif_gate (stub bodies in contracts/gate_contracts.h = assumed contracts; "
        "stub bodies instead of --replace-call-with-contract because DFCC builds a write set per replaced call: 985 s vs 15 s)",
        "cut callees, nano_virt main: tokenize parse_program process_imports type_check create_environment create_module_list "
        "clear_module_cache typecheck_set_current_file free_ast free_tokens free_environment free_module_list codegen_compile "
        "nvm_serialize wrapper_generate wrapper_generate_daemon nvm_verify vm_init vm_execute vm_get_result vm_destroy vm_error_string "
        "vm_ffi_init vm_ffi_set_env vm_ffi_load_module vm_ffi_shutdown nvm_get_string nvm_module_free; libc: fopen fwrite fread fseek "
        "ftell fclose strcmp strncmp strlen printf fprintf.  Kept as REAL code: main, read_file, usage, has_nvm_extension; malloc/free = CBMC models",
        "cut callees, compile_file (in addition): nl_list_CompilerDiagnostic_new/push/free type_check_module nanocore_trust_report "
        "nanocore_print_trust_report nanocore_free_trust_report nanocore_function_trust nanocore_export_sexpr nanocore_reference_eval "
        "emit_module_reflection compile_modules ffi_init ffi_load_module ffi_cleanup module_load_metadata module_metadata_free load_module "
        "run_shadow_tests transpile_to_c getenv setenv unsetenv strrchr snprintf free(no-op); contract-REPLACED (goto-instrument): "
        "llm_emit_diags_json llm_emit_diags_toon (static helpers: they write the --llm-diags-* diagnostics file, by design on failure "
        "paths; a diagnostics file is not counted as an artifact) and strdup (fresh writable object).  Kept as REAL code: compile_file, diags_push_simple",
        "the list of WRITERS/EXECUTORS is complete: fopen in a mode other than r/rb, fwrite to a stream other than stdout/stderr, system, "
        "wrapper_generate, wrapper_generate_daemon, emit_module_reflection, compile_modules (cc on imported C modules), nvm_serialize, "
        "codegen_compile, transpile_to_c, run_shadow_tests (interpreter runs program code), vm_execute, vm_call_function.  Assumed to "
        "write no artifact and run no program code: process_imports, load_module, module_load_metadata, ffi_init, ffi_load_module and "
        "vm_ffi_load_module (dlopen of module shared libraries, after the type-check gate), the nanocore_* analyses",
        "PATH CUT (C05.gate.nanoc): the stub of transpile_to_c ends the path (__CPROVER_assume(0)) after asserting GATE_OPEN and "
        "'type checker and shadow tests ran exactly once'.  Covered: compile_file from entry up to and including that call.  The rest "
        "(temp .c file, generic-list wrappers, cc command line, system()) is reachable only through that call: compile_file has no "
        "goto/label/setjmp and calls transpile_to_c once at its top nesting level (checked textually by cut_is_structural on every run; "
        "if it fails the harness does not compile -> undecided)",
        "ftell() >= 0 on the source file just opened (compile_file does not test it; with -1 it writes source[-1]: memory safety, not this unit)",
        "cbmc --no-standard-checks: memory safety of the driver code itself is NOT checked here; reads through unconstrained pointers "
        "(argv strings, AST items, module tables) yield arbitrary values (over-approximation); every WRITE is still checked against the "
        "frame by DFCC",
        "loop over the 9-row static const table known_modules[] (nano_virt main loop 5, after the gate): no decreases clause, i.e. "
        "partial correctness for that one loop (DFCC havocs static locals at every loop head, so the {NULL,NULL} terminator is not "
        "available to the proof); all other loops have invariant + decreases",
        "names changed by the harness, no code: main -> virt_main / nanoc_main",
    ],
    "undecided_part": "Completeness of the type checker's rule catalogue is NOT decided (that every ill-typed program makes "
                      "type_check return false; the known arity-mismatch diagnostic that does not set has_error lives there) - only "
                      "'a phase reports failure => non-zero status, nothing written, built, generated or run'.  'Reports a diagnostic' "
                      "is not observed (messages are variadic fprintf calls; a variadic stub cannot carry a ghost write under DFCC).  "
                      "Imported modules: process_imports type-checks them inside the cut callee.  The part of compile_file behind "
                      "transpile_to_c is not symbolically executed (see PATH CUT).",
}
VIRT = "harness/gate_virt_h.c"
VIRT_ANN = [("src/nanovirt/main.c", "contracts/loops/nanovirt_main.c.loops")]
VIRT_REPL = []
NOCHK = ["--no-standard-checks"]
GI = ["--no-malloc-may-fail"]   # under --dfcc the malloc model is linked by goto-instrument: the flag must be given there


NANOC = "harness/gate_nanoc_h.c"
NANOC_ANN = [("src/main.c", "contracts/loops/main.c.gate.loops")]
NANOC_REPL = ["llm_emit_diags_json", "llm_emit_diags_toon", "strdup"]


def cut_is_structural(repo):
    """Textual side condition of the path cut at transpile_to_c (harness/gate_nanoc_h.c): inside compile_file there is
    no goto / label / setjmp, exactly one call of transpile_to_c, at the top nesting level of the function body, and no
    system() / fopen() in a write mode textually before it.  Then every execution that reaches the code behind the
    call has executed the call, where GATE_OPEN and "type checker + shadow tests ran" are asserted."""
    import os, re, sys
    sys.path.insert(0, os.path.join(os.path.dirname(os.path.dirname(os.path.abspath(__file__))), "tools"))
    import annotate
    try:
        src = open(os.path.join(repo, "src/main.c"), encoding="utf-8", errors="surrogateescape").read()
        m = annotate.mask(src)
        lo, hi = annotate.find_function(m, "compile_file")
    except (OSError, annotate.AnnotateError) as e:
        return False, str(e)
    body = m[lo:hi + 1]
    if re.search(r"\b(goto|setjmp|longjmp|sigsetjmp)\b", body) or re.search(r"^\s*[A-Za-z_]\w*\s*:\s*$", body, re.M):
        return False, "goto/label/setjmp in compile_file"
    calls = [x.start() for x in re.finditer(r"\btranspile_to_c\s*\(", body)]
    if len(calls) != 1:
        return False, "%d calls of transpile_to_c" % len(calls)
    pre = body[:calls[0]]
    if pre.count("{") - pre.count("}") != 1:
        return False, "transpile_to_c is not called at the top nesting level of compile_file"
    if re.search(r"\bsystem\s*\(", pre):
        return False, "system() before transpile_to_c"
    for x in re.finditer(r"\bfopen\s*\(", pre):
        # mode is a string literal: look at the unmasked text of the call
        call = src[lo + x.start(): lo + annotate.match_close(body, x.end() - 1, "(", ")") + 1]
        if not re.search(r',\s*"r[b]?"\s*\)$', call):
            return False, "fopen in a write mode before transpile_to_c: " + call
    return True, ""


def obligations(repo):
    obs = []
    ok, why = cut_is_structural(repo)
    cut_def = {} if ok else {"VERIF_STRUCT_CHECK_FAILED": 1}   # -> #error in the harness -> UNDECIDED, never a proof
    obs.append(dict(id="C05.gate.virt", prop="C05", harness=VIRT, entry="h_virt_main", annotate=VIRT_ANN,
                    enforce="virt_main", replace=VIRT_REPL, loops=True, unwind="auto", checks=[], flags=NOCHK, gi_flags=GI,
                    strength="U", functions=["nano_virt main"], timeout=600,
                    must_have=[r"virt_main\.postcondition", r"loop_invariant_step", r"decreases", r"GATE fopen for writing"],
                    min_checks=20))
    obs.append(dict(id="C05.gate.nanoc", prop="C05", harness=NANOC, entry="h_compile_file", annotate=NANOC_ANN, include_repo=[".", "src"], defines=cut_def,
                    enforce="compile_file", replace=NANOC_REPL, loops=True, unwind="auto", checks=[], flags=NOCHK, gi_flags=GI,
                    strength="U", functions=["compile_file (prefix up to transpile_to_c)"], timeout=600,
                    must_have=[r"compile_file\.postcondition", r"loop_invariant_step", r"decreases", r"GATE transpile_to_c",
                               r"GATE run_shadow_tests"],
                    min_checks=20))
    mdef = dict(cut_def); mdef["GATE_VIEW_MAIN"] = 1
    obs.append(dict(id="C05.exit.nanoc", prop="C05", harness=NANOC, entry="h_nanoc_main", annotate=NANOC_ANN,
                    include_repo=[".", "src"], defines=mdef, enforce="nanoc_main", replace=["compile_file"], loops=True,
                    unwind="auto", checks=[], flags=NOCHK, gi_flags=GI, strength="U", functions=["nanoc main"], timeout=600,
                    must_have=[r"nanoc_main\.postcondition", r"loop_invariant_step", r"decreases"], min_checks=20))
    return obs
