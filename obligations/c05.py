"""C05 - ill-formed programs are never turned into a runnable artifact (DESIGN 5/C05): driver gates."""
META = {
    "level": "proof",
    "trusted_base": ["contracts/gate_contracts.h"],
    "assumptions": [],
    "undecided_part": "",
}
VIRT = "harness/gate_virt_h.c"
VIRT_ANN = [("src/nanovirt/main.c", "contracts/loops/nanovirt_main.c.loops")]
VIRT_REPL = ["fopen", "fwrite", "fread", "fseek", "ftell", "fclose", "strcmp", "strncmp", "strlen",
             "tokenize", "parse_program", "process_imports", "type_check", "create_environment", "create_module_list",
             "clear_module_cache", "typecheck_set_current_file", "free_ast", "free_tokens", "free_environment",
             "free_module_list", "nvm_verify", "vm_init", "vm_destroy", "vm_error_string", "vm_execute", "vm_get_result",
             "vm_ffi_init", "vm_ffi_shutdown", "vm_ffi_load_module", "vm_ffi_set_env", "nvm_get_string", "nvm_module_free",
             "codegen_compile", "nvm_serialize", "wrapper_generate", "wrapper_generate_daemon"]
NOCHK = ["--no-standard-checks"]


def obligations(repo):
    obs = []
    obs.append(dict(id="C05.gate.virt", prop="C05", harness=VIRT, entry="h_virt_main", annotate=VIRT_ANN,
                    enforce="virt_main", replace=VIRT_REPL, loops=True, unwind="auto", checks=[], flags=NOCHK,
                    strength="U", functions=["nano_virt main"], timeout=600,
                    must_have=[r"virt_main\.postcondition", r"loop_invariant_step", r"decreases", r"fopen\.precondition"],
                    min_checks=20))
    return obs
