"""C14 - the VM heap never frees or loses count (DESIGN 5/C14).  (work in progress)"""
import os, sys, copy
sys.path.insert(0, os.path.dirname(os.path.abspath(__file__)))
import vmstep

META = {"level": "proof", "trusted_base": [], "assumptions": [], "undecided_part": ""}
HEAP = "harness/heap_h.c"
RC = "harness/vm_rc_h.c"

SC, ST, AR, SU, UN, TU, CL = 1, 2, 4, 8, 16, 32, 64
BASE = SC | ST | AR
CRC, CDEG, CFREE, CALIAS = 1, 2, 4, 8
ALL3 = CRC | CDEG | CFREE
# opcode -> extra slot kinds, cover mask, extra defines, ge_only
STEP_OPS = {
    "DUP": dict(cov=CRC | CDEG),
    "POP": dict(cov=ALL3),
    "SWAP": dict(cov=0), "ROT3": dict(cov=0),
    # the addressed local below the window is any of the 7 kinds (vm_step_h.c); the window slots: scalars or strings
    "LOAD_LOCAL": dict(cov=CRC | CDEG, mask=SC | ST), "STORE_LOCAL": dict(cov=ALL3, mask=SC | ST),
    "ARR_GET": dict(cov=ALL3), "ARR_SET": dict(cov=ALL3), "ARR_POP": dict(cov=0), "ARR_LEN": dict(cov=ALL3),
    "ARR_REMOVE": dict(cov=CDEG, defs={"VERIF_ARR_CAP": 8}, bound="array capacity <= 8", ge_only=True),
    "STRUCT_GET": dict(extra=SU, cov=ALL3), "STRUCT_SET": dict(extra=SU, cov=ALL3),
    "TUPLE_GET": dict(extra=TU, cov=ALL3), "UNION_FIELD": dict(extra=UN, cov=ALL3), "UNION_TAG": dict(extra=UN, cov=ALL3),
    "EQ": dict(cov=ALL3), "NE": dict(cov=ALL3), "NOT": dict(cov=ALL3),
    "JMP_TRUE": dict(cov=ALL3, defs={"VERIF_TARGET": 13}, bound="jump target pinned to the next instruction"),
    "PRINT": dict(cov=0), "ASSERT": dict(cov=0),
    "STR_LEN": dict(cov=ALL3), "STR_EQ": dict(cov=ALL3), "CAST_BOOL": dict(cov=ALL3),
    # second batch (same scheme)
    "NOP": dict(cov=0), "PUSH_I64": dict(cov=0), "PUSH_VOID": dict(cov=0),
    "TYPE_CHECK": dict(cov=ALL3), "AND": dict(cov=ALL3), "OR": dict(cov=ALL3),
    "LT": dict(cov=ALL3), "LE": dict(cov=ALL3), "GT": dict(cov=ALL3), "GE": dict(cov=ALL3),
    "JMP_FALSE": dict(cov=ALL3, defs={"VERIF_TARGET": 13}, bound="jump target pinned to the next instruction"),
    "MATCH_TAG": dict(extra=UN, cov=0, defs={"VERIF_TARGET": 15}, bound="jump target pinned to the next instruction"),
    "GC_RELEASE": dict(cov=ALL3), "GC_RETAIN": dict(cov=CRC, ge_only=True),
    "STR_CONTAINS": dict(cov=ALL3), "STR_CHAR_AT": dict(cov=ALL3),
    "CAST_INT": dict(cov=ALL3, checks=["--no-signed-overflow-check"]), "CAST_FLOAT": dict(cov=ALL3, checks=["--no-signed-overflow-check"]),
    "OPAQUE_VALID": dict(cov=0), "NEG": dict(cov=0, checks=["--no-signed-overflow-check"]),
}


MINT = 128   # shape mask of vm_step_h.c: TAG_INT only
# opcodes that read or write container elements: separate obligations in which the element at the index of interest IS the
# string another slot holds (shapes pinned): op -> (container slot, string slot, (M0, M1, M2))
ELEM_ALIAS = {
    "ARR_SET": (2, 0, (ST, MINT, AR)), "STRUCT_SET": (1, 0, (ST, SU, SC)),
    "ARR_GET": (1, 2, (MINT, AR, ST)), "ARR_REMOVE": (1, 2, (MINT, AR, ST)), "ARR_POP": (0, 1, (AR, ST, SC)),
    "STRUCT_GET": (0, 1, (SU, ST, SC)), "TUPLE_GET": (0, 1, (TU, ST, SC)), "UNION_FIELD": (0, 1, (UN, ST, SC)),
}


def step_obligations():
    obs = []
    for op, cfg in STEP_OPS.items():
        o = vmstep.step("C14", "C14.step." + op, "h_c14", op, harness=RC, must_have=[r"C14\.step\.safety", r"COVER"], timeout=420,
                        flags=["--no-pointer-primitive-check"])
        m = cfg.get("mask", BASE) | cfg.get("extra", 0)
        o["defines"].update({"VERIF_M0": m, "VERIF_M1": m, "VERIF_M2": m, "VERIF_STACK_SIZE": 7,
                             "VERIF_RC_COVERS": cfg.get("cov", 0) | CALIAS})
        o["defines"].update(cfg.get("defs", {}))
        if cfg.get("ge_only"):
            o["defines"]["VERIF_RC_GE_ONLY"] = 1
        else:
            o["must_have"].append(r"C14\.step\.noleak")
        if cfg.get("checks"):
            o["flags"] = o["flags"] + cfg["checks"]
        if cfg.get("bound"):
            o["strength"] = "B(%s)" % cfg["bound"]
        obs.append(o)
        if op in ELEM_ALIAS:
            ec, es, (m0, m1, m2) = ELEM_ALIAS[op]
            a = copy.deepcopy(o)
            a["id"] += ".elem"
            a["defines"].update({"VERIF_M0": m0, "VERIF_M1": m1, "VERIF_M2": m2, "VERIF_RC_EC": ec, "VERIF_RC_ES": es})
            obs.append(a)
    return obs


HANN = [("src/nanovm/heap.c", "contracts/loops/heap.c.loops")]
KINDS = {"scalar": 0, "string": 5, "array": 7, "struct": 8, "union": 10, "tuple": 12, "closure": 11}
NOBODY = ["release_hashmap", "vm_hashmap_new", "vm_hashmap_get", "vm_hashmap_set", "vm_hashmap_has", "vm_hashmap_delete",
          "vm_hashmap_keys", "vm_hashmap_values", "hm_resize", "vm_string_new", "vm_string_concat", "vm_string_substr",
          "vmstring_char_at", "vm_string_from_int", "vm_string_from_float", "vm_string_from_bool", "vmstring_contains",
          "vmstring_equal", "vmstring_compare", "vm_heap_init", "vm_heap_destroy"]


def release_obligations():
    obs = []
    helper = {"array": "release_array", "struct": "release_struct", "union": "release_union", "tuple": "release_tuple",
              "closure": "release_closure"}
    for nm, k in KINDS.items():
        # bodies not needed by this kind are removed (a call to one of them is then an assert(false): proves it unreachable)
        gi = []
        for f in NOBODY + [h for kk, h in helper.items() if kk != nm]:
            gi += ["--remove-function-body", f]
        obs.append(dict(id="C14.heap.release." + nm, prop="C14", harness=HEAP, entry="h_release", annotate=HANN,
                        defines={"VERIF_HKIND": k}, gi_flags=gi, enforce="vm_release", replace=[helper[nm]] if nm in helper else [],
                        loops=True, unwind=5, strength="X", functions=["vm_release"],
                        timeout=240, flags=["--no-pointer-primitive-check"], must_have=[r"vm_release\.postcondition", r"COVER"], min_checks=30))
        if nm in helper:
            obs.append(dict(id="C14.heap.helper." + nm, prop="C14", harness=HEAP, entry="h_helper", annotate=HANN,
                            defines={"VERIF_HKIND": k, "HEAP_VIEW_CHILD": 1}, gi_flags=gi, enforce=helper[nm], replace=["vm_release"],
                            loops=True, unwind="auto", strength="X", functions=[helper[nm]],
                            timeout=240, flags=["--no-pointer-primitive-check"],
                            must_have=[helper[nm] + r"\.postcondition", r"vm_release\.precondition", r"loop_invariant_step", r"decreases", r"COVER"],
                            min_checks=30))
    return obs


def container_obligations():
    obs = []
    gi = []
    for f in NOBODY + ["release_array", "release_struct", "release_union", "release_tuple", "release_closure", "vm_release", "vm_array_slice"]:
        gi += ["--remove-function-body", f]
    def ob(name, entry, fn, loops=False, unwind=6, **kw):
        d = dict(id="C14.heap." + name, prop="C14", harness=HEAP, entry=entry, annotate=HANN, gi_flags=gi, enforce=fn, loops=loops,
                 unwind=unwind, strength="U", functions=[fn], timeout=300, must_have=[fn + r"\.postcondition", r"COVER"], min_checks=15)
        d.update(kw)
        return d
    obs.append(ob("arr.get", "h_arr_get", "vm_array_get"))
    obs.append(ob("arr.set", "h_arr_set", "vm_array_set"))
    obs.append(ob("arr.pop", "h_arr_pop", "vm_array_pop"))
    obs.append(ob("arr.remove", "h_arr_remove", "vm_array_remove", loops=True, unwind="auto",
                  must_have=[r"vm_array_remove\.postcondition", r"loop_invariant_step", r"decreases", r"COVER"]))
    obs.append(ob("arr.push", "h_arr_push", "vm_array_push"))
    obs.append(ob("new.array", "h_arr_new", "vm_array_new"))
    obs.append(ob("new.struct", "h_struct_new", "vm_struct_new"))
    obs.append(ob("new.union", "h_union_new", "vm_union_new"))
    obs.append(ob("new.tuple", "h_tuple_new", "vm_tuple_new"))
    obs.append(ob("new.closure", "h_closure_new", "vm_closure_new"))
    return obs


def obligations(repo):
    obs = []
    obs.append(dict(id="C14.heap.retain", prop="C14", harness=HEAP, entry="h_retain", enforce="vm_retain", unwind=5,
                    strength="U", functions=["vm_retain"], must_have=[r"vm_retain\.postcondition", r"COVER"], min_checks=10))
    obs += release_obligations()
    obs += container_obligations()
    obs += step_obligations()
    return obs
