"""C14 - the VM heap never frees or loses count (DESIGN 5/C14).

Two families of obligations:
  C14.heap.*   goto-instrument --dfcc on the REAL src/nanovm/heap.c (harness/heap_h.c, contracts/heap_contracts.h,
               contracts/loops/heap.c.loops): vm_retain, vm_release + release_* helpers, array accessors, constructors.
  C14.step.*   plain CBMC on the one-step VM harness (harness/vm_rc_h.c = harness/vm_step_h.c + entry h_c14):
               reference-count conservation of one opcode over the step's footprint.
"""
import os, sys, copy
sys.path.insert(0, os.path.dirname(os.path.abspath(__file__)))
import vmstep

# opcodes / paths on which only  excess' >= excess  holds (a reference is dropped and its count kept: a LEAK, never a
# dangling value).  ge_only opcodes: whole opcode; untyped: only when a heap value sits in an index / scalar operand position
# (the step does not fail; the compiler never emits that shape).  Error paths (TRAP_ERROR) end the run and are not counted.
GE_ONLY = {
    "GC_RETAIN": "manual retain of the top value: the count grows without a new reference (by design; must be paired with GC_RELEASE)",
}
UNTYPED_LEAK = {
    "ARR_GET": "index operand (top) popped and not released", "ARR_SET": "index operand (second) popped and not released",
    "ARR_REMOVE": "index operand (top) popped and not released", "OPAQUE_VALID": "operand popped and not released",
}

META = {
    "level": "proof",
    "trusted_base": [
        "contracts/heap_contracts.h (VAL_WF, contracts of the heap layer), contracts/loops/heap.c.loops",
        "contracts/vm_contracts.h: the executable rendering of vm_release's contract used by the step harnesses (compared with the enforced contract in the report; differences: the stub asserts only the header of the argument - the enforced contract also needs the object's shape, element store and children; the stub does not free the element store, does not touch heap->stats / the intern table, and releases string children only)",
        "contracts/modwf.h (MOD_WF of the running module, proved by C13.verify.*), harness/vm_step_h.c (state construction)",
    ],
    "assumptions": [
        "GLUE (not machine-checked): induction over steps - every run is a sequence of steps from a state in which ref_count(o) >= indeg(o) for every object (assumed of the pre-state in C14.step.*, shown of the post-state for the footprint); induction over heap depth - vm_release's contract at depth d uses, for the children, its own header-level clauses (child view, same macro text) and VAL_WF of the children; that releasing the children at the other indices does not free the child at the ghost index is the census invariant",
        "cycles are never collected (reference counting leaks cycles by design): 'released exactly once' is about release events, not about reclamation; a container that contains itself is not in any harness state",
        "intern-table policy is not covered: vm_string_new / vm_string_concat / vm_string_substr are not under contract in this unit (interning hands out an extra count on an existing object); vm_release of a string removes it from the table (loop contract, memory safety and frame only); vm_heap_destroy frees interned strings whatever their count",
        "hash maps are left out: vm_hashmap_* and release_hashmap are not under contract, VAL_WF in C14.heap.* excludes TAG_HASHMAP values; the HM_* opcodes are not in C14.step.* (open in C13 too)",
        "TAG_FUNCTION values are closures (VAL_WF): vm_retain / vm_release would dereference a bare function index; no VM opcode builds one (codegen emits CLOSURE_NEW with zero captures for a function reference); struct field_names is NULL (nothing in the VM sets it)",
        "allocation succeeds (framework-wide); element counts <= 2^20 (HEAP_MAX_ELEMS), intern table <= 1024 entries in C14.heap.*; reference counts below 2^31 in the step harnesses (no wrap of the 32-bit count)",
        "C14.heap.release.K / C14.heap.helper.K: the recursion is cut at the release_* helper (CBMC 6.11 cannot check and replace one function; a replaced call with two frees targets hangs symbolic execution; an ASSUMED __CPROVER_was_freed is rejected): vm_release is proved with the helper replaced by its contract (the frees clause lets the object die, the fact that the helper ran is a ghost counter), the helper is proved with the recursive calls replaced by the child view (deallocation of a child whose count reaches 0 is not modelled: loop contracts have no frees clause)",
        "C14.step.*: stack depth pinned (7 of capacity 8; .d1/.d2 = operand underflow, thorough tier): stack growth inside the step (realloc) is not covered; aliasing: slot-slot and slot-LOC in every obligation, element-slot in the .elem obligations (shapes pinned); container elements are leaves (strings / scalars)",
        "opcodes not covered by C14.step.* : those open in C13 (ARR_SLICE, ARR_PUSH, HM_*, ADD/SUB/MUL/DIV, CALL*, RET, LOAD/STORE_GLOBAL, LOAD/STORE_UPVALUE), the allocating opcodes (PUSH_STR, STR_CONCAT, STR_SUBSTR, STR_FROM_*, CAST_STRING, ARR_NEW, ARR_LITERAL, STRUCT_NEW/LITERAL, UNION_CONSTRUCT, TUPLE_NEW, CLOSURE_NEW), STR_CHAR_AT (strlen: timeout at 420 s), TUPLE_GET (the tuple is one object of symbolic size: timeout at 420 s / out of memory at 10 GB; its release is covered by C14.heap.release.tuple / helper.tuple), CALL_EXTERN / CALL_MODULE; vm_destroy (C14.destroy) is not built (attempted with the child view of vm_release and two loop contracts: the 98 KB VmState object makes formula conversion exceed 400 s)",
        "only excess' >= excess (leak, no dangling value): " + "; ".join("%s: %s" % kv for kv in GE_ONLY.items()) +
        "; on ill-typed operands that do not fail the step: " + "; ".join("%s: %s" % kv for kv in UNTYPED_LEAK.items()),
    ],
    "undecided_part": "that every program's values stay within the materialised footprint shapes is the frame argument of DESIGN 4.1; the 'does not grow without bound' half holds only for the opcodes with the equality (no-leak) clause and not for programs using ARR_REMOVE, cycles or interned strings",
}
HEAP = "harness/heap_h.c"
RC = "harness/vm_rc_h.c"

SC, ST, AR, SU, UN, TU, CL = 1, 2, 4, 8, 16, 32, 64
MINT = 128   # shape mask of vm_step_h.c: TAG_INT only
BASE = SC | ST | AR
CRC, CDEG, CFREE, CALIAS = 1, 2, 4, 8
ALL3 = CRC | CDEG | CFREE
# opcode -> extra slot kinds (extra / mask), cover mask (cov), extra defines (defs), extra cbmc flags (checks), bound label
STEP_OPS = {
    "DUP": dict(cov=CRC | CDEG),
    "POP": dict(cov=ALL3),
    "SWAP": dict(cov=0), "ROT3": dict(cov=0),
    # the addressed local below the window is any of the 7 kinds (vm_step_h.c); the window slots: scalars or strings
    "LOAD_LOCAL": dict(cov=CRC | CDEG, mask=SC | ST), "STORE_LOCAL": dict(cov=ALL3, mask=SC | ST),
    "ARR_GET": dict(cov=ALL3), "ARR_SET": dict(cov=ALL3), "ARR_POP": dict(cov=0), "ARR_LEN": dict(cov=ALL3),
    "ARR_REMOVE": dict(cov=CDEG, defs={"VERIF_ARR_CAP": 8}, bound="array capacity <= 8"),
    "STRUCT_GET": dict(extra=SU, cov=ALL3), "STRUCT_SET": dict(extra=SU, cov=ALL3),
    "UNION_FIELD": dict(extra=UN, cov=ALL3), "UNION_TAG": dict(extra=UN, cov=ALL3),
    "EQ": dict(cov=ALL3), "NE": dict(cov=ALL3), "NOT": dict(cov=ALL3),
    "JMP_TRUE": dict(cov=ALL3, defs={"VERIF_TARGET": 13}, bound="jump target pinned to the next instruction"),
    "PRINT": dict(cov=0), "ASSERT": dict(cov=0),
    "STR_LEN": dict(cov=ALL3), "STR_EQ": dict(cov=ALL3), "CAST_BOOL": dict(cov=ALL3),
    # second batch (same scheme)
    "NOP": dict(cov=0), "PUSH_I64": dict(cov=0), "PUSH_VOID": dict(cov=0),
    "TYPE_CHECK": dict(cov=ALL3), "AND": dict(cov=ALL3), "OR": dict(cov=ALL3),
    "LT": dict(cov=ALL3), "LE": dict(cov=ALL3), "GT": dict(cov=ALL3), "GE": dict(cov=ALL3),
    "JMP_FALSE": dict(cov=ALL3, defs={"VERIF_TARGET": 13}, bound="jump target pinned to the next instruction"),
    "MATCH_TAG": dict(extra=UN, cov=0, defs={"VERIF_TARGET": 15}, bound="jump target pinned to the next instruction"),
    "GC_RELEASE": dict(cov=ALL3), "GC_RETAIN": dict(cov=CRC),
    "STR_CONTAINS": dict(cov=ALL3),
    "CAST_INT": dict(cov=ALL3, checks=["--no-signed-overflow-check"]), "CAST_FLOAT": dict(cov=ALL3, checks=["--no-signed-overflow-check"]),
    "OPAQUE_VALID": dict(cov=0), "NEG": dict(cov=0, checks=["--no-signed-overflow-check"]),
}


# opcodes that read or write container elements: separate obligations in which the element at the index of interest IS the
# string another slot holds (shapes pinned): op -> (container slot, string slot, (M0, M1, M2))
ELEM_ALIAS = {
    "ARR_SET": (2, 0, (ST, MINT, AR)), "STRUCT_SET": (1, 0, (ST, SU, SC)),
    "ARR_GET": (1, 2, (MINT, AR, ST)), "ARR_POP": (0, 1, (AR, ST, SC)),
    # ARR_REMOVE.elem is OPEN (not registered): since the handler releases the removed element (fix 94617c6) the element-alias
    # variant exhausts 10 GB even at capacity 3; the non-aliased census C14.step.ARR_REMOVE (+ .d1/.d2) closes
    "STRUCT_GET": (0, 1, (SU, ST, SC)), "UNION_FIELD": (0, 1, (UN, ST, SC)),
}


# step obligations that do not close (never registered): TUPLE_GET (timeout 420 s; .elem: out of memory), STR_CHAR_AT (timeout)
# measured > ~45 s: thorough tier only
STEP_THOROUGH = {"STORE_LOCAL", "NEG", "ARR_SET", "LOAD_LOCAL", "ARR_REMOVE"}
ELEM_THOROUGH = {"ARR_GET", "STRUCT_GET", "UNION_FIELD", "ARR_REMOVE"}


def step_obligations():
    obs = []
    for op, cfg in STEP_OPS.items():
        o = vmstep.step("C14", "C14.step." + op, "h_c14", op, harness=RC, must_have=[r"C14\.step\.safety", r"C14\.step\.dangling", r"COVER"],
                        timeout=420, flags=["--no-pointer-primitive-check"], witness={"replayer": "rc"},
                        backends=["minisat", "cadical"])      # portfolio: minisat's time on one query varied 8 s .. 310 s between two builds of vm.c
        m = cfg.get("mask", BASE) | cfg.get("extra", 0)
        o["defines"].update({"VERIF_M0": m, "VERIF_M1": m, "VERIF_M2": m, "VERIF_STACK_SIZE": 7,
                             "VERIF_RC_COVERS": cfg.get("cov", 0) | CALIAS})
        o["defines"].update(cfg.get("defs", {}))
        if op in GE_ONLY:
            o["defines"]["VERIF_RC_GE_ONLY"] = 1        # no equality clause; a cover point shows the excess really grows
        else:
            o["must_have"].append(r"C14\.step\.noleak")
        if op in UNTYPED_LEAK:
            o["defines"]["VERIF_RC_UNTYPED_LEAK"] = 1   # cover point: the ill-typed leak path exists
        if cfg.get("checks"):
            o["flags"] = o["flags"] + cfg["checks"]
        if cfg.get("bound"):
            o["strength"] = "B(%s)" % cfg["bound"]
        if op in STEP_THOROUGH:
            o["tier"] = "thorough"
        obs.append(o)
        if op in ELEM_ALIAS:
            ec, es, (m0, m1, m2) = ELEM_ALIAS[op]
            a = copy.deepcopy(o)
            a["id"] += ".elem"
            a["defines"].update({"VERIF_M0": m0, "VERIF_M1": m1, "VERIF_M2": m2, "VERIF_RC_EC": ec, "VERIF_RC_ES": es})
            a["defines"].pop("VERIF_RC_UNTYPED_LEAK", None)          # index operands are ints in these shapes
            a["tier"] = "thorough" if op in ELEM_THOROUGH else "quick"
            obs.append(a)
        # operand underflow: the same step with only one / two slots on the stack (thorough tier)
        for depth in (1, 2):
            u = copy.deepcopy(o)
            u["id"] += ".d%d" % depth
            u["defines"]["VERIF_STACK_SIZE"] = depth
            u["defines"]["VERIF_RC_COVERS"] = 0
            u["defines"]["VERIF_RC_UNDERFLOW"] = 1
            u["defines"].pop("VERIF_RC_GE_ONLY", None)
            u["defines"].pop("VERIF_RC_UNTYPED_LEAK", None)
            if op in GE_ONLY and r"C14\.step\.noleak" not in u["must_have"]:
                u["defines"]["VERIF_RC_GE_ONLY"] = 1
                u["defines"]["VERIF_RC_NOLEAKCOVER"] = 1
            u["tier"] = "thorough"
            obs.append(u)
    return obs


def slice_obligation():
    o = vmstep.step("C14", "C14.step.ARR_SLICE.bounded", "h_c14_slice", "ARR_SLICE", must_have=[r"C14\.slice", r"COVER"], timeout=900, witness=None)
    o["defines"].update({"VERIF_M0": 128, "VERIF_M1": 128, "VERIF_M2": 4, "VERIF_STACK_SIZE": 5, "VERIF_ARR_CAP": 3})
    o["unwind"] = 5
    o["strength"] = "B(source array capacity <= 3; int or distinct string elements; start and length over the full int64 range)"
    o["functions"] = ["vm_core_execute[ARR_SLICE]", "vm_array_slice"]
    return [o]


HANN = [("src/nanovm/heap.c", "contracts/loops/heap.c.loops")]
KINDS = {"scalar": 0, "string": 5, "array": 7, "struct": 8, "union": 10, "tuple": 12, "closure": 11}
NOBODY = ["release_hashmap", "vm_hashmap_new", "vm_hashmap_get", "vm_hashmap_set", "vm_hashmap_has", "vm_hashmap_delete",
          "vm_hashmap_keys", "vm_hashmap_values", "hm_resize", "vm_string_new", "vm_string_concat", "vm_string_substr",
          "vmstring_char_at", "vm_string_from_int", "vm_string_from_float", "vm_string_from_bool", "vmstring_contains",
          "vmstring_equal", "vmstring_compare", "vm_heap_init", "vm_heap_destroy"]


def release_obligations():
    obs = []
    helper = {"array": "release_array", "struct": "release_struct", "union": "release_union", "tuple": "release_tuple",
              "closure": "release_closure"}
    for nm, k in KINDS.items():
        # bodies not needed by this kind are removed (a call to one of them is then an assert(false): proves it unreachable)
        gi = []
        for f in NOBODY + [h for kk, h in helper.items() if kk != nm]:
            gi += ["--remove-function-body", f]
        obs.append(dict(id="C14.heap.release." + nm, prop="C14", harness=HEAP, entry="h_release", annotate=HANN,
                        defines={"VERIF_HKIND": k}, gi_flags=gi, enforce="vm_release", replace=[helper[nm]] if nm in helper else [],
                        loops=True, unwind=6, strength="X", functions=["vm_release"], weight=100 if nm in ("array", "struct", "union") else 20,
                        timeout=240, flags=["--no-pointer-primitive-check"], must_have=[r"vm_release\.postcondition", r"COVER"], min_checks=30))
        if nm in helper:
            obs.append(dict(id="C14.heap.helper." + nm, prop="C14", harness=HEAP, entry="h_helper", annotate=HANN,
                            defines={"VERIF_HKIND": k, "HEAP_VIEW_CHILD": 1}, gi_flags=gi, enforce=helper[nm], replace=["vm_release"],
                            loops=True, unwind="auto", strength="X", functions=[helper[nm]],
                            timeout=240, flags=["--no-pointer-primitive-check"],
                            must_have=[helper[nm] + r"\.postcondition", r"vm_release\.precondition", r"loop_invariant_step", r"decreases", r"COVER"],
                            min_checks=30))
    return obs


def container_obligations():
    obs = []
    gi = []
    for f in NOBODY + ["release_array", "release_struct", "release_union", "release_tuple", "release_closure", "vm_release", "vm_array_slice"]:
        gi += ["--remove-function-body", f]
    def ob(name, entry, fn, loops=False, unwind=6, **kw):
        d = dict(id="C14.heap." + name, prop="C14", harness=HEAP, entry=entry, annotate=HANN, gi_flags=gi, enforce=fn, loops=loops,
                 unwind=unwind, strength="U", functions=[fn], timeout=300, must_have=[fn + r"\.postcondition", r"COVER"], min_checks=15)
        d.update(kw)
        return d
    obs.append(ob("arr.get", "h_arr_get", "vm_array_get"))
    obs.append(ob("arr.set", "h_arr_set", "vm_array_set"))
    obs.append(ob("arr.pop", "h_arr_pop", "vm_array_pop"))
    obs.append(ob("arr.remove", "h_arr_remove", "vm_array_remove", loops=True, unwind="auto",
                  must_have=[r"vm_array_remove\.postcondition", r"loop_invariant_step", r"decreases", r"COVER"]))
    obs.append(ob("arr.push", "h_arr_push", "vm_array_push"))
    obs.append(ob("new.array", "h_arr_new", "vm_array_new"))
    obs.append(ob("new.struct", "h_struct_new", "vm_struct_new"))
    obs.append(ob("new.union", "h_union_new", "vm_union_new"))
    obs.append(ob("new.tuple", "h_tuple_new", "vm_tuple_new"))
    obs.append(ob("new.closure", "h_closure_new", "vm_closure_new"))
    return obs


def obligations(repo):
    obs = []
    obs.append(dict(id="C14.heap.retain", prop="C14", harness=HEAP, entry="h_retain", enforce="vm_retain", unwind=5,
                    strength="U", functions=["vm_retain"], must_have=[r"vm_retain\.postcondition", r"COVER"], min_checks=10))
    obs += release_obligations()
    obs += container_obligations()
    obs += step_obligations()
    obs += slice_obligation()
    return obs
