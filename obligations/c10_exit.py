"""C10.exit.* - exit status of nano_vm / generated wrapper / nano_virt --run is one function of (VmResult, top of stack).
Exposes exit_obligations(prop, repo=None); the rest of C10 lives in obligations/c10.py."""
import os, subprocess, sys
VERIF = os.path.dirname(os.path.dirname(os.path.abspath(__file__)))
sys.path.insert(0, os.path.join(VERIF, "tools"))
import extract    # noqa: E402
import annotate   # noqa: E402

NOCHK = ["--no-standard-checks"]
GI = ["--no-malloc-may-fail"]
EXIT = "harness/exit_h.c"
VIRT = "harness/gate_virt_h.c"
VIRT_ANN = [("src/nanovirt/main.c", "contracts/loops/nanovirt_main.c.loops")]
VM_ANN = [("src/nanovm/main.c", "contracts/loops/nanovm_main.c.loops")]


def _wrapper_main_rule(imp):
    """extract rule: build the real wrapper_gen.c natively, let the real write_wrapper_c() print the wrapper
    program for import_count == imp, insert the loop-contract clauses (annotate.py, same self-check as for repo
    files) and put the result at <work>/gen/wrapper_main.c.  Drops: nothing of the generated text."""
    def rule(repo, work):
        gen = os.path.join(work, "gen")
        os.makedirs(gen, exist_ok=True)
        exe = os.path.join(gen, "wrapper_gen_driver")
        cmd = ["cc", "-O0", "-w", "-I" + os.path.join(repo, "src"), os.path.join(VERIF, "harness", "wrapper_gen_driver.c"), "-o", exe]
        p = subprocess.run(cmd, stdout=subprocess.PIPE, stderr=subprocess.STDOUT, text=True)
        if p.returncode != 0:
            raise extract.ExtractError("native build of wrapper_gen.c failed: " + p.stdout[-800:])
        raw = os.path.join(gen, "wrapper_main.raw.c")
        p = subprocess.run([exe, raw, str(imp)], stdout=subprocess.PIPE, stderr=subprocess.STDOUT, text=True, timeout=60)
        if p.returncode != 0 or not os.path.exists(raw):
            raise extract.ExtractError("write_wrapper_c failed (rc=%s): %s" % (p.returncode, p.stdout[-400:]))
        sidecar = os.path.join(VERIF, "contracts", "loops", "wrapper_main.imp%d.loops" % imp)
        try:
            st = annotate.annotate_file(raw, sidecar, os.path.join(gen, "wrapper_main.c"))
        except annotate.AnnotateError as e:
            raise extract.ExtractError("annotate generated wrapper: %s" % e)
        txt = open(raw).read()
        return {"rule": "wrapper_main_imp%d" % imp, "generator": "real write_wrapper_c() of src/nanovirt/wrapper_gen.c, run natively",
                "generated_bytes": len(txt), "import_count": imp, "annotate": st, "drops": "nothing"}
    return rule


# registered at import time: tools/extract.py itself is not edited
extract.RULES.setdefault("wrapper_main_imp0", _wrapper_main_rule(0))
extract.RULES.setdefault("wrapper_main_imp1", _wrapper_main_rule(1))


def exit_obligations(prop="C10", repo=None):
    obs = []
    # reference: nano_virt --run (postcondition 3 of virt_main is the spec itself, derived from this code)
    obs.append(dict(id=prop + ".exit.virt", prop=prop, harness=VIRT, entry="h_virt_main", annotate=VIRT_ANN,
                    enforce="virt_main", loops=True, unwind="auto", checks=[], flags=NOCHK, gi_flags=GI, strength="U",
                    functions=["nano_virt main (--run exit status)"], timeout=600,
                    must_have=[r"virt_main\.postcondition\.3", r"loop_invariant_step"], min_checks=20))
    obs.append(dict(id=prop + ".exit.vm", prop=prop, harness=EXIT, entry="h_run_standalone", annotate=VM_ANN,
                    defines={"EXIT_UNIT_VM": 1}, enforce="run_standalone", loops=True, unwind="auto", checks=[], flags=NOCHK,
                    gi_flags=GI, strength="U", functions=["run_standalone (nano_vm)"], timeout=600,
                    witness={"replayer": "exit_vm"},
                    must_have=[r"run_standalone\.postcondition", r"loop_invariant_step"], min_checks=20))
    for imp in (0, 1):
        obs.append(dict(id=prop + ".exit.wrapper.imp%d" % imp, prop=prop, harness=EXIT, entry="h_wrapper_main",
                        extract=["wrapper_main_imp%d" % imp], defines={"EXIT_UNIT_WRAPPER": 1}, enforce="wrapper_main",
                        loops=True, unwind="auto", checks=[], flags=NOCHK, gi_flags=GI, strength="X",
                        functions=["main emitted by write_wrapper_c (import_count %s 0)" % ("==" if imp == 0 else ">")],
                        timeout=600, must_have=[r"wrapper_main\.postcondition", r"loop_invariant_step"], min_checks=20))
    return obs
