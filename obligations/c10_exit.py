"""C10.exit.* - exit status of nano_vm / generated wrapper / nano_virt --run is one function of (VmResult, top of stack).
Exposes exit_obligations(prop, repo=None); the rest of C10 lives in obligations/c10.py."""
import os, subprocess, sys
VERIF = os.path.dirname(os.path.dirname(os.path.abspath(__file__)))
sys.path.insert(0, os.path.join(VERIF, "tools"))
import extract    # noqa: E402
import annotate   # noqa: E402

# to be merged into META of obligations/c10.py by its author
EXIT_META = {
    "trusted_base": ["contracts/gate_contracts.h SPEC_EXIT + the contracts in harness/exit_h.c and virt_main (gate_virt_h.c)"],
    "assumptions": [
        "C10.exit.*: SPEC_EXIT(r, top) = (r != VM_OK ? 1 : top.tag == TAG_INT ? (int)top.i64 : 0) is read off the reference "
        "`nano_virt --run` (src/nanovirt/main.c) and checked against that code by C10.exit.virt; vm_execute / vm_get_result are cut at "
        "their interface: they return the ghost inputs __verif_vm_r / __verif_top_tag / __verif_top_i64 (arbitrary, never assigned); "
        "vm_execute runs __init__ itself (read from vm.c vm_execute, not under contract here): ghost init_runs +1; a direct vm_call_function by a launcher returns an arbitrary VmResult and counts as one more __init__ run (C10.init.once demands <= 1); all other VM/NVM API calls are no-effect stubs",
        "the value compared is the int returned by main / run_standalone; the operating system keeps its low 8 bits",
        "C10.exit.wrapper.*: the text under proof is printed by the REAL write_wrapper_c (native build of src/nanovirt/wrapper_gen.c, "
        "harness/wrapper_gen_driver.c) at check time for import_count == 0 and import_count > 0 (strength X over the generator's only "
        "branch condition on the module) with program == NULL (no per-import vm_ffi_load_module(\"path\") lines: straight-line calls "
        "without effect on the exit status); what nano_virt then does with that text (cc, link) is outside",
        "the daemon path (nano_vm --daemon, vmd_execute) is not in this unit",
        "cbmc --no-standard-checks (control flow only); known_modules[] table scans: no decreases clause (DFCC havocs static locals)",
    ],
}
NOCHK = ["--no-standard-checks"]
GI = ["--no-malloc-may-fail"]
EXIT = "harness/exit_h.c"
VIRT = "harness/gate_virt_h.c"
VIRT_ANN = [("src/nanovirt/main.c", "contracts/loops/nanovirt_main.c.loops")]
VM_ANN = [("src/nanovm/main.c", "contracts/loops/nanovm_main.c.loops")]


def _wrapper_main_rule(imp):
    """extract rule: build the real wrapper_gen.c natively, let the real write_wrapper_c() print the wrapper
    program for import_count == imp, insert the loop-contract clauses (annotate.py, same self-check as for repo
    files) and put the result at <work>/gen/wrapper_main.c.  Drops: nothing of the generated text."""
    def rule(repo, work):
        gen = os.path.join(work, "gen")
        os.makedirs(gen, exist_ok=True)
        exe = os.path.join(gen, "wrapper_gen_driver")
        cmd = ["cc", "-O0", "-w", "-I" + os.path.join(repo, "src"), os.path.join(VERIF, "harness", "wrapper_gen_driver.c"), "-o", exe]
        p = subprocess.run(cmd, stdout=subprocess.PIPE, stderr=subprocess.STDOUT, text=True)
        if p.returncode != 0:
            raise extract.ExtractError("native build of wrapper_gen.c failed: " + p.stdout[-800:])
        raw = os.path.join(gen, "wrapper_main.raw.c")
        p = subprocess.run([exe, raw, str(imp)], stdout=subprocess.PIPE, stderr=subprocess.STDOUT, text=True, timeout=60)
        if p.returncode != 0 or not os.path.exists(raw):
            raise extract.ExtractError("write_wrapper_c failed (rc=%s): %s" % (p.returncode, p.stdout[-400:]))
        sidecar = os.path.join(VERIF, "contracts", "loops", "wrapper_main.imp%d.loops" % imp)
        try:
            st = annotate.annotate_file(raw, sidecar, os.path.join(gen, "wrapper_main.c"))
        except annotate.AnnotateError as e:
            raise extract.ExtractError("annotate generated wrapper: %s" % e)
        txt = open(raw).read()
        return {"rule": "wrapper_main_imp%d" % imp, "generator": "real write_wrapper_c() of src/nanovirt/wrapper_gen.c, run natively",
                "generated_bytes": len(txt), "import_count": imp, "annotate": st, "drops": "nothing"}
    return rule


# registered at import time: tools/extract.py itself is not edited
extract.RULES.setdefault("wrapper_main_imp0", _wrapper_main_rule(0))
extract.RULES.setdefault("wrapper_main_imp1", _wrapper_main_rule(1))


def exit_obligations(prop="C10", repo=None):
    obs = []
    # reference: nano_virt --run (postcondition 3 of virt_main is the spec itself, derived from this code)
    obs.append(dict(id=prop + ".exit.virt", prop=prop, harness=VIRT, entry="h_virt_main", annotate=VIRT_ANN,
                    enforce="virt_main", loops=True, unwind="auto", checks=[], flags=NOCHK, gi_flags=GI, strength="U",
                    functions=["nano_virt main (--run exit status)"], timeout=600,
                    must_have=[r"virt_main\.postcondition\.3", r"loop_invariant_step"], min_checks=20))
    obs.append(dict(id=prop + ".exit.vm", prop=prop, harness=EXIT, entry="h_run_standalone", annotate=VM_ANN,
                    defines={"EXIT_UNIT_VM": 1}, enforce="run_standalone", loops=True, unwind="auto", checks=[], flags=NOCHK,
                    gi_flags=GI, strength="U", functions=["run_standalone (nano_vm)"], timeout=600,
                    witness={"replayer": "exit_vm"},
                    must_have=[r"run_standalone\.postcondition", r"loop_invariant_step"], min_checks=20))
    obs.append(dict(id=prop + ".exit.vm_main", prop=prop, harness=EXIT, entry="h_vm_main", annotate=VM_ANN,
                    defines={"EXIT_UNIT_VM_MAIN": 1}, enforce="vm_main", replace=["run_standalone", "run_daemon"], loops=True,
                    unwind="auto", checks=[], flags=NOCHK, gi_flags=GI, strength="U", functions=["main (nano_vm)"], timeout=600,
                    must_have=[r"vm_main\.postcondition", r"loop_invariant_step"], min_checks=10))
    for imp in (0, 1):
        obs.append(dict(id=prop + ".exit.wrapper.imp%d" % imp, prop=prop, harness=EXIT, entry="h_wrapper_main",
                        extract=["wrapper_main_imp%d" % imp], defines={"EXIT_UNIT_WRAPPER": 1}, enforce="wrapper_main",
                        loops=True, unwind="auto", checks=[], flags=NOCHK, gi_flags=GI, strength="X",
                        functions=["main emitted by write_wrapper_c (import_count %s 0)" % ("==" if imp == 0 else ">")],
                        timeout=600, must_have=[r"wrapper_main\.postcondition"] + ([r"loop_invariant_step"] if imp else []), min_checks=20))
    return obs
