"""C10 - stored and embedded modules run like the in-memory module (DESIGN 5/C10)."""
import os, sys
sys.path.insert(0, os.path.dirname(os.path.abspath(__file__)))
import c10_exit

META = {
    "level": "proof",
    "trusted_base": ["contracts/gate_contracts.h (exit-status spec read off nano_virt --run)"] ,
    "assumptions": list(c10_exit.EXIT_META.get("assumptions", [])) + [
        "the serialize/deserialize round trip is NOT decided (a bounded self-composition harness exists, harness/nvm_rt_h.c, but exhausts memory: see obligations/c10.py); byte equality of the blob embedded by the wrapper generator is NOT decided",
    ],
    "undecided_part": "round trip for modules of arbitrary size; output equality of the three ways of running (all print through the same TRAP_PRINT branch: structural, no obligation); wrapper blob embedding",
}
RT = "harness/nvm_rt_h.c"
SHAPE = "B(module shape: <=1 string(<=2 bytes), <=3 code bytes, <=1 function, <=1 debug entry, <=1 import(<=1 param))"


def shape_obligations(prop):
    """real serializer / loader pair on FIXED module shapes with arbitrary contents (harness/ser_rt_h.c): all memcpy lengths concrete"""
    fns = ["nvm_serialize", "nvm_deserialize", "nvm_crc32", "nvm_module_new", "nvm_add_string", "nvm_append_code", "nvm_add_function",
           "nvm_add_debug_entry", "nvm_add_import", "serialize_string_pool", "serialize_functions", "serialize_debug", "serialize_imports"]
    common = dict(prop=prop, harness="harness/ser_rt_h.c", include_repo=["src"], unwind=12,
                  unwindset=["crc32_init.0:257", "crc32_init.1:257", "nvm_crc32.0:260"], object_bits=10, functions=fns, min_checks=50,
                  mem_gb=20, weight=40, backends=["minisat", "kissat"])
    if prop == "C19":
        return [dict(common, id="C19.ser.det.shape", entry="h_ser_det", timeout=900, must_have=[r"C19\.ser\.det", r"COVER"],
                     strength="B(one module shape: strings of 3 and 0 bytes, 5 code bytes, 1 function, 1 debug entry, 1 import with 2 parameter types; contents arbitrary)")]
    # round trip: the loader recomputes the checksum the serializer stored - two CRC circuits over the same bytes; the cost grows
    # with the file size, so the shape is one section at a time (strings: 23 checksummed bytes, 3 min; two sections together, 45 bytes: > 40 min)
    obs = []
    for bit, nm, what, tier in ((1, "strings", "strings of 3 and 0 bytes (empty LAST string)", "quick"),
                                (2, "code", "5 code bytes", "quick"),
                                (4, "function", "1 function entry", "quick"),
                                (8, "debug", "1 debug entry", "quick"),
                                (16, "import", "1 import with 2 parameter types", "quick")):
        obs.append(dict(common, id="C10.rt.shape." + nm, entry="h_ser_rt", defines={"SER_SHAPE": bit}, timeout=2400, tier=tier,
                        must_have=[r"C10\.rt", r"COVER"], strength="B(one module shape: %s; contents, flags, entry point arbitrary)" % what))
    return obs


def obligations(repo):
    # C10.rt / C10.idem / C10.rt.fields.* with SYMBOLIC sizes (harness/nvm_rt_h.c) stay unregistered (see below); the fixed-shape
    # variant C10.rt.shape closes.
    return c10_exit.exit_obligations("C10", repo) + shape_obligations("C10")


def _unused(repo):

    # C10.rt / C10.idem / C10.rt.fields.* (harness/nvm_rt_h.c: real nvm_serialize -> nvm_deserialize on a bounded module
    # shape) are NOT registered: memcpy with a symbolic length into a symbolic-size buffer exhausts 12 GB in propositional
    # reduction even for <= 3-byte payloads, with or without the real CRC (measured: 5 section kinds x 900 s / OOM).
    # The round trip is therefore not decided by any obligation; the harness is kept for a later session.
    return c10_exit.exit_obligations("C10", repo)
