"""C10 - stored and embedded modules run like the in-memory module (DESIGN 5/C10)."""
import os, sys
sys.path.insert(0, os.path.dirname(os.path.abspath(__file__)))
import c10_exit

META = {
    "level": "proof",
    "trusted_base": ["contracts/gate_contracts.h (exit-status spec read off nano_virt --run)"] ,
    "assumptions": list(c10_exit.EXIT_META.get("assumptions", [])) + [
        "C10.rt / C10.idem are BOUNDED stand-ins on the real nvm_serialize -> nvm_deserialize (nothing replaced, real CRC): module shape <= 1 string of <= 2 bytes, <= 3 code bytes, <= 1 function, <= 1 debug entry, <= 1 import with <= 1 parameter; never counted as proved",
        "unbounded-size round trip is NOT decided; byte equality of the blob embedded by the wrapper generator is NOT decided",
    ],
    "undecided_part": "round trip for modules of arbitrary size; output equality of the three ways of running (all print through the same TRAP_PRINT branch: structural, no obligation); wrapper blob embedding",
}
RT = "harness/nvm_rt_h.c"
SHAPE = "B(module shape: <=1 string(<=2 bytes), <=3 code bytes, <=1 function, <=1 debug entry, <=1 import(<=1 param))"


def obligations(repo):
    obs = c10_exit.exit_obligations("C10", repo)
    for e, oid in (("h_rt", "C10.rt"), ("h_idem", "C10.idem")):
        obs.append(dict(id=oid, prop="C10", harness=RT, entry=e, include_repo=["src", "src/nanoisa"],
                        unwindset=["crc32_init.0:257", "crc32_init.1:257", "nvm_crc32.0:160"], unwind=8, object_bits=10,
                        strength=SHAPE, functions=["nvm_serialize", "nvm_deserialize", "nvm_crc32"], timeout=3600,
                        checks=["--bounds-check", "--pointer-check"], tier="thorough",   # the real CRC over ~110 symbolic bytes on both sides: > 15 min
                        must_have=[r"C10\.", r"COVER"], min_checks=100))
    return obs
