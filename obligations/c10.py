"""C10 - stored and embedded modules run like the in-memory module (DESIGN 5/C10)."""
import os, sys
sys.path.insert(0, os.path.dirname(os.path.abspath(__file__)))
import c10_exit

META = {
    "level": "proof",
    "trusted_base": ["contracts/gate_contracts.h (exit-status spec read off nano_virt --run)"] ,
    "assumptions": list(c10_exit.EXIT_META.get("assumptions", [])) + [
        "the serialize/deserialize round trip is NOT decided (a bounded self-composition harness exists, harness/nvm_rt_h.c, but exhausts memory: see obligations/c10.py); byte equality of the blob embedded by the wrapper generator is NOT decided",
    ],
    "undecided_part": "round trip for modules of arbitrary size; output equality of the three ways of running (all print through the same TRAP_PRINT branch: structural, no obligation); wrapper blob embedding",
}
RT = "harness/nvm_rt_h.c"
SHAPE = "B(module shape: <=1 string(<=2 bytes), <=3 code bytes, <=1 function, <=1 debug entry, <=1 import(<=1 param))"


def obligations(repo):
    # C10.rt / C10.idem / C10.rt.fields.* (harness/nvm_rt_h.c: real nvm_serialize -> nvm_deserialize on a bounded module
    # shape) are NOT registered: memcpy with a symbolic length into a symbolic-size buffer exhausts 12 GB in propositional
    # reduction even for <= 3-byte payloads, with or without the real CRC (measured: 5 section kinds x 900 s / OOM).
    # The round trip is therefore not decided by any obligation; the harness is kept for a later session.
    return c10_exit.exit_obligations("C10", repo)
