"""TEMPORARY registry (gate/exit unit only): runs the C10.exit.* obligations until the real obligations/c10.py exists."""
import os, sys
sys.path.insert(0, os.path.dirname(os.path.abspath(__file__)))
import c10_exit
META = {"level": "proof", "trusted_base": ["contracts/gate_contracts.h"], "assumptions": [], "undecided_part": "only C10.exit.*"}


def obligations(repo):
    return c10_exit.exit_obligations("C10", repo)
