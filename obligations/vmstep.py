"""Shared registry helpers for the one-step VM harness (harness/vm_step_h.c)."""
STEP = "harness/vm_step_h.c"
VM_SRCS = ["src/nanovm/heap.c", "src/nanovm/value.c", "src/nanoisa/nvm_format.c"]

OPC = {
    "NOP": 0x00, "PUSH_I64": 0x01, "PUSH_F64": 0x02, "PUSH_BOOL": 0x03, "PUSH_STR": 0x04, "PUSH_VOID": 0x05, "PUSH_U8": 0x06,
    "DUP": 0x07, "POP": 0x08, "SWAP": 0x09, "ROT3": 0x0A,
    "LOAD_LOCAL": 0x10, "STORE_LOCAL": 0x11, "LOAD_GLOBAL": 0x12, "STORE_GLOBAL": 0x13, "LOAD_UPVALUE": 0x14, "STORE_UPVALUE": 0x15,
    "ADD": 0x20, "SUB": 0x21, "MUL": 0x22, "DIV": 0x23, "MOD": 0x24, "NEG": 0x25,
    "EQ": 0x28, "NE": 0x29, "LT": 0x2A, "LE": 0x2B, "GT": 0x2C, "GE": 0x2D, "AND": 0x30, "OR": 0x31, "NOT": 0x32,
    "JMP": 0x38, "JMP_TRUE": 0x39, "JMP_FALSE": 0x3A, "CALL": 0x3B, "CALL_INDIRECT": 0x3C, "RET": 0x3D, "CALL_EXTERN": 0x3E, "CALL_MODULE": 0x3F,
    "STR_LEN": 0x40, "STR_CONCAT": 0x41, "STR_SUBSTR": 0x42, "STR_CONTAINS": 0x43, "STR_EQ": 0x44, "STR_CHAR_AT": 0x45,
    "STR_FROM_INT": 0x46, "STR_FROM_FLOAT": 0x47,
    "ARR_NEW": 0x50, "ARR_PUSH": 0x51, "ARR_POP": 0x52, "ARR_GET": 0x53, "ARR_SET": 0x54, "ARR_LEN": 0x55, "ARR_SLICE": 0x56,
    "ARR_REMOVE": 0x57, "ARR_LITERAL": 0x58,
    "STRUCT_NEW": 0x60, "STRUCT_GET": 0x61, "STRUCT_SET": 0x62, "STRUCT_LITERAL": 0x63,
    "UNION_CONSTRUCT": 0x68, "UNION_TAG": 0x69, "UNION_FIELD": 0x6A, "MATCH_TAG": 0x6B, "ENUM_VAL": 0x6C,
    "TUPLE_NEW": 0x70, "TUPLE_GET": 0x71,
    "HM_NEW": 0x78, "HM_GET": 0x79, "HM_SET": 0x7A, "HM_HAS": 0x7B, "HM_DELETE": 0x7C, "HM_KEYS": 0x7D, "HM_VALUES": 0x7E, "HM_LEN": 0x7F,
    "GC_RETAIN": 0x80, "GC_RELEASE": 0x81, "GC_SCOPE_ENTER": 0x82, "GC_SCOPE_EXIT": 0x83,
    "CAST_INT": 0x88, "CAST_FLOAT": 0x89, "CAST_BOOL": 0x8A, "CAST_STRING": 0x8B, "TYPE_CHECK": 0x8C,
    "CLOSURE_NEW": 0x90, "CLOSURE_CALL": 0x91,
    "PRINT": 0xA0, "ASSERT": 0xA1, "DEBUG_LINE": 0xA2, "HALT": 0xA3, "PRINTLN": 0xA4, "OPAQUE_NULL": 0xB0, "OPAQUE_VALID": 0xB1,
}


def step(prop, oid, entry, op, **kw):
    d = dict(id=oid, prop=prop, harness=STEP, entry=entry, sources=VM_SRCS,
             defines={"VERIF_OP": OPC[op], "vm_release": "vm_release_real"},
             unwind=13, object_bits=10, strength="X", timeout=900, mem_gb=10,
             functions=["vm_core_execute[%s]" % op], min_checks=50, weight=10,
             witness={"replayer": "vmstep"})
    d.update(kw)
    return d
