"""C15 - FFI isolation is transparent: value codec round trip (DESIGN 5/C15)."""
META = {
    "level": "proof",
    "trusted_base": [
        "contracts/spec_cop.h spec functions (wire format written from the comment block in cop_protocol.h: tag byte, little-endian 8-byte payloads, bool 0/1, u32 length + bytes)",
        "contracts/cop_contracts.h: heap-layer contracts vm_string_new / vm_array_new / vm_array_push are ASSUMED here (used to replace the calls; not enforced by this unit)",
        "CBMC built-in model of memcpy",
    ],
    "assumptions": [
        "per tag kind: C15.ser.k and C15.dec.k enforce the REAL function against an exact contract (buffer object exactly as long as the image, so any access beyond it is out of bounds); C15.codec.k is a lemma proved from the two contracts alone (both replaced)",
        "scalar kinds covered: void, int, float (compared as 64-bit patterns: NaN payloads, -0.0, inf), bool, opaque; the payload compared is the union member the tag names (bool: 0/1; other union bytes of a bool/void value are not part of the value)",
        "strings: any content, any length <= 2^32-6 (ghost length, ghost index into the content); the string object handed to the serialiser is sizeof(VmString)+len bytes, i.e. not even the NUL terminator may be read",
        "a NULL string pointer is serialised as the empty string and comes back as a non-NULL empty string (observable difference, recorded)",
        "vm_string_new may return an interned existing string in the real heap; its contract says fresh object: sound for callers that hold no other VmString pointer (the deserialiser); in the round trip only length and content are compared, never pointers",
        "recursive calls of the array arm are replaced by the contract itself (goto-instrument --enforce-contract-rec); for non-array tags the array loop is proved dead (unwindset 1 + unwinding assertion)",
        "arrays: NOT covered: the bounded stand-in h_art (real serialiser, deserialiser and heap.c) exhausts 12 GB even at depth 1 / count <= 1 and is not registered (see undecided_part)",
        "tags outside the transferable set (u8, bstring, struct, enum, union, function, tuple, hashmap, >= 0x0F) are serialised as the tag byte only and come back as void: recorded by C15.other.*, outside the property",
        "C15.reqbuf.argc1 covers ONE scalar-or-string argument and the LENGTH of the request that leaves the process, not its header bytes (reading the sent bytes back in the replaced cop_send contract exhausts 30 GB: seeded change C15b_1, which skips the header in the heap-buffer retry, is missed); vm_ffi_call_cop also silently drops arguments beyond the 16th (argc is sent as arg_count): not covered by an obligation",
        "C15.ser.string.anylen and C15.reqbuf.argc1 are EXPECTED to be refuted on the unchanged tree (uint32 wrap of 5+len for len >= 2^32-5; fixed 8192-byte request buffer); both reproduce natively (replay/replay_cop.c strser / args)",
        "C15.reply.accept proves on the real vm_ffi_call_cop: request sent + response header accepted by cop_recv_header (version 1, payload_len <= COP_MAX_PAYLOAD) with type FFI_RESULT + payload delivered completely + payload decodes to a transferable value => returns true, *result is exactly the decoded value (void for an empty payload), co-process kept.  The peer's reply is a ghost script (__verif_cop_peer, never assigned) handed out by the caller-view contracts of cop_recv_header / cop_recv_payload / cop_deserialize_value, so the clause also binds paths that never ask for the payload; receive-buffer malloc succeeds (framework assumption)",
    ],
    "undecided_part": "arrays (flat or nested): no round-trip obligation closes, bounded or not; whole-program equality of output between nano_vm and nano_vm --isolate-ffi; behaviour of the foreign functions in another process (locale, cwd, fds); handle_ffi_req in cop_main.c (same-callee) is not under contract",
}

HARNESS = "harness/cop_h.c"
HEAPREPL = ["vm_string_new", "vm_array_new", "vm_array_push"]
# the array-arm loop of the function under proof (name after DFCC wrapping); dead for non-array tags:
# unwound once, the unwinding assertion proves it is never entered
SERLOOP = "cop_serialize_value_wrapped_for_contract_checking.0"
DECLOOP = "deserialize_value_at_wrapped_for_contract_checking.0"
SCALARS = {"void": 0x00, "int": 0x01, "float": 0x03, "bool": 0x04, "opaque": 0x0E}


def rec(fn):
    """enforce fn against its contract; recursive calls (array arm) are replaced by the same contract"""
    return ["--enforce-contract-rec", fn]


def obligations(repo):
    obs = []
    for nm, k in SCALARS.items():
        d = {"COP_VIEW_SCALAR": 1, "VERIF_TAG": k}
        obs.append(dict(id="C15.ser.%s" % nm, prop="C15", harness=HARNESS, entry="h_ser", defines=d,
                        gi_flags=rec("cop_serialize_value"), replace=HEAPREPL, unwind=9, unwindset=[SERLOOP + ":1"], strength="U",
                        functions=["cop_serialize_value"], must_have=[r"cop_serialize_value\.postcondition", r"COVER"],
                        min_checks=30, witness={"replayer": "cop"}))
        obs.append(dict(id="C15.dec.%s" % nm, prop="C15", harness=HARNESS, entry="h_dec", defines=d,
                        gi_flags=rec("deserialize_value_at"), replace=HEAPREPL, unwind=9, unwindset=[DECLOOP + ":1"], strength="U",
                        functions=["deserialize_value_at"], must_have=[r"deserialize_value_at\.postcondition", r"COVER"],
                        min_checks=30, witness={"replayer": "cop"}))
        obs.append(dict(id="C15.codec.%s" % nm, prop="C15", harness=HARNESS, entry="h_rt", defines=d,
                        replace=["cop_serialize_value", "cop_deserialize_value"], unwind=9, strength="U",
                        functions=["cop_serialize_value", "cop_deserialize_value"],
                        must_have=[r"precondition", r"C15\.codec", r"COVER"], min_checks=20))
    # strings: any content, any length <= 2^32-6 (ghost length, ghost index); memcpy is CBMC's built-in
    ds = {"COP_VIEW_STRING": 1}
    for suffix, dd, note in [("", ds, "len <= 2^32-6"), (".anylen", dict(ds, COP_STR_ANY=1), "any uint32 length")]:
        obs.append(dict(id="C15.ser.string" + suffix, prop="C15", harness=HARNESS, entry="h_sser", defines=dd,
                        gi_flags=rec("cop_serialize_value"), replace=HEAPREPL, unwind=6, unwindset=[SERLOOP + ":1"], strength="U",
                        functions=["cop_serialize_value"], must_have=[r"cop_serialize_value\.postcondition", r"COVER"],
                        min_checks=30, witness={"replayer": "cop"}, note=note))
    obs.append(dict(id="C15.dec.string", prop="C15", harness=HARNESS, entry="h_sdec", defines=ds,
                    gi_flags=rec("deserialize_value_at"), replace=HEAPREPL, unwind=6, unwindset=[DECLOOP + ":1"], strength="U",
                    functions=["deserialize_value_at"], must_have=[r"deserialize_value_at\.postcondition", r"vm_string_new\.precondition", r"COVER"],
                    min_checks=30, witness={"replayer": "cop"}))
    obs.append(dict(id="C15.codec.string", prop="C15", harness=HARNESS, entry="h_srt", defines=ds,
                    replace=["cop_serialize_value", "cop_deserialize_value"], unwind=6, strength="U",
                    functions=["cop_serialize_value", "cop_deserialize_value"],
                    must_have=[r"precondition", r"C15\.codec", r"COVER"], min_checks=20))
    # tags outside the transferable set: recorded behaviour (tag byte only; comes back as void)
    do = {"COP_VIEW_OTHER": 1}
    obs.append(dict(id="C15.other.ser", prop="C15", harness=HARNESS, entry="h_oser", defines=do,
                    gi_flags=rec("cop_serialize_value"), replace=HEAPREPL, unwind=6, unwindset=[SERLOOP + ":1"], strength="U",
                    functions=["cop_serialize_value"], must_have=[r"cop_serialize_value\.postcondition", r"COVER"], min_checks=30))
    obs.append(dict(id="C15.other.dec", prop="C15", harness=HARNESS, entry="h_odec", defines=do,
                    gi_flags=rec("deserialize_value_at"), replace=HEAPREPL, unwind=6, unwindset=[DECLOOP + ":1"], strength="U",
                    functions=["deserialize_value_at"], must_have=[r"deserialize_value_at\.postcondition", r"COVER"], min_checks=30))
    # arrays: h_art in harness/cop_h.c (-DCOP_VIEW_ARRAY) is a bounded round trip through the REAL serialiser, deserialiser and
    # heap.c (B(depth <= 2, count <= 2)).  It is NOT registered: even B(depth 1, count <= 1, 16-byte buffer) runs the SAT
    # back end out of 12 GB (calloc / realloc of a symbolic element count in vm_array_new / array_grow), and the variant
    # with the heap layer replaced by contracts did not get through symbolic execution in 15 min.  Arrays are therefore
    # an undecided part of C15 (see META); their memory safety on arbitrary bytes is C16.deser.safe.array.
    # request buffer: vm_ffi_call_cop builds the request in uint8_t payload[8192]
    CREPL = ["cop_serialize_value", "cop_deserialize_value", "cop_send", "cop_recv_header", "cop_recv_payload", "vm_ffi_call", "vm_ffi_cop_start"]
    obs.append(dict(id="C15.reqbuf.argc1", prop="C15", harness="harness/cop_call_h.c", entry="h_call", defines={"COP_REQBUF": 1, "VERIF_COP_MAX_SCALED": 32768},
                    enforce="vm_ffi_call_cop", replace=CREPL, sources=["src/nanovm/cop_protocol.c"], unwind=8,
                    unwindset=["vm_ffi_call_cop_wrapped_for_contract_checking.0:4", "vm_ffi_call_cop_wrapped_for_contract_checking.1:3"],
                    strength="B(protocol constant COP_MAX_PAYLOAD scaled from 16 MiB to 32 KiB in the TU under proof)",
                    functions=["vm_ffi_call_cop"], timeout=900, weight=20, 
                    must_have=[r"vm_ffi_call_cop\.postcondition", r"cop_serialize_value\.precondition", r"COVER"], min_checks=100,
                    witness={"replayer": "cop"}))
    # empty arrays transfer: the array arm of the decoder under the C16.deser.safe contract, whose completeness clause says an
    # empty array is accepted and consumes exactly its 6 bytes also at the very end of a payload (non-empty arrays: undecided part)
    obs.append(dict(id="C15.dec.array.empty", prop="C15", harness=HARNESS, entry="h_safe",
                    annotate=[("src/nanovm/cop_protocol.c", "contracts/loops/cop_protocol.c.loops")],
                    defines={"COP_VIEW_SAFE": 1, "COP_SAFE_CLASS": 2}, gi_flags=rec("deserialize_value_at"), replace=HEAPREPL, loops=True,
                    unwind="auto", strength="X", functions=["deserialize_value_at"], timeout=900,
                    must_have=[r"deserialize_value_at\.postcondition", r"loop_invariant_step", r"COVER"], min_checks=30, witness=None))
    # a well-formed reply is ACCEPTED (the peer's reply is a ghost script fixed before the call): same harness and
    # caller-view contracts as C16.call, plus the acceptance postconditions (-DCOP_REPLY_ACCEPT)
    obs.append(dict(id="C15.reply.accept", prop="C15", harness="harness/cop_call_h.c", entry="h_call", defines={"COP_REPLY_ACCEPT": 1, "VERIF_COP_MAX_SCALED": 32768},
                    enforce="vm_ffi_call_cop", replace=CREPL, sources=["src/nanovm/cop_protocol.c"], unwind=18, strength="B(protocol constant COP_MAX_PAYLOAD scaled from 16 MiB to 32 KiB in the TU under proof)",
                    functions=["vm_ffi_call_cop"], timeout=900, weight=20, 
                    must_have=[r"vm_ffi_call_cop\.postcondition", r"cop_deserialize_value\.precondition", r"cop_recv_payload\.precondition",
                               r"COVER"], min_checks=100))
    return obs
