"""C15 - FFI isolation is transparent: value codec round trip (DESIGN 5/C15)."""
META = {
    "level": "proof",
    "trusted_base": ["contracts/spec_cop.h spec functions (wire format written from the comment block in cop_protocol.h)",
                     "contracts/cop_contracts.h"],
    "assumptions": [],
    "undecided_part": "",
}

HARNESS = "harness/cop_h.c"
HEAPREPL = ["vm_string_new", "vm_array_new", "vm_array_push"]
# the array-arm loop of the function under proof (name after DFCC wrapping); dead for non-array tags:
# unwound once, the unwinding assertion proves it is never entered
SERLOOP = "cop_serialize_value_wrapped_for_contract_checking.0"
DECLOOP = "cop_deserialize_value_wrapped_for_contract_checking.0"
SCALARS = {"void": 0x00, "int": 0x01, "float": 0x03, "bool": 0x04, "opaque": 0x0E}


def rec(fn):
    """enforce fn against its contract; recursive calls (array arm) are replaced by the same contract"""
    return ["--enforce-contract-rec", fn]


def obligations(repo):
    obs = []
    for nm, k in SCALARS.items():
        d = {"COP_VIEW_SCALAR": 1, "VERIF_TAG": k}
        obs.append(dict(id="C15.ser.%s" % nm, prop="C15", harness=HARNESS, entry="h_ser", defines=d,
                        gi_flags=rec("cop_serialize_value"), replace=HEAPREPL, unwind=9, unwindset=[SERLOOP + ":1"], strength="U",
                        functions=["cop_serialize_value"], must_have=[r"cop_serialize_value\.postcondition", r"COVER"],
                        min_checks=30, witness={"replayer": "cop"}))
        obs.append(dict(id="C15.dec.%s" % nm, prop="C15", harness=HARNESS, entry="h_dec", defines=d,
                        gi_flags=rec("cop_deserialize_value"), replace=HEAPREPL, unwind=9, unwindset=[DECLOOP + ":1"], strength="U",
                        functions=["cop_deserialize_value"], must_have=[r"cop_deserialize_value\.postcondition", r"COVER"],
                        min_checks=30, witness={"replayer": "cop"}))
        obs.append(dict(id="C15.codec.%s" % nm, prop="C15", harness=HARNESS, entry="h_rt", defines=d,
                        replace=["cop_serialize_value", "cop_deserialize_value"], unwind=9, strength="U",
                        functions=["cop_serialize_value", "cop_deserialize_value"],
                        must_have=[r"precondition", r"C15\.codec", r"COVER"], min_checks=20))
    # strings: any content, any length <= 2^32-6 (ghost length, ghost index); memcpy is CBMC's built-in
    ds = {"COP_VIEW_STRING": 1}
    for suffix, dd, note in [("", ds, "len <= 2^32-6"), (".anylen", dict(ds, COP_STR_ANY=1), "any uint32 length")]:
        obs.append(dict(id="C15.ser.string" + suffix, prop="C15", harness=HARNESS, entry="h_sser", defines=dd,
                        gi_flags=rec("cop_serialize_value"), replace=HEAPREPL, unwind=6, unwindset=[SERLOOP + ":1"], strength="U",
                        functions=["cop_serialize_value"], must_have=[r"cop_serialize_value\.postcondition", r"COVER"],
                        min_checks=30, witness={"replayer": "cop"}, note=note))
    obs.append(dict(id="C15.dec.string", prop="C15", harness=HARNESS, entry="h_sdec", defines=ds,
                    gi_flags=rec("cop_deserialize_value"), replace=HEAPREPL, unwind=6, unwindset=[DECLOOP + ":1"], strength="U",
                    functions=["cop_deserialize_value"], must_have=[r"cop_deserialize_value\.postcondition", r"vm_string_new\.precondition", r"COVER"],
                    min_checks=30, witness={"replayer": "cop"}))
    obs.append(dict(id="C15.codec.string", prop="C15", harness=HARNESS, entry="h_srt", defines=ds,
                    replace=["cop_serialize_value", "cop_deserialize_value"], unwind=6, strength="U",
                    functions=["cop_serialize_value", "cop_deserialize_value"],
                    must_have=[r"precondition", r"C15\.codec", r"COVER"], min_checks=20))
    return obs
