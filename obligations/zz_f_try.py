import sys
sys.path.insert(0,'/verif/obligations')
import c02_native as c
def obligations(repo):
    obs=[]
    for n in ("mulf","divf"):
        for bk in ("cadical","minisat"):
            obs.append(c.tmpl_ob("C02","T.%s.corner.%s"%(n,bk),n,1,timeout=150, backends=[bk], witness=None))
    return obs
