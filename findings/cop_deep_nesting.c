#include <stdio.h>
#include <stdlib.h>
#include <string.h>
#include "nanovm/cop_protocol.h"
#include "nanovm/heap.h"
int main(int argc, char **argv) {
    unsigned depth = argc > 1 ? atoi(argv[1]) : 100000;
    unsigned n = depth * 6 + 1; unsigned char *b = malloc(n);
    for (unsigned i = 0; i < depth; i++) { unsigned char e[6] = {0x07, 0x07, 1, 0, 0, 0}; memcpy(b + 6 * i, e, 6); }
    b[n - 1] = 0x00;
    VmHeap heap; vm_heap_init(&heap);
    NanoValue out; uint32_t r = cop_deserialize_value(b, n, &out, &heap);
    printf("depth %u: consumed %u of %u\n", depth, r, n);
    return 0;
}
