#!/bin/sh
# C16.sigpipe demonstration: the co-process exits on the first FFI request.  The VM must report the failed call
# (exit 1, output so far intact), not be killed by SIGPIPE (exit 141) when it writes to the dead pipe.
# usage: demo.sh <repo>
WT=${1:-/repo}; HERE=$(cd "$(dirname "$0")" && pwd)
make -C "$WT" -f Makefile.gnu nano_virt nano_vm >/dev/null 2>&1 || { echo "BUILD FAILED"; exit 2; }
T=$(mktemp -d /tmp/sigpipe.XXXXXX); mkdir "$T/bin"
cp "$HERE/fake_nano_cop.py" "$T/bin/nano_cop"; chmod +x "$T/bin/nano_cop"
"$WT/bin/nano_virt" "$HERE/t.nano" --emit-nvm -o "$T/t.nvm" >/dev/null 2>&1 || { echo "COMPILE FAILED"; exit 2; }
cd "$T"
COP_MODE=exit_on_request PATH="$T/bin:$PATH" timeout 60 "$WT/bin/nano_vm" --isolate-ffi t.nvm >out.txt 2>err.txt; rc=$?
echo "VM exit status: $rc"; cat out.txt; cat err.txt
rm -rf "$T"
[ $rc -lt 128 ] || { echo "FAIL: VM killed by signal $((rc-128))"; exit 1; }
echo PASS
