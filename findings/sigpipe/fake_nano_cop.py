#!/usr/bin/env python3
# Fake FFI co-process speaking the cop wire protocol (8-byte header + payload).
# It answers INIT with READY, then misbehaves on the first FFI request
# according to $COP_MODE, and afterwards keeps serving stdin until SHUTDOWN/EOF
# (so the VM can always shut it down cleanly).
import os, sys, struct
mode = os.environ.get("COP_MODE", "ok")
inp = sys.stdin.buffer
if os.environ.get("COP_PIDFILE"):
    open(os.environ["COP_PIDFILE"], "a").write("%d\n" % os.getpid())
def rd(n):
    b = b""
    while len(b) < n:
        c = inp.read(n - len(b))
        if not c:
            sys.exit(0)
        b += c
    return b
def msg(t, payload=b"", plen=None):
    if plen is None:
        plen = len(payload)
    os.write(1, struct.pack("<BBHI", 1, t, 0, plen) + payload)
TAG_INT, TAG_STRING = 0x01, 0x05
while True:
    ver, t, _, plen = struct.unpack("<BBHI", rd(8))
    if plen:
        rd(plen)
    if t == 0x01:                      # INIT -> READY
        msg(0x12)
    elif t == 0x02:                    # FFI_REQ
        if mode == "ok":
            msg(0x10, bytes([TAG_INT]) + struct.pack("<q", 42))
        elif mode == "string_len_wrap":
            # undecodable value: string whose length field is 0xFFFFFFFB..FF
            msg(0x10, bytes([TAG_STRING]) + struct.pack("<I", 0xFFFFFFFC) + b"abc")
        elif mode == "exit_on_request":
            sys.exit(1)        # the co-process dies on the first request: both pipe ends close
        elif mode == "short_then_close_stdout":
            # mid-reply: announce 9 bytes, deliver 3, close stdout, stay alive
            msg(0x10, bytes([TAG_INT]) + b"\x2a\x00", plen=9)
            os.close(1)
    elif t == 0x03:                    # SHUTDOWN
        sys.exit(0)
