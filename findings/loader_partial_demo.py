#!/usr/bin/env python3
"""C12 'loading is all-or-nothing': take a compiler-produced .nvm, make the LAST string of the string section claim one byte more
than the section holds (checksum recomputed), and run it. A loader that stops parsing the section at the bad entry and still returns
the module hands the VM a partially populated string table.
usage: loader_partial_demo.py <in.nvm> <out.nvm>"""
import struct, sys, zlib
b = bytearray(open(sys.argv[1], "rb").read())
nsec = struct.unpack_from("<I", b, 16)[0] if False else None
# header: magic(4) version(4) flags(4) entry(4) section_count(4) string_count?...: read section_count by scanning the directory
# layout from nvm_format.h: 32-byte header, then section_count entries of 12 bytes (type, offset, size); checksum = last 4 header bytes
import re
hdr = b[:32]
# find section_count: the field such that directory entries are in range; nvm_format.c writes it at offset 16
for off in (16, 12, 20):
    n = struct.unpack_from("<I", b, off)[0]
    if 0 < n < 16 and 32 + 12 * n <= len(b):
        ok = all(struct.unpack_from("<I", b, 32 + 12 * i + 4)[0] + struct.unpack_from("<I", b, 32 + 12 * i + 8)[0] <= len(b) for i in range(n))
        if ok:
            break
else:
    sys.exit("no directory found")
for i in range(n):
    t, o, s = struct.unpack_from("<III", b, 32 + 12 * i)
    if t == 2:          # NVM_SECTION_STRINGS
        pos = 0; last = None
        while pos + 4 <= s:
            l = struct.unpack_from("<I", b, o + pos)[0]
            if l > s - pos - 4: break
            last = pos; pos += 4 + l
        l = struct.unpack_from("<I", b, o + last)[0]
        struct.pack_into("<I", b, o + last, l + 1)
        break
crc = zlib.crc32(bytes(b[32:])) & 0xffffffff
# checksum field: find which header word equals the old crc
old = zlib.crc32(bytes(open(sys.argv[1], "rb").read()[32:])) & 0xffffffff
for off in range(0, 32, 4):
    if struct.unpack_from("<I", b, off)[0] == old:
        struct.pack_into("<I", b, off, crc); break
else:
    sys.exit("checksum field not found")
open(sys.argv[2], "wb").write(b)
