#!/bin/bash
# run every claimed check (default: quick) and summarise exit codes / wall time
cd "$(dirname "$0")/.."
TIER=${1:-quick}
for id in $(python3 -c "import json;print(' '.join(c['property_id'] for c in json.load(open('MANIFEST.json'))['checks']))"); do
  t0=$(date +%s)
  ./check $id $TIER > /tmp/run_all_$id.log 2>&1
  rc=$?
  echo "$id exit=$rc wall=$(( $(date +%s) - t0 ))s $(grep -cE '^(VIOLATION|UNDECIDED)' /tmp/run_all_$id.log) alarms; $(tail -1 /tmp/run_all_$id.log | cut -c1-160)"
done
