#!/usr/bin/env python3
"""setup_cmd: nothing to build (pure python + installed CBMC); check the tools are there."""
import shutil, sys
missing = [t for t in ("cbmc", "goto-cc", "goto-instrument", "cc") if not shutil.which(t)]
if missing:
    print("missing tools:", missing)
    sys.exit(1)
print("ok")
