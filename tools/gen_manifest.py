#!/usr/bin/env python3
"""Generates /verif/MANIFEST.json from the table below (kept in one place so it is always valid)."""
import json, os
V = os.path.dirname(os.path.dirname(os.path.abspath(__file__)))

TB = ("Trusted: CBMC 6.11 (goto-cc, goto-instrument --dfcc, cbmc + MiniSat/kissat/z3), CBMC's C semantics = gcc -O0 on LP64 LE, "
      "spec functions in /verif/contracts/spec_*.h, OS/libc contracts in /verif/contracts, allocation succeeds. "
      "Every remaining assumption is listed by the check itself in evidence.assumptions.")

CHECKS = {
 "C11": dict(
   cat="proof",
   text="Per opcode byte K (all 256, each query full-domain over operand bits and buffer size): real isa_encode and isa_decode are verified "
        "against contracts (return 0 iff undefined/too short; little-endian image at the table's offsets; touches only buf[0..len)); "
        "decode(encode(i))=i and encode(decode(b))=b are lemmas proved from the two contracts alone (so the contracts determine each other); "
        "table rows well-formed; name lookup inverts the table; the 10 little-endian helpers have their own contracts.",
   ref="DESIGN 5/C11",
   note=TB + " Not decided: the textual assembler/disassembler round trip.",
   tech="CBMC function contracts (DFCC) on the real isa.c, case split over 256 opcode bytes, const-unwind 9/33"),
}

NOT_YET = {
}

NA = {
 "C04": "type soundness over all programs: needs a contract relating an AST to the meaning of emitted code (recursive spec + induction over ASTs), which CBMC contracts cannot express; no per-call fragment carries the property (DESIGN 6)",
 "C07": "relational property of the 4.7k-line recursive-descent parser over all expression trees (two parses compared); needs a recursive spec of the intended tree and induction; only a shallow bounded stand-in would be possible and is not offered (DESIGN 6)",
 "C17": "quantifier is over thread schedules; CBMC function contracts are sequential and DFCC has no interference reasoning (DESIGN 6)",
}

def main():
    props = [json.loads(l)["id"] for l in open(V + "/properties.jsonl")]
    checks = []
    na = []
    for p in props:
        if p in CHECKS:
            c = CHECKS[p]
            checks.append({
                "property_id": p,
                "quick_cmd": "./check %s quick" % p,
                "thorough_cmd": "./check %s thorough" % p,
                "evidence_file": "/verif/evidence/%s.json" % p,
                "replay_cmd_template": "./check --replay {path}",
                "engine": "cbmc-dfcc",
                "level_claimed": {"category": c["cat"], "text": c["text"], "design_ref": c["ref"]},
                "level_note": c["note"],
                "technique": c["tech"],
            })
        elif p in NA:
            na.append({"property_id": p, "reason": NA[p]})
        else:
            na.append({"property_id": p, "reason": NOT_YET.get(p, "obligations for this property are designed (DESIGN 5) but not built yet; not claimed until they run")})
    m = {
        "version": 1,
        "setup_cmd": "python3 tools/selftest.py",
        "hooks": {"guard": "NANOLANG_VERIF", "enable": "none needed: contracts live on forward declarations in /verif/contracts and loop contracts are inserted into scratch copies by tools/annotate.py",
                  "baseline_off_cmd": "make -C /repo -f Makefile.gnu test-nanovirt", "source_commits": [], "add_only": True},
        "engines": [{"name": "cbmc-dfcc", "path": "/verif/tools/vc.py", "serves_properties": [c["property_id"] for c in checks],
                     "kind_free_text": "contract-based deductive verification of the real C sources with CBMC 6.11 goto-instrument --dfcc"}],
        "checks": checks,
        "not_applicable": na,
        "notes": "exit 0 = all obligations discharged (or listed in known_findings.txt); exit 1 = VIOLATION line; exit 2 = undecided (timeout/tool/vacuity guard), never a violation.",
    }
    json.dump(m, open(V + "/MANIFEST.json", "w"), indent=1)

if __name__ == "__main__":
    main()
