#!/usr/bin/env python3
"""Generates /verif/MANIFEST.json from the table below (kept in one place so it is always valid)."""
import json, os
V = os.path.dirname(os.path.dirname(os.path.abspath(__file__)))

TB = ("Trusted: CBMC 6.11 (goto-cc, goto-instrument --dfcc, cbmc + MiniSat/kissat/z3), CBMC's C semantics = gcc -O0 on LP64 LE, "
      "spec functions in /verif/contracts/spec_*.h, OS/libc contracts in /verif/contracts, allocation succeeds. "
      "Every remaining assumption is listed by the check itself in evidence.assumptions.")

CHECKS = {
 "C01": dict(
   cat="proof",
   text="FRAGMENT (operator / accessor level): at check time the REAL nanoc (rebuilt from the tree) is run on 39 one-function template programs (int/bool operators, accessors, string ==/!=, float operators); the emitted nl_<op> "
        "functions (cut out mechanically, plus the emitted helpers they call) are proved equal to the spec functions of contracts/spec_int.h for all operand values on the "
        "common domain (string equality: lengths <= 4 = bounded; float * and /: corner cases full domain, values on 8/4 significant fraction bits = bounded; the VM handlers are proved equal to the SAME spec functions under C02.vm.*, so per-operator agreement follows), and the emitted accessor functions "
        "pass the user's index unmodified to the runtime accessors and return their result. Programs (control flow, printing, scoping): NOT decided.",
   ref="DESIGN 5/C01, 3.1 item 4, 10.5", note=TB + " Extraction keeps nl_<name> + emitted helpers, drops the rest of the generated TU; (INT64_MIN,-1) and divisor 0 excluded for native div/mod (recorded finding).",
   tech="CBMC on C emitted by the real transpiler for a template catalogue (mechanical extraction per run), spec functions shared with the VM obligations"),
 "C03": dict(
   cat="proof",
   text="FRAGMENT (interpreter operators): the real eval_expression / eval_prefix_op of eval.c on an operator node with literal operands of arbitrary value: result equals the "
        "spec functions shared with C02.vm / C01 (int and bool operators; MUL/DIV/MOD value on 8-bit operands, corner cases and fault-freedom full domain), operand 0 "
        "evaluated once before operand 1, and/or short-circuit, zero divisor ends the run, INT64_MIN / -1 wraps; assert: failure counter +1 (saturating), first location once. "
        "Composition over programs, strings, floats, structs, printing: NOT decided.",
   ref="DESIGN 5/C03, 10.5", note=TB + " Plain CBMC (no DFCC frame); wrap of + - * at -O0 assumed; exit/abort as path ends.",
   tech="CBMC on the real eval.c operator evaluation with literal operand nodes, case split over operators"),
 "C18": dict(
   cat="proof",
   text="FRAGMENT (sequential): client_thread of nano_vmd for EVERY client byte sequence and disconnect point (the client is nondeterminism in read/write stubs): returns, "
        "closes the client fd exactly once, active-client counter +1/-1 under the mutex, lock discipline, everything allocated is released, no exit/abort, no memory fault in "
        "its own code; malformed header / unknown type / zero or short payload / undeserialisable or UNVERIFIED module => nothing executed and one error frame or a close; "
        "protocol receive/send loops under loop contracts; SIGPIPE ignored before accept; accept loop keeps serving after accept/malloc/pthread_create failures. "
        "Everything that needs two threads is NOT decided (C17).",
   ref="DESIGN 5/C18, 10.5", note=TB + " OS / pthread / stdio / loader / VM are stubs recording effects; termination of EINTR loops for finitely many EINTRs only.",
   tech="CBMC DFCC function + loop contracts on the real vmd_server.c / vmd_protocol.c with adversarial OS stubs"),

 "C02": dict(
   cat="proof",
   text="FRAGMENT (operator level): for each of the 15 int/bool operators the real VM handler (one real vm_core_execute step on a module "
        "holding that single instruction, any stack contents below the operands) is proved equal to a spec function written from the "
        "statement (64-bit wrapping add/sub/mul/neg, C99 truncating div/rem, total: x/0=0, INT64_MIN/-1 wraps), no trap, no fault for ALL "
        "operand values; for MUL/DIV/MOD the generic value (two 64-bit multipliers/dividers compared) is a bounded stand-in on 8-bit operands "
        "while fault-freedom and the algebraic corner cases are full-domain. Added: float comparisons and +,- (full domain), string equality (hash abstracted), "
        "str_substring / char_at / array_slice handlers against the documented semantics with 64-bit operands (bounded shapes); the emitted native operator functions "
        "against the same spec functions (C02.nat.*); the bytecode generator's compile_expr on operator nodes over literal leaves: left operand's code first, then the "
        "right operand's, then exactly the operator's opcode, and the right operand of and/or behind a conditional jump (short circuit). Programs as a whole "
        "(scoping, statement-level control flow, the Coq model): not decided.",
   ref="DESIGN 5/C02, 4.1", note=TB + " Signed wrap-around at -O0 for + - * unary- is an assumption (listed with sites).",
   tech="CBMC on the real vm_core_execute (one-step harness per opcode, case split over operators), on the real compile_expr for operator nodes, and on the emitted native operator functions; shared spec functions"),
 "C05": dict(
   cat="proof",
   text="FRAGMENT (driver control flow): nano_virt `main` and nanoc `compile_file` (entry up to the transpile call) under contracts with every callee "
        "a stub recording its effect in one ghost struct: a failed lexer / parser / import / type_check / codegen phase => return != 0, no artifact written, "
        "nothing executed, for ALL callee behaviours; nanoc main returns compile_file's result. Completeness of the type checker's rule catalogue "
        "(every ill-typed program makes type_check fail) is NOT decided.",
   ref="DESIGN 5/C05, 10.5", note=TB + " --no-standard-checks in these driver harnesses (memory safety of the drivers is not the claim); writer/executor list assumed complete.",
   tech="CBMC DFCC function + loop contracts on the real driver functions with effect-recording callee stubs"),
 "C06": dict(
   cat="proof",
   text="run_shadow_tests under a loop contract with four inserted ghost assignments: return value == !(some evaluated shadow body left the failure counter > 0), "
        "counter reset before each body, skipped (extern) tests not evaluated; compile_file: run_shadow_tests()==false => return != 0 before transpile_to_c / cc. "
        "The direction 'all assertions hold => executable produced' is not decided (code behind the cut, C compiler outside the model).",
   ref="DESIGN 5/C06, 10.5", note=TB + " eval_statement / contains_extern_calls replaced by contracts; allocation model for the report array stated in the evidence.",
   tech="CBMC DFCC function + loop contracts with ghost statements on the real run_shadow_tests / compile_file"),
 "C09": dict(
   cat="proof",
   text="FRAGMENT (lexer + depth guards): the real tokenize() under loop contracts for every NUL-terminated buffer up to the driver's 10 MB limit: all reads inside "
        "[0,len], token stores within the (modelled) token array, termination (decreases on the main loop and all six scanning loops), result NULL-after-free or an "
        "array ending in EOF; X over five first-byte classes (exhaustiveness checked), plus the unsplit query in the thorough tier. check_expression / check_statement "
        "never exceed their depth limit and restore the counter on every path; parse_block's recursion counter is balanced (bounded stand-in). Parser memory safety "
        "as a whole, process_imports and type-checker termination are NOT decided.",
   ref="DESIGN 5/C09, 10.5", note=TB + " In-place realloc allocator model, nondeterministic ctype table with three stated facts, free() not modelling deallocation: listed in the evidence.",
   tech="CBMC DFCC function + loop contracts with ghost statements on the real lexer.c / typechecker.c wrappers"),

 "C10": dict(
   cat="proof",
   text="FRAGMENT (exit status): nano_virt --run (reference), nano_vm run_standalone / main and the wrapper main text emitted by the real generator at check time are each "
        "verified against ONE spec function of (VmResult, top of stack) with vm_execute/vm_get_result arbitrary (U). The round trip deserialize(serialize(m)) = m is NOT "
        "decided for modules of arbitrary size (the self-composition of the real pair with symbolic sizes exhausts memory; DESIGN 10.10); bounded stand-ins on FIXED module "
        "shapes with arbitrary contents (real serializer -> real loader with the real CRC: accepted, every field equal; C10.rt.shape.*) and the launchers' "
        "'global initialisers run once' (C10.init.once) are discharged; the loader's all-or-nothing / completeness ghosts are under C12.deser.* / C13.deser.*.",
   ref="DESIGN 5/C10, 10.10, 10.11", note=TB + " Round trip, output equality (structural: same TRAP_PRINT branch) and wrapper blob embedding are not decided.",
   tech="CBMC DFCC contracts on the real exit paths of the three launchers against one spec function"),
 "C19": dict(
   cat="proof",
   text="FRAGMENT (instruction encoder only): 2-safety by self-composition of the real isa_encode for each of the 256 opcode bytes: two instructions that agree on the "
        "opcode and on the operand fields the table row names, arbitrary in everything else (padding, unused slots, operand_types, byte_length), encode to identical bytes; "
        "and the bytecode generator's emit_op (real codegen.c) for every defined opcode, arbitrary operand values and buffer fill level: bytes emitted are the encoding of "
        "exactly the operands passed, at the returned offset, memory-safe across buffer growth; the serializer on one fixed module shape: two runs give the same bytes "
        "outside the checksum field although allocations hand out arbitrary memory (bounded). The rest of the generator, module-path handling, transpiler, drivers: NOT decided.",
   ref="DESIGN 5/C19", note=TB + " Everything upstream of the encoder needs whole-program information flow and is outside contract reach.",
   tech="CBMC self-composition harness on the real isa_encode (256 opcode bytes) + functional-determinism obligation on the real emit_op per defined opcode"),

 "C20": dict(
   cat="proof",
   text="FRAGMENT (runtime containers): every dyn_array operation (new, new_with_capacity, push, pop, get, set, remove_at, clear, reserve, clone, accessors; six scalar element "
        "kinds as a case split, struct arrays per element size = bounded) and list_int operations enforced against contracts: representation invariant in and out, abstract "
        "sequence view update with ghost indices (prefix kept, suffix shifted, element placed), explicit frames, no memory fault, no overflow in the size arithmetic under "
        "capacity <= 2^40 (list_int_insert: open). Operation histories follow by per-operation inductiveness. The emitted runtime's string builder "
        "(nl_fmt_sb_*, cut out of what the real generator prints at check time): well-formed in and out for every fill level, terminator inside the buffer; the emitted "
        "operator templates: no UB under the driver's flags. The ARC code the transpiler emits for arbitrary programs is NOT decided.",
   ref="DESIGN 5/C20, 10.5", note=TB + " memmove/memcpy and gc_alloc/gc_release contracts assumed; realloc-failure paths unchecked; list_int_insert and the other list_*.c files not reached.",
   tech="CBMC DFCC function contracts on the real dyn_array.c / list_int.c, case split over element kinds"),

 "C08": dict(
   cat="proof",
   text="Per accessor: VM (ARR_GET/SET/POP/REMOVE, STRUCT_GET/SET, UNION_FIELD, TUPLE_GET: real one-step harness, index = the full int64 / u16 "
        "before narrowing, any array length, outside [0,len) => TRAP_ERROR(OUT_OF_BOUNDS), in range => no error, no memory fault) and the native "
        "runtime dyn_array accessors (contract: reaching the return => index was in range; out of range => the run ended in the abort ghost).",
   ref="DESIGN 5/C08", note=TB + " Lowering of every source-level indexing construct to these accessors is not decided; exit-status propagation is C10.exit.",
   tech="CBMC one-step VM harness per accessor opcode + DFCC function contracts on the real dyn_array.c"),
 "C11": dict(
   cat="proof",
   text="Per opcode byte K (all 256, each query full-domain over operand bits and buffer size): real isa_encode and isa_decode are verified "
        "against contracts (return 0 iff undefined/too short; little-endian image at the table's offsets; touches only buf[0..len)); "
        "decode(encode(i))=i and encode(decode(b))=b are lemmas proved from the two contracts alone (so the contracts determine each other); "
        "table rows well-formed; name lookup inverts the table; the 10 little-endian helpers have their own contracts.",
   ref="DESIGN 5/C11",
   note=TB + " Not decided: the textual assembler/disassembler round trip.",
   tech="CBMC function contracts (DFCC) on the real isa.c, case split over 256 opcode bytes, const-unwind 9/33"),
 "C12": dict(
   cat="proof",
   text="nvm_deserialize under contract for every byte string up to the 100 MB limit (loop contracts, X over section kind): non-NULL => "
        "magic/version/section_count valid AND the checksum was computed over exactly (data+32,size-32), equals the stored one, and was "
        "checked before anything was built; every directory entry of an accepted file lies inside the file; loading is all-or-nothing (an accepted file had every "
        "known section consumed exactly; no entry loop stops while a complete entry is left). Section arms: code, debug, other (quick), functions (thorough); "
        "the strings and imports arms are OPEN (44 GB / no bounded run closes since the all-or-nothing repair) - those two sections are covered by the fixed-shape round trips C10.rt.shape.strings / .import only. CRC burst lemmas L0-L3 on the REAL "
        "table and the mechanically extracted REAL loop body over the full 2^32/2^40 domains, loop coverage contract of nvm_crc32, whole-function value against the "
        "bit-serial CRC-32 of the property's polynomial for buffers <= 6 bytes (bounded), a fixed-shape file with one appended byte is accepted only if the checksum "
        "over the whole body incl. the tail matches (bounded), header validator contract. "
        "The induction from the lemmas to 'every burst <= 32 bits is refused' is argued (glue), not machine-checked.",
   ref="DESIGN 5/C12", note=TB + " Tails / damage wider than 32 bits: probabilistic, not claimed.",
   tech="CBMC DFCC function + loop contracts on the real nvm_format.c; algebraic lemmas on the real CRC table/step"),
 "C13": dict(
   cat="proof",
   text="Loader: memory-safe and terminating for all byte strings <= 100 MB (loop contracts with decreases; X over section kind: code, debug, other, functions; strings and imports arms OPEN). "
        "Verifier: verify_structure / verify_function / nvm_verify under contracts with loop contracts: safe, terminating, ok => MOD_WF (function ranges without "
        "wrap, jump targets, call/string/import/local indices, every function walked to its end). VM: one real vm_core_execute step per opcode from any "
        "VM_INV state with a materialised footprint: no memory fault, no fatal arithmetic, VM_INV again, no decode error on a verified instruction. "
        "The induction over steps is glue.",
   ref="DESIGN 5/C13, 4.1, 4.3", note=TB + " Fixed code layout in step harnesses; heap footprint depth 1; FFI paths excluded by the property; opcodes not closed are listed in the evidence.",
   tech="CBMC DFCC contracts + loop contracts (loader, verifier); one-step harness per opcode (VM)"),
 "C14": dict(
   cat="proof",
   text="FRAGMENT (heap layer + one VM step per opcode). Heap layer (DFCC on the real heap.c): vm_retain writes only ref_count, +1; vm_release: count >= 2 => exactly -1 and "
        "not freed, count 1 => freed with exactly one release of each child (ghost index), count 0 => no effect, heap descriptor well-formed (X over the object kind; "
        "recursion cut at the release_* helpers, each under a loop contract); array accessors and constructors against ARR_WF / fresh-object contracts. Steps (plain CBMC "
        "on the real vm_core_execute, 42 opcodes): reference-count census over the step's footprint for an arbitrary object o: freed => not referenced, "
        "refcount(o) - indegree(o) never decreases (no reference without its count), and is unchanged on well-typed non-error paths (no leak) except where listed. "
        "Induction over steps and over heap depth, hashmaps, the string constructors / interning, allocating and call opcodes, vm_destroy, churn bound over whole programs: NOT decided.",
   ref="DESIGN 5/C14, 10.4, 10.12", note=TB + " Stack depth pinned in the step harnesses; element aliasing for string children only; the step harness uses an executable rendering of the vm_release contract (differences listed in the evidence).",
   tech="CBMC DFCC function + loop contracts on the real heap.c (case split over object kind); per-opcode one-step census harness on the real vm.c"),
 "C15": dict(
   cat="proof",
   text="cop_serialize_value / cop_deserialize_value enforced against contracts written from the wire format, per tag; round trip as a lemma over the two contracts: "
        "void,int,float,bool,opaque and strings of any length/content (U); non-transferable tags recorded; vm_ffi_call_cop: a request whose image fits the protocol maximum "
        "IS sent (no refusal for lack of buffer space) and a well-formed reply IS accepted with exactly the decoded value (caller-view obligations, run with the protocol "
        "constant COP_MAX_PAYLOAD scaled down in the TU under proof = bounded in that one constant).",
   ref="DESIGN 5/C15", note=TB + " Arrays: not closed (recorded). Foreign function behaviour in another process: not decided.",
   tech="CBMC DFCC function contracts on the real cop_protocol.c / vm_ffi.c, case split over value tags"),
 "C16": dict(
   cat="proof",
   text="The peer is nondeterminism in the OS contracts: cop_deserialize_value on ARBITRARY bytes is memory-safe and returns 0 or a well-formed value (X over tag class, "
        "recursion by --enforce-contract-rec on the depth-carrying helper, loop contract, recursion depth bounded by the recursive call's precondition); "
        "read_all/write_all/cop_recv_header/cop_send under loop contracts; vm_ffi_call_cop and vm_ffi_cop_stop "
        "for every peer behaviour: no fault, failure => co-process reaped and fds reset; nano_vm ignores SIGPIPE before any co-process is started.",
   ref="DESIGN 5/C16", note=TB + " OS process table, SIGPIPE disposition, timing: not decided. Termination of EINTR retry loops only for finitely many no-progress answers.",
   tech="CBMC DFCC function/loop contracts with adversarial OS stubs on the real cop_protocol.c / vm_ffi.c"),
}

NOT_YET = {
}

NA = {
 "C04": "type soundness over all programs: needs a contract relating an AST to the meaning of emitted code (recursive spec + induction over ASTs), which CBMC contracts cannot express; no per-call fragment carries the property (DESIGN 6)",
 "C07": "relational property of the 4.7k-line recursive-descent parser over all expression trees (two parses compared); needs a recursive spec of the intended tree and induction; only a shallow bounded stand-in would be possible and is not offered (DESIGN 6)",
 "C17": "quantifier is over thread schedules; CBMC function contracts are sequential and DFCC has no interference reasoning (DESIGN 6)",
}

def main():
    props = [json.loads(l)["id"] for l in open(V + "/properties.jsonl")]
    checks = []
    na = []
    for p in props:
        if p in CHECKS:
            c = CHECKS[p]
            checks.append({
                "property_id": p,
                "quick_cmd": "./check %s quick" % p,
                "thorough_cmd": "./check %s thorough" % p,
                "evidence_file": "/verif/evidence/%s.json" % p,
                "replay_cmd_template": "./check --replay {path}",
                "engine": "cbmc-dfcc",
                "level_claimed": {"category": c["cat"], "text": c["text"], "design_ref": c["ref"]},
                "level_note": c["note"],
                "technique": c["tech"],
            })
        elif p in NA:
            na.append({"property_id": p, "reason": NA[p]})
        else:
            na.append({"property_id": p, "reason": NOT_YET.get(p, "obligations for this property are designed (DESIGN 5) but not built yet; not claimed until they run")})
    m = {
        "version": 1,
        "setup_cmd": "python3 tools/selftest.py",
        "hooks": {"guard": "NANOLANG_VERIF", "enable": "none needed: contracts live on forward declarations in /verif/contracts and loop contracts are inserted into scratch copies by tools/annotate.py",
                  "baseline_off_cmd": "make -C /repo -f Makefile.gnu test-nanovirt", "source_commits": [], "add_only": True},
        "engines": [{"name": "cbmc-dfcc", "path": "/verif/tools/vc.py", "serves_properties": [c["property_id"] for c in checks],
                     "kind_free_text": "contract-based deductive verification of the real C sources with CBMC 6.11 goto-instrument --dfcc"}],
        "checks": checks,
        "not_applicable": na,
        "notes": "exit 0 = all obligations discharged (or listed in known_findings.txt); exit 1 = VIOLATION line; exit 2 = undecided (timeout/tool/vacuity guard), never a violation.",
    }
    json.dump(m, open(V + "/MANIFEST.json", "w"), indent=1)

if __name__ == "__main__":
    main()
