import json,glob,re,os
out=[]
for f in sorted(glob.glob('/verif/seeded/_runs/det*.out')):
    for l in open(f):
        m=re.match(r'(\S+) (C\d+) only=(.*) exit=(\d+) (\d+) violations; ?(.*)$', l.strip())
        if m: out.append(m.groups())
# also direct invocations printed to console were appended manually below
seen={}
for sid,prop,only,ex,nv,viol in out:
    seen.setdefault(sid,[]).append({"check":prop,"only":only,"exit":int(ex),"violations":int(nv),"first":viol[:300],
        "how":"patch applied in the seed's scratch worktree; check run as `python3 tools/vc.py %s --repo <worktree> --only '%s'`"%(prop,only)})
for sid,runs in seen.items():
    mp='/verif/seeded/%s/meta.json'%sid
    if not os.path.exists(mp): continue
    meta=json.load(open(mp))
    meta['check_runs']=runs
    meta['detected']=any(r['exit']==1 and r['violations']>0 for r in runs)
    json.dump(meta,open(mp,'w'),indent=1)
    print(sid, meta['detected'], [(r['check'],r['exit']) for r in runs])
