#!/usr/bin/env python3
"""extract_tmpl.py - DESIGN 3.1 route 4: generated C of template programs (native engine only).

At CHECK TIME, for one template  templates/<name>.nano  (one nanolang function <name> per operator / accessor):
  1. bin/nanoc of the tree under check is brought up to date (`make -C <repo> -f Makefile.gnu bin/nanoc`, serialised by a
     lock file under /tmp; a no-op when nothing changed);
  2. the REAL nanoc is run on a copy of the template:  nanoc <name>.nano -S --verbose -o <name>.bin   (TMPDIR = the
     obligation's scratch dir, CC / NANO_CC unset so that the driver's own default `cc` is used).  nanoc transpiles, writes
     the whole generated translation unit to <name>.nano.genC, and compiles + links it with the cc command line built in
     src/main.c (so "the generated C is accepted by cc under the driver's flags" is checked on the way: rc != 0 => undecided);
  3. from the generated text the definition of  nl_<name>  is cut out by brace matching (EXACTLY ONE file-scope definition
     or ExtractError), together with every function the cut text calls that is itself DEFINED in the generated text
     (the emitted wrappers  nl_array_at_int, nl_array_set_int, ...  - each exactly one definition, transitively), verbatim,
     into  <work>/gen/<name>.c  for harness/tmpl_h.c to #include;
  4. the cc command line the driver printed ("Compiling C code: ...", exactly one line) is tokenised and written to
     <work>/gen/cc_flags.h  (TMPL_CC_FWRAPV, TMPL_CC_FTRAPV, TMPL_CC_OPT): C20.tmpl.ub is stated UNDER THESE FLAGS.

A rule fires exactly or raises extract.ExtractError (=> obligation UNDECIDED, exit 2); it never guesses.

What the extraction KEEPS: the text of nl_<name> and of the generated helpers it calls, byte for byte.
What it DROPS (stated in every evidence record): the rest of the generated translation unit (runtime preamble, C main,
nl_main, forward declarations - the harness supplies its own, carrying the contracts) and, above all, everything the
transpiler does for OTHER programs: nothing here says that an operator inside a larger expression, a different type
environment, a loop, a call argument ... is lowered to the same text (all-programs quantifier: undecided).
"""
import fcntl, hashlib, os, re, shlex, shutil, subprocess, sys, threading

VERIF = os.path.dirname(os.path.dirname(os.path.abspath(__file__)))
sys.path.insert(0, os.path.join(VERIF, "tools"))
import annotate   # noqa: E402  (mask / match_close only)
import extract    # noqa: E402

TEMPLATES = os.path.join(VERIF, "templates")

# the catalogue: name -> (shape, description).  Shapes are the contract families of harness/tmpl_h.c.
OPERATORS = {
    "addi": "(+ a b)", "subi": "(- a b)", "muli": "(* a b)", "divi": "(/ a b)", "modi": "(% a b)", "negi": "(- a)",
    "eqi": "(== a b)", "nei": "(!= a b)", "lti": "(< a b)", "lei": "(<= a b)", "gti": "(> a b)", "gei": "(>= a b)",
    "andb": "(and a b)", "orb": "(or a b)", "notb": "(not a)",
}
ACCESSORS = {
    "at_int": "(at xs i) array<int>", "at_float": "(at xs i) array<float>", "at_string": "(at xs i) array<string>",
    "at_bool": "(at xs i) array<bool>",
    "set_int": "(array_set xs i v) array<int>", "set_float": "(array_set xs i v) array<float>",
    "set_string": "(array_set xs i v) array<string>",
    "pop_int": "(array_pop xs) array<int>", "pop_float": "(array_pop xs) array<float>", "pop_string": "(array_pop xs) array<string>",
    "len_int": "(array_length xs)", "remove_int": "(array_remove_at xs i)",
}
STRING_OPS = {"streq": "(== a b) on string", "strne": "(!= a b) on string"}
FLOAT_OPS = {"addf": "(+ a b)", "subf": "(- a b)", "mulf": "(* a b)", "divf": "(/ a b)", "eqf": "(== a b)", "nef": "(!= a b)",
             "ltf": "(< a b)", "lef": "(<= a b)", "gtf": "(> a b)", "gef": "(>= a b)"}      # on float (C double)
CATALOGUE = dict(OPERATORS, **ACCESSORS)
CATALOGUE.update(STRING_OPS)
CATALOGUE.update(FLOAT_OPS)

C_KEYWORDS = {"if", "while", "for", "switch", "return", "sizeof", "do", "else", "case", "typeof", "__typeof__", "defined"}

_lock = threading.Lock()
_built = {}        # realpath(repo) -> path of nanoc (built / checked once per process)
_gen = {}          # (realpath(repo), name) -> dict(text, cc, log)
_gen_locks = {}


def _err(msg):
    raise extract.ExtractError(msg)


def ensure_nanoc(repo):
    """make bin/nanoc of the tree under check (no-op when up to date); one make at a time per tree (lock file in /tmp)."""
    rp = os.path.realpath(repo)
    with _lock:
        if rp in _built:
            return _built[rp]
        lockf = "/tmp/verif_nanoc_%s.lock" % hashlib.sha1(rp.encode()).hexdigest()[:12]
        with open(lockf, "w") as lf:
            fcntl.flock(lf, fcntl.LOCK_EX)
            try:
                try:
                    p = subprocess.run(["make", "-C", rp, "-f", "Makefile.gnu", "bin/nanoc"], stdout=subprocess.PIPE,
                                       stderr=subprocess.STDOUT, text=True, timeout=900, errors="replace")
                except (OSError, subprocess.TimeoutExpired) as e:
                    _err("make bin/nanoc in %s: %r" % (rp, e))
                if p.returncode != 0:
                    _err("make bin/nanoc in %s failed (rc=%d): %s" % (rp, p.returncode, p.stdout[-1500:]))
            finally:
                fcntl.flock(lf, fcntl.LOCK_UN)
        exe = os.path.join(rp, "bin", "nanoc")
        if not (os.path.isfile(exe) and os.access(exe, os.X_OK)):
            _err("no executable %s after make" % exe)
        _built[rp] = exe
        return exe


def transpile(repo, name):
    """Run the real nanoc on templates/<name>.nano; returns dict(text=<generated C>, cc=<cc command line>, nanoc=...).
    Memoised per (tree, template) inside one vc.py process: all obligations of a run see the same generated text."""
    rp = os.path.realpath(repo)
    key = (rp, name)
    with _lock:
        lk = _gen_locks.setdefault(key, threading.Lock())
    with lk:
        if key in _gen:
            return _gen[key]
        src = os.path.join(TEMPLATES, name + ".nano")
        if not os.path.isfile(src):
            _err("template %s missing" % src)
        exe = ensure_nanoc(repo)
        import tempfile
        tdir = tempfile.mkdtemp(prefix="verif_tmpl_%s_" % name)
        try:
            dst = os.path.join(tdir, name + ".nano")
            shutil.copyfile(src, dst)
            env = {k: v for k, v in os.environ.items() if k not in ("CC", "NANO_CC", "NANO_VERBOSE_BUILD")}
            env["TMPDIR"] = tdir
            cmd = [exe, dst, "-S", "--verbose", "-o", os.path.join(tdir, name + ".bin")]
            try:
                p = subprocess.run(cmd, cwd=tdir, env=env, stdout=subprocess.PIPE, stderr=subprocess.STDOUT, text=True,
                                   timeout=300, errors="replace")
            except (OSError, subprocess.TimeoutExpired) as e:
                _err("nanoc on template %s: %r" % (name, e))
            if p.returncode != 0:
                _err("nanoc refused / failed to build template %s (rc=%d): %s" % (name, p.returncode, p.stdout[-1200:]))
            genc = dst + ".genC"
            if not os.path.isfile(genc):
                _err("nanoc -S did not write %s" % genc)
            text = open(genc, errors="replace").read()
            ccs = [l[len("Compiling C code: "):] for l in p.stdout.splitlines() if l.startswith("Compiling C code: ")]
            if len(ccs) != 1:
                _err("expected exactly one 'Compiling C code:' line from nanoc --verbose, found %d" % len(ccs))
            _gen[key] = {"text": text, "cc": ccs[0].strip(), "nanoc": " ".join(cmd).replace(tdir, "$T")}
            return _gen[key]
        finally:
            shutil.rmtree(tdir, ignore_errors=True)


def definitions(text, masked, fname):
    """all file-scope definitions of fname in text: list of (start, end) with text[start:end] = 'static T fname(...) {...}'."""
    out = []
    for mo in re.finditer(r"\b%s\s*\(" % re.escape(fname), masked):
        try:
            p = annotate.match_close(masked, mo.end() - 1, "(", ")")
        except annotate.AnnotateError:
            continue
        k = p + 1
        while k < len(masked) and masked[k] in " \t\r\n":
            k += 1
        if k >= len(masked) or masked[k] != "{":
            continue                                    # a declaration or a call
        if masked.count("{", 0, mo.start()) != masked.count("}", 0, mo.start()):
            continue                                    # not at file scope
        ls = masked.rfind("\n", 0, mo.start()) + 1
        pre = masked[ls:mo.start()]
        if not re.match(r"^[A-Za-z_][A-Za-z0-9_ \t\*]*$", pre):
            continue                                    # the text before the name on its line is not a plain type
        try:
            c = annotate.match_close(masked, k, "{", "}")
        except annotate.AnnotateError as e:
            _err("%s: %s" % (fname, e))
        out.append((ls, c + 1))
    return out


def called_names(masked_body):
    names = []
    for mo in re.finditer(r"\b([A-Za-z_][A-Za-z0-9_]*)\s*\(", masked_body):
        n = mo.group(1)
        if n not in C_KEYWORDS and n not in names:
            names.append(n)
    return names


def cut(text, fname):
    """-> (ordered list of (name, definition text): helpers first, fname last; externals = called but not defined in text)"""
    masked = annotate.mask(text)
    done, order, externals = {}, [], []

    def visit(fn, depth):
        if fn in done:
            return
        if depth > 4:
            _err("generated helper chain deeper than 4 at %s" % fn)
        defs = definitions(text, masked, fn)
        if len(defs) != 1:
            if depth == 0 or defs:
                _err("expected exactly one definition of %s in the generated C, found %d" % (fn, len(defs)))
            if fn not in externals:
                externals.append(fn)
            return
        lo, hi = defs[0]
        done[fn] = text[lo:hi]
        head_end = masked.index("{", lo)
        for callee in called_names(masked[head_end:hi]):
            if callee != fn:
                visit(callee, depth + 1)
        order.append(fn)

    visit(fname, 0)
    return [(n, done[n]) for n in order], externals


def cc_facts(cc_cmd):
    try:
        toks = shlex.split(cc_cmd)
    except ValueError as e:
        _err("cannot tokenise the cc command line: %s" % e)
    if not toks:
        _err("empty cc command line")
    fwrapv = 0
    for t in toks:
        if t == "-fwrapv":
            fwrapv = 1
        elif t == "-fno-wrapv":
            fwrapv = 0
    ftrapv = 1 if "-ftrapv" in toks else 0
    opt = [t for t in toks if re.match(r"^-O([0-3sgz]|fast)?$", t)]
    flags = [t for t in toks[1:] if t.startswith("-") and not t.startswith(("-I", "-L", "-l", "-o"))]
    return {"cc": toks[0], "fwrapv": fwrapv, "ftrapv": ftrapv, "opt": opt[-1] if opt else "-O0 (no -O flag: compiler default)",
            "ndebug": 1 if any(t.startswith("-DNDEBUG") for t in toks) else 0, "flags": flags}


def tmpl_rule(name):
    fn = "nl_" + name

    def rule(repo, work):
        g = transpile(repo, name)
        parts, externals = cut(g["text"], fn)
        facts = cc_facts(g["cc"])
        gen = os.path.join(work, "gen")
        os.makedirs(gen, exist_ok=True)
        body = "".join(t + "\n\n" for _, t in parts)
        open(os.path.join(gen, name + ".c"), "w").write(
            "/* cut by tools/extract_tmpl.py out of the C the real nanoc of the tree under check generated for\n"
            " * templates/%s.nano: %s, verbatim; calls left external: %s */\n%s"
            % (name, ", ".join(n for n, _ in parts), ", ".join(externals) or "none", body))
        open(os.path.join(gen, "cc_flags.h"), "w").write(
            "/* from the cc command line the real driver printed for templates/%s.nano at check time; compiler and flags\n"
            " * (include / library / file arguments left out): %s %s\n * optimisation level: %s */\n"
            "#define TMPL_CC_FWRAPV %d\n#define TMPL_CC_FTRAPV %d\n#define TMPL_CC_NDEBUG %d\n"
            % (name, facts["cc"], " ".join(facts["flags"]).replace("*/", "* /"), facts["opt"], facts["fwrapv"], facts["ftrapv"],
               facts["ndebug"]))
        import json
        json.dump({"name": name, "repo": os.path.realpath(repo), "cc": facts["cc"], "flags": facts["flags"]},
                  open(os.path.join(gen, "tmpl_env.json"), "w"))      # for the native replayer (replay/replayers_tmpl.py)
        return {"rule": "tmpl_" + name, "generator": "real bin/nanoc of the tree under check: " + g["nanoc"],
                "template": "templates/%s.nano" % name, "kept": [n for n, _ in parts], "text": body.strip(),
                "externals": externals, "generated_bytes": len(g["text"]), "kept_bytes": len(body),
                "cc_command": re.sub(r"\s\S+/src/runtime/\S+\.c", "", g["cc"])[:700], "cc_flags": facts["flags"], "cc_fwrapv": facts["fwrapv"], "cc_opt": facts["opt"],
                "drops": "the rest of the generated translation unit (runtime preamble, forward declarations, nl_main, C main) "
                         "and everything the transpiler does for OTHER programs"}
    return rule


def register():
    for n in CATALOGUE:
        extract.RULES.setdefault("tmpl_" + n, tmpl_rule(n))


if __name__ == "__main__":     # debugging aid:  extract_tmpl.py <repo> <name>
    import json, tempfile
    w = tempfile.mkdtemp(prefix="tmpl_dbg_")
    info = tmpl_rule(sys.argv[2])(sys.argv[1], w)
    print(json.dumps(info, indent=1))
    print(open(os.path.join(w, "gen", sys.argv[2] + ".c")).read())
    print(open(os.path.join(w, "gen", "cc_flags.h")).read())
    shutil.rmtree(w, ignore_errors=True)
