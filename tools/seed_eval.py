#!/usr/bin/env python3
"""seed_eval.py - confirm a seeded change and run the checks against it.

  seed_eval.py confirm <outdir> <worktree>      # demo passes clean / fails with patch, suite still passes; copies into /verif/seeded/
  seed_eval.py detect  <seeded-id> <PROP> [--only REGEX] [--tier quick]   # apply to /repo, run the check, undo
"""
import json, os, shutil, subprocess, sys, time

VERIF = os.path.dirname(os.path.dirname(os.path.abspath(__file__)))


def sh(cmd, timeout=1800, cwd=None):
    p = subprocess.run(cmd, shell=True, stdout=subprocess.PIPE, stderr=subprocess.STDOUT, text=True, timeout=timeout, cwd=cwd, errors="replace")
    return p.returncode, p.stdout


def confirm(outdir, wt):
    sid = os.path.basename(outdir.rstrip("/"))
    patch = os.path.join(outdir, "patch.diff")
    demo = os.path.join(outdir, "demo.sh")
    res = {"id": sid}
    sh("git -C %s checkout -- ." % wt)
    rc0, out0 = sh("bash %s %s" % (demo, wt), cwd=outdir)
    res["demo_clean_rc"] = rc0
    rc, out = sh("git -C %s apply %s" % (wt, patch))
    if rc != 0:
        res["error"] = "patch does not apply: " + out[-300:]
        print(json.dumps(res)); return 1
    rcs, outs = sh("make -C %s -f Makefile.gnu test-nanovirt 2>&1 | grep -E 'Results:|rror' | tail -3" % wt)
    res["suite"] = " ".join(outs.strip().splitlines()[-2:]) if outs.strip() else ""
    rc1, out1 = sh("bash %s %s" % (demo, wt), cwd=outdir)
    res["demo_patched_rc"] = rc1
    res["demo_patched_tail"] = out1[-400:]
    sh("git -C %s checkout -- ." % wt)
    sh("make -C %s -f Makefile.gnu test-nanovirt 2>&1 | tail -1" % wt)   # rebuild clean objects
    ok = rc0 == 0 and rc1 != 0 and "62 passed, 0 failed" in res["suite"]
    res["confirmed"] = ok
    if ok:
        dst = os.path.join(VERIF, "seeded", sid)
        if os.path.exists(dst):
            shutil.rmtree(dst)
        shutil.copytree(outdir, dst)
        mp = os.path.join(dst, "meta.json")
        try:
            meta = json.load(open(mp))
        except Exception:
            meta = {}
        meta["confirmed_by_main"] = {"demo_clean_rc": rc0, "demo_patched_rc": rc1, "suite_with_patch": res["suite"],
                                     "commands": ["bash demo.sh <worktree> (clean)", "git apply patch.diff", "make -f Makefile.gnu test-nanovirt", "bash demo.sh <worktree> (patched)"]}
        json.dump(meta, open(mp, "w"), indent=1)
    print(json.dumps(res))
    return 0 if ok else 1


def detect(sid, prop, only=None, tier="quick"):
    d = os.path.join(VERIF, "seeded", sid)
    patch = os.path.join(d, "patch.diff")
    rc, out = sh("git -C /repo status --porcelain")
    if out.strip():
        print("refusing: /repo working tree not clean"); return 2
    rc, out = sh("git -C /repo apply %s" % patch)
    if rc != 0:
        print("patch does not apply to /repo:", out[-300:]); return 2
    t0 = time.time()
    try:
        cmd = "python3 %s/tools/vc.py %s --tier %s --no-evidence" % (VERIF, prop, tier) + (" --only '%s'" % only if only else "")
        rc, out = sh(cmd, timeout=5400, cwd=VERIF)
    finally:
        sh("git -C /repo checkout -- .")
    viol = [l for l in out.splitlines() if l.startswith("VIOLATION")]
    und = [l for l in out.splitlines() if l.startswith("UNDECIDED")]
    rec = {"seed": sid, "property": prop, "only": only, "exit": rc, "violations": viol[:6], "undecided": und[:4], "wall_s": round(time.time() - t0, 1),
           "detected": rc == 1 and bool(viol)}
    mp = os.path.join(d, "meta.json")
    try:
        meta = json.load(open(mp))
    except Exception:
        meta = {}
    meta.setdefault("check_runs", []).append(rec)
    json.dump(meta, open(mp, "w"), indent=1)
    # keep the replay files of this run next to the seed
    print(json.dumps(rec, indent=1))
    return 0


if __name__ == "__main__":
    if sys.argv[1] == "confirm":
        sys.exit(confirm(sys.argv[2], sys.argv[3]))
    a = sys.argv[2:]
    only = None; tier = "quick"
    if "--only" in a:
        only = a[a.index("--only") + 1]
    if "--tier" in a:
        tier = a[a.index("--tier") + 1]
    sys.exit(detect(a[0], a[1], only, tier))
