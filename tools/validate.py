#!/usr/bin/env python3
"""Validate MANIFEST.json and evidence/*.json against the given schemas (needs jsonschema: python3-vt)."""
import json, sys, glob, os
import jsonschema
V = os.path.dirname(os.path.dirname(os.path.abspath(__file__)))
ok = True
def chk(path, schema):
    global ok
    try:
        jsonschema.validate(json.load(open(path)), json.load(open(schema)))
        print("ok  ", path)
    except Exception as e:
        ok = False
        print("FAIL", path, str(e)[:400])
chk(V + "/MANIFEST.json", "/root/.vp/MANIFEST.schema.json")
for p in sorted(glob.glob(V + "/evidence/*.json")):
    chk(p, "/root/.vp/EVIDENCE.schema.json")
m = json.load(open(V + "/MANIFEST.json"))
props = [json.loads(l)["id"] for l in open(V + "/properties.jsonl")]
claimed = [c["property_id"] for c in m["checks"]]
na = [c["property_id"] for c in m.get("not_applicable", [])]
for p in props:
    if (p in claimed) == (p in na):
        ok = False
        print("FAIL property", p, "must be in exactly one of checks / not_applicable")
sys.exit(0 if ok else 1)
