#!/bin/bash
# detect_t.sh SEED WT PROP ONLY TIER
S=$1; WT=$2; P=$3; O=$4; T=${5:-quick}
git -C $WT checkout -q -- . ; git -C $WT apply /verif/seeded/$S/patch.diff || { echo "$S patch failed"; exit 2; }
cd /verif && python3 tools/vc.py $P --repo $WT --tier $T --no-evidence --only "$O" --jobs ${J:-2} > /tmp/w/det_$S.$P.log 2>&1
rc=$?
git -C $WT checkout -q -- .
echo "$S $P only=$O exit=$rc $(grep -c '^VIOLATION' /tmp/w/det_$S.$P.log) violations; $(grep '^VIOLATION' /tmp/w/det_$S.$P.log | head -2 | cut -c1-200 | tr '\n' ';')"
