#!/usr/bin/env python3
"""Mechanical scan for everything that is assumed rather than proved in the
files an obligation set uses (DESIGN 3.8): __CPROVER_assume in harnesses /
contracts / sidecars, functions replaced by a contract that no obligation of
the same registry enforces, disabled checks, unwind cuts."""
import os, re

VERIF = os.path.dirname(os.path.dirname(os.path.abspath(__file__)))


def _includes(path, seen):
    if path in seen or not os.path.exists(path):
        return
    seen.add(path)
    for m in re.finditer(r'#include "([^"]+)"', open(path, errors="replace").read()):
        for d in ("contracts", "harness"):
            _includes(os.path.join(VERIF, d, m.group(1)), seen)


def scan(obls):
    out = []
    files = set()
    enforced, replaced = set(), {}
    unwinds = set()
    nochecks = set()
    for o in obls:
        _includes(os.path.join(VERIF, o["harness"]), files)
        for _, sc in (o.get("annotate") or []):
            files.add(os.path.join(VERIF, sc))
        if o.get("enforce"):
            enforced.add(o["enforce"])
        for r in (o.get("replace") or []):
            replaced.setdefault(r, set()).add(o["id"].rsplit(".", 1)[0] if re.search(r"\.\d+$", o["id"]) else o["id"])
        if o.get("unwind"):
            unwinds.add((o["unwind"], o.get("strength")))
        for f in (o.get("flags") or []):
            if f.startswith("--no-"):
                nochecks.add(f)
    for f in sorted(files):
        txt = open(f, errors="replace").read()
        n = len(re.findall(r"__CPROVER_assume\s*\(", txt))
        if n:
            lines = [ln.strip() for ln in txt.splitlines() if "__CPROVER_assume" in ln]
            out.append("%s: %d __CPROVER_assume (harness input shaping / path ends): %s" % (
                os.path.relpath(f, VERIF), n, " ;; ".join(lines[:6])[:600]))
    for r, who in sorted(replaced.items()):
        if r not in enforced:
            out.append("contract of %s is ASSUMED here (replaced in %s, not enforced by an obligation of this property)" % (
                r, ", ".join(sorted(who))[:200]))
    for u, s in sorted(unwinds, key=str):
        out.append("--unwind %s --unwinding-assertions used (strength label %s): complete only for loops with compile-time-constant trip count; an unwinding-assertion failure makes the obligation undecided" % (u, s))
    for f in sorted(nochecks):
        out.append("cbmc flag " + f)
    out.append("allocation succeeds (--no-malloc-may-fail)")
    return out
