#!/usr/bin/env python3
"""annotate.py - mechanical insertion of loop contracts / ghost updates into a
scratch copy of a real source file (DESIGN 3.1 route 3).

Sidecar format (contracts/loops/*.loops):

    @expect-loops <function> <N>        # the function must contain exactly N loops
    @loop <function> <ordinal>          # 1-based, in source order (for/while/do)
    __CPROVER_assigns(...)
    __CPROVER_loop_invariant(...)
    __CPROVER_decreases(...)
    @end
    @ghost <function> after|before <k> <literal text>   # after/before the line holding the k-th occurrence
    __verif_g.x = 1;
    @end
    @prepend                            # text put before the first line of the file
    #include "verif_common.h"
    @end

What the insertion adds: only the clause text of @loop blocks, the statements of
@ghost blocks (whose assigned lvalues must start with __verif_), and @prepend
text.  What it drops: nothing.  Self-check on every run: removing exactly the
inserted spans gives back the original file byte for byte.
If a keyed function is missing, its loop count differs from @expect-loops, or a
@ghost anchor is not found, AnnotateError is raised -> the obligation is
UNDECIDED (exit 2), never a violation.
"""
import re, sys, os


class AnnotateError(Exception):
    pass


def mask(src):
    """Same-length copy with comments, string and char literals blanked."""
    out = list(src)
    i, n = 0, len(src)
    while i < n:
        c = src[i]
        if src.startswith("//", i):
            j = src.find("\n", i)
            j = n if j < 0 else j
            for k in range(i, j):
                out[k] = " "
            i = j
        elif src.startswith("/*", i):
            j = src.find("*/", i + 2)
            j = n if j < 0 else j + 2
            for k in range(i, j):
                if out[k] != "\n":
                    out[k] = " "
            i = j
        elif c == '"' or c == "'":
            q = c
            j = i + 1
            while j < n and src[j] != q:
                if src[j] == "\\":
                    j += 1
                j += 1
            for k in range(i + 1, min(j, n)):
                if out[k] != "\n":
                    out[k] = " "
            i = j + 1
        else:
            i += 1
    return "".join(out)


def match_close(m, i, o, c):
    """m[i] == o; return index of matching c."""
    depth = 0
    for k in range(i, len(m)):
        if m[k] == o:
            depth += 1
        elif m[k] == c:
            depth -= 1
            if depth == 0:
                return k
    raise AnnotateError("unbalanced %s at %d" % (o, i))


def find_function(m, name):
    """Return (body_open, body_close) of the definition of `name`."""
    for mo in re.finditer(r"\b%s\s*\(" % re.escape(name), m):
        p = match_close(m, mo.end() - 1, "(", ")")
        k = p + 1
        while k < len(m) and m[k] in " \t\r\n":
            k += 1
        if k < len(m) and m[k] == "{":
            # make sure this is at file scope: the text before the name on its line has no '=' or ';'
            ls = m.rfind("\n", 0, mo.start()) + 1
            pre = m[ls:mo.start()]
            if "=" in pre or ";" in pre or "return" in pre:
                continue
            # brace depth at mo.start() must be zero
            if m.count("{", 0, mo.start()) != m.count("}", 0, mo.start()):
                continue
            return k, match_close(m, k, "{", "}")
    raise AnnotateError("function %s not found" % name)


def find_loops(m, lo, hi):
    """Insertion points (index just after the loop header) of each loop in m[lo:hi], in source order of the keyword."""
    loops = []
    do_tails = set()
    for mo in re.finditer(r"\b(for|while|do)\b", m[lo:hi]):
        kw = mo.group(1)
        s = lo + mo.start()
        e = lo + mo.end()
        if kw == "do":
            k = e
            while m[k] in " \t\r\n":
                k += 1
            if m[k] != "{":
                raise AnnotateError("do without braces at %d" % s)
            c = match_close(m, k, "{", "}")
            t = re.compile(r"\s*while\s*\(").match(m, c + 1)
            if not t:
                raise AnnotateError("do without while at %d" % s)
            p = match_close(m, t.end() - 1, "(", ")")
            do_tails.add(t.end() - 1)
            loops.append((s, p + 1))
        else:
            k = e
            while m[k] in " \t\r\n":
                k += 1
            if m[k] != "(":
                continue
            if kw == "while" and k in do_tails:
                continue
            p = match_close(m, k, "(", ")")
            loops.append((s, p + 1))
    loops.sort()
    return [p for _, p in loops]


def parse_sidecar(path):
    items = []
    cur = None
    for ln in open(path).read().splitlines():
        if cur is not None:
            if ln.strip() == "@end":
                items.append(cur)
                cur = None
            else:
                cur["text"].append(ln)
            continue
        s = ln.strip()
        if not s or s.startswith("#"):
            continue
        t = s.split(None, 4)
        if t[0] == "@expect-loops":
            items.append({"kind": "expect", "fn": t[1], "n": int(t[2])})
        elif t[0] == "@loop":
            cur = {"kind": "loop", "fn": t[1], "ord": int(t[2]), "text": []}
        elif t[0] == "@ghost":
            if t[2] not in ("after", "before"):
                raise AnnotateError("bad @ghost line: " + ln)
            cur = {"kind": "ghost", "fn": t[1], "where": t[2], "k": int(t[3]), "anchor": t[4], "text": []}
        elif t[0] == "@prepend":
            cur = {"kind": "prepend", "text": []}
        else:
            raise AnnotateError("bad sidecar line: " + ln)
    if cur is not None:
        raise AnnotateError("unterminated block in " + path)
    return items


S_OPEN, S_CLOSE = "/*@V<*/", "/*@V>*/"


def annotate_text(src, items):
    m = mask(src)
    ins = []  # (pos, text)
    stats = {"clauses": 0, "ghost_assignments": 0, "loops_annotated": 0, "prepended_lines": 0}
    fcache = {}

    def fn_span(name):
        if name not in fcache:
            lo, hi = find_function(m, name)
            fcache[name] = (lo, hi, find_loops(m, lo, hi))
        return fcache[name]

    for it in items:
        if it["kind"] == "expect":
            lo, hi, loops = fn_span(it["fn"])
            if len(loops) != it["n"]:
                raise AnnotateError("function %s has %d loops, sidecar expects %d" % (it["fn"], len(loops), it["n"]))
        elif it["kind"] == "loop":
            lo, hi, loops = fn_span(it["fn"])
            if it["ord"] < 1 or it["ord"] > len(loops):
                raise AnnotateError("function %s has no loop #%d" % (it["fn"], it["ord"]))
            for t in it["text"]:
                if t.strip() and not re.match(r"^\s*__CPROVER_(assigns|loop_invariant|decreases)\s*\(", t):
                    raise AnnotateError("only loop-contract clauses may be inserted at a loop: " + t)
            txt = "\n" + "\n".join(it["text"]) + "\n"
            ins.append((loops[it["ord"] - 1], txt))
            stats["clauses"] += sum(1 for t in it["text"] if t.strip())
            stats["loops_annotated"] += 1
        elif it["kind"] == "ghost":
            lo, hi, _ = fn_span(it["fn"])
            pos = lo
            for _ in range(it["k"]):
                pos = src.find(it["anchor"], pos + 1, hi)
                if pos < 0:
                    raise AnnotateError("ghost anchor %r #%d not found in %s" % (it["anchor"], it["k"], it["fn"]))
            eol = src.find("\n", pos)
            for t in it["text"]:
                s = t.strip()
                if s and not re.match(r"^(__verif_\w+(\.\w+|\[[^\]]*\])*\s*(=|\+=|\|=|\+\+)|if\s*\(.*\)\s*__verif_)", s):
                    raise AnnotateError("ghost statement must assign a __verif_ lvalue: " + t)
            if it.get("where") == "before":
                bol = src.rfind("\n", 0, pos) + 1
                ins.append((bol, "\n".join(it["text"]) + "\n"))
            else:
                ins.append((eol, "\n" + "\n".join(it["text"])))
            stats["ghost_assignments"] += sum(1 for t in it["text"] if t.strip())
        elif it["kind"] == "prepend":
            ins.append((0, "\n".join(it["text"]) + "\n"))
            stats["prepended_lines"] += len(it["text"])
    ins.sort(key=lambda x: x[0])
    out = []
    last = 0
    for pos, txt in ins:
        out.append(src[last:pos])
        out.append(S_OPEN + txt + S_CLOSE)
        last = pos
    out.append(src[last:])
    res = "".join(out)
    # self-check: strip inserted spans, must equal the original
    back = re.sub(re.escape(S_OPEN) + r".*?" + re.escape(S_CLOSE), "", res, flags=re.S)
    if back != src:
        raise AnnotateError("self-check failed: stripped text differs from original")
    stats["drops"] = "nothing"
    stats["selfcheck"] = "strip(inserted) == original: ok"
    return res, stats


def annotate_file(src_path, sidecar, dst_path):
    if not os.path.exists(src_path):
        raise AnnotateError("missing source " + src_path)
    src = open(src_path, encoding="utf-8", errors="surrogateescape").read()
    items = parse_sidecar(sidecar)
    res, stats = annotate_text(src, items)
    with open(dst_path, "w", encoding="utf-8", errors="surrogateescape") as f:
        f.write(res)
    stats["sidecar"] = os.path.relpath(sidecar, os.path.dirname(os.path.dirname(os.path.abspath(__file__))))
    return stats


if __name__ == "__main__":
    try:
        print(annotate_file(sys.argv[1], sys.argv[2], sys.argv[3]))
    except AnnotateError as e:
        print("annotate error:", e, file=sys.stderr)
        sys.exit(2)
