#!/usr/bin/env python3
"""vc.py - obligation runner for the contract-based verification of /repo.

usage: vc.py <PROPERTY-ID> [--tier quick|thorough] [--only REGEX] [--repo DIR]
             [--jobs N] [--keep] [--no-evidence] [--list]

Exit codes (DESIGN 3.4):
  0  every obligation of the tier discharged (or listed as known finding)
  1  at least one obligation REFUTED by CBMC and not a listed finding
     (prints  VIOLATION property=<id> replay=<path> ...)
  2  undecided: timeout, memory, tool error, vacuity guard, extraction rule
"""
import argparse, concurrent.futures as cf, fnmatch, hashlib, importlib.util, json, os, random, re
import shutil, signal, subprocess, sys, tempfile, time

VERIF = os.path.dirname(os.path.dirname(os.path.abspath(__file__)))
sys.path.insert(0, os.path.join(VERIF, "tools"))
import annotate  # noqa: E402

DEFAULT_CHECKS = ["--bounds-check", "--pointer-check", "--div-by-zero-check",
                  "--signed-overflow-check", "--pointer-overflow-check",
                  "--pointer-primitive-check", "--undefined-shift-check"]
BACKENDS = {
    "minisat": [],
    "cadical": ["--sat-solver", "cadical"],
    "kissat": ["--external-sat-solver", "kissat"],
    "z3": ["--z3"],
    "cvc5": ["--cvc5"],
}
RES_RE = re.compile(r"^\[(?P<id>[^\]]+)\] (?:line (?P<line>\d+) )?(?P<desc>.*): (?P<st>SUCCESS|FAILURE|UNKNOWN|ERROR)$")
FN_RE = re.compile(r"^(?P<file>\S+) function (?P<fn>\S+)$")


def log(*a):
    print(*a, file=sys.stderr, flush=True)


class Obl(dict):
    """One obligation.  Keys (defaults in brackets):
    id, prop, harness, entry, defines{}, sources[] (repo-relative .c linked in),
    annotate[] ((repo-relative file, sidecar)), include_repo [src],
    enforce [None], replace [], loops [False], unwind [None], unwindset [],
    checks [DEFAULT_CHECKS], flags [], object_bits [None], backends ['minisat'],
    timeout [600], mem_gb [12], strength 'U'|'X'|'B(..)', tier 'quick'|'thorough',
    functions [], must_have [] (regexes that must match some cbmc property id/desc),
    min_checks [1], witness {replayer, args} | None, note ''
    """
    __getattr__ = dict.get


def load_registry(prop):
    path = os.path.join(VERIF, "obligations", prop.lower() + ".py")
    if not os.path.exists(path):
        log("no obligation registry", path)
        sys.exit(2)
    spec = importlib.util.spec_from_file_location("obl_" + prop, path)
    mod = importlib.util.module_from_spec(spec)
    spec.loader.exec_module(mod)
    return mod


def load_findings():
    out = {"finding": [], "fixed": []}
    p = os.path.join(VERIF, "known_findings.txt")
    if os.path.exists(p):
        for ln in open(p):
            ln = ln.strip()
            if not ln or ln.startswith("#"):
                continue
            m = re.match(r"^(finding|fixed):\s+property=(\S+)\s+(.*)$", ln)
            if not m:
                continue
            kind, prop, rest = m.groups()
            ent = {"property": prop, "text": rest, "raw": ln}
            if kind == "finding":
                mo = re.search(r"obligation=(\S+)", rest)
                mc = re.search(r"check=(\S+)", rest)
                ent["obligation"] = mo.group(1) if mo else None
                ent["check"] = mc.group(1) if mc else "*"
            out[kind].append(ent)
    return out


def run(cmd, timeout, mem_gb, cwd, env=None):
    """Run cmd under ulimit -v and a timeout; returns (rc, stdout+stderr, wall)."""
    t0 = time.time()
    def pre():
        os.setsid()
        import resource
        lim = int(mem_gb * 1024 ** 3)
        resource.setrlimit(resource.RLIMIT_AS, (lim, lim))
        # CBMC recurses deeply over large objects (a 16 MB malloc made it die with SIGSEGV under the default 8 MB stack)
        try:
            soft, hard = resource.getrlimit(resource.RLIMIT_STACK)
            resource.setrlimit(resource.RLIMIT_STACK, (hard, hard))
        except (ValueError, OSError):
            pass
    try:
        p = subprocess.Popen(cmd, cwd=cwd, stdout=subprocess.PIPE, stderr=subprocess.STDOUT,
                             preexec_fn=pre, env=env, text=True, errors="replace")
    except OSError as e:
        return 127, str(e), 0.0
    try:
        out, _ = p.communicate(timeout=timeout)
        rc = p.returncode
    except subprocess.TimeoutExpired:
        try:
            os.killpg(p.pid, signal.SIGKILL)
        except OSError:
            pass
        out, _ = p.communicate()
        rc = -9
        out = (out or "") + "\n[vc.py] TIMEOUT after %ss\n" % timeout
    return rc, out, time.time() - t0


def parse_results(out):
    res = []
    cur_file, cur_fn = None, None
    for ln in out.splitlines():
        m = FN_RE.match(ln)
        if m:
            cur_file, cur_fn = m.group("file"), m.group("fn")
            continue
        m = RES_RE.match(ln)
        if m:
            d = m.groupdict()
            d["file"], d["fn"] = cur_file, cur_fn
            res.append(d)
    return res


def solver_seconds(out):
    s = 0.0
    for m in re.finditer(r"Runtime decision procedure: ([0-9.]+)s", out):
        s += float(m.group(1))
    return s


def is_cover(r):
    return r["desc"].startswith("COVER")


def is_unwind(r):
    return ".unwind." in r["id"] or "unwinding assertion" in r["desc"] or r["id"].endswith(".recursion")


def build(o, repo, work, witness=False):
    """goto-cc + goto-instrument; returns (ok, path or message, info)."""
    info = {"adds": None}
    inc = ["-I" + os.path.join(VERIF, "contracts"), "-I" + os.path.join(VERIF, "harness")]
    srcs = []
    ann_dir = None
    if o.annotate:
        ann_dir = os.path.join(work, "ann")
        os.makedirs(ann_dir, exist_ok=True)
        for rel, sidecar in o.annotate:
            dst = os.path.join(ann_dir, rel)
            os.makedirs(os.path.dirname(dst), exist_ok=True)
            try:
                st = annotate.annotate_file(os.path.join(repo, rel), os.path.join(VERIF, sidecar), dst)
            except annotate.AnnotateError as e:
                return False, "annotate: %s" % e, info
            info.setdefault("annotate", []).append({"file": rel, **st})
            # the copy's own  #include "x.h"  must still find its siblings
            inc.append("-I" + os.path.dirname(os.path.join(repo, rel)))
        # annotated copies shadow the originals for #include "..." of whole .c files
        for sub in (o.include_repo or ["src"]):
            inc.append("-I" + os.path.join(ann_dir, sub))
    for rule in (o.extract or []):
        import extract
        try:
            info.setdefault("extract", []).append(extract.RULES[rule](repo, work))
        except extract.ExtractError as e:
            return False, "extract %s: %s" % (rule, e), info
        inc.append("-I" + os.path.join(work, "gen"))
    for sub in (o.include_repo or ["src"]):
        inc.append("-I" + os.path.join(repo, sub))
    for s in (o.sources or []):
        p = os.path.join(ann_dir, s) if ann_dir and os.path.exists(os.path.join(ann_dir, s)) else os.path.join(repo, s)
        srcs.append(p)
    defs = ["-DNANOLANG_VERIF_CBMC=1"]
    for k, v in (o.defines or {}).items():
        defs.append("-D%s=%s" % (k, v) if v is not None else "-D%s" % k)
    if witness:
        defs.append("-DVERIF_WITNESS=1")
    a = os.path.join(work, "a.gb")
    b = os.path.join(work, "b.gb")
    cmd = ["goto-cc"] + inc + defs + ["--function", o.entry, os.path.join(VERIF, o.harness)] + srcs + ["-o", a]
    rc, out, _ = run(cmd, 300, 8, work)
    if rc != 0:
        return False, "goto-cc failed:\n" + out[-3000:], info
    info["goto_cc"] = " ".join(cmd)
    if o.gi_plain:
        # plain goto-instrument pass (no --dfcc), e.g. --remove-function-body f: f then returns an arbitrary value per call
        cmd = ["goto-instrument"] + list(o.gi_plain) + [a, b]
        rc, out, _ = run(cmd, 600, 12, work)
        info["goto_instrument"] = " ".join(cmd)
        if rc != 0 or not os.path.exists(b):
            return False, "goto-instrument failed:\n" + out[-3000:], info
        return True, b, info
    if o.enforce or o.replace or o.loops:
        cmd = ["goto-instrument", "--dfcc", o.entry]
        if o.enforce:
            cmd += ["--enforce-contract", o.enforce]
        for r in (o.replace or []):
            cmd += ["--replace-call-with-contract", r]
        if o.loops:
            cmd += ["--apply-loop-contracts"]
        cmd += list(o.gi_flags or [])
        if not o.malloc_may_fail and not o.gi_malloc_default:
            # under --dfcc the malloc model is linked by goto-instrument: the flag has to be given here
            # (gi_malloc_default: keep goto-instrument's default model, in which an allocation may fail and
            #  object sizes are bounded by __CPROVER_max_malloc_size - the proof then covers MORE behaviours)
            cmd += ["--no-malloc-may-fail"]
        cmd += [a, b]
        rc, out, _ = run(cmd, 600, 12, work)
        info["goto_instrument"] = " ".join(cmd)
        if rc != 0 or not os.path.exists(b):
            return False, "goto-instrument failed:\n" + out[-3000:], info
        m = re.search(r"assigns clauses of at most (\d+) targets", out)
        if m:
            info["max_assigns_targets"] = int(m.group(1))
        return True, b, info
    return True, a, info


def cbmc_cmd(o, gb, backend, extra=()):
    cmd = ["cbmc", gb, "--drop-unused-functions"] + ([] if o.no_slice else ["--slice-formula"])
    cmd += (o.checks if o.checks is not None else DEFAULT_CHECKS)
    if o.unwind:
        u = o.unwind
        if u == "auto":   # all remaining loops are DFCC library loops over assigns targets
            u = (o.get("_max_targets") or 4) + 3
        cmd += ["--unwind", str(u), "--unwinding-assertions"]
    if o.unwindset:
        cmd += ["--unwindset", ",".join(o.unwindset)]
        if not o.unwind:
            cmd += ["--unwinding-assertions"]
    if o.object_bits:
        cmd += ["--object-bits", str(o.object_bits)]
    if not o.malloc_may_fail:
        cmd += ["--no-malloc-may-fail"]
    cmd += list(o.flags or [])
    cmd += BACKENDS[backend]
    cmd += list(extra)
    return cmd


def classify(o, out, rc):
    """-> (status, detail dict).  status in PROVED / REFUTED / UNDECIDED"""
    res = parse_results(out)
    d = {"n_checks": len(res), "failed": [], "covers": 0, "covers_unreached": [],
         "unwind_failed": [], "solver_s": solver_seconds(out)}
    if "[vc.py] TIMEOUT" in out:
        d["why"] = "timeout"
        return "UNDECIDED", d
    if rc not in (0, 10):
        errl = [l for l in out.splitlines() if re.search(r"(?i)error|exception|bad_alloc|out of memory|invariant|abort", l)
                and not RES_RE.match(l)]
        d["why"] = "cbmc rc=%s: %s" % (rc, (" | ".join(errl[-4:]) or out[-300:].replace("\n", " | "))[:500])
        return "UNDECIDED", d
    if not res:
        d["why"] = "no properties parsed (vacuous harness?)"
        return "UNDECIDED", d
    for r in res:
        if is_cover(r):
            d["covers"] += 1
            if r["st"] != "FAILURE":
                d["covers_unreached"].append(r["id"] + " " + r["desc"])
        elif r["st"] == "FAILURE":
            (d["unwind_failed"] if is_unwind(r) else d["failed"]).append(
                {"id": r["id"], "desc": r["desc"], "line": r["line"], "file": r["file"], "fn": r["fn"]})
        elif r["st"] in ("UNKNOWN", "ERROR"):
            d.setdefault("unknown", []).append(r["id"])
    if re.search(r"ignoring (forall|exists)", out):
        d["why"] = "quantifier ignored by SAT back end"
        return "UNDECIDED", d
    if d["failed"]:
        # a definite FAILURE is a real counterexample whatever else was cut or left UNKNOWN
        return "REFUTED", d
    if d["unwind_failed"]:
        d["why"] = "unwinding assertion failed (paths cut): " + ", ".join(x["id"] for x in d["unwind_failed"][:4])
        return "UNDECIDED", d
    if d.get("unknown"):
        d["why"] = "UNKNOWN results: " + ", ".join(d["unknown"][:4])
        return "UNDECIDED", d
    if d["n_checks"] < (o.min_checks or 1):
        d["why"] = "only %d checks, registry expects >= %d" % (d["n_checks"], o.min_checks)
        return "UNDECIDED", d
    for pat in (o.must_have or []):
        if not any(re.search(pat, r["id"] + " " + r["desc"]) for r in res):
            d["why"] = "expected check matching %r is absent (contract silently dropped?)" % pat
            return "UNDECIDED", d
    if d["failed"]:
        return "REFUTED", d
    if d["covers_unreached"]:
        d["why"] = "cover point unreachable (vacuous precondition?): " + "; ".join(d["covers_unreached"][:3])
        return "UNDECIDED", d
    return "PROVED", d


def run_obligation(o, repo, scratch, keep=False):
    work = tempfile.mkdtemp(prefix=re.sub(r"[^A-Za-z0-9_.-]", "_", o.id) + ".", dir=scratch)
    rec = {"id": o.id, "strength": o.strength or "U", "functions": o.functions or [],
           "harness": o.harness, "entry": o.entry}
    t0 = time.time()
    try:
        ok, gb, info = build(o, repo, work)
        rec["build"] = info
        if not ok and o.fallback and (gb.startswith("annotate:") or gb.startswith("extract")):
            # The contract text could not be attached (the code's loop structure changed).  That alone is never a
            # violation; but a BOUNDED counterexample search on the real function (no loop contracts) may still find a
            # definite counterexample to the same function contract, which is one.  Anything else stays undecided.
            why0 = gb
            fb = Obl(o); fb.update(o.fallback)
            fdir = os.path.join(work, "fb"); os.makedirs(fdir, exist_ok=True)
            ok2, gb2, info2 = build(fb, repo, fdir)
            if ok2:
                cmd = cbmc_cmd(fb, gb2, "minisat")
                rc, out, wall = run(cmd, fb.timeout or 600, fb.mem_gb or 12, fdir)
                st, d = classify(fb, out, rc)
                if st == "REFUTED":
                    rec.update(status=st, backend="minisat", cbmc=" ".join(cmd).replace(work, "$W"), wall_s=round(wall, 2),
                               note="contract not attachable (%s); refuted by the bounded fallback search" % why0, **d)
                    rec["cbmc_output_tail"] = "\n".join(l for l in out.splitlines() if "FAILURE" in l)[:4000]
                    rec["trace"] = get_trace(fb, gb2, "minisat", d, fdir)
                    if o.witness:
                        rec["witness"] = run_witness(o, repo, work, d)
                    return rec
            rec.update(status="UNDECIDED", why=why0 + " (bounded fallback search found no counterexample)")
            return rec
        if not ok:
            rec.update(status="UNDECIDED", why=gb)
            return rec
        best = None
        o["_max_targets"] = info.get("max_assigns_targets")
        backs = o.backends or ["minisat"]
        # portfolio: run sequentially if one back end, else in parallel threads
        def one(bk):
            cmd = cbmc_cmd(o, gb, bk)
            rc, out, wall = run(cmd, o.timeout or 600, o.mem_gb or 12, work)
            for bits in (10, 12):
                if "too many addressed objects" in out and (o.object_bits or 8) < bits:
                    o["object_bits"] = bits
                    cmd = cbmc_cmd(o, gb, bk)
                    rc, out, w2 = run(cmd, o.timeout or 600, o.mem_gb or 12, work)
                    wall += w2
            st, d = classify(o, out, rc)
            return bk, cmd, st, d, out, wall
        if len(backs) == 1:
            results = [one(backs[0])]
        else:
            with cf.ThreadPoolExecutor(len(backs)) as ex:
                futs = [ex.submit(one, b) for b in backs]
                results = []
                for f in cf.as_completed(futs):
                    r = f.result()
                    results.append(r)
                    if r[2] in ("PROVED", "REFUTED"):
                        # first definite answer wins; kill the others
                        subprocess.call(["pkill", "-9", "-f", gb], stdout=subprocess.DEVNULL, stderr=subprocess.DEVNULL)
                        break
        for r in results:
            if r[2] in ("PROVED", "REFUTED"):
                best = r
                break
        if best is None:
            best = results[0]
        bk, cmd, st, d, out, wall = best
        rec.update(status=st, backend=bk, cbmc=" ".join(cmd).replace(work, "$W"), wall_s=round(wall, 2), **d)
        if st == "REFUTED":
            rec["cbmc_output_tail"] = "\n".join(l for l in out.splitlines() if "FAILURE" in l)[:4000]
            rec["trace"] = get_trace(o, gb, bk, d, work)
            if o.witness:
                rec["witness"] = run_witness(o, repo, work, d)
        for f in os.listdir("/tmp"):
            pass
        return rec
    finally:
        rec["total_s"] = round(time.time() - t0, 2)
        if not keep:
            shutil.rmtree(work, ignore_errors=True)


def get_trace(o, gb, bk, d, work):
    """Re-run for the first failed property with --trace (text)."""
    if not d["failed"]:
        return ""
    pid = d["failed"][0]["id"]
    cmd = cbmc_cmd(o, gb, bk, ["--property", pid, "--trace", "--trace-hex"])
    rc, out, _ = run(cmd, o.timeout or 600, o.mem_gb or 12, work)
    i = out.find("Trace for")
    tr = out[i:] if i >= 0 else out[-6000:]
    if len(tr) > 60000:
        tr = tr[:20000] + "\n...[trimmed]...\n" + tr[-40000:]
    return tr


def run_witness(o, repo, work, d):
    """Rebuild the harness in witness mode (inputs are named in_* globals built
    by the harness), ask CBMC for a counterexample to the same property, pull
    the in_* values out of the JSON trace and hand them to the native replayer
    built from the real sources."""
    w = {"status": "none"}
    wdir = os.path.join(work, "wit")
    os.makedirs(wdir, exist_ok=True)
    ow = Obl(o)
    ow.update(o.witness.get("override") or {})
    ok, gb, info = build(ow, repo, wdir, witness=True)
    if not ok:
        w["why"] = "witness build failed: " + gb[-500:]
        return w
    inputs = None
    if o.witness.get("override"):
        # bounded search for a concrete input: any failing property of the witness harness will do
        tries = [None]
    else:
        tries = [f["id"] for f in d["failed"][:2]]
    for pid in tries:
        extra = ["--trace", "--json-ui"] + (["--property", pid] if pid else ["--stop-on-fail"])
        cmd = cbmc_cmd(ow, gb, "minisat", extra)
        rc, out, _ = run(cmd, ow.timeout or 600, ow.mem_gb or 12, wdir)
        try:
            js = json.loads(out)
        except Exception:
            continue
        inputs = extract_inputs(js)
        if inputs:
            w["property"] = pid or first_failed(js)
            break
    if not inputs:
        w["why"] = "witness-mode harness gave no counterexample with named inputs"
        return w
    w["inputs"] = inputs
    rp = o.witness.get("replayer")
    if rp:
        sys.path.insert(0, os.path.join(VERIF, "replay"))
        import replay_native
        w["replay"] = replay_native.replay(rp, inputs, repo, wdir, o)
        w["status"] = "reproduced" if w["replay"].get("reproduced") else "not-reproduced"
    else:
        w["status"] = "inputs-only"
    return w


def _jsval(v):
    if v is None:
        return None
    if "members" in v:
        return {m["name"]: _jsval(m["value"]) for m in v["members"]}
    if "elements" in v:
        return [_jsval(e["value"]) for e in v["elements"]]
    if "data" in v:
        return v["data"]
    return v.get("name")


def first_failed(js):
    for item in js:
        if isinstance(item, dict) and "result" in item:
            for r in item["result"]:
                if r.get("status") == "FAILURE":
                    return r.get("property")
    return None


def extract_inputs(js):
    vals = {}
    for item in js:
        if not isinstance(item, dict):
            continue
        rs = item.get("result")
        if rs is None and "trace" in item:
            rs = [item]
        for r in rs or []:
            if not isinstance(r, dict):
                continue
            for st in r.get("trace", []) or []:
                if st.get("stepType") == "assignment":
                    lhs = st.get("lhs", "")
                    if lhs.startswith("in_") and "value" in st:
                        base = lhs
                        vals[base] = _jsval(st["value"])
    return vals


def finding_matches(fnd, o, fail):
    if fnd["obligation"] and not fnmatch.fnmatch(o["id"], fnd["obligation"]):
        return False
    pat = fnd["check"]
    return fnmatch.fnmatch(fail["id"], pat) or fnmatch.fnmatch(fail["desc"].replace(" ", "_"), pat)


def main():
    ap = argparse.ArgumentParser()
    ap.add_argument("prop")
    ap.add_argument("--tier", default=os.environ.get("VERIF_TIER", "quick"))
    ap.add_argument("--only", default=None)
    ap.add_argument("--repo", default=os.environ.get("VERIF_REPO", "/repo"))
    ap.add_argument("--jobs", type=int, default=int(os.environ.get("VERIF_JOBS", os.cpu_count() or 4)))
    ap.add_argument("--keep", action="store_true")
    ap.add_argument("--no-evidence", action="store_true")
    ap.add_argument("--list", action="store_true")
    ap.add_argument("--replay", default=None, help="print a stored replay file and re-run its native replay")
    a = ap.parse_args()
    prop = a.prop.upper()
    seed = int(os.environ.get("VERIF_SEED", "0") or 0)
    t0 = time.time()

    if a.replay:
        sys.path.insert(0, os.path.join(VERIF, "replay"))
        import replay_native
        sys.exit(replay_native.rerun(a.replay, a.repo))

    mod = load_registry(prop)
    obls = [Obl(x) for x in mod.obligations(a.repo)]
    if a.tier == "quick":
        obls = [o for o in obls if (o.tier or "quick") == "quick"]
    if a.only:
        obls = [o for o in obls if re.search(a.only, o.id)]
    if a.list:
        for o in obls:
            print(o.id, o.strength, o.tier or "quick", o.entry)
        return 0
    if not obls:
        log("no obligations selected")
        return 2
    random.Random(seed).shuffle(obls)
    # longest first helps the tail
    obls.sort(key=lambda o: -(o.weight or 1))

    scratch = tempfile.mkdtemp(prefix="vc_%s_" % prop, dir=os.environ.get("TMPDIR", "/tmp"))
    recs = []
    try:
        with cf.ThreadPoolExecutor(max(1, a.jobs)) as ex:
            # memory-aware admission: obligations that ask for more than the default limit reserve that much of a budget
            # (85% of RAM) before they start, so that two 24-40 GB solver runs are never in flight together
            import threading
            try:
                total_gb = int(open("/proc/meminfo").readline().split()[1]) / 1048576.0
            except Exception:
                total_gb = 32.0
            budget = {"free": max(8.0, total_gb * 0.85)}
            cv = threading.Condition()

            def admitted(o):
                need = float(o.mem_gb) if (o.mem_gb or 0) > 12 else 2.5
                need = min(need, max(8.0, total_gb * 0.85))
                with cv:
                    while budget["free"] < need:
                        cv.wait()
                    budget["free"] -= need
                try:
                    return run_obligation(o, a.repo, scratch, a.keep)
                finally:
                    with cv:
                        budget["free"] += need
                        cv.notify_all()
            futs = {ex.submit(admitted, o): o for o in obls}
            done = 0
            for f in cf.as_completed(futs):
                o = futs[f]
                try:
                    r = f.result()
                except Exception as e:  # tool error -> undecided
                    r = {"id": o.id, "status": "UNDECIDED", "why": "runner exception: %r" % e,
                         "strength": o.strength or "U", "functions": o.functions or []}
                recs.append(r)
                done += 1
                if r["status"] != "PROVED" or done % 50 == 0 or len(obls) < 40 or os.environ.get("VERIF_VERBOSE"):
                    log("[%d/%d] %-28s %-9s %s %ss %s" % (done, len(obls), r["id"], r["status"], r.get("backend", ""),
                                                         r.get("wall_s", ""), (r.get("why") or "")[:300]))
    finally:
        if not a.keep:
            shutil.rmtree(scratch, ignore_errors=True)
        for f in os.listdir("/tmp"):
            if f.startswith("external-sat"):
                try:
                    os.unlink(os.path.join("/tmp", f))
                except OSError:
                    pass

    recs.sort(key=lambda r: r["id"])
    by_id = {o.id: o for o in obls}
    findings = load_findings()
    violations, known, undec = [], [], []
    for r in recs:
        if r["status"] == "REFUTED":
            o = by_id[r["id"]]
            unexplained = []
            matched = []
            for fl in r["failed"]:
                ms = [fd for fd in findings["finding"] if fd["property"] == prop and finding_matches(fd, o, fl)]
                if ms:
                    matched.append((fl, ms[0]))
                else:
                    unexplained.append(fl)
            if unexplained:
                r["unexplained"] = unexplained
                violations.append(r)
            else:
                r["status"] = "KNOWN-FINDING"
                r["finding"] = sorted(set(m[1]["raw"] for m in matched))
                known.append(r)
        elif r["status"] == "UNDECIDED":
            undec.append(r)

    os.makedirs(os.path.join(VERIF, "evidence"), exist_ok=True)
    rc = 0
    for r in known:
        for raw in r["finding"]:
            print("KNOWN-FINDING: property=%s %s" % (prop, raw.split(None, 2)[2] if len(raw.split(None, 2)) > 2 else raw))
    if violations:
        rdir = os.path.join(VERIF, "evidence", "replays")
        os.makedirs(rdir, exist_ok=True)
        for r in violations:
            path = os.path.join(rdir, "%s.%s.json" % (r["id"].replace("/", "_"), a.tier))
            wit = r.get("witness") or {}
            json.dump({"property": prop, "obligation": r["id"], "failed_checks": r["unexplained"],
                       "all_failed_checks": r["failed"], "backend": r.get("backend"), "cbmc_cmd": r.get("cbmc"),
                       "build": r.get("build"), "verifier_output": r.get("cbmc_output_tail"),
                       "trace": r.get("trace"), "witness": wit, "functions": r.get("functions")},
                      open(path, "w"), indent=1)
            tail = "" if wit.get("status") == "reproduced" else " no-failing-input-found"
            print("VIOLATION property=%s replay=%s obligation=%s check=%s%s" % (
                prop, path, r["id"], r["unexplained"][0]["id"], tail))
        rc = 1
    elif undec:
        for r in undec:
            print("UNDECIDED property=%s obligation=%s %s" % (prop, r["id"], (r.get("why") or "")[:500]))
        rc = 2

    if not a.no_evidence and not a.only:
        write_evidence(prop, a.tier, seed, recs, obls, mod, time.time() - t0, violations, known, undec, a.repo)
    nP = sum(1 for r in recs if r["status"] == "PROVED")
    log("%s %s: %d obligations, %d proved, %d known-finding, %d refuted, %d undecided, %.1fs" % (
        prop, a.tier, len(recs), nP, len(known), len(violations), len(undec), time.time() - t0))
    return rc


def write_evidence(prop, tier, seed, recs, obls, mod, wall, violations, known, undec, repo):
    proof = [r for r in recs if not str(r.get("strength", "U")).startswith("B")]
    bounded = [r for r in recs if str(r.get("strength", "U")).startswith("B")]
    # obligations whose failure is a recorded finding (known_findings.txt) are reported under known_findings and are
    # not part of the obligations/discharged pair: that pair counts what this run set out to prove and did prove
    n_ob = sum(1 for r in proof if r["status"] != "KNOWN-FINDING")
    n_dis = sum(1 for r in proof if r["status"] == "PROVED")
    by_backend = {}
    for r in recs:
        if r["status"] == "PROVED":
            by_backend[r.get("backend", "?")] = by_backend.get(r.get("backend", "?"), 0) + 1
    funcs = sorted({f for r in recs for f in (r.get("functions") or [])})
    rng = random.Random(seed)
    samp = rng.sample(recs, min(4, len(recs)))
    samples = [{"obligation": r["id"], "status": r["status"], "strength": r.get("strength"), "backend": r.get("backend"),
                "checks": r.get("n_checks"), "covers_reached": (r.get("covers", 0) - len(r.get("covers_unreached", []) or [])),
                "wall_s": r.get("wall_s"), "cbmc": r.get("cbmc"),
                "dfcc": (r.get("build") or {}).get("goto_instrument")} for r in samp]
    meta = getattr(mod, "META", {})
    assumptions = list(meta.get("assumptions", []))
    try:
        import scan_assumptions
        assumptions += scan_assumptions.scan(obls)
    except Exception as e:  # pragma: no cover
        assumptions.append("assumption scan failed: %r" % e)
    level = meta.get("level", "proof")
    cov = {
        "obligations": n_ob, "discharged": n_dis,
        "checker_cmd": "goto-cc --function h_<obl> <harness.c> [real sources]; goto-instrument --dfcc h_<obl> --enforce-contract f [--replace-call-with-contract g]* [--apply-loop-contracts]; cbmc --slice-formula <checks> [--unwind k --unwinding-assertions] (tools/vc.py %s --tier %s)" % (prop, tier),
        "trusted_base": meta.get("trusted_base", []) + [
            "CBMC 6.11.0 (goto-cc, goto-instrument --dfcc, cbmc) and the SAT/SMT back ends named in by_backend",
            "CBMC's C semantics = gcc -O0 on LP64 little-endian for the constructs used",
        ],
        "functions_under_contract": funcs,
        "by_backend": by_backend,
        "solver_seconds": round(sum(r.get("solver_s", 0) or 0 for r in recs), 2),
        "cbmc_wall_seconds_sum": round(sum(r.get("wall_s", 0) or 0 for r in recs), 2),
        "cbmc_checks_total": sum(r.get("n_checks", 0) or 0 for r in recs),
        "cover_points_reached": sum((r.get("covers", 0) or 0) - len(r.get("covers_unreached", []) or []) for r in recs),
        "bounded_obligations": [{"id": r["id"], "bound": r.get("strength"), "status": r["status"]} for r in bounded],
        "known_findings": [{"obligation": r["id"], "finding": r.get("finding")} for r in known],
        "undecided": [{"obligation": r["id"], "why": (r.get("why") or "")[:300]} for r in undec],
        "refuted": [{"obligation": r["id"], "checks": [f["id"] for f in r.get("unexplained", [])]} for r in violations],
        "undecided_part": meta.get("undecided_part", ""),
        "strengths": {s: sum(1 for r in recs if r.get("strength") == s) for s in sorted({str(r.get("strength")) for r in recs})},
        "samples": samples,
        "exhaustive": False,
        "annotate": [x for r in recs for x in ((r.get("build") or {}).get("annotate") or [])][:6],
        "repo": repo,
    }
    if known:
        cov["explanation"] = ("%d obligation(s) of this property fail on the current tree and are recorded findings (known_findings.txt); "
                              "they are listed under known_findings and are NOT counted in obligations/discharged." % len(known))
    if level != "proof" or n_dis != n_ob or n_ob == 0:
        # a proof-level file must have discharged == obligations
        level_out = "other"
        cov["explanation"] = meta.get("explanation", "") + (
            " %d of %d proof-strength obligations discharged; %d known findings; %d bounded stand-ins (never counted as proved)."
            % (n_dis, n_ob, len(known), len(bounded)))
    else:
        level_out = "proof"
    ev = {"property_id": prop, "tier": tier, "seed": seed, "level": level_out, "coverage": cov,
          "assumptions": assumptions, "wall_s": round(wall, 2), "violations": len(violations)}
    path = os.path.join(VERIF, "evidence", prop + ".json")
    tmp = path + ".tmp"
    json.dump(ev, open(tmp, "w"), indent=1)
    os.replace(tmp, path)


if __name__ == "__main__":
    sys.exit(main())
