/* Native replay of a C10.exit.vm counterexample: the REAL run_standalone of src/nanovm/main.c (included verbatim)
 * linked against a stub VM whose vm_execute returns argv[1] and whose vm_get_result returns tag argv[2] / value
 * argv[3] - exactly the cut the CBMC harness makes.  Exit status non-zero iff run_standalone's result differs from
 * the reference exit status of `nano_virt --run` (error => 1; OK and INT on top => (int)value; else 0). */
#include <stdio.h>
#include <stdlib.h>
#include <string.h>
#include <unistd.h>
#include "nanoisa/nvm_format.h"
#include "nanoisa/verifier.h"
#include "nanovm/vm.h"
#include "nanovm/vm_ffi.h"
#include "nanovm/vmd_client.h"

static int R; static uint8_t TAG; static int64_t V;
NvmModule *nvm_deserialize(const uint8_t *d, uint32_t n) { (void)d; (void)n; static NvmModule m; memset(&m, 0, sizeof m); return &m; }
NvmVerifyResult nvm_verify(const NvmModule *m) { (void)m; NvmVerifyResult r; memset(&r, 0, sizeof r); r.ok = true; return r; }
void nvm_module_free(NvmModule *m) { (void)m; }
const char *nvm_get_string(const NvmModule *m, uint32_t i) { (void)m; (void)i; return ""; }
void vm_init(VmState *vm, const NvmModule *m) { memset(vm, 0, sizeof *vm); vm->module = m; vm->cop_pid = -1; }
VmResult vm_execute(VmState *vm) { (void)vm; return (VmResult)R; }
NanoValue vm_get_result(VmState *vm) { (void)vm; NanoValue v; memset(&v, 0, sizeof v); v.tag = TAG; v.as.i64 = V; return v; }
void vm_destroy(VmState *vm) { (void)vm; }
const char *vm_error_string(VmResult r) { (void)r; return "stub VM error"; }
void vm_ffi_init(void) { }
void vm_ffi_shutdown(void) { }
bool vm_ffi_load_module(const char *n) { (void)n; return true; }
void vm_ffi_cop_stop(VmState *vm) { (void)vm; }
VmdClient *vmd_connect(int t) { (void)t; return NULL; }
int vmd_execute(VmdClient *c, const uint8_t *b, uint32_t n) { (void)c; (void)b; (void)n; return -1; }
void vmd_disconnect(VmdClient *c) { (void)c; }

#define main vm_main
#include "nanovm/main.c"
#undef main

int main(int argc, char **argv)
{
    if (argc < 4) { fprintf(stderr, "usage: replay_exit_vm <VmResult> <tag> <i64>\n"); return 2; }
    R = atoi(argv[1]); TAG = (uint8_t)strtoul(argv[2], NULL, 0); V = strtoll(argv[3], NULL, 0);
    char tmp[] = "/tmp/replay_exit_vm_XXXXXX";
    int fd = mkstemp(tmp);
    if (fd < 0) return 2;
    if (write(fd, "NVM", 3) != 3) return 2;
    close(fd);
    int got = run_standalone(tmp);
    unlink(tmp);
    int want = R != 0 ? 1 : (TAG == 0x01 ? (int)V : 0);
    printf("vm_execute=%d top.tag=%u top.i64=%lld : run_standalone returned %d, reference (nano_virt --run) returns %d\n",
           R, (unsigned)TAG, (long long)V, got, want);
    return got != want;
}
