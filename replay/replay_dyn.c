/* Native replay for C20.dyn.* / C08.nat.* counterexamples: drives the REAL src/runtime/dyn_array.c
 * (linked unmodified together with the real gc.c; built with ASan+UBSan) with the witness CBMC found and
 * re-evaluates the contract of contracts/dyn_contracts.h on the concrete state.
 *
 * usage: replay_dyn <op> <kind> <len> <cap> <esz> <index> <value> <newcap> <ssz> <success_null> <c08>
 *   op    get set push pop remove_at clear reserve clone new new_cap push_struct get_struct set_struct pop_struct
 *         list_get list_set list_pop list_push list_insert list_remove   (src/runtime/list_int.c; kind/esz ignored)
 *   kind  ElementType value (1 int, 8 u8, 2 float, 3 string, 4 bool, 5 array, 6 struct, 7 pointer)
 *   the array is built directly in the shape of the witness: header {len, cap, kind, esz}, store of cap*esz bytes
 *   filled with the pattern byte(j) = 31*j+7 (length/capacity as CBMC chose them, capped at 1<<20 elements)
 *   value is the raw 64-bit pattern of the pushed / stored value;  c08=1: also apply the C08-only clauses
 * The operation runs in a child process: a failed assert()/abort()/exit(!=0) there is "the run ended with an
 * error" (what C08 asks for on out-of-range); a sanitizer report or a violated postcondition makes the child
 * exit 78 (sanitizers are told to exit 77, so that neither is confused with the exit(1) of list_int.c).
 * Parent exit status: 0 = contract held natively, 1 = real code misbehaves (postcondition violated or
 * sanitizer report), 3 = the run ended although the operation was legal, 2 = usage.
 */
#include <stdio.h>
#include <stdlib.h>
#include <string.h>
#include <stdint.h>
#include <unistd.h>
#include <sys/wait.h>
#include "runtime/dyn_array.h"
#include "runtime/list_int.h"

static int bad = 0;
#define CHECK(c, ...) do { if (!(c)) { printf("POSTCONDITION violated: %s  [", #c); printf(__VA_ARGS__); printf("]\n"); bad = 1; } } while (0)

static int64_t len, cap, idx, newcap; static uint64_t value, ssz; static int kind, esz, success_null, c08;
static uint8_t pat(int64_t j) { return (uint8_t)(31 * j + 7); }

static DynArray *build(void)
{
    DynArray *a = malloc(sizeof *a);
    a->length = len; a->capacity = cap; a->elem_type = (ElementType)kind; a->elem_size = (uint8_t)esz;
    if (esz == 0) { a->data = NULL; return a; }
    a->data = malloc((size_t)cap * esz);
    for (int64_t j = 0; j < cap * esz; j++) ((uint8_t *)a->data)[j] = (kind == ELEM_BOOL) ? (pat(j) & 1) : pat(j);
    return a;
}
static uint8_t old_byte(int64_t j) { return (kind == ELEM_BOOL) ? (pat(j) & 1) : pat(j); }
static int in_range(void) { return idx >= 0 && idx < len; }

static uint64_t load(const DynArray *a, int64_t k) { uint64_t v = 0; memcpy(&v, (uint8_t *)a->data + k * a->elem_size, a->elem_size); return v; }
static uint64_t mask(uint64_t v) { return esz >= 8 ? v : (v & ((1ull << (8 * esz)) - 1)); }

static int run_child(const char *op)
{
    DynArray *a = build();
    void *old_data = a->data;
    if (!strcmp(op, "get")) {
        uint64_t r = 0;
        switch (kind) {
        case ELEM_INT: r = (uint64_t)dyn_array_get_int(a, idx); break;
        case ELEM_U8: r = dyn_array_get_u8(a, idx); break;
        case ELEM_FLOAT: { double d = dyn_array_get_float(a, idx); memcpy(&r, &d, 8); break; }
        case ELEM_STRING: r = (uint64_t)(uintptr_t)dyn_array_get_string(a, idx); break;
        case ELEM_BOOL: r = dyn_array_get_bool(a, idx); break;
        case ELEM_ARRAY: r = (uint64_t)(uintptr_t)dyn_array_get_array(a, idx); break;
        default: return 2;
        }
        printf("get(kind=%d, len=%lld, index=%lld) returned 0x%llx\n", kind, (long long)len, (long long)idx, (unsigned long long)r);
        CHECK(in_range(), "returned although index %lld is outside [0,%lld)", (long long)idx, (long long)len);
        if (in_range()) CHECK(mask(r) == load(a, idx), "value is not element %lld", (long long)idx);
    } else if (!strcmp(op, "set")) {
        switch (kind) {
        case ELEM_INT: dyn_array_set_int(a, idx, (int64_t)value); break;
        case ELEM_U8: dyn_array_set_u8(a, idx, (uint8_t)value); break;
        case ELEM_FLOAT: { double d; memcpy(&d, &value, 8); dyn_array_set_float(a, idx, d); break; }
        case ELEM_STRING: dyn_array_set_string(a, idx, (const char *)(uintptr_t)value); break;
        case ELEM_BOOL: dyn_array_set_bool(a, idx, value & 1); break;
        case ELEM_ARRAY: dyn_array_set_array(a, idx, (DynArray *)(uintptr_t)value); break;
        default: return 2;
        }
        printf("set(kind=%d, len=%lld, index=%lld) returned\n", kind, (long long)len, (long long)idx);
        CHECK(in_range(), "returned although index %lld is outside [0,%lld)", (long long)idx, (long long)len);
        if (in_range()) CHECK(load(a, idx) == mask(kind == ELEM_BOOL ? (value & 1) : value), "element %lld is not the value", (long long)idx);
        for (int64_t j = 0; j < len * esz; j++)
            if (!(in_range() && j >= idx * esz && j < (idx + 1) * esz))
                CHECK(((uint8_t *)a->data)[j] == old_byte(j), "byte %lld of another element changed", (long long)j);
    } else if (!strcmp(op, "push")) {
        DynArray *r = NULL;
        switch (kind) {
        case ELEM_INT: r = dyn_array_push_int(a, (int64_t)value); break;
        case ELEM_U8: r = dyn_array_push_u8(a, (uint8_t)value); break;
        case ELEM_FLOAT: { double d; memcpy(&d, &value, 8); r = dyn_array_push_float(a, d); break; }
        case ELEM_STRING: r = dyn_array_push_string(a, (const char *)(uintptr_t)value); break;
        case ELEM_BOOL: r = dyn_array_push_bool(a, value & 1); break;
        case ELEM_ARRAY: r = dyn_array_push_array(a, (DynArray *)(uintptr_t)value); break;
        default: return 2;
        }
        printf("push(kind=%d, len=%lld, cap=%lld) -> len=%lld cap=%lld\n", kind, (long long)len, (long long)cap, (long long)a->length, (long long)a->capacity);
        CHECK(r == a, "return value");
        CHECK(a->length == len + 1, "length %lld", (long long)a->length);
        CHECK(a->capacity == (len < cap ? cap : 2 * cap), "capacity %lld", (long long)a->capacity);
        CHECK(a->length <= a->capacity, "length <= capacity");
        if (a->length == len + 1 && a->length <= a->capacity) {
            CHECK(load(a, len) == mask(kind == ELEM_BOOL ? (value & 1) : value), "last element is not the value");
            for (int64_t j = 0; j < len * esz; j++) CHECK(((uint8_t *)a->data)[j] == old_byte(j), "prefix byte %lld changed", (long long)j);
        }
    } else if (!strcmp(op, "pop")) {
        bool s = (bool)2, *sp = success_null ? NULL : &s; uint64_t r = 0;
        switch (kind) {
        case ELEM_INT: r = (uint64_t)dyn_array_pop_int(a, sp); break;
        case ELEM_U8: r = dyn_array_pop_u8(a, sp); break;
        case ELEM_FLOAT: { double d = dyn_array_pop_float(a, sp); memcpy(&r, &d, 8); break; }
        case ELEM_STRING: r = (uint64_t)(uintptr_t)dyn_array_pop_string(a, sp); break;
        case ELEM_BOOL: r = dyn_array_pop_bool(a, sp); break;
        case ELEM_ARRAY: r = (uint64_t)(uintptr_t)dyn_array_pop_array(a, sp); break;
        default: return 2;
        }
        printf("pop(kind=%d, len=%lld) returned 0x%llx, length now %lld\n", kind, (long long)len, (unsigned long long)r, (long long)a->length);
        if (c08) CHECK(len > 0, "C08: pop of an EMPTY array returned a value (0x%llx) instead of ending the run", (unsigned long long)r);
        if (len > 0) { CHECK(a->length == len - 1, "length"); CHECK(mask(r) == load(a, len - 1), "value is not the last element"); if (sp) CHECK(s == true, "success"); }
        else { CHECK(a->length == 0, "length"); if (sp) CHECK(s == false, "success"); }
    } else if (!strcmp(op, "remove_at")) {
        DynArray *r = dyn_array_remove_at(a, idx);
        printf("remove_at(kind=%d, len=%lld, index=%lld) returned, length now %lld\n", kind, (long long)len, (long long)idx, (long long)a->length);
        CHECK(in_range(), "returned although index %lld is outside [0,%lld)", (long long)idx, (long long)len);
        CHECK(r == a && a->length == len - 1 && a->data == old_data && a->capacity == cap, "header");
        if (in_range() && a->length == len - 1)
            for (int64_t j = 0; j < a->length * esz; j++)
                CHECK(((uint8_t *)a->data)[j] == (j < idx * esz ? old_byte(j) : old_byte(j + esz)), "byte %lld", (long long)j);
    } else if (!strcmp(op, "clear")) {
        dyn_array_clear(a);
        CHECK(a->length == 0 && a->data == old_data && a->capacity == cap, "header");
    } else if (!strcmp(op, "reserve")) {
        dyn_array_reserve(a, newcap);
        printf("reserve(kind=%d, len=%lld, cap=%lld, new=%lld) -> cap %lld\n", kind, (long long)len, (long long)cap, (long long)newcap, (long long)a->capacity);
        CHECK(a->length == len && a->capacity == (newcap <= cap ? cap : newcap), "header");
        for (int64_t j = 0; j < len * esz; j++) CHECK(((uint8_t *)a->data)[j] == old_byte(j), "byte %lld changed", (long long)j);
        if (esz) for (int64_t j = 0; j < a->capacity * esz; j++) ((volatile uint8_t *)a->data)[j] |= 0;   /* whole store addressable (ASan) */
    } else if (!strcmp(op, "clone")) {
        DynArray *r = dyn_array_clone(a);
        printf("clone(kind=%d, len=%lld, esz=%d) -> %p\n", kind, (long long)len, esz, (void *)r);
        if (r) {
            CHECK(r != a && r->length == len && r->elem_size == esz && r->elem_type == (ElementType)kind, "header: length %lld elem_size %d", (long long)r->length, r->elem_size);
            CHECK(r->length <= r->capacity, "length <= capacity");
            if (r->length == len && r->elem_size == esz)
                for (int64_t j = 0; j < len * esz; j++) CHECK(((uint8_t *)r->data)[j] == old_byte(j), "byte %lld", (long long)j);
        }
    } else if (!strcmp(op, "new") || !strcmp(op, "new_cap")) {
        DynArray *r = !strcmp(op, "new") ? dyn_array_new((ElementType)kind) : dyn_array_new_with_capacity((ElementType)kind, newcap);
        if (r) {
            int64_t want = !strcmp(op, "new") ? 8 : (newcap < 8 ? 8 : newcap);
            CHECK(r->length == 0 && r->capacity == want && r->elem_type == (ElementType)kind, "header cap %lld", (long long)r->capacity);
            CHECK(kind == ELEM_STRUCT ? (r->elem_size == 0 && r->data == NULL) : r->elem_size == ((kind == ELEM_U8 || kind == ELEM_BOOL) ? 1 : 8), "elem_size %d", r->elem_size);
            if (r->elem_size) for (int64_t j = 0; j < r->capacity * r->elem_size; j++) ((volatile uint8_t *)r->data)[j] = 0;
        }
    } else if (!strcmp(op, "push_struct")) {
        uint8_t *sp = malloc(ssz ? ssz : 1);
        for (uint64_t j = 0; j < ssz; j++) sp[j] = (uint8_t)(0xA0 + j);
        DynArray *r = dyn_array_push_struct(a, sp, ssz);
        printf("push_struct(kind=%d, len=%lld, cap=%lld, esz=%d, struct_size=%llu) -> len %lld esz %d\n", kind, (long long)len, (long long)cap, esz,
               (unsigned long long)ssz, (long long)a->length, a->elem_size);
        CHECK(r == a && (kind == ELEM_STRUCT || len == 0), "returned for a non-empty array of another kind");
        CHECK(a->elem_type == ELEM_STRUCT && a->elem_size == ssz && a->length == len + 1 && a->length <= a->capacity, "header");
        if (a->elem_size == ssz && a->length == len + 1 && a->length <= a->capacity) {
            for (uint64_t j = 0; j < ssz; j++) CHECK(((uint8_t *)a->data)[len * ssz + j] == sp[j], "new element byte %llu", (unsigned long long)j);
            for (int64_t j = 0; j < len * esz; j++) CHECK(((uint8_t *)a->data)[j] == old_byte(j), "prefix byte %lld", (long long)j);
        }
    } else if (!strcmp(op, "get_struct")) {
        void *r = dyn_array_get_struct(a, idx);
        printf("get_struct(len=%lld, esz=%d, index=%lld) returned %p\n", (long long)len, esz, (long long)idx, r);
        if (c08) CHECK(in_range(), "C08: get_struct returned (%p) for index %lld outside [0,%lld) instead of ending the run", r, (long long)idx, (long long)len);
        if (in_range()) CHECK(r == (uint8_t *)a->data + idx * esz, "pointer"); else CHECK(r == NULL, "NULL expected");
    } else if (!strcmp(op, "set_struct")) {
        uint8_t *sp = malloc(ssz ? ssz : 1);
        for (uint64_t j = 0; j < ssz; j++) sp[j] = (uint8_t)(0xA0 + j);
        dyn_array_set_struct(a, idx, sp, ssz);
        printf("set_struct(len=%lld, esz=%d, index=%lld, struct_size=%llu) returned\n", (long long)len, esz, (long long)idx, (unsigned long long)ssz);
        if (c08) CHECK(in_range(), "C08: set_struct returned for index %lld outside [0,%lld) instead of ending the run", (long long)idx, (long long)len);
        CHECK((uint64_t)esz == ssz, "size");
        for (int64_t j = 0; j < len * esz; j++) {
            int inel = in_range() && j >= idx * esz && j < (idx + 1) * esz;
            CHECK(((uint8_t *)a->data)[j] == (inel ? sp[j - idx * esz] : old_byte(j)), "byte %lld", (long long)j);
        }
    } else if (!strcmp(op, "pop_struct")) {
        uint8_t *out = malloc(ssz ? ssz : 1); bool s = (bool)2, *sp = success_null ? NULL : &s;
        dyn_array_pop_struct(a, out, ssz, sp);
        printf("pop_struct(len=%lld, esz=%d, struct_size=%llu) returned, length now %lld\n", (long long)len, esz, (unsigned long long)ssz, (long long)a->length);
        if (c08) CHECK(len > 0, "C08: pop_struct of an EMPTY array returned (output left unwritten) instead of ending the run");
        if (len > 0) {
            CHECK(a->length == len - 1, "length"); if (sp) CHECK(s == true, "success");
            for (uint64_t j = 0; j < ssz; j++) CHECK(out[j] == old_byte((len - 1) * esz + j), "out byte %llu", (unsigned long long)j);
        } else { CHECK(a->length == 0, "length"); if (sp) CHECK(s == false, "success"); }
    } else if (!strncmp(op, "list_", 5)) {
        List_int *l = malloc(sizeof *l);
        l->length = (int)len; l->capacity = (int)cap; l->data = malloc(sizeof(int64_t) * (size_t)cap);
        for (int64_t k = 0; k < cap; k++) l->data[k] = 1000 + k;
        int i = (int)idx;
        if (!strcmp(op, "list_get")) {
            int64_t r = list_int_get(l, i);
            CHECK(in_range(), "list_int_get returned for index %d outside [0,%lld)", i, (long long)len);
            if (in_range()) CHECK(r == 1000 + i, "value");
        } else if (!strcmp(op, "list_set")) {
            list_int_set(l, i, (int64_t)value);
            CHECK(in_range(), "list_int_set returned for index %d outside [0,%lld)", i, (long long)len);
            for (int64_t k = 0; k < len; k++) CHECK(l->data[k] == (k == i ? (int64_t)value : 1000 + k), "element %lld", (long long)k);
        } else if (!strcmp(op, "list_pop")) {
            int64_t r = list_int_pop(l);
            CHECK(len > 0, "list_int_pop of an empty list returned");
            if (len > 0) CHECK(l->length == len - 1 && r == 1000 + len - 1, "pop result");
        } else if (!strcmp(op, "list_push")) {
            list_int_push(l, (int64_t)value);
            CHECK(l->length == len + 1 && l->length <= l->capacity, "length %d capacity %d", l->length, l->capacity);
            if (l->length == len + 1 && l->length <= l->capacity)
                for (int64_t k = 0; k <= len; k++) CHECK(l->data[k] == (k == len ? (int64_t)value : 1000 + k), "element %lld", (long long)k);
        } else if (!strcmp(op, "list_insert")) {
            list_int_insert(l, i, (int64_t)value);
            CHECK(idx >= 0 && idx <= len, "list_int_insert returned for index %d outside [0,%lld]", i, (long long)len);
            CHECK(l->length == len + 1 && l->length <= l->capacity, "length %d capacity %d", l->length, l->capacity);
            if (idx >= 0 && idx <= len && l->length == len + 1 && l->length <= l->capacity)
                for (int64_t k = 0; k <= len; k++)
                    CHECK(l->data[k] == (k < i ? 1000 + k : k == i ? (int64_t)value : 1000 + k - 1), "element %lld", (long long)k);
        } else if (!strcmp(op, "list_remove")) {
            int64_t r = list_int_remove(l, i);
            CHECK(in_range(), "list_int_remove returned for index %d outside [0,%lld)", i, (long long)len);
            if (in_range()) {
                CHECK(r == 1000 + i && l->length == len - 1, "result");
                for (int64_t k = 0; k < len - 1; k++) CHECK(l->data[k] == (k < i ? 1000 + k : 1000 + k + 1), "element %lld", (long long)k);
            }
        } else return 2;
        printf("%s(len=%lld, cap=%lld, index=%d) returned, length now %d\n", op, (long long)len, (long long)cap, i, l->length);
    } else return 2;
    fflush(stdout);
    return bad ? 78 : 0;
}

int main(int argc, char **argv)
{
    if (argc < 12) { fprintf(stderr, "usage: see head of replay_dyn.c\n"); return 2; }
    if (!getenv("REPLAY_DYN_REEXEC")) {     /* give sanitizer reports an exit code of their own */
        setenv("REPLAY_DYN_REEXEC", "1", 1);
        setenv("ASAN_OPTIONS", "detect_leaks=0:abort_on_error=0:exitcode=77", 1);
        setenv("UBSAN_OPTIONS", "print_stacktrace=1:exitcode=77", 1);
        execv("/proc/self/exe", argv);
    }
    const char *op = argv[1];
    kind = atoi(argv[2]); len = strtoll(argv[3], 0, 0); cap = strtoll(argv[4], 0, 0); esz = atoi(argv[5]);
    idx = strtoll(argv[6], 0, 0); value = strtoull(argv[7], 0, 0); newcap = strtoll(argv[8], 0, 0); ssz = strtoull(argv[9], 0, 0);
    success_null = atoi(argv[10]); c08 = atoi(argv[11]);
    /* keep the concrete store small: shrink capacity/length together (the relative position of index is kept
     * when it was inside, and stays outside when it was outside) */
    if (cap > (1 << 20)) {
        int64_t d = cap - (1 << 20);
        int was_in = in_range(), was_full = len >= cap; int64_t from_end = len - idx;
        cap -= d; if (len > cap || was_full) len = cap;
        if (was_in && idx >= len) idx = len - (from_end < len ? from_end : 1);
        if (!was_in && idx >= 0 && idx < len) idx = len;
        printf("(store shrunk to cap=%lld len=%lld index=%lld)\n", (long long)cap, (long long)len, (long long)idx);
    }
    if (ssz > (1 << 20)) ssz = 1 << 20;
    fflush(stdout);
    pid_t p = fork();
    if (p == 0) _exit(run_child(op));
    int st = 0; waitpid(p, &st, 0);
    if (WIFEXITED(st) && (WEXITSTATUS(st) == 77 || WEXITSTATUS(st) == 78)) {
        printf("real code misbehaves (see above: %s)\n", WEXITSTATUS(st) == 77 ? "sanitizer report" : "violated postcondition");
        return 1;
    }
    if (WIFSIGNALED(st) || (WIFEXITED(st) && WEXITSTATUS(st) != 0 && WEXITSTATUS(st) != 2)) {
        /* SIGABRT from assert()/abort(), or exit(n): the run ended with an error */
        int sig = WIFSIGNALED(st) ? WTERMSIG(st) : 0;
        if (sig && sig != SIGABRT) { printf("child died with signal %d (memory fault)\n", sig); return 1; }
        int legal = 1;
        if (!strcmp(op, "get") || !strcmp(op, "set") || !strcmp(op, "remove_at")) legal = in_range();
        else if (!strcmp(op, "list_get") || !strcmp(op, "list_set") || !strcmp(op, "list_remove")) legal = in_range();
        else if (!strcmp(op, "list_pop")) legal = len > 0;
        else if (!strcmp(op, "list_insert")) legal = idx >= 0 && idx <= len;
        else if (!strcmp(op, "push_struct")) legal = (kind == ELEM_STRUCT || len == 0) && ssz <= 255 && (esz == 0 || (uint64_t)esz == ssz);
        else if (!strcmp(op, "set_struct") || !strcmp(op, "pop_struct")) legal = (uint64_t)esz == ssz;
        printf("the run ended with an error (%s %d) - %s\n", sig ? "signal" : "exit", sig ? sig : WEXITSTATUS(st),
               legal ? "although the operation was legal" : "as the contract expects for this call");
        return legal ? 3 : 0;
    }
    return WIFEXITED(st) ? WEXITSTATUS(st) : 1;
}
