"""Replayer registration for the native runtime containers (auto-loaded by replay_native._load_unit_replayers).
replay_dyn <op> <kind> <len> <cap> <esz> <index> <value> <newcap> <ssz> <success_null> <c08>  -- see replay/replay_dyn.c"""
import re

ENTRY_OP = {"h_get": "get", "h_set": "set", "h_push": "push", "h_pop": "pop", "h_remove_at": "remove_at", "h_clear": "clear",
            "h_reserve": "reserve", "h_clone": "clone", "h_new": "new", "h_new_cap": "new_cap", "h_push_struct": "push_struct",
            "h_get_struct": "get_struct", "h_set_struct": "set_struct", "h_pop_struct": "pop_struct",
            "h_length": "clear", "h_capacity": "clear", "h_elem_type": "clear"}


def _num(v):
    if v is None:
        return 0
    if isinstance(v, (int, float)):
        return int(v)
    s = str(v).strip().rstrip("uUlL")
    if s in ("TRUE", "true"):
        return 1
    if s in ("FALSE", "false"):
        return 0
    try:
        return int(s, 0)
    except ValueError:
        try:
            return int(float(s))
        except ValueError:
            return 0


def _args_dyn(inputs, o, work=None):
    d = o.get("defines") or {}
    kind = int(d.get("VERIF_KIND", 1))
    if kind == 0:
        kind = 1          # "any kind but struct": replay with an int array
    g = lambda k: _num(inputs.get(k))
    esz = g("in_esz") & 0xFF
    ssz = g("in_ssz") & 0xFFFFFFFFFFFFFFFF
    if "VERIF_SSZ" in d:
        ssz = int(d["VERIF_SSZ"])
    op = ENTRY_OP.get(o["entry"], "get")
    if "list_h" in (o.get("harness") or ""):
        op = "list_" + o["entry"][2:]
    return [op, str(kind), str(g("in_len")), str(g("in_cap")), str(esz), str(g("in_index")),
            str(g("in_value") & 0xFFFFFFFFFFFFFFFF), str(g("in_newcap")), str(ssz), str(g("in_success_null") & 1),
            "1" if "VERIF_C08" in d else "0"]


REPLAYERS = {
    "dyn": {"args": _args_dyn, "src": ["src/runtime/dyn_array.c", "src/runtime/gc.c", "src/runtime/gc_struct.c", "src/runtime/list_int.c"],
            "timeout": 60},
}
