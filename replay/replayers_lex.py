"""Replayer registration for the lexer unit (C09.lex.*): auto-loaded by replay_native._load_unit_replayers.
The witness harness (harness/lexer_h.c, -DVERIF_WITNESS) names its inputs in_len and in_src.b[k]."""
import os


_ESC = {"n": 10, "t": 9, "r": 13, "0": 0, "a": 7, "b": 8, "f": 12, "v": 11, "\\": 92, "'": 39, '"': 34, "?": 63}


def _num(v):
    """CBMC prints char values as 65, 'A', '\\n', '\\'' or '\\101' depending on the value"""
    if v is None:
        return 0
    if isinstance(v, (int, float)):
        return int(v)
    s = str(v).strip()
    if len(s) >= 3 and s[0] == "'" and s[-1] == "'":
        body = s[1:-1]
        if body[0] != "\\":
            return ord(body[0])
        e = body[1:]
        if e[:1] in _ESC and len(e) == 1:
            return _ESC[e]
        if e[:1] == "x":
            return int(e[1:], 16) & 0xFF
        try:
            return int(e, 8) & 0xFF
        except ValueError:
            return ord(e[0])
    s = s.rstrip("uUlL")
    try:
        return int(s, 0)
    except ValueError:
        try:
            return int(s, 2)
        except ValueError:
            return 0


def _args_lex(inputs, o, work=None):
    import re
    n = _num(inputs.get("in_len"))
    b = {}
    whole = inputs.get("in_src")
    if isinstance(whole, dict) and isinstance(whole.get("b"), list):
        b = {i: _num(v) for i, v in enumerate(whole["b"])}
    for k, v in inputs.items():
        m = re.match(r"in_src\.b\[(\d+)l?\]$", k)
        if m:
            b[int(m.group(1))] = _num(v)
    data = bytes((b.get(i, 0x20) & 0xFF) for i in range(n))
    path = os.path.join(work or "/tmp", "cex.nano")
    with open(path, "wb") as f:
        f.write(data)
    return [path]


REPLAYERS = {
    "lex": {"args": _args_lex, "src": ["src/lexer.c"], "timeout": 10, "keep": ["cex.nano"]},
}
