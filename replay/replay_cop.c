/* Native replay for C15 / C16 counterexamples of the FFI co-process protocol.
 * Linked with the REAL cop_protocol.c, heap.c, value.c, isa.c (ASan+UBSan build).
 *
 *   replay_cop ser    <tag> <buf_size> <bits-hex64>        scalar serialise into an exact-size buffer, contract re-evaluated
 *   replay_cop dec    <buf_size> <alloc> <hexbytes>        deserialise: buffer object is <alloc> bytes (bytes beyond the hex are 0),
 *                                                          buf_size is what the callee is told; scalar tags: exact contract;
 *                                                          every tag: ret == 0 || ret <= buf_size, result walked (VAL_WF)
 *   replay_cop rt     <tag> <bits-hex64>                   scalar round trip through the real code
 *   replay_cop strser <len> <buf_size> <alloc> [hexdata]   string of <len> bytes (hexdata cycled) serialised into an <alloc>-byte object
 *   replay_cop strrt  <len> [hexdata]                      string round trip
 *   replay_cop hdr    <hexbytes> [chunk]                   cop_recv_header over a real pipe whose peer delivers the bytes (chunked) then closes
 *   replay_cop nest   <depth>                              <depth> nested one-element arrays around a void (6*depth+1 bytes): recursion depth of the deserialiser
 *   replay_cop args   <n> <len>                            C15.reqbuf: n string arguments of len bytes against the 8192-byte request buffer rule
 *
 * exit 0 = real code behaved; 1 = postcondition violated; sanitizer abort / signal = non-zero.
 */
#include <stdio.h>
#include <stdlib.h>
#include <string.h>
#include <stdint.h>
#include <unistd.h>
#include "nanovm/cop_protocol.h"
#include "spec_cop.h"
#define MINSZ(a, b) ((a) < (b) ? (a) : (b))

/* an allocation the real allocator refuses must come back as NULL (as it does without the sanitizer), not abort the replay */
const char *__asan_default_options(void) { return "allocator_may_return_null=1:detect_leaks=0"; }

static size_t unhex(const char *hx, uint8_t *dst, size_t cap)
{
    size_t n = strlen(hx) / 2, i;
    for (i = 0; i < n && i < cap; i++) { unsigned v = 0; sscanf(hx + 2 * i, "%2x", &v); dst[i] = (uint8_t)v; }
    return i;
}

static int walk(const NanoValue *v, int depth)
{
    /* touch everything a consumer of the value would touch */
    if (v->tag == TAG_STRING) {
        if (!v->as.string) { printf("POST violated: string result is NULL\n"); return 1; }
        volatile char c = 0;
        for (uint32_t i = 0; i <= v->as.string->length; i++) c ^= v->as.string->data[i];
        (void)c;
    } else if (v->tag == TAG_ARRAY) {
        if (!v->as.array) { printf("POST violated: array result is NULL\n"); return 1; }
        for (uint32_t i = 0; i < v->as.array->length; i++)
            if (depth < 64 && walk(&v->as.array->elements[i], depth + 1)) return 1;
    } else if (!COP_IS_SCALAR(v->tag)) {
        printf("POST violated: result tag 0x%02x outside the transferable set\n", v->tag); return 1;
    }
    return 0;
}

static VmString *mkstr(uint64_t len, const uint8_t *pat, size_t np)
{
    VmString *s = malloc(sizeof(VmString) + len + 1);
    if (!s) { printf("cannot allocate %llu-byte string\n", (unsigned long long)len); exit(2); }
    s->header.ref_count = 1; s->header.obj_type = TAG_STRING; s->length = (uint32_t)len; s->hash = 0;
    if (len <= (64u << 20))
        for (uint64_t i = 0; i < len; i++) s->data[i] = np ? (char)pat[i % np] : (char)('a' + i % 26);
    s->data[len] = 0;
    return s;
}

int main(int argc, char **argv)
{
    if (argc < 2) return 2;
    int bad = 0;
    VmHeap heap; vm_heap_init(&heap);

    if (!strcmp(argv[1], "ser") && argc >= 5) {
        uint8_t K = (uint8_t)strtoul(argv[2], 0, 0);
        uint32_t buf_size = (uint32_t)strtoull(argv[3], 0, 0);
        uint64_t bits = strtoull(argv[4], 0, 16);
        uint32_t img = 1 + spec_cop_paylen(K);
        NanoValue *v = calloc(1, sizeof *v); v->tag = K; memcpy(&v->as, &bits, 8);
        uint8_t *buf = malloc(MINSZ(buf_size, img));
        uint32_t r = cop_serialize_value(v, buf, buf_size);
        printf("cop_serialize_value(tag=%u, buf_size=%u) = %u\n", K, buf_size, r);
        if ((r == 0) != (buf_size < img)) { printf("POST violated: returns 0 iff buffer too small (image is %u bytes)\n", img); bad = 1; }
        if (r != 0 && !(r == img && spec_cop_scalar_image_ok(v, buf, K))) { printf("POST violated: image is not tag + little-endian payload\n"); bad = 1; }
    } else if (!strcmp(argv[1], "dec") && argc >= 5) {
        uint32_t buf_size = (uint32_t)strtoull(argv[2], 0, 0);
        size_t alloc = strtoull(argv[3], 0, 0);
        uint8_t *buf = calloc(alloc ? alloc : 1, 1);
        if (!alloc) { free(buf); buf = malloc(0); }
        unhex(argv[4], buf, alloc);
        NanoValue *out = calloc(1, sizeof *out);
        out->tag = 0xEE;
        uint32_t r = cop_deserialize_value(buf, buf_size, out, &heap);
        printf("cop_deserialize_value(buf_size=%u, first bytes %.40s) = %u\n", buf_size, argv[4], r);
        if (r > buf_size) { printf("POST violated: consumed %u > buf_size %u\n", r, buf_size); bad = 1; }
        uint8_t K = alloc ? buf[0] : 0;
        if (buf_size && COP_IS_SCALAR(K)) {
            uint32_t img = 1 + spec_cop_paylen(K);
            if ((r == 0) != (buf_size < img)) { printf("POST violated: returns 0 iff truncated\n"); bad = 1; }
            if (r != 0 && !(r == img && out->tag == K && spec_cop_bits(out, K) == spec_cop_wire_bits(buf + (img > 1), K))) {
                printf("POST violated: decoded scalar differs from the wire image\n"); bad = 1; }
        }
        if (r != 0) bad |= walk(out, 0);
    } else if (!strcmp(argv[1], "rt") && argc >= 4) {
        uint8_t K = (uint8_t)strtoul(argv[2], 0, 0);
        uint64_t bits = strtoull(argv[3], 0, 16);
        NanoValue a = {0}, b = {0}; a.tag = K; memcpy(&a.as, &bits, 8);
        uint8_t *buf = malloc(1 + spec_cop_paylen(K));
        uint32_t n = cop_serialize_value(&a, buf, 1 + spec_cop_paylen(K));
        uint32_t m = n ? cop_deserialize_value(buf, n, &b, &heap) : 0;
        printf("round trip tag=%u bits=%016llx: n=%u m=%u tag'=%u bits'=%016llx\n", K, (unsigned long long)spec_cop_bits(&a, K), n, m,
               b.tag, (unsigned long long)spec_cop_bits(&b, K));
        if (n == 0 || m != n || b.tag != K || spec_cop_bits(&a, K) != spec_cop_bits(&b, K)) { printf("POST violated: round trip mismatch\n"); bad = 1; }
    } else if (!strcmp(argv[1], "strser") && argc >= 5) {
        uint64_t len = strtoull(argv[2], 0, 0);
        uint32_t buf_size = (uint32_t)strtoull(argv[3], 0, 0);
        size_t alloc = strtoull(argv[4], 0, 0);
        uint8_t pat[64]; size_t np = argc > 5 ? unhex(argv[5], pat, sizeof pat) : 0;
        NanoValue v = {0}; v.tag = TAG_STRING; v.as.string = mkstr(len, pat, np);
        uint8_t *buf = malloc(alloc);
        uint32_t r = cop_serialize_value(&v, buf, buf_size);
        printf("cop_serialize_value(string len=%llu, buf_size=%u, object %zu bytes) = %u\n", (unsigned long long)len, buf_size, alloc, r);
        uint64_t img = 5 + len;
        if ((r == 0) != ((uint64_t)buf_size < img)) { printf("POST violated: returns 0 iff buffer too small (image is %llu bytes)\n", (unsigned long long)img); bad = 1; }
        if (r != 0 && !(r == img && buf[0] == TAG_STRING && COP_LE32(buf + 1) == len && memcmp(buf + 5, v.as.string->data, len) == 0)) {
            printf("POST violated: image is not tag + u32 length + bytes\n"); bad = 1; }
    } else if (!strcmp(argv[1], "strrt") && argc >= 3) {
        uint64_t len = strtoull(argv[2], 0, 0);
        uint8_t pat[64]; size_t np = argc > 3 ? unhex(argv[3], pat, sizeof pat) : 0;
        NanoValue a = {0}, b = {0}; a.tag = TAG_STRING; a.as.string = mkstr(len, pat, np);
        uint8_t *buf = malloc(5 + len);
        uint32_t n = cop_serialize_value(&a, buf, (uint32_t)(5 + len));
        uint32_t m = n ? cop_deserialize_value(buf, n, &b, &heap) : 0;
        printf("string round trip len=%llu: n=%u m=%u\n", (unsigned long long)len, n, m);
        if (n != 5 + len || m != n || b.tag != TAG_STRING || !b.as.string || b.as.string->length != len ||
            memcmp(b.as.string->data, a.as.string->data, len) != 0) { printf("POST violated: string round trip mismatch\n"); bad = 1; }
    } else if (!strcmp(argv[1], "hdr") && argc >= 3) {
        uint8_t bytes[64]; size_t n = unhex(argv[2], bytes, sizeof bytes);
        size_t chunk = argc > 3 ? strtoul(argv[3], 0, 0) : n;
        int fds[2]; if (pipe(fds)) return 2;
        for (size_t o = 0; o < n; o += chunk ? chunk : 1) { size_t w = MINSZ(chunk ? chunk : 1, n - o); if (write(fds[1], bytes + o, w) != (ssize_t)w) return 2; }
        close(fds[1]);
        CopMsgHeader *h = malloc(sizeof *h); memset(h, 0xEE, sizeof *h);
        bool ok = cop_recv_header(fds[0], h);
        printf("cop_recv_header(%s) = %d version=%u type=0x%02x payload_len=%u\n", argv[2], ok, h->version, h->msg_type, h->payload_len);
        if (ok && !(n >= 8 && h->version == COP_PROTO_VERSION && h->payload_len <= COP_MAX_PAYLOAD)) { printf("POST violated: accepted header is not version 1 with payload_len <= COP_MAX_PAYLOAD\n"); bad = 1; }
    } else if (!strcmp(argv[1], "nest") && argc >= 3) {
        uint32_t depth = (uint32_t)strtoul(argv[2], 0, 0);
        uint32_t n = 6 * depth + 1;
        uint8_t *buf = malloc(n);
        for (uint32_t d = 0; d < depth; d++) { uint8_t *q = buf + 6 * d; q[0] = TAG_ARRAY; q[1] = TAG_ARRAY; q[2] = 1; q[3] = q[4] = q[5] = 0; }
        buf[n - 1] = TAG_VOID;
        NanoValue *out = calloc(1, sizeof *out);
        printf("deserialising %u bytes (<= COP_MAX_PAYLOAD %u): %u nested arrays\n", n, COP_MAX_PAYLOAD, depth); fflush(stdout);
        uint32_t r = cop_deserialize_value(buf, n, out, &heap);
        printf("cop_deserialize_value = %u\n", r);
        if (r != n) { printf("POST violated: well-formed nested message not consumed\n"); bad = 1; }
    } else if (!strcmp(argv[1], "args") && argc >= 4) {
        /* the request-building rule of vm_ffi_call_cop replayed on the real serialiser: 6 header bytes + args into uint8_t payload[8192] */
        int n = atoi(argv[2]); uint64_t len = strtoull(argv[3], 0, 0);
        uint8_t *payload = malloc(8192); uint32_t pos = 6; uint64_t need = 6;
        for (int i = 0; i < n && i < 16; i++) {
            NanoValue v = {0}; v.tag = TAG_STRING; v.as.string = mkstr(len, NULL, 0);
            need += 5 + len;
            uint32_t k = cop_serialize_value(&v, payload + pos, 8192 - pos);
            if (k == 0) {
                printf("request building fails at arg %d: serialised size so far needs %llu bytes > 8192-byte request buffer; COP_MAX_PAYLOAD is %u\n",
                       i, (unsigned long long)need, COP_MAX_PAYLOAD);
                if (need <= COP_MAX_PAYLOAD) { printf("POST violated: transferable argument list within COP_MAX_PAYLOAD is refused by the isolated path only\n"); bad = 1; }
                break;
            }
            pos += k;
        }
    } else {
        return 2;
    }
    return bad;
}
