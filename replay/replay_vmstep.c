/* Native replay of one-step VM counterexamples (C08.vm, C02.vm, C13.step):
 *   replay_vmstep <mode> <opcode> <operand-hex> <nvals> { <tag> <payload-hex> <len> }*
 * Builds a module whose only function is  <opcode operands> HALT  with the real
 * builder API, initialises a real VM (vm_init + frame via the public fields),
 * pushes the given values bottom-to-top (containers are filled with `len` int
 * elements through the real constructors), runs the REAL vm_core_execute under
 * ASan/UBSan and evaluates the property named by <mode>:
 *   c08  : exits 1 if the step did NOT end in TRAP_ERROR although the index was
 *          outside [0,len) (index = top int for ARR_GET/REMOVE, 2nd for ARR_SET,
 *          u16 operand for STRUCT_GET/UNION_FIELD/TUPLE_GET/STRUCT_SET, len==0 for ARR_POP)
 *   c02  : prints the pushed result (the python side compares with the spec value)
 *   safe : only sanitizer faults / fatal signals count
 * exit 0 = behaved, non-zero = misbehaved.
 */
#include <stdio.h>
#include <stdlib.h>
#include <string.h>
#include <stdint.h>
#include "nanovm/vm.h"
#include "nanovm/heap.h"
#include "nanoisa/nvm_format.h"
#include "nanoisa/isa.h"

int g_argc = 0; char **g_argv = NULL;
/* vm.c references the FFI entry points from vm_call_function only (never reached by one core step) */
#include "nanovm/vm_ffi.h"
bool vm_ffi_call(const NvmModule *m, uint32_t i, NanoValue *a, int n, NanoValue *r, VmHeap *h, char *e, size_t es)
{ (void)m; (void)i; (void)a; (void)n; (void)r; (void)h; (void)e; (void)es; abort(); }
bool vm_ffi_call_cop(VmState *vm, const NvmModule *m, uint32_t i, NanoValue *a, int n, NanoValue *r, VmHeap *h, char *e, size_t es)
{ (void)vm; (void)m; (void)i; (void)a; (void)n; (void)r; (void)h; (void)e; (void)es; abort(); }

static NanoValue build(VmState *vm, int tag, uint64_t payload, uint32_t len)
{
    NanoValue v; memset(&v, 0, sizeof v); v.tag = (uint8_t)tag;
    if (len > 100000) len = 100000;
    switch (tag) {
    case TAG_ARRAY: {
        VmArray *a = vm_array_new(&vm->heap, TAG_INT, len);
        for (uint32_t i = 0; i < len; i++) vm_array_push(a, val_int(1000 + i));
        v.as.array = a; break; }
    case TAG_STRUCT: {
        VmStruct *s = vm_struct_new(&vm->heap, 0, len);
        for (uint32_t i = 0; i < len; i++) s->fields[i] = val_int(1000 + i);
        v.as.sval = s; break; }
    case TAG_UNION: {
        VmUnion *u = vm_union_new(&vm->heap, 0, 0, (uint16_t)len);
        for (uint32_t i = 0; i < (uint16_t)len; i++) u->fields[i] = val_int(1000 + i);
        v.as.uval = u; break; }
    case TAG_TUPLE: {
        VmTuple *t = vm_tuple_new(&vm->heap, len);
        for (uint32_t i = 0; i < len; i++) t->elements[i] = val_int(1000 + i);
        v.as.tuple = t; break; }
    case TAG_STRING: v.as.string = vm_string_new(&vm->heap, "abc", len > 3 ? 3 : len); break;
    default: memcpy(&v.as, &payload, 8); break;
    }
    return v;
}

int main(int argc, char **argv)
{
    if (argc < 5) return 2;
    const char *mode = argv[1];
    uint8_t op = (uint8_t)strtoul(argv[2], 0, 0);
    const char *hx = argv[3];
    int nvals = atoi(argv[4]);
    uint8_t code[40]; memset(code, OP_HALT, sizeof code);
    code[0] = op;
    size_t nb = strlen(hx) / 2;
    for (size_t j = 0; j < nb && j < 12; j++) { unsigned b; sscanf(hx + 2 * j, "%2x", &b); code[1 + j] = (uint8_t)b; }
    const InstructionInfo *info = isa_get_info(op);
    if (!info) { printf("undefined opcode\n"); return 0; }
    uint32_t ilen = 1; for (int i = 0; i < info->operand_count; i++) ilen += isa_operand_size(info->operands[i]);

    NvmModule *m = nvm_module_new();
    uint32_t name = nvm_add_string(m, "main", 4);
    nvm_append_code(m, code, ilen + 1);           /* instruction + HALT */
    NvmFunctionEntry fe = { .name_idx = name, .arity = 0, .code_offset = 0, .code_length = ilen + 1, .local_count = 0, .upvalue_count = 0 };
    nvm_add_function(m, &fe);
    m->header.flags = NVM_FLAG_HAS_MAIN; m->header.entry_point = 0;

    VmState *vm = calloc(1, sizeof *vm);
    vm_init(vm, m);
    vm->frame_count = 1; vm->frames[0].fn_idx = 0; vm->frames[0].stack_base = 0; vm->frames[0].local_count = 0;
    vm->frames[0].module = m; vm->current_fn = 0; vm->ip = 0;

    int tags[3] = {0, 0, 0}; uint64_t pay[3] = {0, 0, 0}; uint32_t lens[3] = {0, 0, 0};
    for (int i = 0; i < nvals && i < 3; i++) {
        tags[i] = atoi(argv[5 + 3 * i]); pay[i] = strtoull(argv[6 + 3 * i], 0, 16); lens[i] = (uint32_t)strtoul(argv[7 + 3 * i], 0, 0);
        vm->stack[vm->stack_size++] = build(vm, tags[i], pay[i], lens[i]);   /* bottom to top */
    }
    uint32_t ss0 = vm->stack_size;
    VmTrap t = vm_core_execute(vm);
    printf("trap=%d err=%d stack_size %u -> %u", (int)t.type, t.type == TRAP_ERROR ? (int)t.data.error.code : 0, ss0, vm->stack_size);
    if (vm->stack_size) { NanoValue r = vm->stack[vm->stack_size - 1]; printf(" top.tag=%u top.i64=%lld", r.tag, (long long)r.as.i64); }
    printf("\n");
    int bad = 0;
    if (!strcmp(mode, "c08")) {
        int64_t idx = 0; uint32_t len = 0; int top = nvals - 1;
        uint16_t opnd = (uint16_t)(code[1] | (code[2] << 8));
        if (op == OP_ARR_GET || op == OP_ARR_REMOVE) { idx = (int64_t)pay[top]; len = lens[top - 1]; }
        else if (op == OP_ARR_SET) { idx = (int64_t)pay[top - 1]; len = lens[top - 2]; }
        else if (op == OP_ARR_POP) { idx = 0; len = lens[top]; }
        else if (op == OP_STRUCT_SET) { idx = opnd; len = lens[top - 1]; }
        else { idx = opnd; len = lens[top]; }
        int oob = idx < 0 || idx >= (int64_t)len;
        if (oob && t.type != TRAP_ERROR) { printf("C08 VIOLATED natively: index %lld outside [0,%u) but the step did not end in an error trap\n", (long long)idx, len); bad = 1; }
        if (!oob && t.type == TRAP_ERROR) { printf("in-range access failed\n"); bad = 1; }
    }
    return bad;
}
