/* Native replay for lexer counterexamples (C09.lex.*):
 *   replay_lex <file>
 * feeds the bytes of <file> (plus a terminating NUL, exactly as the drivers do: malloc(size+1),
 * fread, buf[size] = 0) to the REAL tokenize() built with ASan+UBSan.  The buffer is an exact-size
 * heap block so that ASan sees every read beyond the terminator.  Independent post-checks on the
 * result: non-NULL => count >= 1, count <= size+1, last token is EOF with NULL value, every token has
 * line >= 1 and column >= 1; then free_tokens().  exit 0 = behaved; non-zero = misbehaved (sanitizer
 * report, post-check failure).  Non-termination: the python side kills after 10 s and reports rc != 0;
 * an in-process alarm(10) does the same when the binary is run by hand. */
#include <stdio.h>
#include <stdlib.h>
#include <string.h>
#include <signal.h>
#include <unistd.h>
#include "nanolang.h"

/* globals the runtime expects from a driver */
int g_argc = 0;
char **g_argv = NULL;

static void on_alarm(int sig) { (void)sig; static const char m[] = "TIMEOUT: tokenize did not return within 10 s\n"; if (write(2, m, sizeof m - 1)) {} _exit(124); }

int main(int argc, char **argv)
{
    if (argc < 2) return 2;
    FILE *f = fopen(argv[1], "rb"); if (!f) { perror("open"); return 2; }
    fseek(f, 0, SEEK_END); long n = ftell(f); fseek(f, 0, SEEK_SET);
    if (n < 0) return 2;
    char *buf = malloc((size_t)n + 1);
    if (!buf) return 2;
    if (fread(buf, 1, (size_t)n, f) != (size_t)n) return 2;
    buf[n] = '\0';
    fclose(f);
    signal(SIGALRM, on_alarm);
    alarm(10);
    int count = -12345;
    Token *t = tokenize(buf, &count);
    alarm(0);
    int bad = 0;
    if (!t) {
        printf("tokenize(size=%ld) = NULL\n", n);
    } else {
        printf("tokenize(size=%ld) = %d tokens\n", n, count);
        if (count < 1 || (long)count > n + 1) { printf("POST violated: token count %d outside 1..size+1\n", count); bad = 1; }
        else {
            if (t[count - 1].token_type != TOKEN_EOF || t[count - 1].value != NULL) { printf("POST violated: last token is not EOF\n"); bad = 1; }
            for (int i = 0; i < count; i++) {
                if (t[i].line < 1 || t[i].column < 1) { printf("POST violated: token %d has line %d column %d\n", i, t[i].line, t[i].column); bad = 1; break; }
                if (t[i].token_type < TOKEN_EOF || t[i].token_type > TOKEN_RESOURCE) { printf("POST violated: token %d has type %d\n", i, t[i].token_type); bad = 1; break; }
            }
            free_tokens(t, count);
        }
    }
    free(buf);
    return bad;
}
