/* Native replay of reference-count scenarios of C14.step.* :
 *   replay_rc <scenario>
 * Each scenario builds a VM state with the REAL constructors (vm_string_new, vm_array_new, vm_array_push ...), runs ONE
 * instruction with the real vm_core_execute (module built as in replay_vmstep.c), and then compares, for the object of
 * interest, the change of its reference count with the change of the number of references to it that the state holds
 * (stack slots + container elements + trap value):
 *     excess = ref_count - references;   exit 1 if excess changed (printed: LEAK if it grew, LOST COUNT if it shrank).
 * Afterwards everything the state still references is released and the VM destroyed: built with
 * -fsanitize=address and run with ASAN_OPTIONS=detect_leaks=1, a grown excess also shows as a LeakSanitizer report
 * (the object is unreachable but was never freed); a shrunk one as a heap-use-after-free.
 * Scenarios:
 *   arr_remove        [ "leaf" ] 0 ARR_REMOVE          the removed element's count is not released  (expected: LEAK)
 *   arr_remove_arr    [ [] ] 0 ARR_REMOVE              the same with an array as element: vm_heap_destroy force-frees the
 *                                                      interned STRINGS whatever their count, so only a non-string
 *                                                      leak is visible to LeakSanitizer at exit
 *   arr_get_heapidx   [ 1 ] "idx" ARR_GET              a heap value as index operand is popped and not released (LEAK)
 *   arr_set_heapidx   [ 1 ] "idx" 2 ARR_SET            the same for ARR_SET (LEAK)
 *   gc_retain         "s" GC_RETAIN                    manual retain: the excess grows by design (LEAK unless paired)
 *   arr_set           [ "old" ] 0 "new" ARR_SET        control: conserved (exit 0)
 *   arr_get           [ "leaf" ] 0 ARR_GET             control: conserved (exit 0)
 *   dup               "s" DUP                          control: conserved (exit 0)
 */
#include <stdio.h>
#include <stdlib.h>
#include <string.h>
#include <stdint.h>
#include "nanovm/vm.h"
#include "nanovm/heap.h"
#include "nanoisa/nvm_format.h"
#include "nanoisa/isa.h"

int g_argc = 0; char **g_argv = NULL;
#include "nanovm/vm_ffi.h"
bool vm_ffi_call(const NvmModule *m, uint32_t i, NanoValue *a, int n, NanoValue *r, VmHeap *h, char *e, size_t es)
{ (void)m; (void)i; (void)a; (void)n; (void)r; (void)h; (void)e; (void)es; abort(); }
bool vm_ffi_call_cop(VmState *vm, const NvmModule *m, uint32_t i, NanoValue *a, int n, NanoValue *r, VmHeap *h, char *e, size_t es)
{ (void)vm; (void)m; (void)i; (void)a; (void)n; (void)r; (void)h; (void)e; (void)es; abort(); }

static int is_ref(NanoValue v, void *o) { return (val_is_heap_obj(v) || v.tag == TAG_FUNCTION) && v.as.obj == o; }

/* references to o held by the state: every stack slot, and the elements of every array found in a stack slot */
static unsigned refs(VmState *vm, void *o)
{
    unsigned n = 0;
    for (uint32_t i = 0; i < vm->stack_size; i++) {
        NanoValue v = vm->stack[i];
        n += is_ref(v, o);
        if (v.tag == TAG_ARRAY && v.as.array)
            for (uint32_t k = 0; k < v.as.array->length; k++) n += is_ref(v.as.array->elements[k], o);
    }
    return n;
}

int main(int argc, char **argv)
{
    if (argc < 2) return 2;
    const char *sc = argv[1];
    uint8_t op = 0;
    if (!strcmp(sc, "arr_remove") || !strcmp(sc, "arr_remove_arr")) op = OP_ARR_REMOVE;
    else if (!strcmp(sc, "arr_get") || !strcmp(sc, "arr_get_heapidx")) op = OP_ARR_GET;
    else if (!strcmp(sc, "arr_set") || !strcmp(sc, "arr_set_heapidx")) op = OP_ARR_SET;
    else if (!strcmp(sc, "gc_retain")) op = OP_GC_RETAIN;
    else if (!strcmp(sc, "dup")) op = OP_DUP;
    else return 2;

    uint8_t code[2] = { op, OP_HALT };
    NvmModule *m = nvm_module_new();
    uint32_t name = nvm_add_string(m, "main", 4);
    nvm_append_code(m, code, 2);
    NvmFunctionEntry fe = { .name_idx = name, .arity = 0, .code_offset = 0, .code_length = 2, .local_count = 0, .upvalue_count = 0 };
    nvm_add_function(m, &fe);
    m->header.flags = NVM_FLAG_HAS_MAIN; m->header.entry_point = 0;

    VmState *vm = calloc(1, sizeof *vm);
    vm_init(vm, m);
    vm->frame_count = 1; vm->frames[0].fn_idx = 0; vm->frames[0].stack_base = 0; vm->frames[0].local_count = 0;
    vm->frames[0].module = m; vm->current_fn = 0; vm->ip = 0;
    VmHeap *h = &vm->heap;
#define PUSH(v) (vm->stack[vm->stack_size++] = (v))

    void *obj = NULL;      /* the object of interest */
    if (!strcmp(sc, "arr_remove") || !strcmp(sc, "arr_get")) {
        VmString *s = vm_string_new(h, "leaf", 4);            /* count 1: ours */
        VmArray *a = vm_array_new(h, TAG_STRING, 8);
        vm_array_push(a, val_string(s));                      /* count 2 */
        vm_release(h, val_string(s));                         /* count 1: the array's */
        PUSH(val_array(a)); PUSH(val_int(0));
        obj = s;
    } else if (!strcmp(sc, "arr_remove_arr")) {
        VmArray *in = vm_array_new(h, TAG_INT, 8);             /* count 1: ours */
        VmArray *a = vm_array_new(h, TAG_ARRAY, 8);
        vm_array_push(a, val_array(in));                       /* count 2 */
        vm_release(h, val_array(in));                          /* count 1: the outer array's */
        PUSH(val_array(a)); PUSH(val_int(0));
        obj = in;
    } else if (!strcmp(sc, "arr_get_heapidx") || !strcmp(sc, "arr_set_heapidx")) {
        VmArray *a = vm_array_new(h, TAG_INT, 8);
        vm_array_push(a, val_int(1));
        VmString *s = vm_string_new(h, "idx", 3);             /* count 1: the stack slot's */
        PUSH(val_array(a)); PUSH(val_string(s));
        if (op == OP_ARR_SET) PUSH(val_int(2));
        obj = s;
    } else if (!strcmp(sc, "arr_set")) {
        VmString *o = vm_string_new(h, "old", 3);
        VmArray *a = vm_array_new(h, TAG_STRING, 8);
        vm_array_push(a, val_string(o)); vm_release(h, val_string(o));
        VmString *n = vm_string_new(h, "new", 3);
        PUSH(val_array(a)); PUSH(val_int(0)); PUSH(val_string(n));
        obj = n;
    } else {   /* gc_retain, dup */
        VmString *s = vm_string_new(h, "s", 1);
        PUSH(val_string(s));
        obj = s;
    }

    uint32_t rc0 = ((VmHeapHeader *)obj)->ref_count; unsigned in0 = refs(vm, obj);
    VmTrap t = vm_core_execute(vm);
    uint32_t rc1 = ((VmHeapHeader *)obj)->ref_count; unsigned in1 = refs(vm, obj);   /* a use-after-free here is the LOST COUNT case */
    long e0 = (long)rc0 - (long)in0, e1 = (long)rc1 - (long)in1;
    printf("%s: trap=%d  ref_count %u -> %u  references %u -> %u  excess %ld -> %ld  %s\n", sc, (int)t.type, rc0, rc1, in0, in1, e0, e1,
           e1 > e0 ? "LEAK (reference dropped without release)" : e1 < e0 ? "LOST COUNT (count dropped, reference kept)" : "conserved");
    fflush(stdout);
    /* let go of everything the state references; what is still allocated afterwards is LeakSanitizer's to report */
    vm_destroy(vm);
    free(vm);
    nvm_module_free(m);
    return e1 != e0;
}
