"""Replayers of the gate / exit unit (loaded by replay_native._load_unit_replayers)."""


def _num(v):
    if v is None:
        return 0
    s = str(v).strip().rstrip("uUlL")
    try:
        return int(s, 0)
    except ValueError:
        return 0


def _args_exit_vm(inputs, o, work=None):
    r = _num(inputs.get("in_vm_r"))
    tag = _num(inputs.get("in_top_tag")) & 0xFF
    v = _num(inputs.get("in_top_i64"))
    if v >= 1 << 63:
        v -= 1 << 64
    if r >= 1 << 31:
        r -= 1 << 32
    return [str(r), str(tag), str(v)]


REPLAYERS = {"exit_vm": {"args": _args_exit_vm, "src": [], "timeout": 20}}
