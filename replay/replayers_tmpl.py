"""Replayer registration for the template catalogue (auto-loaded by replay_native._load_unit_replayers).

The counterexample CBMC found for an obligation of harness/tmpl_h.c is replayed on the REAL generated function of the tree under
check: gen/<name>.c of the witness build (cut at check time by tools/extract_tmpl.py) is compiled into a small case program
(replay/replay_tmpl.c -DTMPL_CASE) with the compiler and dialect flags the real driver printed for the template + UBSan, linked
with the real runtime for accessor templates, and run on the witness values by the launcher replay_tmpl.
"""
import json, os, subprocess

VERIF = os.path.dirname(os.path.dirname(os.path.abspath(__file__)))

# name -> (shape, spec expression as a C macro body over a, b)
OPS = {
    "addi": (1, "spec_add(a,b)"), "subi": (1, "spec_sub(a,b)"), "muli": (1, "spec_mul(a,b)"), "divi": (1, "spec_div_vm(a,b)"),
    "modi": (1, "spec_mod_vm(a,b)"), "negi": (2, "spec_neg(a)"),
    "eqi": (3, "((a)==(b))"), "nei": (3, "((a)!=(b))"), "lti": (3, "((a)<(b))"), "lei": (3, "((a)<=(b))"), "gti": (3, "((a)>(b))"),
    "gei": (3, "((a)>=(b))"), "andb": (4, "((a)&&(b))"), "orb": (4, "((a)||(b))"), "notb": (5, "(!(a))"),
}
OPS.update({
    "streq": (6, "1"), "strne": (6, "0"),      # spec macro body = which truth value content-equal strings must give
    "addf": (7, "((a)+(b))"), "subf": (7, "((a)-(b))"), "mulf": (7, "((a)*(b))"), "divf": (7, "((a)/(b))"),
    "eqf": (8, "((a)==(b))"), "nef": (8, "((a)!=(b))"), "ltf": (8, "((a)<(b))"), "lef": (8, "((a)<=(b))"), "gtf": (8, "((a)>(b))"),
    "gef": (8, "((a)>=(b))"),
})
ACC = {   # name -> (shape, ElementType, value expression for set)
    "at_int": (10, 1, "0"), "at_float": (10, 2, "0"), "at_string": (10, 3, "0"), "at_bool": (10, 4, "0"),
    "set_int": (11, 1, "7"), "set_float": (11, 2, "7.0"), "set_string": (11, 3, '"seven"'),
    "pop_int": (12, 1, "0"), "pop_float": (12, 2, "0"), "pop_string": (12, 3, "0"),
    "len_int": (13, 1, "0"), "remove_int": (14, 1, "0"),
}
RUNTIME = ["src/runtime/dyn_array.c", "src/runtime/gc.c", "src/runtime/gc_struct.c"]


def _num(v):
    if v is None:
        return 0
    if isinstance(v, (int, float)):
        return int(v)
    s = str(v).strip().rstrip("uUlL")
    try:
        return int(s, 0)
    except ValueError:
        return 0


def _args_tmpl(inputs, o, work=None):
    d = o.get("defines") or {}
    name = str(d.get("VERIF_TMPL"))
    mode = int(d.get("VERIF_MODE", 0))
    try:
        env = json.load(open(os.path.join(work, "gen", "tmpl_env.json")))
    except Exception as e:
        return ["--build-failed", "no gen/tmpl_env.json in the witness build: %r" % e]
    repo = env["repo"]
    dialect = [f for f in env["flags"] if f.startswith(("-std", "-f", "-O", "-m")) or f == "-D_GNU_SOURCE"]
    san = ["-g", "-fsanitize=undefined", "-fno-sanitize-recover=undefined"]
    if mode != 2:
        san.append("-fno-sanitize=signed-integer-overflow")     # value modes compare against the wrapping spec; overflow itself is the ub mode
    defs = ["-DTMPL_CASE=1", "-DVERIF_TMPL=" + name]
    srcs = []
    if name in OPS:
        shape, spec = OPS[name]
        defs += ["-DTMPL_SHAPE=%d" % shape, ("-DTMPL_SPEC1(a)=" if shape in (2, 5) else "-DTMPL_SPEC2(a,b)=") + spec]
    elif name in ACC:
        shape, et, val = ACC[name]
        defs += ["-DTMPL_SHAPE=%d" % shape, "-DTMPL_ELEM=%d" % et, "-DTMPL_VALUE=" + val]
        srcs = [os.path.join(repo, s) for s in RUNTIME]
    else:
        return ["--build-failed", "template %s not in the replayer's table" % name]
    case = os.path.join(work, "tmpl_case_" + name)
    cmd = [env["cc"]] + dialect + san + defs + ["-I" + os.path.join(work, "gen"), "-I" + os.path.join(repo, "src"),
           "-I" + os.path.join(VERIF, "contracts"), os.path.join(VERIF, "replay", "replay_tmpl.c")] + srcs + ["-o", case, "-lm"]
    p = subprocess.run(cmd, stdout=subprocess.PIPE, stderr=subprocess.STDOUT, text=True, errors="replace")
    if p.returncode != 0:
        return ["--build-failed", (" ".join(cmd) + " :: " + p.stdout[-600:]).replace("\n", " | ")]
    g = lambda k: str(_num(inputs.get(k)))

    def hexstr(base):       # in_sa.b[3l] style element assignments (or a whole-struct value) -> hex of the buffer
        import re
        out = {}
        whole = inputs.get(base)
        if isinstance(whole, dict) and isinstance(whole.get("b"), list):
            out = {i: _num(v) for i, v in enumerate(whole["b"])}
        for k, v in inputs.items():
            m = re.match(re.escape(base) + r"\.b\[(\d+)l?\]$", k)
            if m:
                out[int(m.group(1))] = _num(v)
        return "".join("%02x" % (out.get(i, 0) & 0xFF) for i in range(4)) + "00"
    return [case, str(mode), g("in_a"), g("in_b"), g("in_i"), hexstr("in_sa"), hexstr("in_sb")]


REPLAYERS = {"tmpl": {"args": _args_tmpl, "src": [], "timeout": 60}}
