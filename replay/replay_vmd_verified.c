/* Native replay for C18.verified (the daemon runs modules it has not verified).
 *   replay_vmd_verified
 * The REAL client_thread (src/nanovm/vmd_server.c, included verbatim: it is static) serves one LOAD_EXEC request over a
 * socketpair; the REAL vmd_protocol.c, nvm_format.c, verifier.c, isa.c, vm.c, heap.c, value.c are linked (ASan+UBSan).
 * The request carries a module that the real nvm_deserialize accepts and the real nvm_verify REJECTS (the code range of
 * `main` exceeds the code section).  vm_execute is interposed (-Wl,--wrap): if it is reached with a module for which
 * nvm_verify says "not ok" the replay reports it, lets the real vm_execute run (sanitizer report = what the daemon
 * process would do) and exits non-zero.  exit 0 = the daemon refused to run the module. */
#define _GNU_SOURCE
#include "nanovm/vmd_server.c"
#include "nanoisa/verifier.h"
#include "nanoisa/isa.h"
#include <sys/socket.h>

/* the FFI layer is not part of this replay (the module has no imports) */
bool vm_ffi_call(const NvmModule *m, uint32_t i, NanoValue *a, int n, NanoValue *r, VmHeap *h, char *e, size_t es)
{ (void)m; (void)i; (void)a; (void)n; (void)r; (void)h; (void)e; (void)es; return false; }
bool vm_ffi_call_cop(VmState *vm, const NvmModule *m, uint32_t i, NanoValue *a, int n, NanoValue *r, VmHeap *h, char *e, size_t es)
{ (void)vm; (void)m; (void)i; (void)a; (void)n; (void)r; (void)h; (void)e; (void)es; return false; }
void vm_ffi_cop_stop(VmState *vm) { (void)vm; }

static int executed_unverified;
VmResult __real_vm_execute(VmState *vm);
VmResult __wrap_vm_execute(VmState *vm)
{
    NvmVerifyResult vr = nvm_verify(vm->module);
    if (!vr.ok) {
        executed_unverified = 1;
        printf("MISBEHAVED: vm_execute reached (vmd_server.c client_thread) with a module the verifier rejects: %s\n", vr.error_msg);
        fflush(stdout);
    }
    return __real_vm_execute(vm);
}

int main(void)
{
    setvbuf(stdout, NULL, _IONBF, 0);
    NvmModule *m = nvm_module_new();
    uint8_t code[] = { OP_NOP, OP_NOP };
    uint32_t off = nvm_append_code(m, code, sizeof code);
    uint32_t nm = nvm_add_string(m, "main", 4);
    NvmFunctionEntry fe; memset(&fe, 0, sizeof fe);
    fe.name_idx = nm; fe.code_offset = off; fe.code_length = 100000;      /* far beyond the 2-byte code section */
    uint32_t fi = nvm_add_function(m, &fe);
    m->header.entry_point = fi; m->header.flags |= NVM_FLAG_HAS_MAIN;
    uint32_t n = 0; uint8_t *blob = nvm_serialize(m, &n);
    NvmModule *back = blob ? nvm_deserialize(blob, n) : NULL;
    if (!back) { printf("setup: the hostile module does not load (nothing to replay)\n"); return 0; }
    NvmVerifyResult vr = nvm_verify(back);
    printf("setup: %u-byte module: nvm_deserialize accepts, nvm_verify %s (%s)\n", n, vr.ok ? "accepts" : "REJECTS", vr.error_msg);
    if (vr.ok) return 0;
    nvm_module_free(back);

    int sv[2];
    if (socketpair(AF_UNIX, SOCK_STREAM, 0, sv) != 0) return 0;
    vmd_msg_send(sv[0], VMD_MSG_LOAD_EXEC, blob, n);
    ClientCtx *ctx = malloc(sizeof *ctx); ctx->client_fd = sv[1]; ctx->verbose = false;
    client_thread(ctx);
    VmdMsgHeader h;
    while (vmd_msg_recv_header(sv[0], &h)) {
        char buf[600] = {0};
        if (h.payload_len && h.payload_len < sizeof buf) vmd_msg_recv_payload(sv[0], buf, h.payload_len);
        printf("reply: type=0x%02x len=%u %s\n", h.msg_type, h.payload_len, h.msg_type == VMD_MSG_ERROR ? buf : "");
        if (h.msg_type == VMD_MSG_EXIT_CODE || h.msg_type == VMD_MSG_ERROR) { if (h.msg_type == VMD_MSG_EXIT_CODE) break; }
    }
    printf(executed_unverified ? "RESULT: the daemon executed an unverified module\n" : "RESULT: the daemon did not execute the rejected module\n");
    return executed_unverified ? 1 : 0;
}
