"""Replayer of the daemon unit (C18; loaded by replay_native._load_unit_replayers).
vmd_verified: the failing fact of C18.verified does not depend on the client's bytes beyond "a module that loads":
the replay sends one fixed module that the real nvm_verify rejects to the real client_thread."""


def _args_vmd_verified(inputs, o, work=None):
    return []


REPLAYERS = {"vmd_verified": {"args": _args_vmd_verified, "timeout": 30,
                              "src": ["src/nanovm/vmd_protocol.c", "src/nanovm/vm.c", "src/nanovm/heap.c", "src/nanovm/value.c",
                                      "src/nanoisa/nvm_format.c", "src/nanoisa/verifier.c", "src/nanoisa/isa.c"],
                              "flags": ["-Wl,--wrap=vm_execute", "-lpthread", "-w"]}}
