/* Native replay for C11 counterexamples: runs the REAL isa_encode/isa_decode
 * (isa.c included verbatim, built with ASan+UBSan) on the inputs CBMC found and
 * re-evaluates the contract's postcondition with the same spec functions.
 * usage: replay_isa enc K buf_size op0 op1 op2 op3      (operands as hex u64 bit patterns)
 *        replay_isa dec K buf_size hexbytes
 * exit 0 = contract held natively; 1 = postcondition violated; ASan/UBSan abort = non-zero.
 */
#include <stdio.h>
#include <stdlib.h>
#include <string.h>
#include <stdint.h>
#include "nanoisa/isa.h"
static const InstructionInfo instruction_table[256];
#include "spec_isa.h"
#include "nanoisa/isa.c"
#define MINSZ(a, b) ((a) < (b) ? (a) : (b))

int main(int argc, char **argv)
{
    if (argc < 4) return 2;
    uint8_t K = (uint8_t)strtoul(argv[2], 0, 0);
    size_t buf_size = strtoull(argv[3], 0, 0);
    size_t n = MINSZ(buf_size, (size_t)spec_len(K));
    int bad = 0;
    if (!strcmp(argv[1], "enc")) {
        DecodedInstruction *d = calloc(1, sizeof *d);
        d->opcode = K;
        for (int i = 0; i < 4 && 4 + i < argc; i++) { uint64_t v = strtoull(argv[4 + i], 0, 16); memcpy(&d->operands[i], &v, 8); }
        uint8_t *buf = malloc(n ? n : 1);
        if (!n) { free(buf); buf = malloc(0); }
        uint32_t r = isa_encode(d, buf, buf_size);
        int exp0 = !SPEC_DEFINED(K) || buf_size < spec_len(K);
        if ((r == 0) != exp0) { printf("POST1 violated: r=%u expected-zero=%d\n", r, exp0); bad = 1; }
        if (r != 0 && !(r == spec_len(K) && spec_image_ok(d, buf, K))) { printf("POST2 violated: r=%u len=%u\n", r, spec_len(K)); bad = 1; }
        printf("isa_encode(K=%u, buf_size=%zu) = %u\n", K, buf_size, r);
    } else {
        uint8_t *buf = malloc(n ? n : 1);
        const char *hx = argc > 4 ? argv[4] : "";
        for (size_t j = 0; j < n; j++) { unsigned v = 0; if (strlen(hx) >= 2 * j + 2) sscanf(hx + 2 * j, "%2x", &v); buf[j] = (uint8_t)v; }
        if (n) buf[0] = K;
        DecodedInstruction *out = malloc(sizeof *out);
        uint32_t r = isa_decode(buf, buf_size, out);
        int exp0 = buf_size == 0 || !SPEC_DEFINED(K) || buf_size < spec_len(K);
        if ((r == 0) != exp0) { printf("POST1 violated: r=%u expected-zero=%d\n", r, exp0); bad = 1; }
        if (r != 0 && !(r == spec_len(K) && spec_decoded_ok(out, buf, K))) { printf("POST2 violated: r=%u len=%u\n", r, spec_len(K)); bad = 1; }
        printf("isa_decode(K=%u, buf_size=%zu) = %u\n", K, buf_size, r);
    }
    return bad;
}
