/* Native replay for loader/verifier counterexamples (C12, C13):
 *   replay_loader <file> [--fix-crc]
 * feeds the bytes to the REAL nvm_deserialize -> nvm_verify (ASan+UBSan build of
 * nvm_format.c, verifier.c, isa.c).  With --fix-crc the stored checksum is
 * recomputed first (the proof abstracts the checksum value; the hostile-input
 * model of C13 includes "checksum recomputed").  Independent post-checks are
 * evaluated on an accepted module.  exit 0 = behaved; non-zero = misbehaved
 * (sanitizer report, post-check failure; the python side adds a 20 s timeout
 * for non-termination). */
#include <stdio.h>
#include <stdlib.h>
#include <string.h>
#include <stdint.h>
#include "nanoisa/nvm_format.h"
#include "nanoisa/verifier.h"

static uint32_t le32(const uint8_t *p) { return p[0] | (p[1] << 8) | (p[2] << 16) | ((uint32_t)p[3] << 24); }

int main(int argc, char **argv)
{
    if (argc < 2) return 2;
    FILE *f = fopen(argv[1], "rb"); if (!f) return 2;
    fseek(f, 0, SEEK_END); long n = ftell(f); fseek(f, 0, SEEK_SET);
    uint8_t *d = malloc(n ? n : 1);
    if (fread(d, 1, n, f) != (size_t)n) return 2;
    fclose(f);
    if (argc > 2 && !strcmp(argv[2], "--fix-crc") && n >= 32) {
        uint32_t c = nvm_crc32(d + 32, (uint32_t)n - 32);
        d[28] = c; d[29] = c >> 8; d[30] = c >> 16; d[31] = c >> 24;
    }
    /* exact-size heap copy so that ASan sees every out-of-bounds read */
    uint8_t *e = malloc(n ? n : 1); memcpy(e, d, n); free(d);
    NvmModule *m = nvm_deserialize(e, (uint32_t)n);
    printf("nvm_deserialize(size=%ld) = %s\n", n, m ? "module" : "NULL");
    int bad = 0;
    if (m) {
        uint32_t sc = le32(e + 16);
        for (uint32_t j = 0; j < sc && j < 16; j++) {
            uint64_t off = le32(e + 32 + 12 * j + 4), sz = le32(e + 32 + 12 * j + 8);
            if (off + sz > (uint64_t)n) { printf("POST violated: accepted file has directory entry %u outside the file (off=%llu size=%llu file=%ld)\n", j, (unsigned long long)off, (unsigned long long)sz, n); bad = 1; }
        }
        NvmVerifyResult vr = nvm_verify(m);
        printf("nvm_verify = %s %s\n", vr.ok ? "ok" : "rejected", vr.error_msg);
        if (vr.ok) {
            for (uint32_t i = 0; i < m->function_count; i++) {
                uint64_t o = m->functions[i].code_offset, l = m->functions[i].code_length;
                if (o + l > m->code_size) { printf("POST violated: verified function %u code range [%llu,+%llu) outside code_size %u\n", i, (unsigned long long)o, (unsigned long long)l, m->code_size); bad = 1; }
            }
        }
        nvm_module_free(m);
    }
    free(e);
    return bad;
}
