/* Native replayer for the interpreter unit (C03.int.*, C03.assert, C08.int.*): the REAL src/eval.c (included verbatim, so
 * that its static functions can be called) linked with the real compiler sources (replay/replayers_evalops.py lists
 * them), built with ASan+UBSan.  The call runs in a forked child; the parent classifies how the child ended.
 *   replay_evalops op <EOP> <a> <b> <ba> <bb>
 *   replay_evalops assert <ba> <shadow> <fail0> <first_line0> <first_col0> <line> <col>
 *   replay_evalops acc <ACC> <AK> <ELEM> <idx> <len> <cap>
 * exit status: 0 = the real code behaved as the obligation demands; non-zero = it misbehaved (message says how).
 */
#include "eval.c"
#include "spec_int.h"
#include <sys/wait.h>
#include <unistd.h>
#include <signal.h>
#include <stdint.h>

int g_argc; char **g_argv;      /* defined in main.c of the compiler, referenced by runtime/cli.c */
const char *__asan_default_options(void) { return "exitcode=99:detect_leaks=0"; }
const char *__ubsan_default_options(void) { return "exitcode=99"; }

#define RET_OK 77              /* the call returned and every postcondition holds (distinct from an exit(0) of the interpreter) */
#define RET_BAD 42              /* the call returned and a postcondition is false */
#define SAY(...) do { fprintf(stderr, "replay_evalops: " __VA_ARGS__); fputc('\n', stderr); fflush(stderr); } while (0)

static ASTNode leaf0, leaf1, opnode, astmt;
static ASTNode *args2[2] = { &leaf0, &leaf1 };

static int plain(Value v) { return !v.is_return && !v.is_break && !v.is_continue; }

static int child_op(int eop, long long a, long long b, int ba, int bb)
{
    static const TokenType tok[] = { 0, TOKEN_PLUS, TOKEN_MINUS, TOKEN_STAR, TOKEN_SLASH, TOKEN_PERCENT, TOKEN_MINUS, TOKEN_EQ, TOKEN_NE,
                                     TOKEN_LT, TOKEN_LE, TOKEN_GT, TOKEN_GE, TOKEN_AND, TOKEN_OR, TOKEN_NOT };
    int logic = eop >= 13, unary = (eop == 6 || eop == 15);
    if (logic) { leaf0.type = AST_BOOL; leaf0.as.bool_val = ba; leaf1.type = AST_BOOL; leaf1.as.bool_val = bb; }
    else { leaf0.type = AST_NUMBER; leaf0.as.number = a; leaf1.type = AST_NUMBER; leaf1.as.number = b; }
    opnode.type = AST_PREFIX_OP; opnode.as.prefix_op.op = tok[eop]; opnode.as.prefix_op.args = args2;
    opnode.as.prefix_op.arg_count = unary ? 1 : 2;
    Value r = eval_expression(&opnode, NULL);
    if ((eop == 4 || eop == 5) && b == 0) { SAY("division/modulo by zero RETURNED a value of type %d (demanded: the run ends)", (int)r.type); return RET_BAD; }
    long long want = 0; int want_bool = 0, is_bool = eop >= 7;
    switch (eop) {
    case 1: want = spec_add(a, b); break;   case 2: want = spec_sub(a, b); break;   case 3: want = spec_mul(a, b); break;
    case 4: want = spec_div_vm(a, b); break; case 5: want = spec_mod_vm(a, b); break; case 6: want = spec_neg(a); break;
    case 7: want_bool = a == b; break;  case 8: want_bool = a != b; break;  case 9: want_bool = a < b; break;
    case 10: want_bool = a <= b; break; case 11: want_bool = a > b; break;  case 12: want_bool = a >= b; break;
    case 13: want_bool = ba && bb; break; case 14: want_bool = ba || bb; break; case 15: want_bool = !ba; break;
    }
    if (is_bool) {
        if (r.type != VAL_BOOL || !plain(r) || (int)r.as.bool_val != want_bool) { SAY("op %d: got type %d value %d, spec says bool %d", eop, (int)r.type, (int)r.as.bool_val, want_bool); return RET_BAD; }
    } else if (r.type != VAL_INT || !plain(r) || r.as.int_val != want) { SAY("op %d on %lld, %lld: got type %d value %lld, spec says int %lld", eop, a, b, (int)r.type, r.as.int_val, want); return RET_BAD; }
    return RET_OK;
}

static int child_assert(int ba, int shadow, int fail0, int fl0, int fc0, int line, int col)
{
    leaf0.type = AST_BOOL; leaf0.as.bool_val = ba;
    astmt.type = AST_ASSERT; astmt.line = line; astmt.column = col; astmt.as.assert.condition = &leaf0;
    g_in_shadow_tests = shadow; g_shadow_current_fail_count = fail0; g_shadow_current_first_line = fl0; g_shadow_current_first_column = fc0;
    Value r = eval_statement(&astmt, NULL);
    int ok = r.type == VAL_VOID && plain(r);
    if (!ba && !shadow) { SAY("false assertion outside shadow tests RETURNED"); return RET_BAD; }
    if (ba) ok = ok && g_shadow_current_fail_count == fail0 && g_shadow_current_first_line == fl0 && g_shadow_current_first_column == fc0;
    else {
        ok = ok && g_shadow_current_fail_count == fail0 + 1;
        if (fl0 == 0) ok = ok && g_shadow_current_first_line == line && g_shadow_current_first_column == col;
        else ok = ok && g_shadow_current_first_line == fl0 && g_shadow_current_first_column == fc0;
    }
    if (!ok) { SAY("assert bookkeeping wrong: cond %d count %d -> %d, first %d:%d -> %d:%d (statement at %d:%d)", ba, fail0, g_shadow_current_fail_count,
                   fl0, fc0, g_shadow_current_first_line, g_shadow_current_first_column, line, col); return RET_BAD; }
    return RET_OK;
}

static int child_acc(int acc, int ak, int el, long long idx, long long len, long long cap)
{
    static Array arr; static DynArray dyn; static Value av[3];
    size_t esz = el == 3 ? 1 : 8;
    ValueType vt = el == 1 ? VAL_INT : el == 2 ? VAL_FLOAT : VAL_BOOL;
    void *store = calloc((size_t)(cap > 0 ? cap : 1), esz);
    if (!store) { SAY("cannot allocate %lld elements: not replayable", cap); return RET_OK; }
    for (long long k = 0; k < cap; k++) { if (esz == 8) ((long long *)store)[k] = 1000 + k; else ((bool *)store)[k] = (k & 1); }
    if (ak == 1) { arr.element_type = vt; arr.length = (int)len; arr.capacity = (int)cap; arr.data = store; av[0].type = VAL_ARRAY; av[0].as.array_val = &arr; }
    else { dyn.length = len; dyn.capacity = cap; dyn.elem_type = el == 1 ? ELEM_INT : el == 2 ? ELEM_FLOAT : ELEM_BOOL; dyn.elem_size = (uint8_t)esz; dyn.data = store;
           av[0].type = VAL_DYN_ARRAY; av[0].as.dyn_array_val = &dyn; }
    av[1].type = VAL_INT; av[1].as.int_val = idx;
    av[2].type = vt; if (el == 1) av[2].as.int_val = 777; else if (el == 2) av[2].as.float_val = 7.5; else av[2].as.bool_val = true;
    int bad = acc == 3 ? len == 0 : (idx < 0 || idx >= len);
    long long last = (len > 0 && esz == 8 && el == 1) ? ((long long *)store)[len - 1] : 0;
    Value r = acc == 1 ? builtin_at(av) : acc == 2 ? builtin_array_set(av) : acc == 3 ? builtin_array_pop(av) : builtin_array_remove_at(av);
    if (bad) { SAY("accessor %d RETURNED (type %d) for index %lld, length %lld (demanded: the run ends)", acc, (int)r.type, idx, len); return RET_BAD; }
    long long nlen = ak == 1 ? arr.length : dyn.length;
    if (acc == 1 && (r.type != vt || (el == 1 && r.as.int_val != 1000 + idx))) { SAY("at: wrong element"); return RET_BAD; }
    if (acc == 2 && el == 1 && ((long long *)(ak == 1 ? arr.data : dyn.data))[idx] != 777) { SAY("array_set: in-range write not stored (index %lld, length %lld)", idx, len); return RET_BAD; }
    if (acc == 3 && (r.type != vt || nlen != len - 1 || (el == 1 && r.as.int_val != last))) { SAY("array_pop: wrong result (type %d) or length %lld -> %lld", (int)r.type, len, nlen); return RET_BAD; }
    if (acc == 4 && nlen != len - 1) { SAY("array_remove_at: length %lld -> %lld", len, nlen); return RET_BAD; }
    return RET_OK;
}

int main(int argc, char **argv)
{
    if (argc < 2) return 2;
    long long v[8] = {0};
    for (int i = 2; i < argc && i < 10; i++) v[i - 2] = strtoll(argv[i], NULL, 0);
    int ends_ok = 0;        /* is "the run ended with status 1" the demanded outcome? */
    if (!strcmp(argv[1], "op")) ends_ok = ((v[0] == 4 || v[0] == 5) && v[2] == 0);
    else if (!strcmp(argv[1], "assert")) ends_ok = (!v[0] && !v[1]);
    else if (!strcmp(argv[1], "acc")) ends_ok = (v[0] == 3) ? v[4] == 0 : (v[3] < 0 || v[3] >= v[4]);
    else return 2;
    fflush(NULL);
    pid_t pid = fork();
    if (pid == 0) {
        int rc;
        if (!strcmp(argv[1], "op")) rc = child_op((int)v[0], v[1], v[2], (int)v[3], (int)v[4]);
        else if (!strcmp(argv[1], "assert")) rc = child_assert((int)v[0], (int)v[1], (int)v[2], (int)v[3], (int)v[4], (int)v[5], (int)v[6]);
        else rc = child_acc((int)v[0], (int)v[1], (int)v[2], v[3], v[4], v[5]);
        fflush(NULL);
        _exit(rc);
    }
    int st = 0;
    waitpid(pid, &st, 0);
    if (WIFSIGNALED(st) && WTERMSIG(st) == SIGABRT) { SAY("the run ended by abort()/assert"); return ends_ok ? 0 : 5; }
    if (WIFSIGNALED(st)) { SAY("the interpreter was KILLED by signal %d (%s)", WTERMSIG(st), strsignal(WTERMSIG(st))); return 3; }
    int rc = WEXITSTATUS(st);
    if (rc == RET_OK) { SAY("returned, postconditions hold"); return 0; }
    if (rc == RET_BAD) return 1;
    if (rc == 99) { SAY("sanitizer report (see above)"); return 4; }
    SAY("the run ended with exit status %d", rc);
    if (rc == 0) return 7;        /* a run ended by the error path must not report success */
    return ends_ok ? 0 : 6;       /* ending the run on an input for which a value is demanded is a misbehaviour too */
}
