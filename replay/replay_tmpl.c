/* Native replay for the template catalogue (C02.nat / C01.agree / C20.tmpl.ub / C08.nat.tmpl counterexamples).
 *
 * Two programs from one file:
 *  (1) without -DTMPL_CASE: the LAUNCHER vc.py builds (replay_native._build).  usage: replay_tmpl <case exe> <mode> <a> <b> <i>
 *      runs the case in a child and maps what happened to the framework's convention: exit 0 = the generated code behaved,
 *      exit 1 = the real generated code misbehaves natively (postcondition violated, sanitizer report, fatal signal).
 *  (2) with -DTMPL_CASE -DVERIF_TMPL=<name> -DTMPL_SHAPE=<n> [-DTMPL_SPEC2(a,b)=..|-DTMPL_SPEC1(a)=..] -I<work>/gen:
 *      the CASE, built by replay/replayers_tmpl.py with the compiler and the dialect flags (-std, -f*, -O*, -m*) the real driver
 *      printed for the template, plus UBSan; it #includes the generated function gen/<name>.c of the tree under check verbatim,
 *      links the REAL runtime (dyn_array.c, gc.c, gc_struct.c) for the accessor templates, and calls nl_<name> on the witness.
 *      case exit: 0 held, 78 postcondition violated, 77 sanitizer (UBSAN_OPTIONS exitcode), other = the run ended (assert/exit(1)).
 *      modes: 0 value (result == spec), 1 corner (same check as value: the spec is total on the witness), 2 ub (any report / signal),
 *             3 pass (array [10,20,30] resp. empty for pop: an out-of-range index / an empty pop must NOT return).
 */
#include <stdio.h>
#include <stdlib.h>
#include <string.h>
#include <stdint.h>
#include <stdbool.h>

#ifndef TMPL_CASE
#include <unistd.h>
#include <sys/wait.h>
int main(int argc, char **argv)
{
    if (argc < 3) { fprintf(stderr, "usage: replay_tmpl <case exe> <mode> <a> <b> <i>   (or: --build-failed <msg>)\n"); return 2; }
    if (!strcmp(argv[1], "--build-failed")) { printf("case build failed: %s\n", argv[2]); return 0; }
    int mode = atoi(argv[2]);
    fflush(stdout);
    pid_t p = fork();
    if (p == 0) {
        setenv("UBSAN_OPTIONS", "exitcode=77:halt_on_error=1:print_stacktrace=0", 1);
        setenv("ASAN_OPTIONS", "exitcode=77:detect_leaks=0", 1);
        execv(argv[1], argv + 1);
        _exit(127);
    }
    int st = 0;
    waitpid(p, &st, 0);
    if (WIFSIGNALED(st)) {
        int sg = WTERMSIG(st);
        printf("case killed by signal %d (%s)\n", sg, strsignal(sg));
        if (mode == 3 && sg == 6) { printf("the run ended in abort(): what C08 asks for on an out-of-range access\n"); return 0; }
        return 1;
    }
    int rc = WEXITSTATUS(st);
    printf("case exit status %d\n", rc);
    if (rc == 0) return 0;
    if (rc == 127) { printf("the case executable is gone (it lives in the scratch dir of the vc.py run that built it): re-run the obligation through tools/vc.py\n"); return 0; }
    if (rc == 77 || rc == 78) return 1;
    if (mode == 3) { printf("the run ended with an error status: what C08 asks for\n"); return 0; }
    return 1;
}
#else
#include "spec_int.h"
#include "runtime/dyn_array.h"
#define CAT_(a, b) a##b
#define CAT(a, b) CAT_(a, b)
#define STR_(x) #x
#define STR(x) STR_(x)
#define FN CAT(nl_, VERIF_TMPL)
#include STR(VERIF_TMPL.c)

static int bad(const char *what) { printf("POSTCONDITION violated: %s\n", what); return 78; }

int main(int argc, char **argv)
{
    if (argc < 5) return 2;
    setvbuf(stdout, NULL, _IONBF, 0);
    int mode = atoi(argv[1]);
    int64_t a = (int64_t)strtoull(argv[2], 0, 0), b = (int64_t)strtoull(argv[3], 0, 0), i = (int64_t)strtoull(argv[4], 0, 0);
    (void)a; (void)b; (void)i; (void)mode;
    printf("nl_%s  mode %d  a=%lld b=%lld i=%lld\n", STR(VERIF_TMPL), mode, (long long)a, (long long)b, (long long)i);
#if TMPL_SHAPE == 1 || TMPL_SHAPE == 3
    int64_t r = (int64_t)FN(a, b);
    printf("native result %lld\n", (long long)r);
    if (mode <= 1) {
        int64_t s = (int64_t)(TMPL_SPEC2(a, b));
        printf("spec          %lld\n", (long long)s);
        if (r != s) return bad("result == spec");
    }
#elif TMPL_SHAPE == 2
    int64_t r = FN(a);
    printf("native result %lld\n", (long long)r);
    if (mode <= 1 && r != (int64_t)(TMPL_SPEC1(a))) return bad("result == spec");
#elif TMPL_SHAPE == 4
    bool r = FN((bool)(a & 1), (bool)(b & 1));
    if (mode <= 1 && r != (bool)(TMPL_SPEC2((bool)(a & 1), (bool)(b & 1)))) return bad("result == spec");
#elif TMPL_SHAPE == 5
    bool r = FN((bool)(a & 1));
    if (mode <= 1 && r != (bool)(TMPL_SPEC1((bool)(a & 1)))) return bad("result == spec");
#elif TMPL_SHAPE == 6
    /* string == / != : the witness strings arrive as hex of their buffers (last byte NUL); spec = same length and same bytes */
    char sa[64] = {0}, sb[64] = {0};
    if (argc < 7) return 2;
    for (size_t k = 0; k + 1 < strlen(argv[5]) && k / 2 < 63; k += 2) { unsigned v; sscanf(argv[5] + k, "%2x", &v); sa[k / 2] = (char)v; }
    for (size_t k = 0; k + 1 < strlen(argv[6]) && k / 2 < 63; k += 2) { unsigned v; sscanf(argv[6] + k, "%2x", &v); sb[k / 2] = (char)v; }
    size_t la = 0, lb = 0; while (sa[la]) la++; while (sb[lb]) lb++;
    int same = (la == lb); for (size_t k = 0; same && k < la; k++) if (sa[k] != sb[k]) same = 0;
    bool r = FN(sa, sb);
    printf("strings %s / %s: lengths %zu / %zu, content-equal %d, native result %d\n", argv[5], argv[6], la, lb, same, (int)r);
    if (mode <= 1 && r != (bool)(same ? TMPL_SPEC2(0, 0) : !TMPL_SPEC2(0, 0))) return bad("result == (same length and same bytes)");
#elif TMPL_SHAPE == 7 || TMPL_SHAPE == 8
    double da, db; memcpy(&da, &a, 8); memcpy(&db, &b, 8);        /* the witness values are bit patterns */
    printf("operands %a %a\n", da, db);
#if TMPL_SHAPE == 7
    double r = FN(da, db), sp = TMPL_SPEC2(da, db);
    printf("native result %a   C operation %a\n", r, sp);
    if (mode <= 1 && memcmp(&r, &sp, 8) != 0 && !(r != r && sp != sp)) return bad("bit pattern of the result == C double operation on (a, b)");
#else
    bool r = FN(da, db);
    if (mode <= 1 && r != (bool)(TMPL_SPEC2(da, db))) return bad("result == C double comparison on (a, b)");
#endif
#elif TMPL_SHAPE >= 10
    static const char *strs[3] = { "s10", "s20", "s30" };
    DynArray *xs = dyn_array_new((ElementType)TMPL_ELEM);
    int64_t n = (TMPL_SHAPE == 12) ? 0 : 3;        /* pop: the empty array */
    for (int64_t k = 0; k < n; k++) {
        if (TMPL_ELEM == ELEM_INT) dyn_array_push_int(xs, 10 * (k + 1));
        else if (TMPL_ELEM == ELEM_FLOAT) dyn_array_push_float(xs, 10.0 * (double)(k + 1));
        else if (TMPL_ELEM == ELEM_STRING) dyn_array_push_string(xs, strs[k]);
        else dyn_array_push_bool(xs, (k & 1) != 0);
    }
    int in_range = (i >= 0 && i < n);
#if TMPL_SHAPE == 10
    (void)FN(xs, i);
    if (!in_range) return bad("(at xs i) returned a value for an index outside [0, 3)");
#elif TMPL_SHAPE == 11
    (void)FN(xs, i, TMPL_VALUE);
    if (!in_range) return bad("(array_set xs i v) returned for an index outside [0, 3)");
#elif TMPL_SHAPE == 12
    (void)FN(xs);
    return bad("(array_pop xs) of the empty array returned a value");
#elif TMPL_SHAPE == 13
    if (FN(xs) != 3) return bad("(array_length xs) == 3");
#elif TMPL_SHAPE == 14
    (void)FN(xs, i);
    if (!in_range) return bad("(array_remove_at xs i) returned for an index outside [0, 3)");
#endif
#endif
    printf("held\n");
    return 0;
}
#endif
