"""Replayer of the reference-count census (C14.step.*); auto-loaded by replay_native._load_unit_replayers().
replay/replay_rc.c runs a fixed native scenario per opcode with the real vm.c / heap.c under ASan and exits non-zero iff the
excess (ref_count - references held by the state) of the object of interest changed.  A CBMC counterexample of a
C14.step obligation is a state of the one-step harness (aliasing selectors, header-only leaves) that has no direct native
image, so the mapping is by opcode: the scenario that exercises the same handler path."""
SCENARIO = {0x57: "arr_remove_arr", 0x53: "arr_get", 0x54: "arr_set", 0x80: "gc_retain", 0x07: "dup"}


def _args_rc(inputs, o, work=None):
    op = int((o.get("defines") or {}).get("VERIF_OP", 0))
    return [SCENARIO.get(op, "dup")]


REPLAYERS = {
    "rc": {"args": _args_rc, "src": ["src/nanovm/vm.c", "src/nanovm/heap.c", "src/nanovm/value.c", "src/nanoisa/isa.c",
                                    "src/nanoisa/nvm_format.c"], "timeout": 20},
}
