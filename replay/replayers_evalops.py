"""Replayer registration for the interpreter unit (harness/eval_ops_h.c -> replay/replay_evalops.c).
The driver #includes the real src/eval.c and is linked with the compiler's own source list (COMMON_SOURCES +
RUNTIME_SOURCES of Makefile.gnu, minus eval.c), all taken from the tree under check."""
import os, re

_FALLBACK = """src/lexer.c src/parser.c src/typechecker.c src/transpiler.c src/stdlib_runtime.c src/env.c src/builtins_registry.c
src/module.c src/module_metadata.c src/cJSON.c src/toon_output.c src/module_builder.c src/resource_tracking.c
src/eval/eval_hashmap.c src/eval/eval_math.c src/eval/eval_string.c src/eval/eval_io.c src/interpreter_ffi.c
src/json_diagnostics.c src/reflection.c src/nanocore_subset.c src/nanocore_export.c""".split()


def _sources():
    repo = os.environ.get("VERIF_REPO", "/repo")
    out = []
    try:
        txt = open(os.path.join(repo, "Makefile.gnu")).read().replace("\\\n", " ")
        for var in ("COMMON_SOURCES", "RUNTIME_SOURCES"):
            m = re.search(r"^%s\s*=\s*(.*)$" % var, txt, re.M)
            if m:
                for w in m.group(1).split():
                    w = w.replace("$(SRC_DIR)", "src").replace("$(RUNTIME_DIR)", "src/runtime")
                    if w.endswith(".c") and not w.endswith("src/eval.c"):
                        out.append(w)
    except OSError:
        pass
    if len(out) < 20:
        import glob
        out = _FALLBACK + [os.path.relpath(p, repo) for p in sorted(glob.glob(os.path.join(repo, "src/runtime/*.c")))]
    return sorted(set(out))


def _n(v):
    if v is None:
        return 0
    if isinstance(v, bool):
        return int(v)
    s = str(v).strip()
    if s.upper() in ("TRUE", "FALSE"):
        return int(s.upper() == "TRUE")
    try:
        return int(s.rstrip("uUlL"), 0)
    except ValueError:
        try:
            return int(float(s))
        except ValueError:
            return 0


def _args(inputs, o, work=None):
    d = o.get("defines") or {}
    g = lambda k: str(_n(inputs.get(k)))
    if o["entry"] == "h_op":
        return ["op", str(d.get("VERIF_EOP", 1)), g("in_a"), g("in_b"), g("in_ba"), g("in_bb")]
    if o["entry"] == "h_assert":
        return ["assert", g("in_ba"), g("in_shadow"), g("in_fail0"), g("in_first_line0"), g("in_first_col0"), g("in_line"), g("in_column")]
    return ["acc", str(d.get("VERIF_ACC", 1)), str(d.get("VERIF_AK", 1)), str(d.get("VERIF_ELEM", 1)), g("in_idx"), g("in_len"), g("in_cap")]


REPLAYERS = {
    "evalops": {"args": _args, "src": _sources(), "flags": ["-D_GNU_SOURCE", "-ldl", "-w"], "timeout": 30},
}
