"""Native replay of CBMC counterexamples against the real code (DESIGN 3.6).
Each replayer is a small C driver in /verif/replay built with
cc -fsanitize=address,undefined against the real sources of the repo tree under
check.  replay() returns {cmd, rc, output, reproduced}."""
import json, os, subprocess, sys

VERIF = os.path.dirname(os.path.dirname(os.path.abspath(__file__)))


def _num(v):
    if v is None:
        return 0
    if isinstance(v, (int, float)):
        return int(v)
    s = str(v).strip().rstrip("uUlL")
    try:
        return int(s, 0)
    except ValueError:
        try:
            return int(float(s))
        except ValueError:
            return 0


def flat_array(inputs, base, n=None):
    """in_x.b[3l] style element assignments -> list"""
    import re
    out = {}
    whole = inputs.get(base)
    if isinstance(whole, list):
        out = {i: _num(v) for i, v in enumerate(whole)}
    for k, v in inputs.items():
        m = re.match(re.escape(base) + r"\[(\d+)l?\]$", k)
        if m:
            out[int(m.group(1))] = _num(v)
    if not out:
        return []
    ln = n if n is not None else max(out) + 1
    return [out.get(i, 0) for i in range(ln)]


def _build(name, repo, work, extra_src=(), extra_flags=()):
    exe = os.path.join(work, "replay_" + name)
    cmd = ["cc", "-g", "-O0", "-fsanitize=address,undefined", "-fno-sanitize-recover=undefined",
           "-I" + os.path.join(repo, "src"), "-I" + os.path.join(VERIF, "contracts"),
           os.path.join(VERIF, "replay", "replay_%s.c" % name)] + [os.path.join(repo, s) for s in extra_src] + \
          list(extra_flags) + ["-o", exe, "-lm"]
    p = subprocess.run(cmd, stdout=subprocess.PIPE, stderr=subprocess.STDOUT, text=True)
    if p.returncode != 0:
        return None, p.stdout[-2000:]
    return exe, ""


def _args_isa(inputs, o):
    K = str((o.get("defines") or {}).get("VERIF_K", 0))
    bs = str(_num(inputs.get("in_buf_size")))
    if o["entry"] == "h_enc":
        ins = inputs.get("in_instr") or {}
        ops = []
        for op in (ins.get("operands") or [])[:4]:
            # union printed by its first member(s); take the widest integer view available
            v = 0
            if isinstance(op, dict):
                for k in ("i64", "u32", "u16", "u8", "i32"):
                    if k in op:
                        v = _num(op[k]) & 0xFFFFFFFFFFFFFFFF
                        break
            ops.append("%x" % v)
        return ["enc", K, bs] + ops
    b = flat_array(inputs, "in_bytes.b", 32)
    if not b and isinstance(inputs.get("in_bytes"), dict):
        b = [_num(x) for x in inputs["in_bytes"].get("b") or []]
    return ["dec", K, bs, "".join("%02x" % (x & 0xFF) for x in b)]


def _args_loader(inputs, o, work=None):
    n = _num(inputs.get("in_size"))
    b = flat_array(inputs, "in_data.b")
    if not b and isinstance(inputs.get("in_data"), dict):
        b = [_num(x) for x in inputs["in_data"].get("b") or []]
    b = (b + [0] * n)[:n]
    path = os.path.join(work or "/tmp", "cex.nvm")
    open(path, "wb").write(bytes(x & 0xFF for x in b))
    return [path, "--fix-crc"]


def _val(inputs, name):
    v = inputs.get(name)
    tag, pay = 0, 0
    if isinstance(v, dict):
        tag = _num(v.get("tag"))
        a = v.get("as")
        if isinstance(a, dict):
            for k in ("i64", "obj", "string", "array", "u8", "boolean"):
                if k in a:
                    try:
                        pay = _num(a[k]) & 0xFFFFFFFFFFFFFFFF
                    except Exception:
                        pay = 0
                    break
    for k, x in inputs.items():
        if k == name + ".tag":
            tag = _num(x)
        if k == name + ".as.i64":
            pay = _num(x) & 0xFFFFFFFFFFFFFFFF
    return tag, pay


def _args_vmstep(inputs, o, work=None):
    mode = {"h_c08": "c08", "h_c02": "c02"}.get(o["entry"], "safe")
    op = str((o.get("defines") or {}).get("VERIF_OP", 0))
    b = flat_array(inputs, "in_operand.b", 12)
    if not b and isinstance(inputs.get("in_operand"), dict):
        b = [_num(x) for x in inputs["in_operand"].get("b") or []]
    b = (b + [0] * 12)[:12]
    hx = "".join("%02x" % (x & 0xFF) for x in b[1:])
    dfs = o.get("defines") or {}
    ss = inputs.get("in_stack_size")
    n = min(_num(ss) if ss is not None else _num(dfs.get("VERIF_STACK_SIZE", 0)), 3)
    args = [mode, op, hx, str(n)]
    for i in range(n - 1, -1, -1):       # bottom to top: v(n-1) .. v0
        tag, pay = _val(inputs, "in_v%d" % i)
        if ("in_v%d.tag" % i) not in inputs and not isinstance(inputs.get("in_v%d" % i), dict):
            tag = {128: 1, 256: 4}.get(_num(dfs.get("VERIF_M%d" % i, 0)), tag)   # shape pinned by the registry
        ln = _num(inputs.get("in_len%d" % i))
        args += [str(tag), "%x" % pay, str(ln)]
    return args


REPLAYERS = {
    "vmstep": {"args": _args_vmstep, "src": ["src/nanovm/vm.c", "src/nanovm/heap.c", "src/nanovm/value.c", "src/nanoisa/isa.c",
                                             "src/nanoisa/nvm_format.c"], "timeout": 20},
    "loader": {"args": _args_loader, "src": ["src/nanoisa/nvm_format.c", "src/nanoisa/verifier.c", "src/nanoisa/isa.c"], "timeout": 20,
               "keep": ["cex.nvm"]},
    "isa": {"args": _args_isa, "src": []},
}


def _load_unit_replayers():
    """replay/replayers_<unit>.py files may add entries: REPLAYERS = {name: {"args": fn(inputs, o, work), "src": [...], "flags": [...]}}"""
    import glob, importlib.util
    for f in sorted(glob.glob(os.path.join(VERIF, "replay", "replayers_*.py"))):
        spec = importlib.util.spec_from_file_location(os.path.basename(f)[:-3], f)
        m = importlib.util.module_from_spec(spec)
        try:
            spec.loader.exec_module(m)
            REPLAYERS.update(getattr(m, "REPLAYERS", {}))
        except Exception as e:  # pragma: no cover
            sys.stderr.write("replayers file %s failed to load: %r\n" % (f, e))


_load_unit_replayers()


def replay(name, inputs, repo, work, o):
    rp = REPLAYERS[name]
    exe, err = _build(name, repo, work, rp.get("src", ()), rp.get("flags", ()))
    if not exe:
        return {"reproduced": False, "error": "replayer build failed: " + err}
    try:
        args = rp["args"](inputs, o, work)
    except TypeError:
        args = rp["args"](inputs, o)
    env = dict(os.environ, ASAN_OPTIONS="detect_leaks=0:abort_on_error=0", UBSAN_OPTIONS="print_stacktrace=1")
    try:
        p = subprocess.run([exe] + args, stdout=subprocess.PIPE, stderr=subprocess.STDOUT, text=True, timeout=rp.get("timeout", 60), env=env,
                           errors="replace")
        rc, out = p.returncode, p.stdout
    except subprocess.TimeoutExpired as e:
        rc, out = -9, "TIMEOUT (did not terminate within %s s): " % rp.get("timeout", 60) + str(e.stdout or "")[-500:]
    res_files = {}
    for k in rp.get("keep", ()):
        fp = os.path.join(work, k)
        if os.path.exists(fp):
            res_files[k] = open(fp, "rb").read().hex()
    return {"files_hex": res_files, "replayer": "replay/replay_%s.c" % name, "args": args, "rc": rc, "output": out[-3000:],
            "reproduced": rc != 0}


def rerun(path, repo):
    d = json.load(open(path))
    print(json.dumps({k: d.get(k) for k in ("property", "obligation", "failed_checks")}, indent=1))
    print(d.get("verifier_output") or "")
    w = d.get("witness") or {}
    rp = w.get("replay")
    if not rp:
        print("no native replay recorded:", w.get("why", "no-failing-input-found"))
        return 0
    import tempfile, shutil
    work = tempfile.mkdtemp(prefix="replay_")
    try:
        name = os.path.basename(rp["replayer"])[len("replay_"):-2]
        exe, err = _build(name, repo, work, REPLAYERS[name].get("src", ()), REPLAYERS[name].get("flags", ()))
        if not exe:
            print(err)
            return 2
        p = subprocess.run([exe] + rp["args"], text=True)
        print("replay exit status:", p.returncode, "(non-zero = reproduced)")
        return 1 if p.returncode != 0 else 0
    finally:
        shutil.rmtree(work, ignore_errors=True)
