"""Replayers of the FFI co-process unit (C15, C16); auto-loaded by replay_native._load_unit_replayers().
Maps the in_* globals of harness/cop_h.c (witness mode) to the command line of replay/replay_cop.c."""
import os, sys
sys.path.insert(0, os.path.dirname(os.path.abspath(__file__)))


def _num(v):
    if v is None:
        return 0
    if isinstance(v, (int, float)):
        return int(v)
    s = str(v).strip().rstrip("uUlL")
    try:
        return int(s, 0)
    except ValueError:
        try:
            return int(float(s))
        except ValueError:
            return 0


def _bytes(inputs, base, n):
    import re
    out = {}
    whole = inputs.get(base)
    if isinstance(whole, dict):
        whole = whole.get("b")
    if isinstance(whole, list):
        out = {i: _num(v) for i, v in enumerate(whole)}
    for k, v in inputs.items():
        m = re.match(re.escape(base) + r"\.b\[(\d+)l?\]$", k)
        if m:
            out[int(m.group(1))] = _num(v)
    return [out.get(i, 0) & 0xFF for i in range(n)]


IMG = {0x00: 1, 0x01: 9, 0x03: 9, 0x04: 2, 0x0E: 9}


def _args_cop(inputs, o, work=None):
    d = o.get("defines") or {}
    K = int(d.get("VERIF_TAG", 0))
    e = o["entry"]
    bs = _num(inputs.get("in_buf_size")) & 0xFFFFFFFF
    if e == "h_ser":
        return ["ser", str(K), str(bs), "%x" % (_num(inputs.get("in_bits")) & 0xFFFFFFFFFFFFFFFF)]
    if e == "h_dec":
        alloc = min(bs, IMG.get(K, 1))
        b = _bytes(inputs, "in_bytes", 32)
        if alloc:
            b[0] = K
        return ["dec", str(bs), str(alloc), "".join("%02x" % x for x in b[:max(alloc, 1)])]
    if e == "h_sser":
        ln = _num(inputs.get("in_slen")) & 0xFFFFFFFF
        alloc = min(bs, 5 + ln)
        return ["strser", str(ln), str(bs), str(alloc), "".join("%02x" % x for x in _bytes(inputs, "in_bytes", 32))]
    if e == "h_call":
        # C15.reqbuf: one string argument of the counterexample's length against the request-building rule
        return ["args", "1", str(_num(inputs.get("in_slen")) & 0xFFFFFFFF or 9000)]
    if e == "h_safe" and d.get("COP_DEPTH_GHOST"):
        # the counterexample is "one more frame than the bound"; natively: a well-formed 1.2 MB message of nested arrays
        return ["nest", "200000"]
    if e in ("h_sdec", "h_safe"):
        # arbitrary bytes in a buffer of exactly buf_size bytes (bytes beyond the named 32 are zero)
        b = _bytes(inputs, "in_bytes", 32)
        return ["dec", str(bs), str(bs), "".join("%02x" % x for x in b[:min(bs, 32)])]
    if e in ("h_recv_header", "h_read_all"):
        b = _bytes(inputs, "in_bytes", 32)
        n = min(_num(inputs.get("in_nbytes")), 32)
        return ["hdr", "".join("%02x" % x for x in b[:n]), str(max(1, _num(inputs.get("in_chunk")) & 0xF))]
    return ["rt", str(K), "%x" % (_num(inputs.get("in_bits")) & 0xFFFFFFFFFFFFFFFF)]


REPLAYERS = {
    "cop": {"args": _args_cop,
            "src": ["src/nanovm/cop_protocol.c", "src/nanovm/heap.c", "src/nanovm/value.c", "src/nanoisa/isa.c"],
            "timeout": 60},
}
